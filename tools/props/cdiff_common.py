"""Shared by C03 and C06: program population (well-typed Elements programs with jets as leaves,
witnesses, assertions, disconnect, words), libsimplicity limits, verdict classes, parsers of the
harness_cdiff output."""
import os

import proggen as pg
import vplib
from proggen import P, S, U

CRATE = None  # merged into the main harness crate

# libsimplicity's documented limits (simplicity-sys/depend/simplicity/limitations.h); re-read from the
# source on every run by `read_limits` so that a change there is noticed
LIMITS = {"DAG_LEN_MAX": 8000000, "NUMBER_OF_TYPENAMES_MAX": 0x1000, "CELLS_MAX": 0x500000, "BUDGET_MAX": 4000050}

DECODE_CLASS = {
    0: "ok", 1: "program-eof", 2: "program-trailing/padding", 3: "out-of-range", 4: "not-canonical-order",
    5: "fail-node(C only)", 6: "reserved-code/one-child-disconnect", 7: "hidden-misplaced", 8: "type-error",
    9: "witness-stream", 10: "sharing-not-maximal", 11: "libsimplicity-resource-limit", 12: "other", 13: "panic",
}
EXEC_KIND = {0: "success", 1: "assertion", 2: "jet-failed", 3: "fail-node", 4: "resource-limit", 5: "input-type",
             6: "jet-family", 7: "anti-dos", 9: "panic", 12: "other"}

CLASS_MAPPING_TEXT = (
    "decode classes: C SIMPLICITY_ERR_* -> class: NO_ERROR 0; BITSTREAM_EOF(-12) 1; BITSTREAM_TRAILING_BYTES(-14), "
    "BITSTREAM_ILLEGAL_PADDING(-16) 2; DATA_OUT_OF_RANGE(-2) 3; DATA_OUT_OF_ORDER(-4) 4; FAIL_CODE(-6) 5; "
    "RESERVED_CODE(-8) 6; HIDDEN(-10), HIDDEN_ROOT(-44) 7; TYPE_INFERENCE_UNIFICATION(-18), _OCCURS_CHECK(-20), "
    "_NOT_PROGRAM(-22) 8; WITNESS_EOF(-24), WITNESS_TRAILING_BYTES(-26), WITNESS_ILLEGAL_PADDING(-28) 9; "
    "UNSHARED_SUBEXPRESSION(-30) 10; EXEC_MEMORY(-36), MALLOC(-1) 11; anything else 12.  "
    "Rust DecodeError -> class: Decode(EndOfStream) 1 (9 when the program alone decodes); Decode(BitIter close error) 2 "
    "(9 when the program alone decodes); Decode(Natural overflow/bad index), Decode(InvalidJet) 3; "
    "Decode(NotInCanonicalOrder) 4; DisconnectRedeemTime 6; Decode(HiddenNode), Decode(BothChildrenHidden) 7; "
    "Type(_), Decode(Type(_)) 8; Decode(SharingNotMaximal) 10; panic 13.  "
    "execution kinds: C NO_ERROR 0; EXEC_ASSERT(-40) 1; EXEC_JET(-38) 2; EXEC_BUDGET(-34), EXEC_MEMORY(-36), MALLOC(-1) 4; "
    "ANTIDOS(-42) 7; else 12.  Rust ExecutionError: ReachedPrunedBranch 1; JetFailed 2; ReachedFailNode 3; "
    "LimitExceeded 4; InputWrongType 5; JetTypeMismatch 6; panic 9.  (reference copy: coq/Cdiff/VerdictRef.v, "
    "compared with the harness tables on every run)")


# observations made while building these checks (not violations of C03 / C06; recorded for the reader)
CODE_NOTES = [
    "analysis.rs Cost::of_type(w) is `w as u32`: bit widths >= 2^32 wrap, where libsimplicity clips type bit sizes at "
    "UBOUNDED_MAX (the comment 'bit width cannot be more than 2^32 - 1' is wrong: Final::bit_width saturates at usize::MAX). "
    "Only programs needing more than CELLS_MAX cells are affected, i.e. outside libsimplicity's limits where C03 does not "
    "compare costs; the difference of the two formulas is pinned as theorem C03_rust_c_differ_wide (about the reference).",
    "bit_machine/limits.rs LimitError::check_max_frames builds MaxFramesExceeded { max: MAX_CELLS } (should be MAX_FRAMES); "
    "cosmetic, only the error text is affected.",
    "simplicity-sys/src/tests/ffi.rs SimplicityErr::from_i32 has no arm for -48 (SIMPLICITY_ERR_OVERWEIGHT) and would panic "
    "'unexpected error code'; unreachable from decodeMallocDag, its only caller.",
    "fixed finding F-C03: simplicity-sys/src/tests/mod.rs run_program passed the budget VALUE as a pointer (SIGSEGV with "
    "Some(budget)); regression cases corpus/C06/run_program_budget.case.",
]


def read_limits():
    """limits as written in the vendored C sources; returns (dict, error string | None)"""
    p = os.path.join(vplib.REPO, "simplicity-sys/depend/simplicity/limitations.h")
    out = {}
    try:
        import re
        for m in re.finditer(r"#define\s+(\w+)\s+(0x[0-9a-fA-F]+|\d+)U", open(p).read()):
            out[m.group(1)] = int(m.group(2), 0)
    except OSError as e:
        return {}, str(e)
    for k, v in LIMITS.items():
        if out.get(k) != v:
            return out, "limitations.h: %s is %s, the check assumes %s" % (k, out.get(k), v)
    return out, None


# ------------------------------------------------------------------ jets
_jets = {}


def jets(binary, workdir, max_width=600):
    """Elements jets of moderate I/O width: ('e', name, src, tgt)"""
    key = (binary, max_width)
    if key not in _jets:
        allj = pg.jet_list(binary, "e", workdir)
        # proggen's Builder wants (family, name, src, tgt)
        _jets[key] = [("e", j[1], j[2], j[3]) for j in allj if pg.width(j[2]) <= max_width and pg.width(j[3]) <= max_width]
        _jets["all"] = allj
    return _jets[key]


def all_jets(binary, workdir):
    jets(binary, workdir)
    return _jets["all"]


# ------------------------------------------------------------------ programs of type 1 -> 1
def hexs(bs):
    return "".join("%02x" % b for b in bs) if bs else "-"


class JetBuilder(pg.Builder):
    """Builder with value producers that prefer literal words/witnesses, so that jets get inputs."""

    def producer(self, t, depth):
        """term 1 -> t"""
        return self.gen(U, t, depth)

    def consumer(self, t, depth):
        """term t -> 1, exercising assertions / verify where the type allows"""
        rng = self.rng
        if t == pg.BIT and rng.below(100) < 60:
            return self.add(("jet", "e", "verify"))
        if t[0] == "s" and rng.below(100) < 35:
            # explicit assertion on one side of the sum
            pr = self.add(("pair", self.add(("iden",)), self.add(("unit",))))
            h = ("hid", "".join("%02x" % v for v in rng.bytes(32)))
            if rng.below(2):
                x = self.gen(P(t[1], U), U, depth)
                body = self.add(("case", x, self.add(h)))
            else:
                hh = self.add(h)
                y = self.gen(P(t[2], U), U, depth)
                body = self.add(("case", hh, y))
            return self.add(("comp", pr, body))
        if t[0] == "s" and rng.below(100) < 50:
            # (A + B) -> 1 through  pair iden unit ; case/assert
            pr = self.add(("pair", self.add(("iden",)), self.add(("unit",))))
            body = self.gen(P(t, U), U, max(depth, 1))
            return self.add(("comp", pr, body))
        return self.gen(t, U, depth)


def gen_unit_program(rng, jetlist, depth, opts=None, segments=None):
    """well-typed program 1 -> 1:  comp (1 -> T) (T -> 1)  segments, several of them around jets"""
    o = dict(share=25, witness=18, fail=0, hidden=15, disconnect=8, jets=jetlist, word=35, comp=25)
    if opts:
        o.update(opts)
    b = JetBuilder(rng, o)
    nseg = segments if segments is not None else rng.choice([1, 1, 1, 2, 2, 3])
    roots = []
    for _ in range(nseg):
        r = rng.below(10)
        if r < 6 and jetlist:
            j = rng.choice(jetlist)
            x = b.producer(j[2], depth)
            jn = b.add(("jet", "e", j[1]))
            c1 = b.add(("comp", x, jn))
            y = b.consumer(j[3], depth)
            roots.append(b.add(("comp", c1, y)))
        elif r < 9:
            t = pg.rand_ty(rng, 2)
            x = b.producer(t, depth)
            y = b.consumer(t, depth)
            roots.append(b.add(("comp", x, y)))
        else:
            roots.append(b.gen(U, U, depth))
    root = roots[0]
    for r in roots[1:]:
        root = b.add(("comp", root, r))
    if root != len(b.nodes) - 1:
        # make the root the last node
        b.add(("comp", root, b.add(("unit",))))
    return pg.compact_prog(b.nodes)


def typed_programs(rng, binary, workdir, count, depth_choices, opts=None, tag="gen", jetlist=None):
    """generate `count` structures, ask the implementation for the inferred arrows (program = 1 -> 1),
    fill the witnesses with values of the inferred types.  Returns list of (prog, arrows, structure without
    witness values) and statistics."""
    jl = jets(binary, workdir) if jetlist is None else jetlist
    structs = []
    for _ in range(count):
        o = dict(opts or {})
        if rng.below(10) == 0:
            o["fail"] = 6
        structs.append(gen_unit_program(rng, jl, rng.choice(depth_choices), o))
    lines = ["g%d arrows 1 %s" % (i, pg.prog_pdl(p)) for i, p in enumerate(structs)]
    res = vplib.run_harness(binary, "prog", lines, workdir=workdir)
    out = []
    stats = {"generated": count, "ill_typed": 0}
    for i, p in enumerate(structs):
        ar = pg.parse_arrows(res.get("g%d" % i))
        if isinstance(ar, tuple):
            stats["ill_typed"] += 1
            continue
        mode = rng.below(10)
        filled = pg.fill_witnesses(rng, p, ar, zero=(mode == 0))
        out.append((filled, ar, p))
    return out, stats


def prog_features(p):
    ks = [n[0] for n in p]
    return {
        "nodes": len(p),
        "jets": sum(1 for n in p if n[0] == "jet"),
        "wit": sum(1 for n in p if n[0] == "wit"),
        "hid": ks.count("hid"),
        "disc": ks.count("disc"),
        "case": ks.count("case"),
        "word": ks.count("word"),
        "fail": ks.count("fail"),
    }


# ------------------------------------------------------------------ environments (C06, described to the harness)
def rand_env(rng):
    if rng.below(12) == 0:
        return "dummy"
    nin = rng.range(1, 4)
    nout = rng.range(1, 4)
    ix = rng.below(nin)
    annex = rng.choice([0, 0, 1, 1, 2])
    lock = rng.choice([0, 0, 1, 100, 499999999, 500000000, 500000001, 1700000000, 0xFFFFFFFF, rng.below(2**32)])
    seq = rng.choice([0xFFFFFFFF, 0xFFFFFFFE, 0, 1, 0xFFFF, (1 << 22) | 5, (1 << 31) | 7, rng.below(2**32)])
    return "env.%d.%d.%d.%d.%d.%d.%d" % (rng.below(2**48), nin, nout, ix, annex, lock, seq)


# ------------------------------------------------------------------ parsers
def take(nums, pos, n):
    return nums[pos:pos + n], pos + n


def parse_c03(nums, is_pdl):
    """harness `c03` result -> dict (see harness_cdiff/src/cdiff.rs for the layout)"""
    d = {}
    pos = 0
    if is_pdl:
        if nums[0] != 0:
            return {"build_error": nums[1] if len(nums) > 1 else -1}
        pl = nums[1]
        d["prog"], pos = take(nums, 2, pl)
        wl = nums[pos]
        d["wit"], pos = take(nums, pos + 1, wl)
        assert nums[pos] == 76
        pos += 1
        d["built_cmr"], pos = take(nums, pos, 32)
        d["built_amr"], pos = take(nums, pos, 32)
        d["built_ihr"], pos = take(nums, pos, 32)
        d["built_cost"] = nums[pos]
        pos += 1
    assert nums[pos] == 77, nums[pos:pos + 5]
    pos += 1
    d["r_class"], d["r_detail"] = nums[pos], nums[pos + 1]
    pos += 2
    if d["r_class"] == 0:
        d["r_cmr"], pos = take(nums, pos, 32)
        d["r_amr"], pos = take(nums, pos, 32)
        d["r_ihr"], pos = take(nums, pos, 32)
        d["r_cost"], d["r_nfail"] = nums[pos], nums[pos + 1]
        pos += 2
    assert nums[pos] == 78
    pos += 1
    d["c_class"], d["c_raw"], d["c_stage"] = nums[pos], nums[pos + 1], nums[pos + 2]
    pos += 3
    if d["c_class"] == 0:
        d["c_cmr"], pos = take(nums, pos, 32)
        d["c_amr"], pos = take(nums, pos, 32)
        d["c_ihr"], pos = take(nums, pos, 32)
        d["c_cost"], d["c_cells"] = nums[pos], nums[pos + 1]
        pos += 2
    elif d["c_stage"] > 1:
        d["c_cmr"], pos = take(nums, pos, 32)
    assert nums[pos] == 79
    pos += 1
    d["rp_status"], d["rp_raw"] = nums[pos], nums[pos + 1]
    pos += 2
    if d["rp_status"] == 0:
        d["rp_cmr"], pos = take(nums, pos, 32)
        d["rp_amr"], pos = take(nums, pos, 32)
        d["rp_ihr"], pos = take(nums, pos, 32)
        d["rp_cost"] = nums[pos]
        pos += 1
    assert nums[pos] == 80
    d["table"] = nums[pos + 1:]
    return d


def parse_table(tnums):
    """node table of the decoded program -> list of (code, a, b, extra, (src, tgt) | None) or None"""
    if not tnums or tnums[0] != 0:
        return None
    n = tnums[1]
    pos = 2
    rows = []
    for _ in range(n):
        code, a, b, extra, marker = tnums[pos:pos + 5]
        pos += 5
        if marker == 5:
            rows.append((code, a, b, extra, None))
        else:
            s, pos = pg.ty_from_nums(tnums, pos)
            t, pos = pg.ty_from_nums(tnums, pos)
            rows.append((code, a, b, extra, (s, t)))
    return rows


def ty_tree_size(t, cache={}):
    if t not in cache:
        cache[t] = 1 if t[0] == "u" else 1 + ty_tree_size(t[1]) + ty_tree_size(t[2])
    return cache[t]


def table_coq(rows):
    """Coq text (jets association list, typed_prog) of a node table"""
    ents = []
    jets_ = {}
    for code, a, b, extra, ar in rows:
        if code == 0:
            n = "NIden"
        elif code == 1:
            n = "NUnit"
        elif code in (2, 3, 4, 5):
            n = "(N%s %d)" % ({2: "InjL", 3: "InjR", 4: "Take", 5: "Drop"}[code], a)
        elif code in (6, 7, 8):
            n = "(N%s %d %d)" % ({6: "Comp", 7: "Case", 8: "Pair"}[code], a, b)
        elif code == 9:
            n = "(NDisconnect %d (Some %d%%nat))" % (a, b)
        elif code == 10:
            n = "(NHidden [])"
        elif code == 11:
            n = "(NFail [])"
        elif code == 12:
            n = "(NJet 1 %d)" % a
            jets_[a] = extra
        elif code == 13:
            n = "(NWord %d [])" % a
        else:
            n = "(NWitness WNone)"
        if ar is None:
            ents.append("(%s, None)" % n)
        else:
            ents.append("(%s, Some (%s, %s))" % (n, pg.ty_coq(ar[0]), pg.ty_coq(ar[1])))
    jl = "[" + "; ".join("(%d, %d)" % kv for kv in sorted(jets_.items())) + "]"
    return jl, "[" + "; ".join(ents) + "]"


def table_type_size(rows):
    tot = 0
    for r in rows:
        if r[4] is not None:
            tot += ty_tree_size(r[4][0]) + ty_tree_size(r[4][1])
    return tot


def _nums_ty_size(nums, pos):
    """(tree size, next position) of a type in the numeric prefix notation, without building it"""
    size = 0
    need = 1
    while need:
        k = nums[pos]
        pos += 1
        need -= 1
        if k == 0:
            size += 1
        elif k == 3:
            size += 2 ** (nums[pos] + 2) - 1
            pos += 1
        else:
            size += 1
            need += 2
    return size, pos


def table_size_from_nums(tnums):
    """total tree size of all arrows of a dumped node table (None when the table was not printed)"""
    if not tnums or tnums[0] != 0:
        return None
    n = tnums[1]
    pos = 2
    tot = 0
    for _ in range(n):
        marker = tnums[pos + 4]
        pos += 5
        if marker != 5:
            a, pos = _nums_ty_size(tnums, pos)
            b, pos = _nums_ty_size(tnums, pos)
            tot += a + b
    return tot


# ------------------------------------------------------------------ bit-level encoder of arbitrary node tables
def natural_bits(n):
    if n == 1:
        return [0]
    ln = n.bit_length() - 1
    return [1] + natural_bits(ln) + [(n >> i) & 1 for i in range(ln - 1, -1, -1)]


def pack(bits):
    out = []
    for i in range(0, len(bits), 8):
        ch = bits[i:i + 8]
        ch = ch + [0] * (8 - len(ch))
        v = 0
        for b in ch:
            v = 2 * v + b
        out.append(v)
    return out


def hexbits(h):
    return [(int(h[i:i + 2], 16) >> (7 - k)) & 1 for i in range(0, len(h), 2) for k in range(8)]


_jetcodes = {}


def jet_codes(binary, workdir):
    """name -> bit code of the jet (after the `11` prefix), from the implementation's own encoder"""
    if binary not in _jetcodes:
        res = vplib.run_harness(binary, "c03", ["jc jetcodes"], workdir=workdir)
        nums = res["jc"]
        names = [j[1] for j in all_jets(binary, workdir)]
        codes = {}
        pos = 0
        while pos < len(nums):
            assert nums[pos] == 7
            idx, n = nums[pos + 1], nums[pos + 2]
            codes[names[idx]] = nums[pos + 3:pos + 3 + n]
            pos += 3 + n
        _jetcodes[binary] = codes
    return _jetcodes[binary]


def encode_table(p, codes):
    """(program bytes, witness bytes) of a node table *as it is* (no canonical order, no sharing, no typing)."""
    bits = natural_bits(len(p))
    wbits = []
    for i, n in enumerate(p):
        k = n[0]

        def ref(c):
            return natural_bits(i - c) if 0 <= c < i else natural_bits(max(1, i + 1))  # invalid reference stays invalid
        if k in ("comp", "case", "pair"):
            bits += [0, 0, 0] + {"comp": [0, 0], "case": [0, 1], "pair": [1, 0]}[k] + ref(n[1]) + ref(n[2])
        elif k == "disc":
            if n[2] is None:
                bits += [0, 1, 0, 1, 1] + ref(n[1])
            else:
                bits += [0, 0, 0, 1, 1] + ref(n[1]) + ref(n[2])
        elif k in ("injl", "injr", "take", "drop"):
            bits += [0, 0, 1] + {"injl": [0, 0], "injr": [0, 1], "take": [1, 0], "drop": [1, 1]}[k] + ref(n[1])
        elif k == "iden":
            bits += [0, 1, 0, 0, 0]
        elif k == "unit":
            bits += [0, 1, 0, 0, 1]
        elif k == "fail":
            bits += [0, 1, 0, 1, 0] + hexbits(n[1])
        elif k == "hid":
            bits += [0, 1, 1, 0] + hexbits(n[1])
        elif k == "wit":
            bits += [0, 1, 1, 1]
            w = n[1]
            if w is not None:
                wbits += list(w[-1])
        elif k == "jet":
            bits += [1, 1] + codes[n[2]]
        elif k == "word":
            bits += [1, 0] + natural_bits(n[1] + 1) + list(n[2])
        else:
            raise ValueError(k)
    return pack(bits), pack(wbits)


def canon_table(p, arrows=None):
    """post-order (left child first) from the root with equal nodes merged (equal = same structure and,
    when the inferred arrows are given, same arrow; witnesses: same value)"""
    memo = {}
    out = []
    ren = {}

    def visit(i):
        if i in ren:
            return ren[i]
        n = p[i]
        k = n[0]
        if k in ("injl", "injr", "take", "drop"):
            m = (k, visit(n[1]))
        elif k in ("comp", "case", "pair"):
            a = visit(n[1])
            m = (k, a, visit(n[2]))
        elif k == "disc":
            a = visit(n[1])
            m = (k, a, None if n[2] is None else visit(n[2]))
        else:
            m = n
        if arrows is None:
            key = m if k != "wit" else ("wit", i)
        else:
            key = (m if k != "wit" else ("wit", tuple(n[1][-1]) if n[1] else None), arrows[i])
        try:
            hash(key)
        except TypeError:
            key = repr(key)
        if key not in memo:
            out.append(m)
            memo[key] = len(out) - 1
        ren[i] = memo[key]
        return ren[i]

    import sys
    sys.setrecursionlimit(10000)
    visit(len(p) - 1)
    return out


def mutate_table(rng, p):
    """one structural mutation of a node table; returns (table, name)"""
    p = [tuple(n) for n in p]
    n = len(p)
    k = rng.below(12)
    i = rng.below(n)
    if k == 0 and n >= 2:
        j = rng.below(n - 1)
        # swap two adjacent nodes, keeping references pointing at the same contents when possible
        a, b = p[j], p[j + 1]
        if j in pg.children(b):
            return p, "none"
        q = p[:j] + [b, a] + p[j + 2:]

        def fix(c):
            return j + 1 if c == j else (j if c == j + 1 else c)
        q = [_map_children(x, fix) for x in q]
        return q, "swap-adjacent"
    if k == 1:
        # unshare: duplicate node i right after itself and retarget one later reference
        q = p[:i + 1] + [p[i]] + [_map_children(x, lambda c: c + 1 if c > i else c) for x in p[i + 1:]]
        users = [u for u in range(i + 2, len(q)) if i in pg.children(q[u])]
        if users:
            u = rng.choice(users)
            done = [False]

            def once(c):
                if c == i and not done[0]:
                    done[0] = True
                    return i + 1
                return c
            q[u] = _map_children(q[u], once)
        return q, "duplicate-node"
    if k == 2 and p[i][0] in ("comp", "case", "pair"):
        q = list(p)
        q[i] = (p[i][0], p[i][2], p[i][1])
        return q, "swap-children"
    if k == 3:
        groups = [("comp", "case", "pair"), ("injl", "injr", "take", "drop"), ("iden", "unit")]
        for g in groups:
            if p[i][0] in g:
                q = list(p)
                q[i] = (rng.choice(g),) + p[i][1:]
                return q, "change-kind"
        return p, "none"
    if k == 4 and pg.children(p[i]) and i > 0:
        q = list(p)
        tgt = rng.below(i)
        first = [True]

        def re(c):
            if first[0]:
                first[0] = False
                return tgt
            return c
        q[i] = _map_children(p[i], re)
        return q, "retarget-child"
    if k == 5:
        # unreachable extra node
        extra = rng.choice([("unit",), ("iden",), ("wit", None)])
        q = p[:i] + [extra] + [_map_children(x, lambda c: c + 1 if c >= i else c) for x in p[i:]]
        return q, "insert-unreachable"
    if k == 6:
        h = ("hid", "".join("%02x" % v for v in rng.bytes(32)))
        q = list(p)
        q[i] = h
        return q, "node-to-hidden"
    if k == 7:
        hs = [j for j in range(n) if p[j][0] == "hid"]
        if hs:
            q = list(p)
            j = rng.choice(hs)
            q.insert(j + 1, p[j])
            q = q[:j + 2] + [_map_children(x, lambda c: c + 1 if c > j else c) for x in q[j + 2:]]
            return q, "duplicate-hidden"
        return p, "none"
    if k == 8 and n >= 2:
        # root is not last: append a copy of an inner node
        return p + [p[rng.below(n - 1)]], "extra-root"
    if k == 9 and p[i][0] == "word":
        q = list(p)
        m = max(0, p[i][1] + rng.choice([-1, 1]))
        q[i] = ("word", m, rng.bits(2 ** m))
        return q, "word-size"
    if k == 10 and p[i][0] == "disc" and p[i][2] is not None:
        q = list(p)
        q[i] = ("disc", p[i][1], None)
        return q, "disconnect-one-child"
    if k == 11 and p[i][0] == "wit" and p[i][1] is not None:
        q = list(p)
        w = list(p[i][1][-1])
        if w and rng.below(2):
            w[rng.below(len(w))] ^= 1
        elif rng.below(2):
            w = w + rng.bits(rng.range(1, 9))
        else:
            w = w[:rng.below(len(w) + 1)]
        q[i] = ("wit", ("c", w))
        return q, "witness-bits"
    return p, "none"


def _map_children(n, f):
    k = n[0]
    if k in ("injl", "injr", "take", "drop"):
        return (k, f(n[1]))
    if k in ("comp", "case", "pair"):
        a = f(n[1])
        return (k, a, f(n[2]))
    if k == "disc":
        a = f(n[1])
        return (k, a, None if n[2] is None else f(n[2]))
    return n


# ------------------------------------------------------------------ environment probes (independent expectation)
def word32(x):
    return [(x >> i) & 1 for i in range(31, -1, -1)]


def probe_cases(rng, env):
    """one-jet programs whose verdict follows from the parameters of the environment description alone:
    returns list of (pdl, expected kind, name).  env = 'env.seed.nin.nout.ix.annex.lock.seq'"""
    f = env.split(".")
    nin, nout, ix, annex, lock, seq = [int(x) for x in f[2:8]]
    out = []
    for jet, val in (("num_inputs", nin), ("num_outputs", nout), ("current_index", ix), ("lock_time", lock),
                     ("current_sequence", seq)):
        good = rng.below(2) == 0
        v = val if good else (val + rng.choice([1, 2, 255, 2**31])) % 2**32
        pdl = "jet.e.%s,word.5.%s,pair.0.1,jet.e.eq_32,comp.2.3,jet.e.verify,comp.4.5" % (jet, pg.bstr(word32(v)))
        out.append((pdl, 0 if good else 2, jet))
    h = "".join("%02x" % v for v in rng.bytes(32))
    # current_annex_hash : 1 -> 1 + 2^256 ; assert it is Right (annex present) or Left (absent)
    want_right = rng.below(2) == 0
    if want_right:
        pdl = "jet.e.current_annex_hash,unit,pair.0.1,hid.%s,unit,case.3.4,comp.2.5" % h
    else:
        pdl = "jet.e.current_annex_hash,unit,pair.0.1,unit,hid.%s,case.3.4,comp.2.5" % h
    present = annex in (1, 2)
    out.append((pdl, 0 if present == want_right else 1, "current_annex_hash"))
    return out


# ================================================================== phase 2 additions
# ------------------------------------------------------------------ systematic witness-width family
# SHA-256 padding boundaries of merkle/mod.rs compact_value (mod 512: the delimiter bit and the 64-bit length
# fit in the last block up to 447 bits, not from 448 on) and other width classes
WIDTH_CLASSES = sorted(set(
    [0, 1, 7, 8, 9, 63, 64, 65, 255, 256, 257, 511, 512, 513, 1023, 1024] +
    list(range(440, 449)) + list(range(504, 514)) +
    [512 + w for w in range(440, 449)] + [1016, 1017, 1025]))


def words_type(w):
    """product of word types (big end first) of total width w; None for w = 0 (unit)"""
    parts = [pg.word(k) for k in range(w.bit_length() - 1, -1, -1) if (w >> k) & 1]
    if not parts:
        return U
    t = parts[-1]
    for p in reversed(parts[:-1]):
        t = P(p, t)
    return t


def _const_nodes(nodes, t, rng):
    """append nodes of a constant term 1 -> t built from words, pairs, unit and injl (pins the type t:
    t must be made of word types, products, unit and sums `a + 1`); returns its index"""
    n = pg.as_word(t)
    if n is not None:
        nodes.append(("word", n, rng.bits(2 ** n)))
    elif t == U:
        nodes.append(("unit",))
    elif t[0] == "p":
        a = _const_nodes(nodes, t[1], rng)
        b = _const_nodes(nodes, t[2], rng)
        nodes.append(("pair", a, b))
    else:
        assert t[0] == "s" and t[2] == U
        a = _const_nodes(nodes, t[1], rng)
        nodes.append(("injl", a))
    return len(nodes) - 1


def pinned_witness_program(rng, t, value):
    """1 -> 1 program with one witness node whose target type is forced to be exactly t (by unification with a
    constant of type t through the two branches of a case), holding `value`:
        comp (comp (pair (injl WIT) unit) (case (take iden) (comp unit CONST_t))) unit"""
    nodes = [("wit", ("c", pg.compact_bits(value)))]
    nodes.append(("injl", 0))
    nodes.append(("unit",))
    nodes.append(("pair", 1, 2))
    nodes.append(("iden",))
    nodes.append(("take", 4))
    tk = 5
    nodes.append(("unit",))
    u2 = 6
    k = _const_nodes(nodes, t, rng)
    nodes.append(("comp", u2, k))
    ck = len(nodes) - 1
    nodes.append(("case", tk, ck))
    nodes.append(("comp", 3, len(nodes) - 1))
    body = len(nodes) - 1
    nodes.append(("unit",))
    nodes.append(("comp", body, len(nodes) - 1))
    return nodes


def width_family(rng, per_width=2):
    """[(pdl program, compact witness length, description)]: for every width class a witness of a product-of-words
    type of exactly that width (random, all-zero and all-one values) and, for widths >= 1, a witness of the sum type
    (words of width-1) + 1 holding a left value (compact length = width) """
    out = []
    for w in WIDTH_CLASSES:
        t = words_type(w)
        vals = []
        for k in range(per_width):
            bits = rng.bits(w) if k else ([0] * w if rng.below(2) else [1] * w)
            vals.append(pg.of_compact(t, bits)[0] if w else ("U",))
        for v in vals:
            out.append((pinned_witness_program(rng, t, v), w, "words:%d" % w))
        if w >= 1:
            ts = S(words_type(w - 1), U)
            bits = [0] + rng.bits(w - 1)
            out.append((pinned_witness_program(rng, ts, pg.of_compact(ts, bits)[0]), w, "sum-left:%d" % w))
    # two witnesses in one program, the second one straddling a boundary at an unaligned stream offset
    for w in (441, 447, 448, 505):
        t = P(words_type(3), words_type(w))
        v = pg.of_compact(t, rng.bits(3 + w))[0]
        out.append((pinned_witness_program(rng, t, v), 3 + w, "words:3+%d" % w))
    return out


def witness_lengths(rows):
    """compact bit lengths of the witness values of a decoded node table (harness `dump_table` rows)"""
    return [r[3] for r in rows if r[0] == 14]


# ------------------------------------------------------------------ grammar-based mutation layer
def codec_jt(binary, workdir):
    """the Elements jet code table in the form the python assembler of tools/props/codec_common.py wants"""
    from props import codec_common as kc
    codes = jet_codes(binary, workdir)
    names = [j[1] for j in all_jets(binary, workdir)]
    return kc.JetTable([codes[n] for n in names])


GRAMMAR_CLASSES = {
    # name: what the mutation does / which decoder's rules it stays within
    "leaf-to-fail": "a leaf replaced by a fail node: decodable (and typable) by Rust's rules, FAIL_CODE for C",
    "subtree-to-fail": "an inner node replaced by a fail node (its children become unreachable unless shared)",
    "disc-to-disc1": "disconnect with its right child dropped (code 01011): a commitment-time node for Rust's decoder, RESERVED_CODE for C",
    "case-child-to-hidden": "a child of a case replaced by a hidden node carrying the child's CMR (pruned form; valid for both)",
    "hidden-misplaced": "a child of a non-case node replaced by a hidden node",
    "hidden-both": "both children of a case hidden",
    "hidden-duplicate": "the same hidden root twice",
    "length-prefix": "length prefix changed (len+-1, 0 is not encodable, DAG_LEN_MAX+1, 2^31, 2^32-1, 2^32, 2^64-1)",
    "backref-out-of-range": "a relative index larger than the node's position",
    "backref-retarget": "a relative index changed within range (typing / canonical order / sharing may break)",
    "jet-code": "a jet code replaced by another jet of the same arrow, by a jet of another arrow, or by an unassigned code point",
    "word-size": "a word node re-encoded with depth 32 / 33 / 34 (2^31.. bits announced, none supplied) or one step larger/smaller",
    "swap-independent": "two adjacent independent nodes exchanged (canonical order)",
    "duplicate-node": "a node duplicated and one reference retargeted (sharing not maximal)",
    "padding-bits": "non-zero padding bits / an extra zero byte at the end of the program stream",
    "witness-stream": "witness stream one bit short / one byte long / non-zero padding",
    "truncate-at-node": "program cut at a node boundary (remaining nodes missing)",
}


def _dn_children(d):
    k = d[0]
    if k in ("injl", "injr", "take", "drop", "disc1"):
        return [d[1]]
    if k in ("comp", "case", "pair", "disc"):
        return [d[1], d[2]]
    return []


def _dn_map(d, f):
    k = d[0]
    if k in ("injl", "injr", "take", "drop", "disc1"):
        return (k, f(d[1]))
    if k in ("comp", "case", "pair", "disc"):
        a = f(d[1])
        return (k, a, f(d[2]))
    return d


def grammar_mutations(rng, dnodes, wbytes, jt, node_cmrs=None, jets_by_arrow=None, count=4):
    """structure-aware mutations of a decoded node list (python dnodes of codec_common), re-assembled with the
    python bit assembler.  Returns [(class, program bytes, witness bytes)]"""
    from props import codec_common as kc
    out = []
    n = len(dnodes)
    wbytes = list(wbytes)

    def canon(nodes):
        """post order from the root (left child first), every position once: drops unreachable entries and puts the
        others where the canonical order wants them"""
        ren = {}
        order = []
        stack = [(len(nodes) - 1, 0)]
        while stack:
            x, st = stack.pop()
            if x in ren:
                continue
            ch = _dn_children(nodes[x])
            if st < len(ch):
                stack.append((x, st + 1))
                if ch[st] not in ren:
                    stack.append((ch[st], 0))
            else:
                ren[x] = len(order)
                order.append(x)
        return [_dn_map(nodes[x], lambda c: ren[c]) for x in order]

    def emit(cls, nodes, length=None, rels=None, tail=None, wit=None, recanon=False):
        if recanon and rng.below(5) != 0 and all(0 <= c < i_ for i_, d_ in enumerate(nodes) for c in _dn_children(d_)):
            nodes = canon(nodes)
        bits = kc.enc_nat(len(nodes) if length is None else length)
        for i, d in enumerate(nodes):
            bits += kc.enc_dnode(i, d, jt, rel=(rels or {}).get(i))
        if tail:
            bits += tail
        out.append((cls, kc.pack(bits), wbytes if wit is None else wit))

    for _ in range(count):
        k = rng.below(17)
        i = rng.below(n)
        d = dnodes[i]
        fe = tuple(rng.bytes(64))
        if k == 0:
            leaves = [j for j in range(n) if not _dn_children(dnodes[j]) and dnodes[j][0] != "hid"]
            if leaves:
                j = rng.choice(leaves)
                emit("leaf-to-fail", dnodes[:j] + [("fail", fe)] + dnodes[j + 1:])
        elif k == 1:
            inner = [j for j in range(n - 1) if _dn_children(dnodes[j])]
            if inner:
                j = rng.choice(inner)
                emit("subtree-to-fail", dnodes[:j] + [("fail", fe)] + dnodes[j + 1:], recanon=True)
        elif k == 2:
            ds = [j for j in range(n) if dnodes[j][0] == "disc"]
            if ds:
                j = rng.choice(ds)
                emit("disc-to-disc1", dnodes[:j] + [("disc1", dnodes[j][1])] + dnodes[j + 1:])
        elif k == 3:
            cs = [j for j in range(n) if dnodes[j][0] == "case" and dnodes[dnodes[j][1]][0] != "hid" and dnodes[dnodes[j][2]][0] != "hid"]
            if cs and node_cmrs:
                j = rng.choice(cs)
                side = 1 + rng.below(2)
                c = dnodes[j][side]
                # the hidden node is inserted right before the case node; the old child stays (possibly unreachable)
                q = dnodes[:j] + [("hid", tuple(node_cmrs[c]))] + [_dn_map(x, lambda y: y + 1 if y >= j else y) for x in dnodes[j:]]
                cj = list(q[j + 1])
                cj[side] = j
                q[j + 1] = tuple(cj)
                emit("case-child-to-hidden", q, recanon=True)
        elif k == 4:
            ps = [j for j in range(n) if _dn_children(dnodes[j]) and dnodes[j][0] != "case"]
            if ps:
                j = rng.choice(ps)
                q = dnodes[:j] + [("hid", tuple(rng.bytes(32)))] + [_dn_map(x, lambda y: y + 1 if y >= j else y) for x in dnodes[j:]]
                cj = list(q[j + 1])
                cj[1] = j
                q[j + 1] = tuple(cj)
                emit("hidden-misplaced", q, recanon=True)
        elif k == 5:
            cs = [j for j in range(n) if dnodes[j][0] == "case"]
            if cs:
                j = rng.choice(cs)
                q = dnodes[:j] + [("hid", tuple(rng.bytes(32))), ("hid", tuple(rng.bytes(32)))] + \
                    [_dn_map(x, lambda y: y + 2 if y >= j else y) for x in dnodes[j:]]
                q[j + 2] = ("case", j, j + 1)
                emit("hidden-both", q, recanon=True)
        elif k == 6:
            hs = [j for j in range(n) if dnodes[j][0] == "hid"]
            cs = [j for j in range(n) if dnodes[j][0] == "case" and dnodes[dnodes[j][1]][0] != "hid" and dnodes[dnodes[j][2]][0] != "hid"]
            if hs and cs:
                h = dnodes[rng.choice(hs)]
                j = rng.choice(cs)
                q = dnodes[:j] + [h] + [_dn_map(x, lambda y: y + 1 if y >= j else y) for x in dnodes[j:]]
                cj = list(q[j + 1])
                cj[1 + rng.below(2)] = j
                q[j + 1] = tuple(cj)
                emit("hidden-duplicate", q, recanon=True)
        elif k == 7:
            ln = rng.choice([n + 1, max(1, n - 1), n + 2, 8000001, 2 ** 31, 2 ** 32 - 1, 2 ** 32, 2 ** 64 - 1])
            emit("length-prefix", dnodes, length=ln)
        elif k == 8:
            ps = [j for j in range(n) if _dn_children(dnodes[j])]
            if ps:
                j = rng.choice(ps)
                ch = _dn_children(dnodes[j])
                rel = [j - c for c in ch]
                rel[rng.below(len(rel))] = j + rng.choice([1, 1, 2, 2 ** 16, 2 ** 31, 2 ** 32])
                emit("backref-out-of-range", dnodes, rels={j: tuple(rel)})
        elif k == 9:
            ps = [j for j in range(1, n) if _dn_children(dnodes[j])]
            if ps:
                j = rng.choice(ps)
                ch = _dn_children(dnodes[j])
                rel = [j - c for c in ch]
                rel[rng.below(len(rel))] = rng.range(1, j)
                if rng.below(2):
                    emit("backref-retarget", dnodes, rels={j: tuple(rel)})
                else:
                    q = list(dnodes)
                    q[j] = (dnodes[j][0],) + tuple(j - x for x in rel)
                    emit("backref-retarget", q, recanon=True)
        elif k == 10:
            js = [j for j in range(n) if dnodes[j][0] == "jet"]
            if js:
                j = rng.choice(js)
                mode = rng.below(3)
                if mode == 0 and jets_by_arrow:
                    same = jets_by_arrow.get(dnodes[j][1], [])
                    if same:
                        emit("jet-code", dnodes[:j] + [("jet", rng.choice(same))] + dnodes[j + 1:])
                elif mode == 1:
                    emit("jet-code", dnodes[:j] + [("jet", rng.below(len(jt.codes)))] + dnodes[j + 1:])
                else:
                    # an unassigned code point: extend a proper prefix of a code by the bit that leaves the tree
                    code = list(jt.codes[dnodes[j][1]])
                    cand = []
                    for ln in range(len(code)):
                        alt = tuple(code[:ln] + [1 - code[ln]])
                        if alt not in jt.prefixes and alt not in jt.by_code:
                            cand.append(alt)
                    if cand:
                        alt = rng.choice(cand)
                        bits = kc.enc_nat(n)
                        for x, dd in enumerate(dnodes):
                            bits += ([1, 1] + list(alt)) if x == j else kc.enc_dnode(x, dd, jt)
                        out.append(("jet-code", kc.pack(bits), wbytes))
        elif k == 11:
            ws = [j for j in range(n) if dnodes[j][0] == "word"]
            if ws:
                j = rng.choice(ws)
                m = dnodes[j][1]
                mode = rng.below(3)
                if mode == 0:
                    depth = rng.choice([32, 33, 34, 64])
                    bits = kc.enc_nat(n)
                    for x, dd in enumerate(dnodes):
                        bits += ([1, 0] + kc.enc_nat(depth)) if x == j else kc.enc_dnode(x, dd, jt)
                    out.append(("word-size", kc.pack(bits), wbytes))
                else:
                    m2 = max(0, m + (1 if mode == 1 else -1))
                    emit("word-size", dnodes[:j] + [("word", m2, tuple(rng.bits(2 ** m2)))] + dnodes[j + 1:])
        elif k == 12 and n >= 3:
            j = rng.below(n - 1)
            a, b = dnodes[j], dnodes[j + 1]
            if j not in _dn_children(b):
                def fix(c):
                    return j + 1 if c == j else (j if c == j + 1 else c)
                q = [_dn_map(x, fix) for x in dnodes[:j] + [b, a] + dnodes[j + 2:]]
                emit("swap-independent", q)
        elif k == 13:
            # prefer a node that is referenced at least twice, so that the original and the copy both stay reachable
            refs = {}
            for x in dnodes:
                for c in _dn_children(x):
                    refs[c] = refs.get(c, 0) + 1
            multi = [j for j, v in refs.items() if v >= 2]
            if multi and rng.below(4) != 0:
                i = rng.choice(multi)
                d = dnodes[i]
            q = dnodes[:i + 1] + [d] + [_dn_map(x, lambda c: c + 1 if c > i else c) for x in dnodes[i + 1:]]
            users = [u for u in range(i + 2, len(q)) if i in _dn_children(q[u])]
            if users:
                u = rng.choice(users)
                done = [False]

                def once(c):
                    if c == i and not done[0]:
                        done[0] = True
                        return i + 1
                    return c
                q[u] = _dn_map(q[u], once)
                emit("duplicate-node", q, recanon=True)
        elif k == 14:
            bits = kc.enc_prog(dnodes, jt)
            pad = (-len(bits)) % 8
            if pad and rng.below(2):
                tail = [0] * pad
                tail[rng.below(pad)] = 1
                out.append(("padding-bits", kc.pack(bits + tail), wbytes))
            else:
                out.append(("padding-bits", kc.pack(bits) + [0], wbytes))
        elif k == 15:
            w = list(wbytes)
            mode = rng.below(3)
            if mode == 0 and w:
                out.append(("witness-stream", kc.pack(kc.enc_prog(dnodes, jt)), w[:-1]))
            elif mode == 1:
                out.append(("witness-stream", kc.pack(kc.enc_prog(dnodes, jt)), w + [0]))
            elif w:
                w[-1] |= 1
                out.append(("witness-stream", kc.pack(kc.enc_prog(dnodes, jt)), w))
        elif k == 16 and n >= 2:
            j = rng.range(1, n - 1)
            bits = kc.enc_nat(n)
            for x, dd in enumerate(dnodes[:j]):
                bits += kc.enc_dnode(x, dd, jt)
            out.append(("truncate-at-node", kc.pack(bits), wbytes))
    return out


# ------------------------------------------------------------------ evaluation of the Coq reference, robust against
# a single oversized case (a batch that fails or times out is re-run case by case with a short timeout)
def ref_eval(imports, exprs, workdir, tag, batch=16, timeout=240, single_timeout=90, budget_s=None):
    """Evaluate the expressions in Coq.  With budget_s the list is processed in slices of 16 batches (one per core) and
    no new slice is started once the budget is used up: the remaining results are None (the caller counts them as not
    evaluated), so the wall time stays bounded on a loaded machine.  Returns (values, number of batches retried)."""
    if budget_s is not None:
        import time
        t0 = time.time()
        vals = []
        retried = 0
        step = batch * vplib.NCPU
        pos = 0
        while pos < len(exprs):
            if pos > 0 and time.time() - t0 > budget_s:
                break
            v, r = ref_eval(imports, exprs[pos:pos + step], workdir, "%s_s%d" % (tag, pos // step), batch=batch, timeout=timeout,
                            single_timeout=single_timeout)
            vals += v
            retried += r
            pos += step
        return vals + [None] * (len(exprs) - len(vals)), retried
    import resource
    soft, hard = resource.getrlimit(resource.RLIMIT_AS)
    lim = 8 * 1024 ** 3
    try:
        resource.setrlimit(resource.RLIMIT_AS, (lim if hard == resource.RLIM_INFINITY else min(lim, hard), hard))
    except (ValueError, OSError):
        pass
    try:
        vals, logs = vplib.coq_eval(imports, exprs, workdir=workdir, tag=tag, batch=batch, timeout=timeout)
        bad = [k for k, l in enumerate(logs) if l]
        for k in bad:
            if "Error" in logs[k] and "timeout after" not in logs[k] and "memory" not in logs[k].lower() and "Stack overflow" not in logs[k]:
                # a genuine Coq error (the model does not compile / an expression is ill-formed): infrastructure problem
                raise vplib.Infra("evaluation of the Coq reference failed:\n" + logs[k][-3000:])
            idx = list(range(k * batch, min(len(exprs), (k + 1) * batch)))
            v2, _l2 = vplib.coq_eval(imports, [exprs[i] for i in idx], workdir=workdir, tag=tag + "_retry%d" % k, batch=1,
                                     timeout=single_timeout)
            for i, v in zip(idx, v2):
                vals[i] = v
        return vals, len(bad)
    finally:
        try:
            resource.setrlimit(resource.RLIMIT_AS, (soft, hard))
        except (ValueError, OSError):
            pass


# ------------------------------------------------------------------ C06: the Coq semantics as third party
SEM_IMPORTS = ["Lib.Outcome", "Ty.Ty", "Core.Prog", "Core.Term", "Core.Run", "Cdiff.EvalRef"]
_spec = {}


def specified_core_jets(binary, workdir):
    """Elements jets that are namesakes (same name, same types) of the Core jets specified in coq/Jets/JetSpec.v:
    returns (jet list for the generators [('e', name, src, tgt)], {name: Core index}, notes)"""
    if binary in _spec:
        return _spec[binary]
    vals, logs = vplib.coq_eval(["Core.Run"], ["List.concat (map (fun l => N.of_nat (List.length l) :: l) run_jet_names)"],
                                workdir=workdir, tag="c06jetnames")
    if vals[0] is None:
        raise vplib.Infra("cannot evaluate Core.Run.run_jet_names:\n" + logs[0][-2000:])
    flat = vals[0]
    spec = {}
    pos = 0
    while pos < len(flat):
        ln = flat[pos]
        ent = flat[pos + 1:pos + 1 + ln]
        spec[ent[0]] = bytes(ent[1:]).decode()
        pos += 1 + ln
    core = pg.jet_list(binary, "c", workdir)
    core_by_name = {j[1]: j for j in core}
    bad = [(i, nm) for i, nm in spec.items() if i >= len(core) or core[i][1] != nm]
    ids = {}
    out = []
    for j in all_jets(binary, workdir):
        c = core_by_name.get(j[1])
        if c is not None and spec.get(c[0]) == j[1] and c[2] == j[2] and c[3] == j[3]:
            ids[j[1]] = c[0]
            if pg.width(j[2]) <= 600 and pg.width(j[3]) <= 600:
                out.append(("e", j[1], j[2], j[3]))
    _spec[binary] = (out, ids, {"specified_in_coq": len(spec), "elements_namesakes_usable": len(ids), "id_name_mismatch": bad})
    return _spec[binary]


def parse_info(nums):
    """harness `c06 info` -> (arrows, {index: cmr bytes}) | None"""
    if not isinstance(nums, list) or not nums or nums[0] != 0:
        return None
    arrows = []
    cmrs = {}
    pos = 1
    while pos < len(nums):
        if nums[pos] == 5:
            arrows.append(None)
            pos += 1
        elif nums[pos] == 4:
            a, pos = pg.ty_from_nums(nums, pos + 1)
            b, pos = pg.ty_from_nums(nums, pos)
            arrows.append((a, b))
        elif nums[pos] == 8:
            cmrs[nums[pos + 1]] = nums[pos + 2:pos + 34]
            pos += 34
        else:
            return None
    return arrows, cmrs


_tyc = {}


def ty_coq_cached(t):
    k = id(t)
    e = _tyc.get(k)
    if e is None or e[0] is not t:
        e = (t, pg.ty_coq(t))
        _tyc[k] = e
    return e[1]


def sem_expr(prog, arrows, cmrs, core_ids):
    """Gallina call of Cdiff.EvalRef.run_sem on a PDL program with Elements namesakes of specified Core jets"""
    ents = []
    for n, a in zip(prog, arrows):
        if n[0] == "jet":
            nc = "(NJet 0 %d)" % core_ids[n[2]]
        elif n[0] == "disc":
            nc = "(NDisconnect %d%%nat %s)" % (n[1], "None" if n[2] is None else "(Some %d%%nat)" % n[2])
        else:
            nc = pg.node_coq(n)
        ents.append("(%s, %s)" % (nc, "None" if a is None else "(Some (%s, %s))" % (ty_coq_cached(a[0]), ty_coq_cached(a[1]))))
    cm = "[" + "; ".join("(%d%%nat, %s)" % (i, vplib.coq_list(c)) for i, c in sorted(cmrs.items())) + "]"
    return "run_sem [%s] %s" % ("; ".join(ents), cm)


def _bits_of_int(x, w):
    return [(x >> i) & 1 for i in range(w - 1, -1, -1)]


def disc_templates(rng, count):
    """programs 1 -> 1 around a disconnect node  disconnect (l : 2^256 * 1 -> B * C) (r : C -> D)  with C and D of DIFFERENT
    bit widths, whose result B * D is compared bit for bit with the expected constant (eq_N + verify; half of the
    cases with a wrong expectation: jet failure).  Returns [(pdl node table, expected kind 0 | 2, description)]"""
    out = []
    shapes = [  # (log2 width of B, kind of r) ; B * D must be a word type for the eq jets: widths equal
        (3, "c1_d8"), (4, "c1_d16"), (5, "c1_d32"), (3, "c16_d8"), (4, "c32_d16"), (5, "c64_d32"), (3, "c8_d8")]
    for k in range(count):
        lb, shape = shapes[k % len(shapes)]
        wb = 2 ** lb
        bval = rng.below(2 ** wb)
        nodes = []

        def add(n):
            nodes.append(n)
            return len(nodes) - 1
        # l = pair (comp unit WORD_B) (comp unit WORD_C | unit)
        u = add(("unit",))
        kb = add(("word", lb, _bits_of_int(bval, wb)))
        lb_ = add(("comp", u, kb))
        if shape.startswith("c1_"):
            lc = add(("unit",))
            # r : 1 -> 2^wb : a constant
            dval = rng.below(2 ** wb)
            r = add(("word", lb, _bits_of_int(dval, wb)))
        else:
            wc = int(shape[1:shape.index("_")])
            lc_log = wc.bit_length() - 1
            cval = rng.below(2 ** wc)
            u2 = add(("unit",))
            kc_ = add(("word", lc_log, _bits_of_int(cval, wc)))
            lc = add(("comp", u2, kc_))
            if wc == wb:
                r = add(("iden",))
                dval = cval
            else:
                # C = 2^(2 wb) -> D = 2^wb : take the high half
                i_ = add(("iden",))
                r = add(("take", i_))
                dval = cval >> wb
        l = add(("pair", lb_, lc))
        d = add(("disc", l, r))
        good = rng.below(2) == 0
        exp = (bval << wb) | dval
        if not good:
            exp ^= 1 << rng.below(2 * wb)
        ke = add(("word", lb + 1, _bits_of_int(exp, 2 * wb)))
        pr = add(("pair", d, ke))
        eq = add(("jet", "e", "eq_%d" % (2 * wb)))
        c1 = add(("comp", pr, eq))
        vf = add(("jet", "e", "verify"))
        add(("comp", c1, vf))
        out.append((nodes, 0 if good else 2, "disc:%s:%s" % (shape, "ok" if good else "mismatch")))
    return out
