(* Iterator::nth on the bit reader (the default implementation: next() k + 1 times, stopping at the first None):
   the k-th remaining bit, with exactly the bits skipped and the bit returned consumed; past the end everything is
   consumed and the counter says so. *)
From RS Require Import Lib.Tac Lib.Outcome Lib.ListExtra Lib.Bits Lib.Sweep Lib.ByteSweep Bits.BitIter.
Import ListNotations.
Local Open Scope N_scope.

Fixpoint bi_nth (k : nat) (it : biter) : option bool * biter :=
  match bi_next it with
  | None => (None, it)
  | Some (b, it') => match k with O => (Some b, it') | S k' => bi_nth k' it' end
  end.

Theorem bi_nth_spec k : forall it, bi_inv it ->
  let l := bi_remaining it in
  let '(res, it') := bi_nth k it in
  bi_inv it' /\
  res = nth_error l k /\
  bi_remaining it' = skipn (S k) l /\
  bi_total it' = bi_total it + N.of_nat (Nat.min (S k) (length l)).
Proof.
  induction k as [|k IH]; intros it Hinv; cbv zeta; cbn [bi_nth];
    pose proof (bi_next_spec it Hinv) as H1;
    destruct (bi_remaining it) as [|b tl] eqn:E.
  - rewrite H1. cbn [nth_error skipn length Nat.min].
    split; [exact Hinv|]. split; [reflexivity|]. split; [rewrite E; reflexivity|].
    change (N.of_nat 0) with 0. lia.
  - destruct H1 as (it1 & Hn1 & Hr1 & Hi1 & Ht1). rewrite Hn1. cbn [nth_error skipn length Nat.min].
    split; [exact Hi1|]. split; [reflexivity|]. split; [exact Hr1|]. rewrite Ht1.
    replace (match length tl with O => 1%nat | S _ => 1%nat end) with 1%nat by (destruct (length tl); reflexivity).
    change (N.of_nat 1) with 1. reflexivity.
  - rewrite H1. cbn [nth_error skipn length Nat.min].
    split; [exact Hinv|]. split; [reflexivity|]. split; [rewrite E; reflexivity|].
    change (N.of_nat 0) with 0. lia.
  - destruct H1 as (it1 & Hn1 & Hr1 & Hi1 & Ht1). rewrite Hn1.
    specialize (IH it1 Hi1). cbv zeta in IH. rewrite Hr1 in IH.
    destruct (bi_nth k it1) as [res it'] eqn:En. destruct IH as (Hi & Hres & Hrem & Htot).
    cbn [nth_error skipn length].
    split; [exact Hi|]. split; [exact Hres|]. split; [exact Hrem|].
    rewrite Htot, Ht1. rewrite <- Nat.succ_min_distr. lia.
Qed.

Example bi_nth_nonvacuous :
  fst (bi_nth 2 (biter_of_bytes [160])) = Some true /\ fst (bi_nth 8 (biter_of_bytes [160])) = None.
Proof. split; reflexivity. Qed.
