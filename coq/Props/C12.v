(* C12 - Redemption programs only ever carry well-typed witnesses.
   Only pinned statements, `Theorem .. exact lemma` and `Print Assumptions`.
   Models: Redeem/Finalize.v, Redeem/Routes.v. *)
From RS Require Import Lib.Tac Lib.Outcome Lib.Bits Ty.Ty Core.Prog
  Redeem.Finalize Redeem.PruneProg Redeem.Routes.
Import ListNotations.
Local Open Scope N_scope.

(* 1. every route returns a program whose witnesses have exactly the target type of their node,
   or an error *)
Theorem C12_route_typed_construct : forall (tp : typed_prog) (p : rprog),
  route_construct true tp = Ok p -> all_wit_ok tp p.
Proof. exact route_typed_construct. Qed.
Print Assumptions C12_route_typed_construct.

Theorem C12_route_typed_named : forall (names : nat -> N) (m : wmap) (tp : typed_prog) (p : rprog),
  route_named true names m tp = Ok p -> all_wit_ok tp p.
Proof. exact route_typed_named. Qed.
Print Assumptions C12_route_typed_named.

Theorem C12_route_typed_decode : forall (targets : list ty) (stream : list bool) (cs : list cval),
  route_decode targets stream = Ok cs -> Forall2 (fun c t => wit_ok c t = true) cs targets.
Proof. exact route_typed_decode. Qed.
Print Assumptions C12_route_typed_decode.

(* the finaliser is typed for any source of construction-time witnesses *)
Theorem C12_finalize_typed : forall (tp : typed_prog) (src : wit_source) (p : rprog),
  finalize true tp src = Ok p -> all_wit_ok tp p.
Proof. exact finalize_typed. Qed.
Print Assumptions C12_finalize_typed.

(* the pruning route: the witness pass of prune keeps typed witnesses typed and does not panic *)
Theorem C12_route_typed_pruned : forall (tp : typed_prog) (retarget : nat -> option ty) (p : rprog),
  all_wit_ok tp p ->
  (forall (i : nat) (t t' : ty), target_of tp i = Some t -> retarget i = Some t' -> ty_le t' t = true) ->
  exists p' : rprog,
    prune_witnesses retarget p = Ok p' /\ length p' = length p /\
    (forall (i : nat) (c' : cval), nth_error p' i = Some (RWitness c') ->
       match retarget i with
       | Some t' => wit_ok c' t' = true
       | None => nth_error p i = Some (RWitness c')
       end).
Proof. exact prune_witnesses_typed. Qed.
Print Assumptions C12_route_typed_pruned.

(* 2. no route panics *)
Theorem C12_route_no_panic_construct : forall (fixed : bool) (tp : typed_prog),
  no_panic (route_construct fixed tp).
Proof. exact route_no_panic_construct. Qed.
Print Assumptions C12_route_no_panic_construct.

Theorem C12_route_no_panic_named : forall (fixed : bool) (names : nat -> N) (m : wmap) (tp : typed_prog),
  no_panic (route_named fixed names m tp).
Proof. exact route_no_panic_named. Qed.
Print Assumptions C12_route_no_panic_named.

Theorem C12_route_no_panic_decode : forall (targets : list ty) (stream : list bool),
  no_panic (route_decode targets stream).
Proof. exact route_no_panic_decode. Qed.
Print Assumptions C12_route_no_panic_decode.

(* 3. a witness that already has the target type is returned unchanged; a missing one becomes zero *)
Theorem C12_route_identity_on_typed : forall (tp : typed_prog) (p : rprog) (i : nat) (ws : wit_spec)
    (ar : arrow) (c : cval),
  route_construct true tp = Ok p ->
  nth_error tp i = Some (NWitness ws, Some ar) ->
  cval_of_spec ws (snd ar) = Ok (Some c) -> wit_ok c (snd ar) = true ->
  nth_error p i = Some (RWitness (CV (snd ar) (cv_val c))).
Proof. exact route_identity_on_typed. Qed.
Print Assumptions C12_route_identity_on_typed.

Theorem C12_route_named_identity_on_typed : forall (names : nat -> N) (m : wmap) (tp : typed_prog)
    (p : rprog) (i : nat) (ws : wit_spec) (ar : arrow) (c : cval),
  route_named true names m tp = Ok p ->
  nth_error tp i = Some (NWitness ws, Some ar) ->
  wmap_get m (names i) = Some c -> wit_ok c (snd ar) = true ->
  nth_error p i = Some (RWitness (CV (snd ar) (cv_val c))).
Proof. exact route_named_identity_on_typed. Qed.
Print Assumptions C12_route_named_identity_on_typed.

Theorem C12_sprune_id : forall (v : sval) (t : ty), has_ty v t = true -> sprune v t = Some v.
Proof. exact sprune_id. Qed.
Print Assumptions C12_sprune_id.

Theorem C12_route_missing_is_zero : forall (tp : typed_prog) (p : rprog) (i : nat) (ar : arrow),
  route_construct true tp = Ok p ->
  nth_error tp i = Some (NWitness WNone, Some ar) ->
  nth_error p i = Some (RWitness (value_zero (snd ar))).
Proof. exact route_missing_is_zero. Qed.
Print Assumptions C12_route_missing_is_zero.

(* 4. the serialisation of typed witnesses decodes back to the same values at the same types and is
   consumed exactly; padded to whole bytes it also closes *)
Theorem C12_typed_encodes : forall (cs : list cval) (targets : list ty) (rest : list bool),
  Forall2 (fun c t => wit_ok c t = true) cs targets ->
  decode_witnesses targets (witness_stream cs ++ rest) = Ok (cs, rest).
Proof. exact typed_encodes. Qed.
Print Assumptions C12_typed_encodes.

Theorem C12_typed_stream_decodes : forall (cs : list cval) (targets : list ty),
  Forall2 (fun c t => wit_ok c t = true) cs targets ->
  decode_stream targets (pad_to_byte (witness_stream cs)) = Ok cs.
Proof. exact typed_stream_decodes. Qed.
Print Assumptions C12_typed_stream_decodes.

(* 5. the machine writes exactly [width target] cells for a typed witness *)
Theorem C12_typed_witness_width : forall (c : cval) (t : ty),
  wit_ok c t = true -> length (padded_enc t (cv_val c)) = N.to_nat (width t).
Proof. exact typed_witness_width. Qed.
Print Assumptions C12_typed_witness_width.

(* 6. the code before commit 7523d2e: the construction route returned an ill-typed witness (F-C12) *)
Theorem C12_route_typed_old_refuted :
  exists tp p, route_construct false tp = Ok p /\ ~ all_wit_ok tp p.
Proof. exact route_typed_old_refuted. Qed.
Print Assumptions C12_route_typed_old_refuted.

Theorem C12_route_old_witness_now : route_construct true old_witness_prog = Err FType.
Proof. exact route_old_witness_now. Qed.
Print Assumptions C12_route_old_witness_now.

(* ====================================================================== phase 2 *)
(* 7. The witness stream of this family is the witness stream of C01 (Codec/WitnessCodec.v), and "own
   serialisation decodes" covers the program bits as well (Codec/Main.v canonical_roundtrip). *)
From RS Require Codec.NodeCodec Codec.ProgCodec Codec.Linearise Codec.Decode Codec.WitnessCodec Codec.RealJets
  Redeem.CodecBridge.
Import Redeem.CodecBridge.

(* the typed witness decoder is the bare one of C01 with the types re-attached *)
Theorem C12_decode_witnesses_read : forall (tys : list ty) (bits : list bool),
  decode_witnesses tys bits =
  match WitnessCodec.read_witnesses tys bits with
  | Some (vs, rest) => Ok (with_types tys vs, rest)
  | None => Err DEndOfStream
  end.
Proof. exact decode_witnesses_read. Qed.
Print Assumptions C12_decode_witnesses_read.

Theorem C12_witness_stream_enc : forall cs : list cval,
  witness_stream cs = WitnessCodec.enc_witnesses (map cv_val cs).
Proof. exact witness_stream_enc. Qed.
Print Assumptions C12_witness_stream_enc.

(* C12_typed_encodes re-derived from C01_witness_rt *)
Theorem C12_typed_encodes_via_codec : forall (cs : list cval) (targets : list ty) (rest : list bool),
  Forall2 (fun c t => wit_ok c t = true) cs targets ->
  decode_witnesses targets (witness_stream cs ++ rest) = Ok (cs, rest).
Proof. exact typed_encodes_via_codec. Qed.
Print Assumptions C12_typed_encodes_via_codec.

(* the stream determines the witnesses, values and types (C01_witness_unique) *)
Theorem C12_witness_stream_determines : forall (cs ds : list cval) (targets : list ty),
  Forall2 (fun c t => wit_ok c t = true) cs targets ->
  Forall2 (fun c t => wit_ok c t = true) ds targets ->
  witness_stream cs = witness_stream ds -> cs = ds.
Proof. exact witness_stream_determines. Qed.
Print Assumptions C12_witness_stream_determines.

(* whatever the witness decoder accepts is the stream of the values it returns plus fewer than 8 zero bits *)
Theorem C12_decode_stream_canonical : forall (targets : list ty) (stream : list bool) (cs : list cval),
  decode_stream targets stream = Ok cs ->
  exists rest, stream = witness_stream cs ++ rest /\ Forall (fun b => b = false) rest /\ (length rest < 8)%nat.
Proof. exact decode_stream_canonical. Qed.
Print Assumptions C12_decode_stream_canonical.

(* a redemption program in decoded (canonical, maximally shared) form whose witness nodes carry typed values:
   the program bits decode to the same node list AND the witness bytes decode to the same values at the same
   types, in the order in which encoder and decoder traverse the witness nodes - for any prefix-free jet code *)
Theorem C12_typed_program_roundtrip : forall (jet : Type) (jet_okb : jet -> bool) (jet_enc : jet -> list bool)
    (jet_dec : list bool -> outcome NodeCodec.dec_err (jet * list bool)),
  (forall j r, jet_okb j = true -> jet_dec (jet_enc j ++ r) = Ok (j, r)) ->
  (forall l j r, jet_dec l = Ok (j, r) -> l = jet_enc j ++ r /\ jet_okb j = true) ->
  (forall l, match jet_dec l with Panic _ | OutOfFuel => False | _ => True end) ->
  forall (ns : list (NodeCodec.dnode jet)) (r : list bool) (key : N -> option N) (kf : N -> N)
    (wval : N -> cval) (target : N -> ty),
  NodeCodec.wf_prog jet jet_okb ns -> Decode.dec_struct ns = Ok tt ->
  (forall p, p < N.of_nat (length ns) -> key p = Some (kf p)) ->
  (forall p q, p < N.of_nat (length ns) -> q < N.of_nat (length ns) -> kf p = kf q -> p = q) ->
  (forall n, In n (WitnessCodec.witness_order ns key) -> wit_ok (wval n) (target n) = true) ->
  let order := WitnessCodec.witness_order ns key in
  NodeCodec.dec_prog jet jet_dec (NodeCodec.enc_prog jet jet_enc (Linearise.linearise ns key) ++ r) = Ok (ns, r) /\
  WitnessCodec.witness_stream ns key (fun n => compact_enc (cv_val (wval n))) = witness_stream (map wval order) /\
  decode_stream (map target order) (pad_to_byte (witness_stream (map wval order))) = Ok (map wval order).
Proof. exact typed_program_roundtrip. Qed.
Print Assumptions C12_typed_program_roundtrip.

(* ... and for the real Elements jet code (src/jet/init/elements.rs; hypotheses discharged by C14's tables) *)
Theorem C12_typed_program_roundtrip_elements : forall (ns : list (NodeCodec.dnode N)) (r : list bool)
    (key : N -> option N) (kf : N -> N) (wval : N -> cval) (target : N -> ty),
  NodeCodec.wf_prog N RealJets.elements_okb ns -> Decode.dec_struct ns = Ok tt ->
  (forall p, p < N.of_nat (length ns) -> key p = Some (kf p)) ->
  (forall p q, p < N.of_nat (length ns) -> q < N.of_nat (length ns) -> kf p = kf q -> p = q) ->
  (forall n, In n (WitnessCodec.witness_order ns key) -> wit_ok (wval n) (target n) = true) ->
  let order := WitnessCodec.witness_order ns key in
  NodeCodec.dec_prog N RealJets.elements_dec
    (NodeCodec.enc_prog N RealJets.elements_enc (Linearise.linearise ns key) ++ r) = Ok (ns, r) /\
  WitnessCodec.witness_stream ns key (fun n => compact_enc (cv_val (wval n))) = witness_stream (map wval order) /\
  decode_stream (map target order) (pad_to_byte (witness_stream (map wval order))) = Ok (map wval order).
Proof. exact typed_program_roundtrip_elements. Qed.
Print Assumptions C12_typed_program_roundtrip_elements.

(* satisfiable: comp (pair witness witness) unit with a bit and a 2-bit word *)
Theorem C12_typed_program_roundtrip_ex :
  NodeCodec.wf_prog N RealJets.elements_okb ex_ns /\ Decode.dec_struct ex_ns = Ok tt /\
  WitnessCodec.witness_order ex_ns Linearise.key_ptr = [0; 1] /\
  (forall n, In n (WitnessCodec.witness_order ex_ns Linearise.key_ptr) -> wit_ok (ex_wval n) (ex_target n) = true) /\
  pad_to_byte (witness_stream (map ex_wval [0; 1])) = [true; false; true; false; false; false; false; false] /\
  decode_stream [Bit; word_ty 1] [true; false; true; false; false; false; false; false]
    = Ok [CV Bit (SR SU); CV (word_ty 1) (SP (SL SU) (SR SU))].
Proof. exact typed_program_roundtrip_ex. Qed.
Print Assumptions C12_typed_program_roundtrip_ex.

(* 8. The width clause on the Bit Machine model (C05): a typed table - every reachable node obeys its typing rule,
   every reachable witness has exactly the target type of its node, which is what the routes guarantee - unfolds
   into a well-typed term of Core/Term.v; Core's exec_correct then says that the machine neither panics nor runs
   out of fuel on it, for every input value, padding and initial buffer, and stays within the static bounds. *)
From RS Require Core.Term Core.Typing Core.Sem Core.Bounds Core.Limits Core.Machine Infer.Constraints
  Redeem.Retype Redeem.RetypeInfer Redeem.CoreBridge Redeem.MachineEnd.
Import Core.Term Core.Typing Core.Bounds Core.Limits Core.Machine Infer.Constraints
  Redeem.Retype Redeem.RetypeInfer Redeem.CoreBridge Redeem.MachineEnd.

Theorem C12_typed_table_machine_safe : forall (jet_sem : N -> N -> sval -> option sval) (jt : jet_table) (fam : N),
  (forall f j s t v o, jet_ty_of jt f j = Some (s, t) ->
     has_ty v s = true -> jet_sem f j v = Some o -> has_ty o t = true) ->
  forall (q : rprog) (ar : arrows) (root : nat) (C : list (list N)) (s t : ty),
  rwf q = true -> (root < length q)%nat -> typed_from (jet_ty_of jt) q ar root -> fam_ok fam q root ->
  ar root = Some (s, t) ->
  exists t0, unfold_r (length q) q ar C root = Some t0 /\ typed (jet_ty1 (jet_ty_of jt) fam) t0 s t /\
    (forall prof jet_cost,
      check_program prof (bw s) (bw t) (bounds jet_cost t0) = Ok tt ->
      forall a pbits m0, padded_of s a pbits -> length m0 = N.to_nat (machine_cells jet_cost t0) ->
        match machine_exec prof jet_cost (jet_sem1 fam jet_sem) t0 m0 (Some (s, pbits)) with
        | Ok (st, _) | Err (_, st) =>
            hwc st <= width s + width t + extra_cells (bounds jet_cost t0) /\
            hwc st <= msize m0 /\
            hwf st <= extra_frames (bounds jet_cost t0) + IO_EXTRA_FRAMES
        | Panic _ | OutOfFuel => False
        end).
Proof. exact typed_table_machine_safe. Qed.
Print Assumptions C12_typed_table_machine_safe.
