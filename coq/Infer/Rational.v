(* C04, phase 2 - what is independent of the ORDER of unification, error class included.

   The finite semantics of Unify.v (valuations into `ty`) cannot tell an Error::Bind from an
   Error::OccursCheck: both mean "no finite model".  Here the same reference `unify` / `solve` are
   given a second semantics in which cyclic stores DO have models - possibly infinite (rational)
   trees, represented without coinduction as functions from paths to labels, compared pointwise -
   and it is proved that
       solve s eqs = Ok _   <->   the store and the equations have a model in trees      (solve_ok_iff)
       solve s eqs = Err _  <->   they have none                                         (solve_err_iff)
   The right-hand sides only depend on the SET of equations.  Consequences (all for the reference):
     * solve_perm_class: for any reordering (indeed any list with the same members) of the equations
       the outcome is the same of: Err (a clash: Error::Bind) / Ok with a store that fails the occurs
       check (Error::OccursCheck) / Ok with a store that passes it, and in the last case every variable
       resolves to the same type;
     * solve_first_failure: WHICH equation reports the clash does depend on the order: it is the last
       equation of the shortest inconsistent prefix of the list.
   The development is generic in the domain (Section Dom): any structure with `one`, `sum`, `prod`
   that are injective, pairwise distinct and congruent for an equivalence `deq`. *)
From RS Require Import Lib.Tac Lib.Outcome Ty.Ty Core.Prog Infer.Constraints Infer.Unify Infer.Infer Infer.Principal Infer.Gen Infer.Theorems.
From Coq Require Import Permutation.
Import ListNotations.
Local Open Scope outcome_scope.

Section Dom.
  Variable D : Type.
  Variable deq : D -> D -> Prop.
  Variable done : D.
  Variable dsum dprod : D -> D -> D.
  Hypothesis deq_refl : forall a, deq a a.
  Hypothesis deq_sym : forall a b, deq a b -> deq b a.
  Hypothesis deq_trans : forall a b c, deq a b -> deq b c -> deq a c.
  Hypothesis dsum_cong : forall a b c d, deq a c -> deq b d -> deq (dsum a b) (dsum c d).
  Hypothesis dprod_cong : forall a b c d, deq a c -> deq b d -> deq (dprod a b) (dprod c d).
  Hypothesis dsum_inj : forall a b c d, deq (dsum a b) (dsum c d) -> deq a c /\ deq b d.
  Hypothesis dprod_inj : forall a b c d, deq (dprod a b) (dprod c d) -> deq a c /\ deq b d.
  Hypothesis one_sum : forall a b, ~ deq done (dsum a b).
  Hypothesis one_prod : forall a b, ~ deq done (dprod a b).
  Hypothesis sum_prod : forall a b c d, ~ deq (dsum a b) (dprod c d).

  Definition dval := nat -> D.

  Definition dholds (al : dval) (v : nat) (b : bnd) : Prop :=
    match b with
    | BFree => True
    | BLink w => deq (al v) (al w)
    | BOne => deq (al v) done
    | BSum a b => deq (al v) (dsum (al a) (al b))
    | BProd a b => deq (al v) (dprod (al a) (al b))
    end.

  Definition dsat (al : dval) (s : store) : Prop :=
    forall v, (v < length s)%nat -> dholds al v (sget s v).

  Definition deqs_hold (al : dval) (eqs : list (nat * nat)) : Prop :=
    forall x y, In (x, y) eqs -> deq (al x) (al y).

  (* a bound that holds for one of two equal values holds for the other *)
  Lemma dholds_transfer al v w b : (match b with BLink _ => False | _ => True end) ->
    deq (al v) (al w) -> dholds al w b -> dholds al v b.
  Proof. destruct b; cbn; intros N E H; try tauto; eapply deq_trans; eauto. Qed.

  Lemma dfind_f_sat s : wf s -> forall fuel v, (v < fuel)%nat -> (v < length s)%nat ->
    forall al, dsat al s -> deq (al (find_f fuel s v)) (al v).
  Proof.
    intros W. induction fuel as [|f IH]; intros v Hf Hv al Sa; [lia|].
    cbn [find_f]. destruct (sget s v) as [|w| |a b|a b] eqn:E; try apply deq_refl.
    pose proof (W v Hv) as Wv. rewrite E in Wv. cbn in Wv.
    pose proof (Sa v Hv) as Sv. rewrite E in Sv. cbn in Sv.
    eapply deq_trans; [apply IH; auto; lia|]. apply deq_sym. exact Sv.
  Qed.

  Lemma dfind_sat s v al : wf s -> (v < length s)%nat -> dsat al s -> deq (al (find s v)) (al v).
  Proof. intros W H Sa. apply dfind_f_sat; auto. Qed.

  Lemma dsat_link s lo hi al : dsat al s -> (hi < length s)%nat -> deq (al hi) (al lo) -> dsat al (supd s hi (BLink lo)).
  Proof.
    intros S Lhi E v Hv. rewrite supd_length in Hv. destruct (Nat.eq_dec hi v) as [<-|N].
    - rewrite sget_supd_eq by exact Lhi. exact E.
    - rewrite sget_supd_neq by exact N. apply S. exact Hv.
  Qed.

  (* from a model of the linked store back to the original one *)
  Lemma dsat_unlink s lo hi al : (hi < length s)%nat -> is_root s hi ->
    dsat al (supd s hi (BLink lo)) -> dholds al lo (sget s hi) -> dsat al s /\ deq (al hi) (al lo).
  Proof.
    intros Lhi Rhi S Hh.
    assert (E : deq (al hi) (al lo)).
    { pose proof (S hi ltac:(rewrite supd_length; exact Lhi)) as Sh.
      rewrite sget_supd_eq in Sh by exact Lhi. exact Sh. }
    split; [|exact E]. intros v Hv. destruct (Nat.eq_dec hi v) as [<-|Nv].
    - apply (dholds_transfer al hi lo); auto.
    - pose proof (S v ltac:(rewrite supd_length; exact Hv)) as Sv.
      rewrite sget_supd_neq in Sv by exact Nv. exact Sv.
  Qed.

  Lemma d_unify_sound : forall fuel s x y s',
    wf s -> (x < length s)%nat -> (y < length s)%nat ->
    unify fuel s x y = Ok s' ->
    forall al, dsat al s' -> dsat al s /\ deq (al x) (al y).
  Proof.
    induction fuel as [|f IH]; intros s x y s' W Hx Hy U; [discriminate|].
    cbn [unify] in U.
    pose proof (find_root s x W Hx) as Rx. pose proof (find_root s y W Hy) as Ry.
    pose proof (find_lt s x W Hx) as Lx. pose proof (find_lt s y W Hy) as Ly.
    assert (FS : forall al, dsat al s -> deq (al (find s x)) (al x) /\ deq (al (find s y)) (al y)).
    { intros al S. split; apply dfind_sat; auto. }
    set (rx := find s x) in *. set (ry := find s y) in *.
    destruct (Nat.eqb rx ry) eqn:Eq.
    { apply Nat.eqb_eq in Eq. injection U as <-. intros al S. split; [exact S|].
      destruct (FS al S) as [A B]. rewrite Eq in A. eapply deq_trans; [apply deq_sym; exact A|exact B]. }
    apply Nat.eqb_neq in Eq.
    assert (exists lo hi, Nat.min rx ry = lo /\ Nat.max rx ry = hi /\ (lo < hi)%nat /\
              (lo < length s)%nat /\ (hi < length s)%nat /\ is_root s lo /\ is_root s hi /\
              (forall al : dval, deq (al hi) (al lo) -> deq (al rx) (al ry))) as (lo & hi & El & Eh & Llh & Llo & Lhi & Rlo & Rhi & Eqv).
    { destruct (Nat.lt_ge_cases rx ry).
      - exists rx, ry. rewrite Nat.min_l, Nat.max_r by lia. repeat split; auto.
      - exists ry, rx. rewrite Nat.min_r, Nat.max_l by lia. repeat split; auto; lia. }
    rewrite El, Eh in U. clear El Eh.
    assert (W1 : wf (supd s hi (BLink lo))) by (apply wf_supd; auto; cbn; exact Llh).
    assert (Fin : forall al, dsat al s -> deq (al hi) (al lo) -> dsat al s /\ deq (al x) (al y)).
    { intros al S E. split; [exact S|]. destruct (FS al S) as [A B].
      eapply deq_trans; [apply deq_sym; exact A|]. eapply deq_trans; [apply Eqv; exact E|exact B]. }
    destruct (sget s lo) as [|wl| |a b|a b] eqn:Elo.
    - (* lo free: it takes the bound of hi *)
      injection U as <-. intros al S.
      assert (E : deq (al hi) (al lo)).
      { pose proof (S hi ltac:(rewrite !supd_length; exact Lhi)) as Sh.
        rewrite sget_supd_eq in Sh by (rewrite supd_length; exact Lhi). exact Sh. }
      assert (Hlo : dholds al lo (sget s hi)).
      { pose proof (S lo ltac:(rewrite !supd_length; exact Llo)) as Sl.
        rewrite sget_supd_neq in Sl by lia. rewrite sget_supd_eq in Sl by exact Llo. exact Sl. }
      apply Fin; [|exact E].
      intros v Hv. destruct (Nat.eq_dec hi v) as [<-|Nh].
      + apply (dholds_transfer al hi lo); auto.
      + destruct (Nat.eq_dec lo v) as [<-|Nl]; [rewrite Elo; exact I|].
        pose proof (S v ltac:(rewrite !supd_length; exact Hv)) as Sv.
        rewrite !sget_supd_neq in Sv by assumption. exact Sv.
    - unfold is_root in Rlo. rewrite Elo in Rlo. tauto.
    - (* lo unit *)
      destruct (sget s hi) as [|wh| |c d|c d] eqn:Ehi; try discriminate; injection U as <-; intros al S.
      + destruct (dsat_unlink s lo hi al Lhi Rhi S) as [S0 E]; [rewrite Ehi; exact I|]. apply Fin; assumption.
      + assert (Hlo : deq (al lo) done).
        { pose proof (S lo ltac:(rewrite supd_length; exact Llo)) as Sl.
          rewrite sget_supd_neq in Sl by lia. rewrite Elo in Sl. exact Sl. }
        destruct (dsat_unlink s lo hi al Lhi Rhi S) as [S0 E]; [rewrite Ehi; exact Hlo|]. apply Fin; assumption.
    - (* lo sum *)
      destruct (sget s hi) as [|wh| |c d|c d] eqn:Ehi; try discriminate.
      + injection U as <-. intros al S.
        destruct (dsat_unlink s lo hi al Lhi Rhi S) as [S0 E]; [rewrite Ehi; exact I|]. apply Fin; assumption.
      + pose proof (W lo Llo) as Wlo. rewrite Elo in Wlo. cbn in Wlo.
        pose proof (W hi Lhi) as Whi. rewrite Ehi in Whi. cbn in Whi.
        destruct (unify f (supd s hi (BLink lo)) a c) as [s2| | |] eqn:U2; cbn [obind] in U; try discriminate.
        destruct (unify_sound f (supd s hi (BLink lo)) a c s2 W1 ltac:(rewrite supd_length; tauto) ltac:(rewrite supd_length; tauto) U2)
          as (W2 & L2 & _ & _).
        rewrite supd_length in L2.
        intros al S.
        destruct (IH s2 b d s' W2 ltac:(rewrite L2; tauto) ltac:(rewrite L2; tauto) U al S) as [S2 Ebd].
        destruct (IH (supd s hi (BLink lo)) a c s2 W1 ltac:(rewrite supd_length; tauto) ltac:(rewrite supd_length; tauto) U2 al S2)
          as [S1' Eac].
        assert (Hlo : deq (al lo) (dsum (al a) (al b))).
        { pose proof (S1' lo ltac:(rewrite supd_length; exact Llo)) as Sl.
          rewrite sget_supd_neq in Sl by lia. rewrite Elo in Sl. exact Sl. }
        assert (Hh : dholds al lo (BSum c d)).
        { cbn. eapply deq_trans; [exact Hlo|]. apply dsum_cong; assumption. }
        destruct (dsat_unlink s lo hi al Lhi Rhi S1') as [S0 E]; [rewrite Ehi; exact Hh|]. apply Fin; assumption.
    - (* lo product *)
      destruct (sget s hi) as [|wh| |c d|c d] eqn:Ehi; try discriminate.
      + injection U as <-. intros al S.
        destruct (dsat_unlink s lo hi al Lhi Rhi S) as [S0 E]; [rewrite Ehi; exact I|]. apply Fin; assumption.
      + pose proof (W lo Llo) as Wlo. rewrite Elo in Wlo. cbn in Wlo.
        pose proof (W hi Lhi) as Whi. rewrite Ehi in Whi. cbn in Whi.
        destruct (unify f (supd s hi (BLink lo)) a c) as [s2| | |] eqn:U2; cbn [obind] in U; try discriminate.
        destruct (unify_sound f (supd s hi (BLink lo)) a c s2 W1 ltac:(rewrite supd_length; tauto) ltac:(rewrite supd_length; tauto) U2)
          as (W2 & L2 & _ & _).
        rewrite supd_length in L2.
        intros al S.
        destruct (IH s2 b d s' W2 ltac:(rewrite L2; tauto) ltac:(rewrite L2; tauto) U al S) as [S2 Ebd].
        destruct (IH (supd s hi (BLink lo)) a c s2 W1 ltac:(rewrite supd_length; tauto) ltac:(rewrite supd_length; tauto) U2 al S2)
          as [S1' Eac].
        assert (Hlo : deq (al lo) (dprod (al a) (al b))).
        { pose proof (S1' lo ltac:(rewrite supd_length; exact Llo)) as Sl.
          rewrite sget_supd_neq in Sl by lia. rewrite Elo in Sl. exact Sl. }
        assert (Hh : dholds al lo (BProd c d)).
        { cbn. eapply deq_trans; [exact Hlo|]. apply dprod_cong; assumption. }
        destruct (dsat_unlink s lo hi al Lhi Rhi S1') as [S0 E]; [rewrite Ehi; exact Hh|]. apply Fin; assumption.
  Qed.

  Lemma d_unify_complete : forall fuel s x y al,
    wf s -> (x < length s)%nat -> (y < length s)%nat -> (nroots s < fuel)%nat ->
    dsat al s -> deq (al x) (al y) ->
    exists s', unify fuel s x y = Ok s' /\ dsat al s'.
  Proof.
    induction fuel as [|f IH]; intros s x y al W Hx Hy Hf S E; [lia|].
    cbn [unify].
    pose proof (find_root s x W Hx) as Rx. pose proof (find_root s y W Hy) as Ry.
    pose proof (find_lt s x W Hx) as Lx. pose proof (find_lt s y W Hy) as Ly.
    assert (Er : deq (al (find s x)) (al (find s y))).
    { eapply deq_trans; [apply dfind_sat; auto|]. eapply deq_trans; [exact E|]. apply deq_sym. apply dfind_sat; auto. }
    set (rx := find s x) in *. set (ry := find s y) in *.
    destruct (Nat.eqb rx ry) eqn:Eq; [eexists; split; [reflexivity|exact S]|].
    apply Nat.eqb_neq in Eq.
    assert (exists lo hi, Nat.min rx ry = lo /\ Nat.max rx ry = hi /\ (lo < hi)%nat /\
              (lo < length s)%nat /\ (hi < length s)%nat /\ is_root s lo /\ is_root s hi /\
              deq (al hi) (al lo)) as (lo & hi & El & Eh & Llh & Llo & Lhi & Rlo & Rhi & Ehl).
    { destruct (Nat.lt_ge_cases rx ry).
      - exists rx, ry. rewrite Nat.min_l, Nat.max_r by lia. repeat split; auto.
      - exists ry, rx. rewrite Nat.min_r, Nat.max_l by lia. repeat split; auto; lia. }
    rewrite El, Eh. clear El Eh.
    pose proof (S lo Llo) as Slo. pose proof (S hi Lhi) as Shi.
    assert (S1 : dsat al (supd s hi (BLink lo))) by (apply dsat_link; assumption).
    assert (W1 : wf (supd s hi (BLink lo))) by (apply wf_supd; auto; cbn; exact Llh).
    assert (N1 : (nroots (supd s hi (BLink lo)) + 1 = nroots s)%nat).
    { pose proof (nroots_supd s hi (BLink lo) Lhi) as N. unfold is_root in Rhi.
      destruct (sget s hi); cbn in *; try tauto; lia. }
    destruct (sget s lo) as [|wl| |a b|a b] eqn:Elo.
    - eexists; split; [reflexivity|].
      apply dsat_link; [|rewrite supd_length; exact Lhi|exact Ehl].
      intros v Hv. rewrite supd_length in Hv. destruct (Nat.eq_dec lo v) as [<-|N].
      + rewrite sget_supd_eq by exact Llo. apply (dholds_transfer al lo hi); auto.
      + rewrite sget_supd_neq by exact N. apply S. exact Hv.
    - unfold is_root in Rlo. rewrite Elo in Rlo. tauto.
    - cbn in Slo. destruct (sget s hi) as [|wh| |c d|c d] eqn:Ehi; cbn in Shi;
        try (eexists; split; [reflexivity|exact S1]).
      + unfold is_root in Rhi. rewrite Ehi in Rhi. tauto.
      + exfalso. apply (one_sum (al c) (al d)). eapply deq_trans; [apply deq_sym; exact Slo|].
        eapply deq_trans; [apply deq_sym; exact Ehl|exact Shi].
      + exfalso. apply (one_prod (al c) (al d)). eapply deq_trans; [apply deq_sym; exact Slo|].
        eapply deq_trans; [apply deq_sym; exact Ehl|exact Shi].
    - cbn in Slo. destruct (sget s hi) as [|wh| |c d|c d] eqn:Ehi; cbn in Shi;
        try (eexists; split; [reflexivity|exact S1]).
      + unfold is_root in Rhi. rewrite Ehi in Rhi. tauto.
      + exfalso. apply (one_sum (al a) (al b)). eapply deq_trans; [apply deq_sym; exact Shi|].
        eapply deq_trans; [exact Ehl|exact Slo].
      + pose proof (W lo Llo) as Wlo. rewrite Elo in Wlo. cbn in Wlo.
        pose proof (W hi Lhi) as Whi. rewrite Ehi in Whi. cbn in Whi.
        assert (Eac : deq (al a) (al c) /\ deq (al b) (al d)).
        { apply dsum_inj. eapply deq_trans; [apply deq_sym; exact Slo|].
          eapply deq_trans; [apply deq_sym; exact Ehl|exact Shi]. }
        destruct (IH (supd s hi (BLink lo)) a c al W1 ltac:(rewrite supd_length; tauto)
                    ltac:(rewrite supd_length; tauto) ltac:(lia) S1 (proj1 Eac)) as (s2 & U2 & S2).
        rewrite U2. cbn [obind].
        destruct (unify_sound f (supd s hi (BLink lo)) a c s2 W1 ltac:(rewrite supd_length; tauto)
                    ltac:(rewrite supd_length; tauto) U2) as (W2 & L2 & N2 & _).
        rewrite supd_length in L2.
        apply IH; auto; try (rewrite L2; tauto); lia || exact (proj2 Eac).
      + exfalso. apply (sum_prod (al a) (al b) (al c) (al d)). eapply deq_trans; [apply deq_sym; exact Slo|].
        eapply deq_trans; [apply deq_sym; exact Ehl|exact Shi].
    - cbn in Slo. destruct (sget s hi) as [|wh| |c d|c d] eqn:Ehi; cbn in Shi;
        try (eexists; split; [reflexivity|exact S1]).
      + unfold is_root in Rhi. rewrite Ehi in Rhi. tauto.
      + exfalso. apply (one_prod (al a) (al b)). eapply deq_trans; [apply deq_sym; exact Shi|].
        eapply deq_trans; [exact Ehl|exact Slo].
      + exfalso. apply (sum_prod (al c) (al d) (al a) (al b)). eapply deq_trans; [apply deq_sym; exact Shi|].
        eapply deq_trans; [exact Ehl|exact Slo].
      + pose proof (W lo Llo) as Wlo. rewrite Elo in Wlo. cbn in Wlo.
        pose proof (W hi Lhi) as Whi. rewrite Ehi in Whi. cbn in Whi.
        assert (Eac : deq (al a) (al c) /\ deq (al b) (al d)).
        { apply dprod_inj. eapply deq_trans; [apply deq_sym; exact Slo|].
          eapply deq_trans; [apply deq_sym; exact Ehl|exact Shi]. }
        destruct (IH (supd s hi (BLink lo)) a c al W1 ltac:(rewrite supd_length; tauto)
                    ltac:(rewrite supd_length; tauto) ltac:(lia) S1 (proj1 Eac)) as (s2 & U2 & S2).
        rewrite U2. cbn [obind].
        destruct (unify_sound f (supd s hi (BLink lo)) a c s2 W1 ltac:(rewrite supd_length; tauto)
                    ltac:(rewrite supd_length; tauto) U2) as (W2 & L2 & N2 & _).
        rewrite supd_length in L2.
        apply IH; auto; try (rewrite L2; tauto); lia || exact (proj2 Eac).
  Qed.

  Lemma d_solve_sound : forall eqs s s', wf s -> eqs_in (length s) eqs -> solve s eqs = Ok s' ->
    forall al, dsat al s' -> dsat al s /\ deqs_hold al eqs.
  Proof.
    induction eqs as [|[x y] r IH]; intros s s' W In_ U al Sa.
    - injection U as <-. split; [exact Sa|]. intros ? ? [].
    - cbn [solve] in U. destruct (unify_top s x y) as [s1| | |] eqn:U1; cbn [obind] in U; try discriminate.
      destruct (In_ x y (or_introl eq_refl)) as [Hx Hy].
      destruct (unify_sound _ _ _ _ _ W Hx Hy U1) as (W1 & L1 & _ & _).
      destruct (IH s1 s' W1 ltac:(rewrite L1; intros a b Hab; apply In_; right; exact Hab) U al Sa) as [S1 Er].
      destruct (d_unify_sound _ _ _ _ _ W Hx Hy U1 al S1) as [S0 Exy].
      split; [exact S0|]. intros a b [Hab|Hab]; [injection Hab as <- <-; exact Exy|apply Er; exact Hab].
  Qed.

  Lemma d_solve_complete : forall eqs s al, wf s -> eqs_in (length s) eqs -> dsat al s -> deqs_hold al eqs ->
    exists s', solve s eqs = Ok s' /\ dsat al s'.
  Proof.
    induction eqs as [|[x y] r IH]; intros s al W In_ Sa E.
    - eexists; split; [reflexivity|exact Sa].
    - cbn [solve]. destruct (In_ x y (or_introl eq_refl)) as [Hx Hy].
      destruct (d_unify_complete (S (nroots s)) s x y al W Hx Hy ltac:(lia) Sa (E x y (or_introl eq_refl)))
        as (s1 & U1 & S1).
      unfold unify_top. rewrite U1. cbn [obind].
      destruct (unify_sound _ _ _ _ _ W Hx Hy U1) as (W1 & L1 & _ & _).
      apply IH; auto.
      + rewrite L1. intros a b Hab. apply In_. right. exact Hab.
      + intros a b Hab. apply E. right. exact Hab.
  Qed.
End Dom.

(* ================================================================== the domain of trees *)

Inductive lab : Type := LOne | LSum | LProd.

(* a possibly infinite binary tree: the label at every path (false = left), None = no node there *)
Definition itree := list bool -> option lab.

Definition teq (t u : itree) : Prop := forall p, t p = u p.

Definition tone : itree := fun p => match p with [] => Some LOne | _ => None end.

Definition tnode (l : lab) (a b : itree) : itree :=
  fun p => match p with
           | [] => Some l
           | false :: q => a q
           | true :: q => b q
           end.

Definition tsum := tnode LSum.
Definition tprod := tnode LProd.

Lemma teq_refl a : teq a a. Proof. intros p. reflexivity. Qed.
Lemma teq_sym a b : teq a b -> teq b a. Proof. intros H p. symmetry. apply H. Qed.
Lemma teq_trans a b c : teq a b -> teq b c -> teq a c. Proof. intros H1 H2 p. rewrite H1. apply H2. Qed.
Lemma tnode_cong l a b c d : teq a c -> teq b d -> teq (tnode l a b) (tnode l c d).
Proof. intros H1 H2 [|[|] q]; cbn; auto. Qed.
Lemma tnode_inj l a b c d : teq (tnode l a b) (tnode l c d) -> teq a c /\ teq b d.
Proof. intros H. split; intros q; [apply (H (false :: q))|apply (H (true :: q))]. Qed.
Lemma tone_node l a b : l <> LOne -> ~ teq tone (tnode l a b).
Proof. intros N H. specialize (H []). cbn in H. congruence. Qed.
Lemma tnode_distinct a b c d : ~ teq (tsum a b) (tprod c d).
Proof. intros H. specialize (H []). cbn in H. discriminate. Qed.

Definition tval := nat -> itree.
Definition tsat : tval -> store -> Prop := dsat itree teq tone tsum tprod.
Definition teqs_hold : tval -> list (nat * nat) -> Prop := deqs_hold itree teq.

(* the store and the equations are consistent: they have a model in (possibly infinite) trees *)
Definition consistent (s : store) (eqs : list (nat * nat)) : Prop :=
  exists al, tsat al s /\ teqs_hold al eqs.

Ltac dom_hyps :=
  try exact teq_refl; try exact teq_sym; try exact teq_trans;
  try exact (tnode_cong LSum); try exact (tnode_cong LProd);
  try exact (tnode_inj LSum); try exact (tnode_inj LProd);
  try (intros a b; apply tone_node; discriminate); try exact tnode_distinct.

Lemma t_solve_sound eqs s s' : wf s -> eqs_in (length s) eqs -> solve s eqs = Ok s' ->
  forall al, tsat al s' -> tsat al s /\ teqs_hold al eqs.
Proof. apply d_solve_sound; dom_hyps. Qed.

Lemma t_solve_complete eqs s al : wf s -> eqs_in (length s) eqs -> tsat al s -> teqs_hold al eqs ->
  exists s', solve s eqs = Ok s' /\ tsat al s'.
Proof. apply d_solve_complete; dom_hyps. Qed.

(* ---- every well-formed store has a model in trees: walk the store along the path *)
Fixpoint walk (s : store) (v : nat) (p : list bool) : option lab :=
  match p with
  | [] => match sget s (find s v) with
          | BFree | BOne => Some LOne
          | BSum _ _ => Some LSum
          | BProd _ _ => Some LProd
          | BLink _ => None
          end
  | d :: q => match sget s (find s v) with
              | BSum a b | BProd a b => walk s (if d then b else a) q
              | _ => None
              end
  end.

Lemma walk_same_root s v w : find s v = find s w -> teq (walk s v) (walk s w).
Proof. intros E [|d q]; cbn [walk]; rewrite E; reflexivity. Qed.

Lemma walk_model s : wf s -> tsat (walk s) s.
Proof.
  intros W v Hv. destruct (sget s v) as [|w| |a b|a b] eqn:E; cbn [dholds]; auto.
  - apply walk_same_root. apply find_link; assumption.
  - assert (F : find s v = v) by (apply find_of_root; unfold is_root; rewrite E; exact I).
    intros [|d q]; cbn [walk tone]; rewrite F, E; reflexivity.
  - assert (F : find s v = v) by (apply find_of_root; unfold is_root; rewrite E; exact I).
    intros [|[|] q]; cbn [walk tsum tnode]; rewrite F, E; reflexivity.
  - assert (F : find s v = v) by (apply find_of_root; unfold is_root; rewrite E; exact I).
    intros [|[|] q]; cbn [walk tprod tnode]; rewrite F, E; reflexivity.
Qed.

(* ---- the characterisations *)
Theorem solve_ok_iff s eqs : wf s -> eqs_in (length s) eqs ->
  ((exists s', solve s eqs = Ok s') <-> consistent s eqs).
Proof.
  intros W In_. split.
  - intros (s' & U). destruct (solve_sound _ _ _ W In_ U) as (W' & _ & _).
    exists (walk s'). apply (t_solve_sound eqs s s' W In_ U). apply walk_model. exact W'.
  - intros (al & Sa & E). destruct (t_solve_complete eqs s al W In_ Sa E) as (s' & U & _). eauto.
Qed.

Theorem solve_err_iff s eqs : wf s -> eqs_in (length s) eqs ->
  (solve s eqs = Err tt <-> ~ consistent s eqs).
Proof.
  intros W In_. pose proof (solve_total eqs s W In_) as T. pose proof (solve_ok_iff s eqs W In_) as O.
  destruct (solve s eqs) as [s'|[]| |] eqn:U; try contradiction.
  - split; [discriminate|]. intros N. exfalso. apply N. apply O. eauto.
  - split; [|reflexivity]. intros _ C. apply O in C. destruct C as (s' & C). discriminate.
Qed.

(* consistency only depends on the SET of equations *)
Lemma consistent_incl s eqs eqs' : (forall e, In e eqs' -> In e eqs) -> consistent s eqs -> consistent s eqs'.
Proof. intros I (al & Sa & E). exists al. split; [exact Sa|]. intros x y H. apply E. apply I. exact H. Qed.

Definition same_members {A} (l l' : list A) : Prop := forall e, In e l <-> In e l'.

Lemma perm_same_members {A} (l l' : list A) : Permutation l l' -> same_members l l'.
Proof. intros P e. split; [apply Permutation_in; exact P|apply Permutation_in; apply Permutation_sym; exact P]. Qed.

Lemma eqs_in_members n eqs eqs' : same_members eqs eqs' -> eqs_in n eqs -> eqs_in n eqs'.
Proof. intros M I x y H. apply I. apply M. exact H. Qed.

(* finite models are the same as well, hence the occurs check and the resolved types *)
Lemma res_agree s1 s2 : wf s1 -> wf s2 -> length s1 = length s2 ->
  (forall al, sat al s1 <-> sat al s2) ->
  occurs_ok s1 = occurs_ok s2 /\
  (occurs_ok s1 = true -> forall v, (v < length s1)%nat -> res s1 v = res s2 v).
Proof.
  intros W1 W2 L M.
  assert (O : occurs_ok s1 = true <-> occurs_ok s2 = true).
  { split; intros O.
    - apply (sat_occurs_ok s2 (assign s1) W2). apply M. apply assign_sat; assumption.
    - apply (sat_occurs_ok s1 (assign s2) W1). apply M. apply assign_sat; assumption. }
  split.
  - destruct (occurs_ok s1), (occurs_ok s2); try reflexivity.
    + symmetry. apply O. reflexivity.
    + apply O. reflexivity.
  - intros O1 v Hv. pose proof (proj1 O O1) as O2.
    destruct (occurs_ok_spec s1 O1 v Hv) as (t1 & R1).
    destruct (occurs_ok_spec s2 O2 v ltac:(lia)) as (t2 & R2).
    rewrite R1, R2. f_equal. apply ty_le_antisym.
    + pose proof (resolve_least s1 (assign s2) W1 (proj2 (M _) (assign_sat s2 W2 O2)) _ v t1 Hv R1) as Le.
      unfold assign in Le. rewrite R2 in Le. exact Le.
    + pose proof (resolve_least s2 (assign s1) W2 (proj1 (M _) (assign_sat s1 W1 O1)) _ v t2 ltac:(lia) R2) as Le.
      unfold assign in Le. rewrite R1 in Le. exact Le.
Qed.

(* The outcome CLASS of solving does not depend on the order (or multiplicity) of the equations:
   a clash (Error::Bind) / a solved store that fails the occurs check (Error::OccursCheck) / a solved
   store that passes it, and then every variable resolves to the same type. *)
Theorem solve_perm_class s eqs eqs' : wf s -> eqs_in (length s) eqs -> same_members eqs eqs' ->
  match solve s eqs, solve s eqs' with
  | Ok s1, Ok s2 =>
      occurs_ok s1 = occurs_ok s2 /\
      (occurs_ok s1 = true -> forall v, (v < length s)%nat -> res s1 v = res s2 v)
  | Err _, Err _ => True
  | _, _ => False
  end.
Proof.
  intros W In_ M. pose proof (eqs_in_members _ _ _ M In_) as In'.
  pose proof (solve_total eqs s W In_) as T. pose proof (solve_total eqs' s W In') as T'.
  pose proof (solve_ok_iff s eqs W In_) as O. pose proof (solve_ok_iff s eqs' W In') as O'.
  assert (C : consistent s eqs <-> consistent s eqs').
  { split; apply consistent_incl; intros e H; apply M; exact H. }
  destruct (solve s eqs) as [s1|e| |] eqn:U; destruct (solve s eqs') as [s2|e'| |] eqn:U'; try contradiction; auto.
  - destruct (solve_sound _ _ _ W In_ U) as (W1 & L1 & _). destruct (solve_sound _ _ _ W In' U') as (W2 & L2 & _).
    destruct (res_agree s1 s2 W1 W2 ltac:(congruence)) as [A B].
    + intros al. rewrite (solve_exact s s1 eqs W In_ U al), (solve_exact s s2 eqs' W In' U' al).
      split; intros [Sa E]; (split; [exact Sa|]); intros x y H; apply E; apply M; exact H.
    + split; [exact A|]. intros O1 v Hv. apply B; [exact O1|lia].
  - assert (X : exists s', @Err unit store e' = Ok s') by (apply O', C, O; eauto). destruct X as (s' & X). discriminate.
  - assert (X : exists s', @Err unit store e = Ok s') by (apply O, C, O'; eauto). destruct X as (s' & X). discriminate.
Qed.

(* what DOES depend on the order: the equation that reports the clash is the last one of the shortest
   inconsistent prefix *)
Lemma solve_app s e1 e2 : solve s (e1 ++ e2) = (s1 <- solve s e1 ;; solve s1 e2).
Proof.
  revert s. induction e1 as [|[x y] r IH]; intros s; [reflexivity|].
  cbn [app solve]. destruct (unify_top s x y); cbn [obind]; auto.
Qed.

Theorem solve_first_failure s eqs : wf s -> eqs_in (length s) eqs ->
  (solve s eqs = Err tt <->
   exists k x y, nth_error eqs k = Some (x, y) /\ consistent s (firstn k eqs) /\ ~ consistent s (firstn (S k) eqs)).
Proof.
  intros W In_. split.
  - revert s W In_. induction eqs as [|[x y] r IH] using rev_ind; intros s W In_ U; [discriminate|].
    assert (Ir : eqs_in (length s) r) by (intros a b H; apply In_; apply in_or_app; left; exact H).
    pose proof (solve_total r s W Ir) as T.
    destruct (solve s r) as [s1|[]| |] eqn:U1; try contradiction.
    + exists (length r), x, y. split; [rewrite nth_error_app2, Nat.sub_diag by lia; reflexivity|].
      split.
      * rewrite firstn_app, Nat.sub_diag, firstn_all, firstn_O, app_nil_r. apply (solve_ok_iff s r W Ir). eauto.
      * rewrite firstn_all2 by (rewrite app_length; cbn; lia). apply (solve_err_iff _ _ W In_). exact U.
    + destruct (IH s W Ir U1) as (k & a & b & Hk & C1 & C2).
      assert (Lk : (k < length r)%nat) by (apply nth_error_Some; congruence).
      exists k, a, b. split; [rewrite nth_error_app1 by exact Lk; exact Hk|].
      rewrite !firstn_app. replace (k - length r)%nat with 0%nat by lia.
      replace (S k - length r)%nat with 0%nat by lia. rewrite !firstn_O, !app_nil_r. tauto.
  - intros (k & x & y & Hk & _ & C2). apply (solve_err_iff s eqs W In_). intros C. apply C2.
    apply (consistent_incl s eqs); [|exact C]. intros e H. rewrite <- (firstn_skipn (S k) eqs). apply in_or_app. left. exact H.
Qed.
