(* RedeemNode::prune as it is after commit 5d14513: the one-pass pruning of PruneProg.v is repeated,
   with a fresh tracker, until the program no longer changes.
     src/node/redeem.rs  RedeemNode::prune (loop), prune_with_tracker (one pass)
   Every round runs the current program (same output, same events as the first run: prune_eval),
   asks the tracker by the identity classes (IHR) of the CURRENT program - these change from round to
   round because types are re-inferred - and prunes structurally.  The classes of every round are
   data handed to the model ([ids]); re-typing itself is not modelled.  With constant classes a
   second round never changes anything (prune_idem): the loop only matters because classes change. *)
From RS Require Import Lib.Tac Lib.Outcome Lib.Bits Ty.Ty Core.Prog Redeem.Finalize Redeem.PruneProg.
Import ListNotations.
Local Open Scope N_scope.

Section Fix.

Variable HS : hashes.
Variable jet_sem : N -> N -> sval -> option sval.
Variable hash_val : list N -> sval.

(* the programs after each round; [ids] = identity classes of the program each round starts from *)
Definition prune_rounds (ids : list (nat -> nat)) (p : rprog) (E : list event) : rprog :=
  fold_left (fun q id => prune_struct HS id q E) ids p.

(* ------------------------------------------------------------------ well-formedness is kept *)

Lemma pnode_children_ok C ident T i n k :
  forallb (fun c => Nat.ltb c k) (rchildren n) = true ->
  forallb (fun c => Nat.ltb c k) (rchildren (pnode ident C T i n)) = true.
Proof.
  destruct n; cbn [pnode]; auto.
  destruct (taken ident T i false), (taken ident T i true); cbn [rchildren forallb]; auto;
    rewrite !andb_true_iff; intros (A & B & _); auto.
Qed.

Lemma prune_from_rwf C ident T : forall rest i,
  rwf_from i rest = true -> rwf_from i (prune_from ident C T i rest) = true.
Proof.
  induction rest as [|n tl IH]; intros i H; cbn [prune_from rwf_from] in *; [reflexivity|].
  apply andb_true_iff in H. destruct H as [A B]. apply andb_true_iff. split.
  - apply pnode_children_ok. exact A.
  - apply IH. exact B.
Qed.

Lemma prune_struct_rwf ident p T : rwf p = true -> rwf (prune_struct HS ident p T) = true.
Proof. unfold rwf, prune_struct. apply prune_from_rwf. Qed.

Lemma prune_rounds_rwf ids : forall p E, rwf p = true -> rwf (prune_rounds ids p E) = true.
Proof.
  induction ids as [|id tl IH]; intros p E H; cbn [prune_rounds fold_left]; [exact H|].
  apply IH. apply prune_struct_rwf. exact H.
Qed.

(* ------------------------------------------------------------------ roots and behaviour *)

Theorem prune_rounds_cmr ids : forall p E, rwf p = true ->
  root_cmr HS (prune_rounds ids p E) = root_cmr HS p.
Proof.
  induction ids as [|id tl IH]; intros p E H; cbn [prune_rounds fold_left]; [reflexivity|].
  fold (prune_rounds tl (prune_struct HS id p E) E).
  rewrite IH by (apply prune_struct_rwf; exact H). apply prune_cmr. exact H.
Qed.

Theorem prune_rounds_eval ids : forall p o E, rwf p = true ->
  run HS jet_sem hash_val p = Ok (o, E) ->
  run HS jet_sem hash_val (prune_rounds ids p E) = Ok (o, E).
Proof.
  induction ids as [|id tl IH]; intros p o E H R; cbn [prune_rounds fold_left]; [exact R|].
  fold (prune_rounds tl (prune_struct HS id p E) E).
  apply IH; [apply prune_struct_rwf; exact H|]. apply prune_eval; assumption.
Qed.

(* ------------------------------------------------------------------ how many rounds can change the program *)

Definition is_case (n : rnode) : bool := match n with RCase _ _ => true | _ => false end.
Definition count_case (p : rprog) : nat := length (filter is_case p).

Lemma rnode_eq_dec (a b : rnode) : {a = b} + {a <> b}.
Proof.
  assert (Dn : forall x y : nat, {x = y} + {x <> y}) by apply Nat.eq_dec.
  assert (DN : forall x y : N, {x = y} + {x <> y}) by apply N.eq_dec.
  assert (DlN : forall x y : list N, {x = y} + {x <> y}) by (apply list_eq_dec; exact DN).
  assert (Db : forall x y : list bool, {x = y} + {x <> y}) by (apply list_eq_dec; apply bool_dec).
  assert (Dt : forall x y : ty, {x = y} + {x <> y}) by apply ty_eq_dec.
  assert (Dv : forall x y : sval, {x = y} + {x <> y}) by (decide equality).
  assert (Dc : forall x y : cval, {x = y} + {x <> y}) by (decide equality).
  decide equality.
Defined.

Definition rprog_eq_dec : forall a b : rprog, {a = b} + {a <> b} := list_eq_dec rnode_eq_dec.

(* a round that changes the program turns at least one case node into an assertion *)
Lemma prune_from_count C ident T : forall rest i,
  (count_case (prune_from ident C T i rest) <= count_case rest)%nat /\
  (prune_from ident C T i rest <> rest ->
   (count_case (prune_from ident C T i rest) < count_case rest)%nat).
Proof.
  unfold count_case. induction rest as [|n tl IH]; intros i; cbn [prune_from]; [split; [lia|congruence]|].
  destruct (IH (S i)) as [Le Lt].
  assert (K : pnode ident C T i n = n \/ (is_case n = true /\ is_case (pnode ident C T i n) = false)).
  { destruct n; cbn [pnode]; auto. destruct (taken ident T i false), (taken ident T i true); cbn; auto. }
  destruct K as [K|[K1 K2]].
  - rewrite K. cbn [filter]. destruct (is_case n); cbn [length].
    + split; [lia|]. intros Hne. assert (prune_from ident C T (S i) tl <> tl) by congruence.
      specialize (Lt H). lia.
    + split; [lia|]. intros Hne. assert (prune_from ident C T (S i) tl <> tl) by congruence. auto.
  - cbn [filter]. rewrite K1, K2. cbn [length]. split; lia.
Qed.

Lemma prune_struct_count ident p T :
  (count_case (prune_struct HS ident p T) <= count_case p)%nat /\
  (prune_struct HS ident p T <> p -> (count_case (prune_struct HS ident p T) < count_case p)%nat).
Proof. unfold prune_struct. apply prune_from_count. Qed.

(* number of rounds that change the program *)
Fixpoint changes (ids : list (nat -> nat)) (p : rprog) (E : list event) : nat :=
  match ids with
  | [] => 0
  | id :: tl =>
      let q := prune_struct HS id p E in
      ((if rprog_eq_dec q p then 0 else 1) + changes tl q E)%nat
  end.

(* whatever the identity classes of the rounds are, at most as many rounds change the program as it
   has case nodes: the loop of RedeemNode::prune cannot go on changing the structure *)
Theorem prune_rounds_bound ids : forall p E,
  (changes ids p E + count_case (prune_rounds ids p E) <= count_case p)%nat.
Proof.
  induction ids as [|id tl IH]; intros p E; cbn [changes prune_rounds fold_left]; [lia|].
  fold (prune_rounds tl (prune_struct HS id p E) E).
  specialize (IH (prune_struct HS id p E) E).
  destruct (prune_struct_count id p E) as [Le Lt].
  destruct (rprog_eq_dec (prune_struct HS id p E) p) as [Eq|Ne]; [lia|]. specialize (Lt Ne). lia.
Qed.

Corollary prune_rounds_some_stable ids p E : (count_case p < length ids)%nat ->
  (changes ids p E < length ids)%nat.
Proof. intros H. pose proof (prune_rounds_bound ids p E). lia. Qed.

(* with the same classes a second round changes nothing: only re-typing makes further rounds necessary *)
Theorem prune_rounds_same_ident id n p E :
  prune_rounds (repeat id (S n)) p E = prune_struct HS id p E.
Proof.
  induction n as [|n IH]; [reflexivity|].
  change (repeat id (S (S n))) with (id :: repeat id (S n)).
  cbn [prune_rounds fold_left]. fold (prune_rounds (repeat id (S n)) (prune_struct HS id p E) E).
  change (repeat id (S n)) with (id :: repeat id n) in *.
  cbn [prune_rounds fold_left] in IH |- *.
  fold (prune_rounds (repeat id n) (prune_struct HS id p E) E) in IH.
  fold (prune_rounds (repeat id n) (prune_struct HS id (prune_struct HS id p E) E) E).
  rewrite prune_idem. exact IH.
Qed.

(* ------------------------------------------------------------------ the fixed point passes the anti-DoS rule *)

(* identity classes respect the structure: nodes of one class have the same form and their children
   are pairwise in one class (equal IHR means equal form and equal IHRs of the children) *)
Definition same_shape (ident : nat -> nat) (a b : rnode) : Prop :=
  match a, b with
  | RIden, RIden | RUnit, RUnit => True
  | RInjL c, RInjL c' | RInjR c, RInjR c' | RTake c, RTake c' | RDrop c, RDrop c' => ident c = ident c'
  | RComp l r, RComp l' r' | RCase l r, RCase l' r' | RPair l r, RPair l' r'
  | RDisconnect l r, RDisconnect l' r' => ident l = ident l' /\ ident r = ident r'
  | RAssertL l _, RAssertL l' _ => ident l = ident l'
  | RAssertR _ r, RAssertR _ r' => ident r = ident r'
  | RWitness _, RWitness _ | RFail _, RFail _ | RJet _ _, RJet _ _ | RWord _ _, RWord _ _
  | RHole _, RHole _ => True
  | _, _ => False
  end.

Definition ident_congr (ident : nat -> nat) (p : rprog) : Prop :=
  forall a b na nb, nth_error p a = Some na -> nth_error p b = Some nb ->
    ident a = ident b -> same_shape ident na nb.

Definition class_executed (ident : nat -> nat) (E : list event) (j : nat) : Prop :=
  exists j', ident j' = ident j /\ executed E j'.

Lemma taken_class ident T i i' side : ident i = ident i' -> taken ident T i side = taken ident T i' side.
Proof. intros H. unfold taken. rewrite H. reflexivity. Qed.

(* A program that one more round leaves unchanged satisfies the rule that libsimplicity checks on
   the maximally shared serialisation: every identity class reachable from the root was executed,
   and every remaining case class took both sides. *)
Theorem fixpoint_all_executed ident p : ident_congr ident p ->
  forall fuel root v o E,
  eval jet_sem hash_val fuel p (cmrs HS p) root v = Ok (o, E) ->
  prune_struct HS ident p E = p ->
  forall j, reach p root j ->
    class_executed ident E j /\
    (forall l r, nth_error p j = Some (RCase l r) ->
       taken ident E j false = true /\ taken ident E j true = true).
Proof.
  intros Hc fuel root v o E H Hfix.
  destruct (eval_closed _ _ _ _ _ _ _ _ _ H) as [Hcl Hroot].
  (* a case node of a fixed point has both or neither side taken *)
  assert (Both : forall k l r side, nth_error p k = Some (RCase l r) -> taken ident E k side = true ->
                   taken ident E k false = true /\ taken ident E k true = true).
  { intros k l r side Hk Ht.
    assert (Q : nth_error (prune_struct HS ident p E) k = Some (RCase l r)) by (rewrite Hfix; exact Hk).
    rewrite prune_nth, Hk in Q. cbn [option_map pnode] in Q.
    destruct (taken ident E k false) eqn:A, (taken ident E k true) eqn:B; try discriminate; auto.
    destruct side; congruence. }
  assert (Ex : forall j, reach p root j -> class_executed ident E j).
  { induction 1 as [|k n c Hr IHr Hn Hcin]; [exists root; auto|].
    destruct IHr as (k' & Hid & [s Hs]). destruct (Hcl _ _ Hs) as (n' & Hn' & Hk' & Hside).
    pose proof (Hc _ _ _ _ Hn' Hn Hid) as Sh.
    destruct n as [| |c1|c1|c1|c1|l1 r1|l1 r1|l1 h1|h1 r1|l1 r1|l1 r1|w1|e1|f1 j1|wn1 wb1|hh1];
      cbn [rchildren] in Hcin; try contradiction;
      destruct n' as [| |c2|c2|c2|c2|l2 r2|l2 r2|l2 h2|h2 r2|l2 r2|l2 r2|w2|e2|f2 j2|wn2 wb2|hh2];
      cbn [same_shape] in Sh; try contradiction.
    (* unary nodes *)
    1-4: destruct Hcin as [<-|[]]; exists c2; split; [exact Sh|]; apply Hk'; destruct s as [[|]|]; left; reflexivity.
    - (* comp *) destruct Sh as [Sl Sr]. destruct Hcin as [<-|[<-|[]]].
      + exists l2. split; [exact Sl|]. apply Hk'. destruct s as [[|]|]; left; reflexivity.
      + exists r2. split; [exact Sr|]. apply Hk'. destruct s as [[|]|]; right; left; reflexivity.
    - (* case *) destruct Sh as [Sl Sr].
      destruct s as [side|]; [|contradiction].
      assert (T' : taken ident E k' side = true) by (apply taken_in; exact Hs).
      rewrite (taken_class ident E k' k side Hid) in T'.
      destruct (Both _ _ _ _ Hn T') as [TL TR].
      destruct Hcin as [<-|[<-|[]]].
      + destruct (taken_elim _ _ _ _ TL) as (k3 & Hid3 & Hin3).
        destruct (Hcl _ _ Hin3) as (n3 & Hn3 & Hk3 & _).
        pose proof (Hc _ _ _ _ Hn3 Hn Hid3) as Sh3.
        destruct n3 as [| |c3|c3|c3|c3|l3 r3|l3 r3|l3 h3|h3 r3|l3 r3|l3 r3|w3|e3|f3 j3|wn3 wb3|hh3];
          cbn [same_shape] in Sh3; try contradiction.
        exists l3. split; [exact (proj1 Sh3)|]. apply Hk3. left. reflexivity.
      + destruct (taken_elim _ _ _ _ TR) as (k3 & Hid3 & Hin3).
        destruct (Hcl _ _ Hin3) as (n3 & Hn3 & Hk3 & _).
        pose proof (Hc _ _ _ _ Hn3 Hn Hid3) as Sh3.
        destruct n3 as [| |c3|c3|c3|c3|l3 r3|l3 r3|l3 h3|h3 r3|l3 r3|l3 r3|w3|e3|f3 j3|wn3 wb3|hh3];
          cbn [same_shape] in Sh3; try contradiction.
        exists r3. split; [exact (proj2 Sh3)|]. apply Hk3. left. reflexivity.
    - (* assertl *) destruct Hcin as [<-|[]]. exists l2. split; [exact Sh|]. apply Hk'.
      destruct s as [[|]|]; left; reflexivity.
    - (* assertr *) destruct Hcin as [<-|[]]. exists r2. split; [exact Sh|]. apply Hk'.
      destruct s as [[|]|]; left; reflexivity.
    - (* pair *) destruct Sh as [Sl Sr]. destruct Hcin as [<-|[<-|[]]].
      + exists l2. split; [exact Sl|]. apply Hk'. destruct s as [[|]|]; left; reflexivity.
      + exists r2. split; [exact Sr|]. apply Hk'. destruct s as [[|]|]; right; left; reflexivity.
    - (* disconnect *) destruct Sh as [Sl Sr]. destruct Hcin as [<-|[<-|[]]].
      + exists l2. split; [exact Sl|]. apply Hk'. destruct s as [[|]|]; left; reflexivity.
      + exists r2. split; [exact Sr|]. apply Hk'. destruct s as [[|]|]; right; left; reflexivity. }
  intros j Hj. split; [apply Ex; exact Hj|].
  intros l r Hn. destruct (Ex _ Hj) as (j' & Hid & [s Hs]).
  destruct (Hcl _ _ Hs) as (n' & Hn' & _ & Hside).
  pose proof (Hc _ _ _ _ Hn' Hn Hid) as Sh. destruct n'; cbn [same_shape] in Sh; try contradiction.
  destruct s as [side|]; [|contradiction].
  assert (T' : taken ident E j' side = true) by (apply taken_in; exact Hs).
  rewrite (taken_class ident E j' j side Hid) in T'. eapply Both; eauto.
Qed.

End Fix.
