(* C16 - model of Policy::sort / sorted (src/policy/ast.rs) and the facts about it:
   the derived order is a total order, sorting is idempotent, and it identifies all
   reorderings of the children of and / or / threshold nodes at any depth.

   `slice::sort` (stable merge sort in std) and `sort_by_key` are modelled by a stable
   insertion sort: for a total preorder the stable sorted permutation of a list is unique,
   so every stable sort computes the same function. *)
From Coq Require Import Permutation Sorted.
From RS Require Import Lib.Tac Policy.PolicyAst.
Import ListNotations.
Local Open Scope N_scope.

(* ------------------------------------------------------------------ generic stable insertion sort *)
Section ISort.
  Context {A : Type} (leb : A -> A -> bool).

  Fixpoint insert (x : A) (l : list A) : list A :=
    match l with
    | [] => [x]
    | y :: t => if leb x y then x :: y :: t else y :: insert x t
    end.

  Fixpoint isort (l : list A) : list A :=
    match l with
    | [] => []
    | x :: t => insert x (isort t)
    end.

  Lemma insert_perm x l : Permutation (x :: l) (insert x l).
  Proof.
    induction l as [|y t IH]; cbn [insert]; [apply Permutation_refl|].
    destruct (leb x y); [apply Permutation_refl|].
    eapply perm_trans; [apply perm_swap|]. apply perm_skip, IH.
  Qed.

  Lemma isort_perm l : Permutation l (isort l).
  Proof.
    induction l as [|x t IH]; cbn [isort]; [constructor|].
    eapply perm_trans; [apply perm_skip, IH|]. apply insert_perm.
  Qed.

  Lemma isort_length l : length (isort l) = length l.
  Proof. symmetry. apply Permutation_length, isort_perm. Qed.

  Definition lebP (a b : A) : Prop := leb a b = true.
  Definition sorted (l : list A) : Prop := StronglySorted lebP l.

  Hypothesis leb_total : forall a b, leb a b = false -> leb b a = true.
  Hypothesis leb_trans : forall a b c, leb a b = true -> leb b c = true -> leb a c = true.

  Lemma insert_sorted x l : sorted l -> sorted (insert x l).
  Proof.
    induction l as [|y t IH]; intros Hs; cbn [insert].
    - repeat constructor.
    - inversion Hs as [|? ? Hst Hall]; subst.
      destruct (leb x y) eqn:E.
      + constructor; auto. constructor; auto.
        rewrite Forall_forall in *. intros z Hz. eapply leb_trans; [exact E|]. apply Hall; auto.
      + constructor; [apply IH; exact Hst|].
        rewrite Forall_forall in *. intros z Hz.
        apply (Permutation_in _ (Permutation_sym (insert_perm x t))) in Hz.
        destruct Hz as [<-|Hz]; [apply leb_total; auto|apply Hall; auto].
  Qed.

  Lemma isort_sorted l : sorted (isort l).
  Proof. induction l; cbn [isort]; [constructor|apply insert_sorted; auto]. Qed.

  Hypothesis leb_antisym : forall a b, leb a b = true -> leb b a = true -> a = b.

  Lemma sorted_perm_eq l1 : forall l2, sorted l1 -> sorted l2 -> Permutation l1 l2 -> l1 = l2.
  Proof.
    induction l1 as [|a t1 IH]; intros l2 H1 H2 HP.
    - apply Permutation_nil in HP. auto.
    - destruct l2 as [|b t2]; [apply Permutation_sym, Permutation_nil in HP; discriminate|].
      inversion H1 as [|? ? Hs1 Ha1]; inversion H2 as [|? ? Hs2 Ha2]; subst.
      assert (a = b) as ->.
      { assert (In a (b :: t2)) as Hi1 by (eapply Permutation_in; [exact HP|left; auto]).
        assert (In b (a :: t1)) as Hi2 by (eapply Permutation_in; [apply Permutation_sym; exact HP|left; auto]).
        destruct Hi1 as [->|Hi1]; auto. destruct Hi2 as [->|Hi2]; auto.
        rewrite Forall_forall in Ha1, Ha2. apply leb_antisym; [apply Ha1|apply Ha2]; auto. }
      f_equal. apply IH; auto. eapply Permutation_cons_inv; eauto.
  Qed.

  Lemma isort_perm_eq l1 l2 : Permutation l1 l2 -> isort l1 = isort l2.
  Proof.
    intros HP. apply sorted_perm_eq; try apply isort_sorted.
    eapply perm_trans; [apply Permutation_sym, isort_perm|]. eapply perm_trans; [exact HP|apply isort_perm].
  Qed.

  Lemma isort_sorted_id l : sorted l -> isort l = l.
  Proof.
    intros Hs. apply sorted_perm_eq; auto; [apply isort_sorted|apply Permutation_sym, isort_perm].
  Qed.

  Lemma isort_idem l : isort (isort l) = isort l.
  Proof. apply isort_sorted_id, isort_sorted. Qed.
End ISort.

(* ------------------------------------------------------------------ the derived order is total *)
Lemma lex_eq c1 c2 : lex c1 c2 = Eq -> c1 = Eq /\ c2 = Eq.
Proof. destruct c1; cbn; auto; discriminate. Qed.

Lemma lex_opp c1 c2 : lex (CompOpp c1) (CompOpp c2) = CompOpp (lex c1 c2).
Proof. destruct c1; reflexivity. Qed.

Lemma list_cmp_refl {A} (f : A -> A -> comparison) xs :
  Forall (fun x => f x x = Eq) xs -> list_cmp f xs xs = Eq.
Proof. induction 1; cbn [list_cmp]; auto. rewrite H, IHForall. reflexivity. Qed.

Lemma list_cmp_eq {A} (f : A -> A -> comparison) xs :
  Forall (fun x => forall y, f x y = Eq -> x = y) xs ->
  forall ys, list_cmp f xs ys = Eq -> xs = ys.
Proof.
  induction 1 as [|x xt Hx _ IH]; intros [|y yt]; cbn [list_cmp]; try discriminate; auto.
  intros H. apply lex_eq in H as [H1 H2]. f_equal; auto.
Qed.

Lemma list_cmp_antisym {A} (f : A -> A -> comparison) xs :
  Forall (fun x => forall y, f y x = CompOpp (f x y)) xs ->
  forall ys, list_cmp f ys xs = CompOpp (list_cmp f xs ys).
Proof.
  induction 1 as [|x xt Hx _ IH]; intros [|y yt]; cbn [list_cmp]; try reflexivity.
  rewrite Hx, IH. apply lex_opp.
Qed.

Lemma lex_trans_gen {X} (eqx : X -> X -> Prop) (c : X -> X -> comparison) (d12 d23 d13 : comparison) x y z :
  (c x y = Eq -> c y z = c x z) -> (c y z = Eq -> c x y = c x z) ->
  (c x y = Lt -> c y z = Lt -> c x z = Lt) ->
  (d12 = Lt -> d23 = Lt -> d13 = Lt) ->
  lex (c x y) d12 = Lt -> lex (c y z) d23 = Lt -> lex (c x z) d13 = Lt.
Proof.
  intros E1 E2 T D.
  destruct (c x y) eqn:A; destruct (c y z) eqn:B; cbn [lex]; try discriminate; intros H1 H2.
  - rewrite <- E1 by reflexivity. cbn. auto.
  - rewrite <- E1 by reflexivity. reflexivity.
  - rewrite <- E2 by reflexivity. reflexivity.
  - rewrite T; auto.
Qed.

Lemma list_cmp_trans {A} (f : A -> A -> comparison) :
  (forall x y, f x y = Eq -> x = y) ->
  forall xs, Forall (fun x => forall y z, f x y = Lt -> f y z = Lt -> f x z = Lt) xs ->
  forall ys zs, list_cmp f xs ys = Lt -> list_cmp f ys zs = Lt -> list_cmp f xs zs = Lt.
Proof.
  intros Heq xs. induction 1 as [|x xt Hx _ IH]; intros [|y yt] [|z zt]; cbn [list_cmp]; try discriminate; auto.
  apply (lex_trans_gen (@eq A) f).
  - intros E. apply Heq in E. subst. reflexivity.
  - intros E. apply Heq in E. subst. reflexivity.
  - apply Hx.
  - apply IH.
Qed.

Lemma Ncmp_eq a b : (a ?= b) = Eq -> a = b.
Proof. apply N.compare_eq_iff. Qed.

Lemma pcmp_refl p : pcmp p p = Eq.
Proof.
  induction p using policy_ind'; try (cbn [pcmp]; try apply N.compare_refl; reflexivity).
  - cbn [pcmp]. rewrite IHp1, IHp2. reflexivity.
  - cbn [pcmp]. rewrite IHp1, IHp2. reflexivity.
  - rewrite pcmp_thresh, N.compare_refl. cbn [lex]. apply list_cmp_refl. auto.
Qed.

Lemma pcmp_tag p q : tag p <> tag q -> pcmp p q = (tag p ?= tag q).
Proof. destruct p, q; intros H; try reflexivity; exfalso; apply H; reflexivity. Qed.

Lemma pcmp_eq_tag p q : pcmp p q = Eq -> tag p = tag q.
Proof.
  intros H. destruct (N.eq_dec (tag p) (tag q)) as [E|E]; auto.
  rewrite (pcmp_tag _ _ E) in H. apply Ncmp_eq; auto.
Qed.

Lemma pcmp_lt_tag p q : pcmp p q = Lt -> tag p <= tag q.
Proof.
  intros H. destruct (N.eq_dec (tag p) (tag q)) as [E|E]; [lia|].
  rewrite (pcmp_tag _ _ E) in H. rewrite N.compare_lt_iff in H. lia.
Qed.

Lemma pcmp_eq p : forall q, pcmp p q = Eq -> p = q.
Proof.
  induction p using policy_ind'; intros q H0; pose proof (pcmp_eq_tag _ _ H0) as Ht;
    destruct q; try discriminate Ht; clear Ht;
    try (cbn [pcmp] in H0; apply Ncmp_eq in H0; congruence); auto.
  - cbn [pcmp] in H0. apply lex_eq in H0 as [A B]. f_equal; auto.
  - cbn [pcmp] in H0. apply lex_eq in H0 as [A B]. f_equal; auto.
  - rewrite pcmp_thresh in H0. apply lex_eq in H0 as [A B]. apply Ncmp_eq in A.
    f_equal; auto. eapply list_cmp_eq; eauto.
Qed.

Lemma pcmp_antisym p : forall q, pcmp q p = CompOpp (pcmp p q).
Proof.
  induction p using policy_ind'; intros q; destruct q; try reflexivity;
    try (cbn [pcmp]; apply N.compare_antisym).
  - cbn [pcmp]. rewrite IHp1, IHp2. apply lex_opp.
  - cbn [pcmp]. rewrite IHp1, IHp2. apply lex_opp.
  - rewrite !pcmp_thresh. rewrite (N.compare_antisym k k0), (list_cmp_antisym pcmp subs H). apply lex_opp.
Qed.

Lemma Ncmp_lt_trans a b c : (a ?= b) = Lt -> (b ?= c) = Lt -> (a ?= c) = Lt.
Proof. rewrite !N.compare_lt_iff. lia. Qed.

Lemma pcmp_trans_tags p q r :
  pcmp p q = Lt -> pcmp q r = Lt -> tag p <> tag q \/ tag q <> tag r -> pcmp p r = Lt.
Proof.
  intros H1 H2 Hd.
  pose proof (pcmp_lt_tag _ _ H1) as L1. pose proof (pcmp_lt_tag _ _ H2) as L2.
  assert (tag p < tag r) as L.
  { destruct Hd as [E|E].
    - rewrite (pcmp_tag _ _ E) in H1. rewrite N.compare_lt_iff in H1. lia.
    - rewrite (pcmp_tag _ _ E) in H2. rewrite N.compare_lt_iff in H2. lia. }
  rewrite pcmp_tag by lia. apply N.compare_lt_iff. auto.
Qed.

Lemma pcmp_trans p : forall q r, pcmp p q = Lt -> pcmp q r = Lt -> pcmp p r = Lt.
Proof.
  induction p using policy_ind'; intros q r H1 H2;
    (destruct (N.eq_dec (tag q) (tag r)) as [E2|E2];
       [|eapply pcmp_trans_tags; eauto]);
    match goal with
    | |- pcmp ?p _ = _ => (destruct (N.eq_dec (tag p) (tag q)) as [E1|E1];
                           [|eapply pcmp_trans_tags; eauto])
    end;
    destruct q; try discriminate E1; destruct r; try discriminate E2; clear E1 E2;
    try (cbn [pcmp] in *; eapply Ncmp_lt_trans; eassumption); auto.
  - cbn [pcmp] in *. revert H1 H2.
    apply (lex_trans_gen (@eq policy) pcmp).
    + intros E. apply pcmp_eq in E. subst. reflexivity.
    + intros E. apply pcmp_eq in E. subst. reflexivity.
    + apply IHp1.
    + apply IHp2.
  - cbn [pcmp] in *. revert H1 H2.
    apply (lex_trans_gen (@eq policy) pcmp).
    + intros E. apply pcmp_eq in E. subst. reflexivity.
    + intros E. apply pcmp_eq in E. subst. reflexivity.
    + apply IHp1.
    + apply IHp2.
  - rewrite pcmp_thresh in *. revert H1 H2.
    apply (lex_trans_gen (@eq N) N.compare).
    + intros E. apply Ncmp_eq in E. subst. reflexivity.
    + intros E. apply Ncmp_eq in E. subst. reflexivity.
    + apply Ncmp_lt_trans.
    + apply list_cmp_trans; auto. intros x y. apply pcmp_eq.
Qed.

(* the order as a boolean `<=` *)
Lemma ple_total a b : ple a b = false -> ple b a = true.
Proof. unfold ple. rewrite (pcmp_antisym a b). destruct (pcmp a b); cbn; congruence. Qed.

Lemma ple_trans a b c : ple a b = true -> ple b c = true -> ple a c = true.
Proof.
  unfold ple. destruct (pcmp a b) eqn:A; destruct (pcmp b c) eqn:B; try discriminate; intros _ _.
  - apply pcmp_eq in A. subst. rewrite B. reflexivity.
  - apply pcmp_eq in A. subst. rewrite B. reflexivity.
  - apply pcmp_eq in B. subst. rewrite A. reflexivity.
  - rewrite (pcmp_trans _ _ _ A B). reflexivity.
Qed.

Lemma ple_antisym a b : ple a b = true -> ple b a = true -> a = b.
Proof.
  unfold ple. rewrite (pcmp_antisym a b). destruct (pcmp a b) eqn:A; cbn; try discriminate; intros _ _.
  apply pcmp_eq; auto.
Qed.

Lemma ple_refl a : ple a a = true.
Proof. unfold ple. rewrite pcmp_refl. reflexivity. Qed.

(* ------------------------------------------------------------------ Policy::sort as it is now *)
(* fn sort(&mut self): And/Or: sort both children in place, then `if right > left { swap }`
   (so the larger child ends up on the left); Threshold: sort every sub, then `subs.sort()`. *)
Fixpoint sort (p : policy) : policy :=
  match p with
  | And l r => let l' := sort l in let r' := sort r in if pgt r' l' then And r' l' else And l' r'
  | Or l r => let l' := sort l in let r' := sort r in if pgt r' l' then Or r' l' else Or l' r'
  | Thresh k subs => Thresh k (isort ple (map sort subs))
  | _ => p
  end.

Definition sorted_policy (p : policy) : policy := sort p.   (* pub fn sorted(mut self) *)

(* The function before commit 46aa179 ("Policy::sort sorts the children of and/or nodes in
   place"): the recursive calls went to clones that were thrown away, so an And/Or node only
   ordered its own two children as they were. *)
Fixpoint sort_old (p : policy) : policy :=
  match p with
  | And l r => if pgt r l then And r l else And l r
  | Or l r => if pgt r l then Or r l else Or l r
  | Thresh k subs => Thresh k (isort ple (map sort_old subs))
  | _ => p
  end.

(* pub fn normalized(self): one top-down pass; looks at the children as they are (not at
   their normal forms) and leaves thresholds alone *)
Definition is_trivial (p : policy) : bool := match p with Trivial => true | _ => false end.

Fixpoint normalized (p : policy) : policy :=
  match p with
  | And l r =>
      match l with
      | Unsat e => Unsat e
      | _ =>
          match r with
          | Unsat e => Unsat e
          | _ =>
              if is_trivial l then normalized r
              else if is_trivial r then normalized l
              else And (normalized l) (normalized r)
          end
      end
  | Or l r =>
      if is_trivial l || is_trivial r then Trivial
      else match l with
           | Unsat _ => normalized r
           | _ =>
               match r with
               | Unsat _ => normalized l
               | _ => Or (normalized l) (normalized r)
               end
           end
  | _ => p
  end.

(* ------------------------------------------------------------------ reorderings *)
(* congruence generated by swapping the children of And/Or and permuting those of Thresh *)
Inductive perm_equiv : policy -> policy -> Prop :=
| pe_refl p : perm_equiv p p
| pe_sym p q : perm_equiv p q -> perm_equiv q p
| pe_trans p q r : perm_equiv p q -> perm_equiv q r -> perm_equiv p r
| pe_and_swap l r : perm_equiv (And l r) (And r l)
| pe_or_swap l r : perm_equiv (Or l r) (Or r l)
| pe_and l l' r r' : perm_equiv l l' -> perm_equiv r r' -> perm_equiv (And l r) (And l' r')
| pe_or l l' r r' : perm_equiv l l' -> perm_equiv r r' -> perm_equiv (Or l r) (Or l' r')
| pe_thresh_perm k xs ys : Permutation xs ys -> perm_equiv (Thresh k xs) (Thresh k ys)
| pe_thresh k xs ys : perm_equiv_list xs ys -> perm_equiv (Thresh k xs) (Thresh k ys)
with perm_equiv_list : list policy -> list policy -> Prop :=
| pel_nil : perm_equiv_list [] []
| pel_cons x y xs ys : perm_equiv x y -> perm_equiv_list xs ys -> perm_equiv_list (x :: xs) (y :: ys).

Scheme perm_equiv_mut := Induction for perm_equiv Sort Prop
  with perm_equiv_list_mut := Induction for perm_equiv_list Sort Prop.

Lemma pgt_ple a b : pgt a b = negb (ple a b).
Proof. unfold pgt, ple. destruct (pcmp a b); reflexivity. Qed.

Lemma swap_canon (C : policy -> policy -> policy) a b :
  (if pgt b a then C b a else C a b) = (if pgt a b then C a b else C b a).
Proof.
  unfold pgt. rewrite (pcmp_antisym b a). destruct (pcmp b a) eqn:E; cbn [CompOpp]; auto.
  apply pcmp_eq in E. subst. reflexivity.
Qed.

Theorem sort_perm_equiv p q : perm_equiv p q -> sort p = sort q.
Proof.
  intros H.
  induction H using perm_equiv_mut with
    (P0 := fun xs ys _ => map sort xs = map sort ys); try congruence.
  - cbn [sort]. apply (swap_canon And).
  - cbn [sort]. apply (swap_canon Or).
  - cbn [sort]. rewrite IHperm_equiv1, IHperm_equiv2. reflexivity.
  - cbn [sort]. rewrite IHperm_equiv1, IHperm_equiv2. reflexivity.
  - cbn [sort]. f_equal.
    apply isort_perm_eq; [apply ple_total|apply ple_trans|apply ple_antisym|].
    apply Permutation_map; auto.
  - cbn [sort]. rewrite IHperm_equiv. reflexivity.
  - cbn [map]. congruence.
Qed.

Theorem sort_idem p : sort (sort p) = sort p.
Proof.
  induction p using policy_ind'; try reflexivity.
  - cbn [sort]. destruct (pgt (sort p2) (sort p1)) eqn:E; cbn [sort]; rewrite IHp1, IHp2.
    + replace (pgt (sort p1) (sort p2)) with false; auto.
      unfold pgt in *. rewrite (pcmp_antisym (sort p2) (sort p1)). destruct (pcmp (sort p2) (sort p1)); cbn; congruence.
    + rewrite E. reflexivity.
  - cbn [sort]. destruct (pgt (sort p2) (sort p1)) eqn:E; cbn [sort]; rewrite IHp1, IHp2.
    + replace (pgt (sort p1) (sort p2)) with false; auto.
      unfold pgt in *. rewrite (pcmp_antisym (sort p2) (sort p1)). destruct (pcmp (sort p2) (sort p1)); cbn; congruence.
    + rewrite E. reflexivity.
  - cbn [sort]. f_equal.
    assert (map sort (isort ple (map sort subs)) = isort ple (map sort subs)) as ->.
    { assert (Forall (fun x => sort x = x) (isort ple (map sort subs))) as HF.
      { rewrite Forall_forall in *. intros x Hx.
        apply (Permutation_in _ (Permutation_sym (isort_perm ple (map sort subs)))) in Hx.
        apply in_map_iff in Hx as (y & <- & Hy). apply H; auto. }
      induction HF; cbn [map]; congruence. }
    apply isort_idem; [apply ple_total|apply ple_trans|apply ple_antisym].
Qed.

(* the result is ordered: larger child of And/Or on the left, threshold children ascending *)
Fixpoint canonical (p : policy) : Prop :=
  match p with
  | And l r | Or l r => canonical l /\ canonical r /\ ple r l = true
  | Thresh _ subs =>
      sorted ple subs /\
      (fix all (l : list policy) : Prop := match l with [] => True | x :: t => canonical x /\ all t end) subs
  | _ => True
  end.

Lemma canonical_thresh_intro k subs : sorted ple subs -> Forall canonical subs -> canonical (Thresh k subs).
Proof. intros A B. cbn [canonical]. split; auto. induction B; [exact I|split; auto]. apply IHB. inversion A; auto. Qed.

Theorem sort_canonical p : canonical (sort p).
Proof.
  induction p using policy_ind'; try exact I.
  - cbn [sort]. destruct (pgt (sort p2) (sort p1)) eqn:E; cbn [canonical]; repeat split; auto.
    + rewrite pgt_ple in E. apply ple_total. destruct (ple (sort p2) (sort p1)); auto; discriminate.
    + rewrite pgt_ple in E. destruct (ple (sort p2) (sort p1)); auto; discriminate.
  - cbn [sort]. destruct (pgt (sort p2) (sort p1)) eqn:E; cbn [canonical]; repeat split; auto.
    + rewrite pgt_ple in E. apply ple_total. destruct (ple (sort p2) (sort p1)); auto; discriminate.
    + rewrite pgt_ple in E. destruct (ple (sort p2) (sort p1)); auto; discriminate.
  - cbn [sort]. apply canonical_thresh_intro.
    + apply isort_sorted; [apply ple_total|apply ple_trans].
    + rewrite Forall_forall in *. intros x Hx.
      apply (Permutation_in _ (Permutation_sym (isort_perm ple (map sort subs)))) in Hx.
      apply in_map_iff in Hx as (y & <- & Hy). apply H; auto.
Qed.

(* sorting only reorders: the result is a reordering of the input *)
Theorem sort_is_reordering p : perm_equiv p (sort p).
Proof.
  induction p using policy_ind'; try apply pe_refl.
  - cbn [sort]. destruct (pgt (sort p2) (sort p1)).
    + eapply pe_trans; [apply pe_and; eassumption|apply pe_and_swap].
    + apply pe_and; auto.
  - cbn [sort]. destruct (pgt (sort p2) (sort p1)).
    + eapply pe_trans; [apply pe_or; eassumption|apply pe_or_swap].
    + apply pe_or; auto.
  - cbn [sort]. eapply pe_trans; [apply pe_thresh|apply pe_thresh_perm, isort_perm].
    induction H; cbn [map]; constructor; auto.
Qed.

(* ------------------------------------------------------------------ examples / regression *)
Example sort_example :
  sort (And (Or (After 1) (After 2)) (After 3)) = And (Or (After 2) (After 1)) (After 3)
  /\ sort (And (Or (After 2) (After 1)) (After 3)) = And (Or (After 2) (After 1)) (After 3)
  /\ sort (Thresh 2 [Key 9; Trivial; And (Key 1) (Key 2); Unsat 0]) = Thresh 2 [Unsat 0; Trivial; Key 9; And (Key 2) (Key 1)].
Proof. vm_compute. auto. Qed.

(* the defect fixed by commit 46aa179, kept as documentation: the old function is not canonical *)
Lemma sort_old_refuted : exists p q, perm_equiv p q /\ sort_old p <> sort_old q.
Proof.
  exists (And (Or (After 1) (After 2)) (After 3)), (And (Or (After 2) (After 1)) (After 3)).
  split.
  - apply pe_and; [apply pe_or_swap|apply pe_refl].
  - vm_compute. discriminate.
Qed.
