(* Executable entry points of the type-level correspondence of C17 (tools/props/c17.py, harness
   kinds `typ` and `tytext`), and the compressed evaluation they use.

   A type with large words (2^(2^20) has a million leaves) is given to the model as an AST of the
   parser (`aty`: words are one node).  print_a / show_a work on that AST; print_a_reify and
   show_a_reify prove that they compute print_sub / show_ty of the denoted type, so the numbers
   compared with the implementation are those of the model of Human/TypeText.v. *)
From RS Require Import Lib.Tac Lib.Outcome Lib.Sweep Ty.Ty Human.TypeText Human.TypeTextProofs.
Import ListNotations.
Local Open Scope N_scope.

(* ------------------------------------------------------------------ canonical numbers *)
(* harness/src/prog.rs ty_nums: prefix code, words of 2 bits and more abbreviated as `3 n` *)
Fixpoint show_ty (t : ty) : list N :=
  match as_word t with
  | Some (S n) => [3; N.of_nat (S n)]
  | _ =>
      match t with
      | One => [0]
      | Sum a b => 1 :: show_ty a ++ show_ty b
      | Prod a b => 2 :: show_ty a ++ show_ty b
      end
  end.

Definition token_nums (k : token) : list N :=
  match k with
  | TOne => [1] | TTwo => [2] | TPow y => [3; y] | TQuestion => [4] | TLParen => [5] | TRParen => [6]
  | TPlus => [7] | TStar => [8] | TBad => [9] | TSym k => [10; k] | TUnderscore => [11] | TOther k => [12; k]
  end.

Definition perr_code (e : perr) : N :=
  match e with
  | EBad2Exp _ => 1 | EParse => 12 | ENest => 12 | ELex => 13 | ENumRange => 14
  end.

(* ------------------------------------------------------------------ the same on ASTs *)
Definition unitlike (a : aty) : bool := match a with AOne | AName _ => true | _ => false end.

Fixpoint pow_ok (a : aty) : bool :=
  match a with
  | APow n => n <=? 31
  | AProd a b | ASum a b => pow_ok a && pow_ok b
  | _ => true
  end.

Fixpoint as_word_a (a : aty) : option nat :=
  match a with
  | AName _ | AOne => None
  | ATwo => Some 0%nat
  | APow n => Some (N.to_nat n)
  | ASum a b => if unitlike a && unitlike b then Some 0%nat else None
  | AProd a b =>
      match as_word_a a, as_word_a b with
      | Some n, Some m => if Nat.eqb n m && Nat.ltb n 31 then Some (S n) else None
      | _, _ => None
      end
  end.

Fixpoint print_a (top : bool) (a : aty) : list token :=
  match as_word_a a with
  | Some n => word_tokens n
  | None =>
      match a with
      | ASum x y =>
          if unitlike x then print_a false y ++ [TQuestion]
          else paren top (print_a false x ++ TPlus :: print_a false y)
      | AProd x y => paren top (print_a false x ++ TStar :: print_a false y)
      | _ => [TOne]
      end
  end.

Fixpoint show_a (a : aty) : list N :=
  match as_word_a a with
  | Some (S n) => [3; N.of_nat (S n)]
  | _ =>
      match a with
      | ASum x y => 1 :: show_a x ++ show_a y
      | AProd x y => 2 :: show_a x ++ show_a y
      | ATwo | APow _ => [1; 0; 0]
      | _ => [0]
      end
  end.

Lemma unitlike_spec a : unitlike a = true <-> reify a = One.
Proof.
  destruct a; cbn; split; intros H; try reflexivity; try discriminate.
  destruct (N.to_nat n); discriminate.
Qed.

Lemma as_word_a_reify a : pow_ok a = true -> as_word_a a = as_word (reify a).
Proof.
  induction a as [k| | |x IHx y IHy|x IHx y IHy|n]; intros H; cbn [pow_ok] in H.
  - reflexivity.
  - reflexivity.
  - reflexivity.
  - apply andb_true_iff in H. destruct H as [Hx Hy]. cbn [as_word_a reify as_word].
    rewrite (IHx Hx), (IHy Hy). reflexivity.
  - cbn [as_word_a reify].
    pose proof (unitlike_spec x) as Ux. pose proof (unitlike_spec y) as Uy.
    destruct (unitlike x).
    + rewrite (proj1 Ux eq_refl). destruct (unitlike y).
      * rewrite (proj1 Uy eq_refl). reflexivity.
      * cbn [andb]. destruct (reify y); [destruct Uy as [_ Uy]; discriminate (Uy eq_refl)|reflexivity|reflexivity].
    + cbn [andb]. destruct (reify x); [destruct Ux as [_ Ux]; discriminate (Ux eq_refl)|reflexivity|reflexivity].
  - cbn [as_word_a reify]. symmetry. apply as_word_word. apply N.leb_le in H. lia.
Qed.

Lemma print_a_reify a : forall top, pow_ok a = true -> print_a top a = print_sub top (reify a).
Proof.
  induction a as [k| | |x IHx y IHy|x IHx y IHy|n]; intros top H.
  - reflexivity.
  - reflexivity.
  - reflexivity.
  - pose proof (as_word_a_reify _ H) as E. cbn [pow_ok] in H. apply andb_true_iff in H. destruct H as [Hx Hy].
    cbn [print_a]. rewrite E. cbn [reify].
    destruct (as_word (Prod (reify x) (reify y))) as [m|] eqn:Ew.
    + rewrite (print_sub_word _ _ _ Ew). reflexivity.
    + rewrite (print_sub_prod _ _ _ Ew), IHx, IHy by assumption. reflexivity.
  - pose proof (as_word_a_reify _ H) as E. cbn [pow_ok] in H. apply andb_true_iff in H. destruct H as [Hx Hy].
    cbn [print_a]. rewrite E. cbn [reify].
    destruct (as_word (Sum (reify x) (reify y))) as [m|] eqn:Ew.
    + rewrite (print_sub_word _ _ _ Ew). reflexivity.
    + pose proof (unitlike_spec x) as Ux. destruct (unitlike x).
      * rewrite (proj1 Ux eq_refl) in *. rewrite (print_sub_opt _ _ Ew), IHy by assumption. reflexivity.
      * assert (Hne : reify x <> One) by (intros C; destruct Ux as [_ Ux]; discriminate (Ux C)).
        rewrite (print_sub_sum _ _ _ Ew Hne), IHx, IHy by assumption. reflexivity.
  - pose proof (as_word_a_reify _ H) as E. cbn [print_a]. rewrite E. cbn [reify].
    cbn [pow_ok] in H. apply N.leb_le in H.
    pose proof (as_word_word (N.to_nat n) ltac:(lia)) as W. rewrite W.
    rewrite (print_sub_word top _ _ W). reflexivity.
Qed.

Lemma show_ty_word t m : as_word t = Some (S m) -> show_ty t = [3; N.of_nat (S m)].
Proof. intros H. destruct t; cbn [show_ty]; rewrite H; reflexivity. Qed.

Lemma show_a_reify a : pow_ok a = true -> show_a a = show_ty (reify a).
Proof.
  induction a as [k| | |x IHx y IHy|x IHx y IHy|n]; intros H.
  - reflexivity.
  - reflexivity.
  - reflexivity.
  - pose proof (as_word_a_reify _ H) as E. cbn [pow_ok] in H. apply andb_true_iff in H. destruct H as [Hx Hy].
    cbn [show_a]. rewrite E. cbn [reify show_ty].
    destruct (as_word (Prod (reify x) (reify y))) as [[|m]|]; rewrite ?IHx, ?IHy by assumption; reflexivity.
  - pose proof (as_word_a_reify _ H) as E. cbn [pow_ok] in H. apply andb_true_iff in H. destruct H as [Hx Hy].
    cbn [show_a]. rewrite E. cbn [reify show_ty].
    destruct (as_word (Sum (reify x) (reify y))) as [[|m]|]; rewrite ?IHx, ?IHy by assumption; reflexivity.
  - pose proof (as_word_a_reify _ H) as E. cbn [show_a]. rewrite E. cbn [reify].
    cbn [pow_ok] in H. apply N.leb_le in H.
    pose proof (as_word_word (N.to_nat n) ltac:(lia)) as W.
    destruct (N.to_nat n) as [|m] eqn:En.
    + reflexivity.
    + rewrite W. rewrite (show_ty_word _ _ W). reflexivity.
Qed.

(* the parser only builds ASTs whose words exist (n <= 31): every AST returned by atom_pow *)
Lemma atom_pow_ok y a : atom_pow y = Ok (Some a) -> pow_ok a = true.
Proof.
  unfold atom_pow. destruct (u32_max <? y) eqn:E1; [discriminate|].
  destruct (y =? 0); [intros H; injection H as <-; reflexivity|].
  destruct (y =? 1); [intros H; injection H as <-; reflexivity|].
  destruct (is_pow2 y); [|discriminate]. intros H. injection H as <-. cbn [pow_ok].
  apply N.leb_le. apply N.ltb_ge in E1. unfold u32_max in E1.
  destruct (N.eq_dec y 0) as [->|Hy]; [cbn; lia|].
  assert (N.log2 y < 32); [|lia]. apply N.log2_lt_pow2; [lia|]. change (2 ^ 32) with 4294967296. lia.
Qed.

(* ------------------------------------------------------------------ entry points *)
Definition show_tokens (ts : list token) : list N := flat_map token_nums ts.

(* `0 <type numbers>` | `1 <code>`: the result of parsing `t := witness : 1 -> <tokens>` and
   reading the target type of `t` (a wildcard target leaves the witness free: unit) *)
Definition show_parse (r : outcome perr (option aty)) : list N :=
  match r with
  | Ok (Some a) => 0 :: show_a a
  | Ok None => [0; 0]
  | Err e => [1; perr_code e]
  | Panic _ => [9]
  | OutOfFuel => [98]
  end.

(* kind tytext: a token list in target position *)
Definition run_tytext (ts : list token) : list N := show_parse (parse_text ts).

(* kind typ: a complete type (as a closed AST): Display tokens, `8`, the parse of the printed text,
   and whether that is the same type again *)
Definition run_typ (a : aty) : list N :=
  let toks := print_a true a in
  let r := parse_text toks in
  let same := match r with
              | Ok (Some a') => list_beq N.eqb (show_a a') (show_a a)
              | _ => false
              end in
  N.of_nat (length toks) :: show_tokens toks ++ [8] ++ show_parse r ++ [if same then 1 else 0].

(* smoke tests *)
Example run_typ_ex1 :
  run_typ (ASum (AProd (ASum AOne ATwo) (APow 1)) AOne) =
  [8; 5; 2; 4; 8; 3; 2; 6; 7; 1;  8;  0; 1; 2; 1; 0; 1; 0; 0; 3; 1; 0;  1].
Proof. vm_compute. reflexivity. Qed.

Example run_typ_big : run_typ (ASum AOne (APow 30)) = [2; 3; 1073741824; 4; 8; 0; 1; 0; 3; 30; 1].
Proof. vm_compute. reflexivity. Qed.

Example run_typ_w31 : run_typ (APow 31) = [1; 3; 2147483648; 8; 0; 3; 31; 1].
Proof. vm_compute. reflexivity. Qed.

Example run_tytext_ex :
  run_tytext [TOne; TPlus; TTwo; TStar; TPow 4; TPlus; TOne] = [0; 1; 2; 1; 0; 1; 0; 0; 3; 2; 0] /\
  run_tytext [TPow 3] = [1; 1] /\ run_tytext [TPow 4294967296] = [1; 14] /\
  run_tytext [TOne; TOne] = [1; 12] /\ run_tytext [TUnderscore] = [0; 0] /\
  run_tytext [TSym 1; TStar; TTwo] = [0; 2; 0; 1; 0; 0].
Proof. vm_compute. repeat split. Qed.
