(* C09 model: the committed structure of a program, its root hashed from scratch
   (`cmr_spec`), and the ways the code obtains a commitment root:

     1. constructor-time caching: `impl CoreConstructible / DisconnectConstructible /
        WitnessConstructible for Arc<Node<N>>` (src/node/mod.rs) driven over a node table
        (harness/src/prog.rs `build`)                                   -> [construct]
     2. `Node::from_parts`                                              -> [from_parts_cmr]
     3. `Node::convert` (copies `data.node.cmr`; `prune_case` turns Case into
        AssertL/AssertR carrying the converted child's cmr)             -> [convert]
     4. the root-only algebra `ConstructibleCmr` (src/merkle/cmr.rs)    -> [ccmr_alg]
     5. the wrapper `Hiding<N>` (src/node/hiding.rs)                    -> [hiding_alg], [drive_hiding]

   Everything is inside `Section Hash` over an arbitrary compression function.
   Programs are the node tables of Core/Prog.v (children have smaller indices, sharing =
   same index twice).  Type errors of the constructors are not modelled (they abort the
   construction; no root exists then); everything else that can fail is an `outcome`. *)
From RS Require Import Lib.Tac Lib.Outcome Ty.Ty Core.Prog Merkle.Tagged.
Import ListNotations.
Local Open Scope N_scope.

(* error codes of the table driver (mirror harness BuildError::Shape) *)
Definition E_FORWARD : N := 11.       (* forward reference / index out of range *)
Definition E_HIDDEN_USE : N := 12.    (* hidden node used outside case *)
Definition E_BOTH_HIDDEN : N := 13.   (* both children of a case hidden *)
Definition E_WORD_LEN : N := 14.      (* word with a number of bits other than 2^n, or n > 31 *)
Definition E_DISC_REDEEM : N := 40.   (* FinalizeError::DisconnectRedeemTime *)

Inductive hide := HideNeither | HideLeft | HideRight.

Section Hash.
  Variable H : Type.
  Variable compress : H -> H * H -> H.
  Variable iv : tag -> H.
  Variable zero : H.
  Variable of_weight : N -> H.
  Variable bit_cmr : bool -> H.
  Variable tmr_unit : H.
  Variable tmr_two_two_n : list H.
  Variable jet_cmr : N -> N -> H.          (* `Jet::cmr` of family (0 Core, 1 Elements) and index in ALL *)
  Variable h_of_bytes : list N -> H.       (* Cmr::from_byte_array / one half of FailEntropy *)

  Local Notation c_iden := (cmr_iden H iv).
  Local Notation c_unit := (cmr_unit H iv).
  Local Notation c_injl := (cmr_injl H compress iv zero).
  Local Notation c_injr := (cmr_injr H compress iv zero).
  Local Notation c_take := (cmr_take H compress iv zero).
  Local Notation c_drop := (cmr_drop H compress iv zero).
  Local Notation c_comp := (cmr_comp H compress iv).
  Local Notation c_case := (cmr_case H compress iv).
  Local Notation c_pair := (cmr_pair H compress iv).
  Local Notation c_disconnect := (cmr_disconnect H compress iv zero).
  Local Notation c_witness := (cmr_witness H iv).
  Local Notation c_fail := (cmr_fail H compress iv).
  Local Notation c_const_word := (cmr_const_word H compress iv zero of_weight bit_cmr tmr_unit tmr_two_two_n).
  Local Notation c_word_root := (word_root H compress iv zero of_weight).
  Local Notation t_pow := (tmr_pow H compress iv).

  (* ================================================================ committed structure *)
  (* What a commitment root commits to: combinators, jet identity, word value, fail entropy,
     roots of hidden branches.  No witness value, no disconnected (right) branch, no types. *)
  Inductive cstruct :=
  | CIden
  | CUnit
  | CInjL (c : cstruct)
  | CInjR (c : cstruct)
  | CTake (c : cstruct)
  | CDrop (c : cstruct)
  | CComp (l r : cstruct)
  | CCase (l r : cstruct)           (* assertl / assertr: the hidden child is a CHidden *)
  | CPair (l r : cstruct)
  | CDisconnect (l : cstruct)
  | CWitness
  | CFail (e : H * H)
  | CJet (fam id : N)
  | CWord (n : nat) (bits : list bool)
  | CHidden (h : H).

  Definition cbit (b : bool) : cstruct := if b then CInjR CUnit else CInjL CUnit.

  (* the scribe of a word: the complete pair-tree of depth n over its bit constants *)
  Fixpoint scribe (n : nat) (bits : list bool) : cstruct :=
    match n with
    | O => cbit (hd false bits)
    | S k => CPair (scribe k (firstn (2 ^ k) bits)) (scribe k (skipn (2 ^ k) bits))
    end.

  Definition cmr_bit (b : bool) : H := if b then c_injr c_unit else c_injl c_unit.

  Fixpoint scribe_root (n : nat) (bits : list bool) : H :=
    match n with
    | O => cmr_bit (hd false bits)
    | S k => c_pair (scribe_root k (firstn (2 ^ k) bits)) (scribe_root k (skipn (2 ^ k) bits))
    end.

  (* the root obtained by hashing the tagged combinator tree from scratch *)
  Fixpoint cmr_spec (s : cstruct) : H :=
    match s with
    | CIden => c_iden
    | CUnit => c_unit
    | CInjL c => c_injl (cmr_spec c)
    | CInjR c => c_injr (cmr_spec c)
    | CTake c => c_take (cmr_spec c)
    | CDrop c => c_drop (cmr_spec c)
    | CComp l r => c_comp (cmr_spec l) (cmr_spec r)
    | CCase l r => c_case (cmr_spec l) (cmr_spec r)
    | CPair l r => c_pair (cmr_spec l) (cmr_spec r)
    | CDisconnect l => c_disconnect (cmr_spec l)
    | CWitness => c_witness
    | CFail e => c_fail e
    | CJet fam id => jet_cmr fam id
    | CWord n bits =>
        (* identity root of the scribe (pass one, pass two with the types 1 -> 2^(2^n)),
           tagged as a jet of weight 2^n *)
        c_word_root (iv TtUnit) n (2 ^ N.of_nat n) (scribe_root n bits) (t_pow n)
    | CHidden h => h
    end.

  (* every word carries exactly 2^n bits *)
  Fixpoint cwf (s : cstruct) : Prop :=
    match s with
    | CInjL c | CInjR c | CTake c | CDrop c | CDisconnect c => cwf c
    | CComp l r | CCase l r | CPair l r => cwf l /\ cwf r
    | CWord n bits => length bits = (2 ^ n)%nat
    | _ => True
    end.

  (* ================================================================ erasure of a program *)
  Definition fail_halves (e : list N) : H * H := (h_of_bytes (firstn 32 e), h_of_bytes (skipn 32 e)).

  (* table folds: element i is computed from the results of the elements before it *)
  Fixpoint tfold {A B} (f : list B -> A -> B) (pre : list B) (l : list A) : list B :=
    match l with
    | [] => pre
    | a :: tl => tfold f (pre ++ [f pre a]) tl
    end.

  Fixpoint tfoldM {A B} (f : list B -> A -> outcome N B) (pre : list B) (l : list A)
    : outcome N (list B) :=
    match l with
    | [] => Ok pre
    | a :: tl => obind (f pre a) (fun b => tfoldM f (pre ++ [b]) tl)
    end.

  Definition cs_at (es : list cstruct) (k : nat) : cstruct := nth k es CUnit.

  Definition erase_node (es : list cstruct) (nd : node) : cstruct :=
    match nd with
    | NIden => CIden
    | NUnit => CUnit
    | NInjL c => CInjL (cs_at es c)
    | NInjR c => CInjR (cs_at es c)
    | NTake c => CTake (cs_at es c)
    | NDrop c => CDrop (cs_at es c)
    | NComp l r => CComp (cs_at es l) (cs_at es r)
    | NCase l r => CCase (cs_at es l) (cs_at es r)
    | NPair l r => CPair (cs_at es l) (cs_at es r)
    | NDisconnect l _ => CDisconnect (cs_at es l)          (* the right branch is not committed *)
    | NHidden h => CHidden (h_of_bytes h)
    | NFail e => CFail (fail_halves e)
    | NJet fam id => CJet fam id
    | NWord n bits => CWord n bits
    | NWitness _ => CWitness                               (* the value is not committed *)
    end.

  (* committed structure of every node of a table *)
  Definition erase_prog (p : prog) : list cstruct := tfold erase_node [] p.

  (* ================================================================ node records *)
  (* `Inner<Arc<Node<N>>, N::Disconnect, N::Witness>` with children as table indices.
     W = the marker's witness type. *)
  Inductive inner (W : Type) :=
  | IIden
  | IUnit
  | IInjL (c : nat)
  | IInjR (c : nat)
  | ITake (c : nat)
  | IDrop (c : nat)
  | IComp (l r : nat)
  | ICase (l r : nat)
  | IAssertL (l : nat) (h : H)
  | IAssertR (h : H) (r : nat)
  | IPair (l r : nat)
  | IDisconnect (l : nat) (r : option nat)     (* None: NoDisconnect / Option::None *)
  | IWitness (w : W)
  | IFail (e : H * H)
  | IJet (fam id : N)
  | IWord (n : nat) (bits : list bool).
  Arguments IIden {W}. Arguments IUnit {W}. Arguments IInjL {W}. Arguments IInjR {W}.
  Arguments ITake {W}. Arguments IDrop {W}. Arguments IComp {W}. Arguments ICase {W}.
  Arguments IAssertL {W}. Arguments IAssertR {W}. Arguments IPair {W}.
  Arguments IDisconnect {W}. Arguments IWitness {W}. Arguments IFail {W}. Arguments IJet {W}.
  Arguments IWord {W}.

  (* `Node<N> { inner, cmr, data }`; D = N::CachedData (arrows, other roots, names ...) *)
  Record nrec (W D : Type) := mk_nrec { r_inner : inner W; r_cmr : H; r_data : D }.
  Arguments mk_nrec {W D}. Arguments r_inner {W D}. Arguments r_cmr {W D}. Arguments r_data {W D}.

  (* a table position: a node, or the placeholder of a hidden node of the description
     (hidden nodes are not nodes of the DAG: only their root is known) *)
  Inductive entry (W D : Type) :=
  | ENode (r : nrec W D)
  | EHidden (h : H).
  Arguments ENode {W D}. Arguments EHidden {W D}.

  Definition entry_cmr {W D} (e : entry W D) : H :=
    match e with ENode r => r_cmr r | EHidden h => h end.

  Definition cmr_at {W D} (tbl : list (entry W D)) (k : nat) : option H :=
    option_map entry_cmr (nth_error tbl k).

  (* ---------------------------------------------------------------- Node::from_parts *)
  (* `let cmr = match &inner { ... }` with `c.cmr()` = lookup of the child's cached root *)
  Definition from_parts_cmr {W} (cm : nat -> option H) (i : inner W) : outcome N H :=
    let get k := match cm k with Some h => Ok h | None => Err E_FORWARD end in
    match i with
    | IUnit => Ok c_unit
    | IIden => Ok c_iden
    | IInjL c => omap c_injl (get c)
    | IInjR c => omap c_injr (get c)
    | ITake c => omap c_take (get c)
    | IDrop c => omap c_drop (get c)
    | IComp l r => obind (get l) (fun a => omap (c_comp a) (get r))
    | ICase l r => obind (get l) (fun a => omap (c_case a) (get r))
    | IAssertL c h => omap (fun a => c_case a h) (get c)
    | IAssertR h c => omap (c_case h) (get c)
    | IPair l r => obind (get l) (fun a => omap (c_pair a) (get r))
    | IDisconnect l _ => omap c_disconnect (get l)
    | IWitness _ => Ok c_witness
    | IFail e => Ok (c_fail e)
    | IJet fam id => Ok (jet_cmr fam id)
    | IWord n bits => c_const_word n bits
    end.

  (* ================================================================ construction algebras *)
  (* The `*Constructible` traits as a record of operations.  Children are given with their
     table index (the `Arc::clone(child)` stored in `inner`) and their value. *)
  Record algebra (A : Type) := {
    a_iden : A;
    a_unit : A;
    a_injl : nat * A -> A;
    a_injr : nat * A -> A;
    a_take : nat * A -> A;
    a_drop : nat * A -> A;
    a_comp : nat * A -> nat * A -> A;
    a_case : nat * A -> nat * A -> A;
    a_assertl : nat * A -> H -> A;
    a_assertr : H -> nat * A -> A;
    a_pair : nat * A -> nat * A -> A;
    a_disconnect : nat * A -> option nat -> A;
    a_witness : wit_spec -> A;
    a_fail : H * H -> A;
    a_jet : N -> N -> A;
    a_word : nat -> list bool -> outcome N A;
    a_cmr : A -> H                                       (* HasCmr::cmr *)
  }.

  (* impl CoreConstructible / DisconnectConstructible / WitnessConstructible for Arc<Node<N>>:
     `cmr: Cmr::op(child.cmr())`, `inner: Inner::Op(Arc::clone(child))`.  N::CachedData's own
     constructors are represented by [d]: they never touch the cmr. *)
  Definition node_alg {D} (d : inner wit_spec -> D) : algebra (nrec wit_spec D) :=
    let mk i c := mk_nrec i c (d i) in
    {| a_iden := mk IIden c_iden;
       a_unit := mk IUnit c_unit;
       a_injl := fun c => mk (IInjL (fst c)) (c_injl (r_cmr (snd c)));
       a_injr := fun c => mk (IInjR (fst c)) (c_injr (r_cmr (snd c)));
       a_take := fun c => mk (ITake (fst c)) (c_take (r_cmr (snd c)));
       a_drop := fun c => mk (IDrop (fst c)) (c_drop (r_cmr (snd c)));
       a_comp := fun l r => mk (IComp (fst l) (fst r)) (c_comp (r_cmr (snd l)) (r_cmr (snd r)));
       a_case := fun l r => mk (ICase (fst l) (fst r)) (c_case (r_cmr (snd l)) (r_cmr (snd r)));
       a_assertl := fun l h => mk (IAssertL (fst l) h) (c_case (r_cmr (snd l)) h);
       a_assertr := fun h r => mk (IAssertR h (fst r)) (c_case h (r_cmr (snd r)));
       a_pair := fun l r => mk (IPair (fst l) (fst r)) (c_pair (r_cmr (snd l)) (r_cmr (snd r)));
       a_disconnect := fun l r => mk (IDisconnect (fst l) r) (c_disconnect (r_cmr (snd l)));
       a_witness := fun w => mk (IWitness w) c_witness;
       a_fail := fun e => mk (IFail e) (c_fail e);
       a_jet := fun fam id => mk (IJet fam id) (jet_cmr fam id);
       a_word := fun n bits => omap (mk (IWord n bits)) (c_const_word n bits);
       a_cmr := r_cmr |}.

  (* `ConstructibleCmr` (src/merkle/cmr.rs): the carrier is the root alone *)
  Definition ccmr_alg : algebra H :=
    {| a_iden := c_iden;
       a_unit := c_unit;
       a_injl := fun c => c_injl (snd c);
       a_injr := fun c => c_injr (snd c);
       a_take := fun c => c_take (snd c);
       a_drop := fun c => c_drop (snd c);
       a_comp := fun l r => c_comp (snd l) (snd r);
       a_case := fun l r => c_case (snd l) (snd r);
       a_assertl := fun l h => c_case (snd l) h;
       a_assertr := fun h r => c_case h (snd r);
       a_pair := fun l r => c_pair (snd l) (snd r);
       a_disconnect := fun l _ => c_disconnect (snd l);
       a_witness := fun _ => c_witness;
       a_fail := fun e => c_fail e;
       a_jet := fun fam id => jet_cmr fam id;
       a_word := fun n bits => c_const_word n bits;
       a_cmr := fun h => h |}.

  (* the structure-tracking algebra: builds the committed structure itself (used to state
     what `Hiding` builds) *)
  Definition cstruct_alg : algebra cstruct :=
    {| a_iden := CIden;
       a_unit := CUnit;
       a_injl := fun c => CInjL (snd c);
       a_injr := fun c => CInjR (snd c);
       a_take := fun c => CTake (snd c);
       a_drop := fun c => CDrop (snd c);
       a_comp := fun l r => CComp (snd l) (snd r);
       a_case := fun l r => CCase (snd l) (snd r);
       a_assertl := fun l h => CCase (snd l) (CHidden h);
       a_assertr := fun h r => CCase (CHidden h) (snd r);
       a_pair := fun l r => CPair (snd l) (snd r);
       a_disconnect := fun l _ => CDisconnect (snd l);
       a_witness := fun _ => CWitness;
       a_fail := fun e => CFail e;
       a_jet := fun fam id => CJet fam id;
       a_word := fun n bits => Ok (CWord n bits);
       a_cmr := cmr_spec |}.

  (* a `Word` holds 2^n bits, n < 32 *)
  Definition word_ok (n : nat) (bits : list bool) : bool :=
    Nat.ltb n 32 && (N.of_nat (length bits) =? 2 ^ N.of_nat n).

  (* the law every implementation of the traits is expected to satisfy *)
  Record homomorphic {A} (alg : algebra A) : Prop := {
    hm_iden : a_cmr A alg (a_iden A alg) = c_iden;
    hm_unit : a_cmr A alg (a_unit A alg) = c_unit;
    hm_injl : forall c, a_cmr A alg (a_injl A alg c) = c_injl (a_cmr A alg (snd c));
    hm_injr : forall c, a_cmr A alg (a_injr A alg c) = c_injr (a_cmr A alg (snd c));
    hm_take : forall c, a_cmr A alg (a_take A alg c) = c_take (a_cmr A alg (snd c));
    hm_drop : forall c, a_cmr A alg (a_drop A alg c) = c_drop (a_cmr A alg (snd c));
    hm_comp : forall l r, a_cmr A alg (a_comp A alg l r) = c_comp (a_cmr A alg (snd l)) (a_cmr A alg (snd r));
    hm_case : forall l r, a_cmr A alg (a_case A alg l r) = c_case (a_cmr A alg (snd l)) (a_cmr A alg (snd r));
    hm_assertl : forall l h, a_cmr A alg (a_assertl A alg l h) = c_case (a_cmr A alg (snd l)) h;
    hm_assertr : forall h r, a_cmr A alg (a_assertr A alg h r) = c_case h (a_cmr A alg (snd r));
    hm_pair : forall l r, a_cmr A alg (a_pair A alg l r) = c_pair (a_cmr A alg (snd l)) (a_cmr A alg (snd r));
    hm_disconnect : forall l r, a_cmr A alg (a_disconnect A alg l r) = c_disconnect (a_cmr A alg (snd l));
    hm_witness : forall w, a_cmr A alg (a_witness A alg w) = c_witness;
    hm_fail : forall e, a_cmr A alg (a_fail A alg e) = c_fail e;
    hm_jet : forall fam id, a_cmr A alg (a_jet A alg fam id) = jet_cmr fam id;
    hm_word : forall n bits x, word_ok n bits = true -> a_word A alg n bits = Ok x ->
                               c_const_word n bits = Ok (a_cmr A alg x)
  }.

  (* ---------------------------------------------------------------- table driver *)
  (* harness/src/prog.rs `build`, generic in the algebra: node i is built from the values of
     earlier nodes; a hidden node has no value, a case with one hidden child is built with
     assertl / assertr and the hidden root.  inl = value, inr = root of a hidden placeholder. *)
  Section Drive.
    Context {A : Type} (alg : algebra A).

    Definition get_val (tbl : list (A + H)) (k : nat) : outcome N (nat * A) :=
      match nth_error tbl k with
      | Some (inl a) => Ok (k, a)
      | Some (inr _) => Err E_HIDDEN_USE
      | None => Err E_FORWARD
      end.

    Definition drive_node (tbl : list (A + H)) (nd : node) : outcome N (A + H) :=
      match nd with
      | NIden => Ok (inl (a_iden A alg))
      | NUnit => Ok (inl (a_unit A alg))
      | NInjL c => omap (fun x => inl (a_injl A alg x)) (get_val tbl c)
      | NInjR c => omap (fun x => inl (a_injr A alg x)) (get_val tbl c)
      | NTake c => omap (fun x => inl (a_take A alg x)) (get_val tbl c)
      | NDrop c => omap (fun x => inl (a_drop A alg x)) (get_val tbl c)
      | NComp l r => obind (get_val tbl l) (fun x => omap (fun y => inl (a_comp A alg x y)) (get_val tbl r))
      | NPair l r => obind (get_val tbl l) (fun x => omap (fun y => inl (a_pair A alg x y)) (get_val tbl r))
      | NCase l r =>
          match nth_error tbl l, nth_error tbl r with
          | Some (inr _), Some (inr _) => Err E_BOTH_HIDDEN
          | Some (inr h), Some (inl b) => Ok (inl (a_assertr A alg h (r, b)))
          | Some (inl a), Some (inr h) => Ok (inl (a_assertl A alg (l, a) h))
          | Some (inl a), Some (inl b) => Ok (inl (a_case A alg (l, a) (r, b)))
          | _, _ => Err E_FORWARD
          end
      | NDisconnect l r =>
          obind (match r with Some k => omap (fun _ => tt) (get_val tbl k) | None => Ok tt end) (fun _ =>
          omap (fun x => inl (a_disconnect A alg x r)) (get_val tbl l))
      | NHidden h => Ok (inr (h_of_bytes h))
      | NFail e => Ok (inl (a_fail A alg (fail_halves e)))
      | NJet fam id => Ok (inl (a_jet A alg fam id))
      | NWord n bits =>
          if word_ok n bits then omap inl (a_word A alg n bits) else Err E_WORD_LEN
      | NWitness w => Ok (inl (a_witness A alg w))
      end.

    Definition drive (p : prog) : outcome N (list (A + H)) := tfoldM drive_node [] p.

    Definition val_cmr (v : A + H) : H :=
      match v with inl a => a_cmr A alg a | inr h => h end.
  End Drive.

  (* route 1: the node table of ConstructNode-like nodes *)
  Definition construct {D} (d : inner wit_spec -> D) (p : prog)
    : outcome N (list (nrec wit_spec D + H)) := drive (node_alg d) p.

  Definition to_entry {W D} (v : nrec W D + H) : entry W D :=
    match v with inl r => ENode r | inr h => EHidden h end.

  (* ================================================================ Hiding<N> *)
  (* `struct Hiding { result: Result<N, Cmr>, ctx }`: inl = Ok(node), inr = Err(cmr) *)
  Section Hiding.
    Context {A : Type} (alg : algebra A).
    Definition hid := (A + H)%type.

    Definition h_cmr (v : hid) : H := val_cmr alg v.          (* impl HasCmr for Hiding *)
    Definition h_hide (v : hid) : hid := inr (h_cmr v).       (* Hiding::hide *)

    Definition un1 (f : nat * A -> A) (g : H -> H) (c : nat * hid) : hid :=
      match snd c with inl a => inl (f (fst c, a)) | inr h => inr (g h) end.

    Definition bin (f : nat * A -> nat * A -> A) (g : H -> H -> H) (l r : nat * hid) : hid :=
      match snd l, snd r with
      | inl a, inl b => inl (f (fst l, a) (fst r, b))
      | _, _ => inr (g (h_cmr (snd l)) (h_cmr (snd r)))
      end.

    Definition h_case (l r : nat * hid) : hid :=
      match snd l, snd r with
      | inl a, inl b => inl (a_case A alg (fst l, a) (fst r, b))
      | inr h, inl b => inl (a_assertr A alg h (fst r, b))
      | inl a, inr h => inl (a_assertl A alg (fst l, a) h)
      | inr _, inr _ => inr (c_case (h_cmr (snd l)) (h_cmr (snd r)))
      end.

    Definition h_assertl (l : nat * hid) (h : H) : hid :=
      match snd l with
      | inl a => inl (a_assertl A alg (fst l, a) h)
      | inr _ => inr (c_case (h_cmr (snd l)) h)
      end.

    Definition h_assertr (h : H) (r : nat * hid) : hid :=
      match snd r with
      | inl b => inl (a_assertr A alg h (fst r, b))
      | inr _ => inr (c_case h (h_cmr (snd r)))
      end.

    Definition h_disconnect (l : nat * hid) (r : option nat) : hid :=
      match snd l with
      | inl a => inl (a_disconnect A alg (fst l, a) r)
      | inr _ => inr (c_disconnect (h_cmr (snd l)))
      end.

    (* impl CoreConstructible / DisconnectConstructible / WitnessConstructible for Hiding<N> *)
    Definition hiding_alg : algebra hid :=
      {| a_iden := inl (a_iden A alg);
         a_unit := inl (a_unit A alg);
         a_injl := un1 (a_injl A alg) c_injl;
         a_injr := un1 (a_injr A alg) c_injr;
         a_take := un1 (a_take A alg) c_take;
         a_drop := un1 (a_drop A alg) c_drop;
         a_comp := bin (a_comp A alg) c_comp;
         a_case := h_case;
         a_assertl := h_assertl;
         a_assertr := h_assertr;
         a_pair := bin (a_pair A alg) c_pair;
         a_disconnect := h_disconnect;
         a_witness := fun w => inl (a_witness A alg w);
         a_fail := fun e => inl (a_fail A alg e);
         a_jet := fun fam id => inl (a_jet A alg fam id);
         a_word := fun n bits => omap inl (a_word A alg n bits);
         a_cmr := h_cmr |}.

    (* Building a description through the wrapper: hidden nodes are `Hiding::hidden(cmr)`,
       every node whose index is in [hs] is hidden (`.hide()`) right after it is built. *)
    Definition hget (tbl : list hid) (k : nat) : outcome N (nat * hid) :=
      match nth_error tbl k with Some v => Ok (k, v) | None => Err E_FORWARD end.

    Definition drive_hiding_node (hs : nat -> bool) (tbl : list hid) (nd : node) : outcome N hid :=
      let i := length tbl in
      let post (v : hid) := if hs i then h_hide v else v in
      let hal := hiding_alg in
      omap post
      match nd with
      | NIden => Ok (a_iden hid hal)
      | NUnit => Ok (a_unit hid hal)
      | NInjL c => omap (a_injl hid hal) (hget tbl c)
      | NInjR c => omap (a_injr hid hal) (hget tbl c)
      | NTake c => omap (a_take hid hal) (hget tbl c)
      | NDrop c => omap (a_drop hid hal) (hget tbl c)
      | NComp l r => obind (hget tbl l) (fun x => omap (a_comp hid hal x) (hget tbl r))
      | NCase l r => obind (hget tbl l) (fun x => omap (a_case hid hal x) (hget tbl r))
      | NPair l r => obind (hget tbl l) (fun x => omap (a_pair hid hal x) (hget tbl r))
      | NDisconnect l r =>
          (* the right branch must be an un-hidden node (`as_node()`) *)
          obind (match r with
                 | Some k => match nth_error tbl k with
                             | Some (inl _) => Ok tt
                             | Some (inr _) => Err E_HIDDEN_USE
                             | None => Err E_FORWARD
                             end
                 | None => Ok tt
                 end) (fun _ => omap (fun x => a_disconnect hid hal x r) (hget tbl l))
      | NHidden h => Ok (inr (h_of_bytes h))
      | NFail e => Ok (a_fail hid hal (fail_halves e))
      | NJet fam id => Ok (a_jet hid hal fam id)
      | NWord n bits => if word_ok n bits then a_word hid hal n bits else Err E_WORD_LEN
      | NWitness w => Ok (a_witness hid hal w)
      end.

    Definition drive_hiding (hs : nat -> bool) (p : prog) : outcome N (list hid) :=
      tfoldM (drive_hiding_node hs) [] p.
  End Hiding.

  (* ================================================================ Node::convert *)
  (* One generic function serves every conversion of the library (finalize_types,
     finalize_unpruned, prune's two passes, unfinalize, unfinalize_types, to_construct_node,
     Namer / Forgetter / Populator, SimpleFinalizer, decode): the `Converter` supplies
     witness, disconnect, pruning decision and cached data; the cmr is copied. *)
  Record converter (W D W' D' : Type) := {
    cv_witness : nat -> W -> outcome N W';
    cv_disconnect : nat -> option nat -> outcome N (option nat);
    cv_prune : nat -> outcome N hide;
    cv_data : nat -> inner W' -> outcome N D'
  }.

  Section Convert.
    Context {W D W' D' : Type} (cv : converter W D W' D').

    (* map_witness_result / map_disconnect_result *)
    Definition conv_inner (i : nat) (inn : inner W) : outcome N (inner W') :=
      match inn with
      | IIden => Ok IIden
      | IUnit => Ok IUnit
      | IInjL c => Ok (IInjL c)
      | IInjR c => Ok (IInjR c)
      | ITake c => Ok (ITake c)
      | IDrop c => Ok (IDrop c)
      | IComp l r => Ok (IComp l r)
      | ICase l r => Ok (ICase l r)
      | IAssertL l h => Ok (IAssertL l h)
      | IAssertR h r => Ok (IAssertR h r)
      | IPair l r => Ok (IPair l r)
      | IDisconnect l r => omap (IDisconnect l) (cv_disconnect _ _ _ _ cv i r)
      | IWitness w => omap IWitness (cv_witness _ _ _ _ cv i w)
      | IFail e => Ok (IFail e)
      | IJet fam id => Ok (IJet fam id)
      | IWord n bits => Ok (IWord n bits)
      end.

    (* "prune case nodes into asserts": `left.cmr()` / `right.cmr()` of the CONVERTED children *)
    Definition prune_inner (i : nat) (done : list (entry W' D')) (inn : inner W')
      : outcome N (inner W') :=
      match inn with
      | ICase l r =>
          obind (cv_prune _ _ _ _ cv i) (fun hd =>
            match hd with
            | HideNeither => Ok (ICase l r)
            | HideLeft => match cmr_at done l with
                          | Some h => Ok (IAssertR h r)
                          | None => Err E_FORWARD
                          end
            | HideRight => match cmr_at done r with
                           | Some h => Ok (IAssertL l h)
                           | None => Err E_FORWARD
                           end
            end)
      | x => Ok x
      end.

    Definition convert_entry (done : list (entry W' D')) (e : entry W D) : outcome N (entry W' D') :=
      let i := length done in
      match e with
      | EHidden h => Ok (EHidden h)
      | ENode r =>
          obind (conv_inner i (r_inner r)) (fun inn1 =>
          obind (prune_inner i done inn1) (fun inn2 =>
          obind (cv_data _ _ _ _ cv i inn2) (fun d =>
          Ok (ENode (mk_nrec inn2 (r_cmr r) d)))))         (* cmr: data.node.cmr *)
      end.

    Definition convert (src : list (entry W D)) : outcome N (list (entry W' D')) :=
      tfoldM convert_entry [] src.
  End Convert.

  (* ================================================================ erasure of node tables *)
  Definition erase_inner {W} (es : list cstruct) (i : inner W) : cstruct :=
    match i with
    | IIden => CIden
    | IUnit => CUnit
    | IInjL c => CInjL (cs_at es c)
    | IInjR c => CInjR (cs_at es c)
    | ITake c => CTake (cs_at es c)
    | IDrop c => CDrop (cs_at es c)
    | IComp l r => CComp (cs_at es l) (cs_at es r)
    | ICase l r => CCase (cs_at es l) (cs_at es r)
    | IAssertL l h => CCase (cs_at es l) (CHidden h)
    | IAssertR h r => CCase (CHidden h) (cs_at es r)
    | IPair l r => CPair (cs_at es l) (cs_at es r)
    | IDisconnect l _ => CDisconnect (cs_at es l)
    | IWitness _ => CWitness
    | IFail e => CFail e
    | IJet fam id => CJet fam id
    | IWord n bits => CWord n bits
    end.

  Definition erase_entry {W D} (es : list cstruct) (e : entry W D) : cstruct :=
    match e with
    | ENode r => erase_inner es (r_inner r)
    | EHidden h => CHidden h
    end.

  Definition erase_table {W D} (t : list (entry W D)) : list cstruct := tfold erase_entry [] t.

  (* a table whose cached roots are what from_parts computes from inner and children *)
  Definition entry_ok {W D} (pre : list (entry W D)) (e : entry W D) : Prop :=
    match e with
    | EHidden _ => True
    | ENode r => from_parts_cmr (cmr_at pre) (r_inner r) = Ok (r_cmr r) /\
                 match r_inner r with IWord n bits => word_ok n bits = true | _ => True end
    end.

  Fixpoint consistent_from {W D} (pre rest : list (entry W D)) : Prop :=
    match rest with
    | [] => True
    | e :: tl => entry_ok pre e /\ consistent_from (pre ++ [e]) tl
    end.
  Definition consistent {W D} (t : list (entry W D)) : Prop := consistent_from [] t.

End Hash.

Arguments CIden {H}. Arguments CUnit {H}. Arguments CInjL {H}. Arguments CInjR {H}.
Arguments CTake {H}. Arguments CDrop {H}. Arguments CComp {H}. Arguments CCase {H}.
Arguments CPair {H}. Arguments CDisconnect {H}. Arguments CWitness {H}. Arguments CFail {H}.
Arguments CJet {H}. Arguments CWord {H}. Arguments CHidden {H}.
Arguments IIden {H W}. Arguments IUnit {H W}. Arguments IInjL {H W}. Arguments IInjR {H W}.
Arguments ITake {H W}. Arguments IDrop {H W}. Arguments IComp {H W}. Arguments ICase {H W}.
Arguments IAssertL {H W}. Arguments IAssertR {H W}. Arguments IPair {H W}.
Arguments IDisconnect {H W}. Arguments IWitness {H W}. Arguments IFail {H W}. Arguments IJet {H W}.
Arguments IWord {H W}.
Arguments mk_nrec {H W D}. Arguments r_inner {H W D}. Arguments r_cmr {H W D}. Arguments r_data {H W D}.
Arguments ENode {H W D}. Arguments EHidden {H W D}.
Arguments entry_cmr {H W D}. Arguments cmr_at {H W D}.
Arguments tfold {A B}. Arguments tfoldM {A B}.
