(* Executable entry point of the second C08 correspondence: RedeemNode::prune modelled end to end
   (Redeem/PruneIhr.v: rounds, IHR-keyed tracker with real SHA-256 identity roots, re-inference by the
   reference of C04, witness shrinking) against the implementation: per-round identity classes, final
   structure, final arrows and final witness bits, in the form tools/props/c08.py projects out of the
   harness output (sections 56, 55, 54, 53 of kind c08). *)
From RS Require Import Lib.Tac Lib.Outcome Lib.Bits Lib.Sweep Ty.Ty Core.Prog
  Redeem.Finalize Redeem.PruneProg Redeem.PruneFix Redeem.Retype Redeem.Routes Redeem.Run
  Infer.Constraints Infer.Infer Redeem.RetypeInfer Redeem.PruneLoop Redeem.PruneIhr.
Import ListNotations.
Local Open Scope N_scope.

(* the 16 jets of the generators (tools/props/redeem_common.py JETS): model id, source, target *)
Definition gBit : gty := GSum GOne GOne.
Definition c08_jt : jet_table :=
  [ (1, 1, gBit, GOne); (1, 2, GWord 4, gBit); (1, 3, GWord 4, gBit); (1, 4, GWord 3, gBit);
    (1, 5, gBit, gBit); (1, 6, GOne, GWord 3); (1, 7, GOne, GWord 3); (1, 8, GOne, GWord 3);
    (1, 9, GWord 6, gBit); (1, 10, GWord 6, gBit); (1, 11, GWord 6, gBit); (1, 12, GWord 5, gBit);
    (1, 13, GOne, GWord 5); (1, 14, GWord 5, GOne); (1, 15, GOne, gBit); (1, 16, GOne, GWord 5) ].

(* types as the harness prints them (prog::ty_nums): words of at least 2 bits abbreviated `3 n` *)
Fixpoint as_word (t : ty) : option nat :=
  match t with
  | Sum One One => Some O
  | Prod a b =>
      match as_word a, as_word b with
      | Some n, Some m => if Nat.eqb n m then Some (S n) else None
      | _, _ => None
      end
  | _ => None
  end.

Fixpoint ty_nums (t : ty) : list N :=
  match as_word t with
  | Some (S n) => [3; N.of_nat (S n)]
  | _ =>
      match t with
      | One => [0]
      | Sum a b => 1 :: ty_nums a ++ ty_nums b
      | Prod a b => 2 :: ty_nums a ++ ty_nums b
      end
  end.

Definition arrows_of_tp (tp : typed_prog) : arrows :=
  fun i => match nth_error tp i with Some (_, a) => a | None => None end.

Definition arrow_items (marks : list bool) (ar : arrows) : list (list N) :=
  flat_map (fun i => if nth i marks false
                     then match ar i with
                          | Some (s, t) => [N.of_nat i :: ty_nums s ++ ty_nums t]
                          | None => [[N.of_nat i; 99]]
                          end
                     else []) (seq 0 (length marks)).

Definition kept_witness_items (marks : list bool) (q : rprog) : list (list N) :=
  flat_map (fun i => if nth i marks false
                     then match nth i q RIden with
                          | RWitness c => let b := compact_enc (cv_val c) in
                                          [N.of_nat i :: N.of_nat (length b) :: bits_N b]
                          | _ => []
                          end
                     else []) (seq 0 (length q)).

(* `1 <code>` | `2 <exec>` |
   `0 58 <err> 56 <m> <classes of every round> 55 <n> <codes> 54 <k> (<idx> <src> <tgt>)*k 53 <k> (<idx> <nbits> <bits>)*k`
   jm: model jet id -> index of the jet in the library's Elements table *)
Definition run_c08_full (lockh final lt_raw : N) (tp : typed_prog) (jm : list (N * N)) : list N :=
  let js := jet_inst lockh (negb (final =? 0)) lt_raw in
  match route_construct true tp with
  | Err e => [1; ferr_code e]
  | Panic _ => [1; 9]
  | OutOfFuel => [1; 8]
  | Ok p =>
      match run_i js p with
      | Err e => [2; eerr_code e]
      | Panic _ => [2; 9]
      | OutOfFuel => [2; 8]
      | Ok (_, E) =>
          let st := prune_full c08_jt (map (fun x => (fst x, (1, snd x))) jm) p (arrows_of_tp tp) E in
          let qf := ls_prog st in
          let marks := reach_marks qf in
          let rounds := concat (ls_rounds st) in
          let ai := arrow_items marks (ls_arrows st) in
          let wi := kept_witness_items marks qf in
          [0; 58; ls_err st; 56; N.of_nat (length rounds)] ++ map N.of_nat rounds ++
          [55; N.of_nat (length p)] ++ struct_codes p qf marks ++
          [54; N.of_nat (length ai)] ++ concat ai ++
          [53; N.of_nat (length wi)] ++ concat wi
      end
  end.

(* ------------------------------------------------------------------ C12: the pruning routes end to end *)

(* `0 <err> <rounds> <classes of every round> <k> (<idx> <nbits> <bits>)*k` | `1 <code>` | `9` | `8`:
   finalize_pruned = finalize_unpruned + RedeemNode::prune, with nothing read from the implementation
   but the arrows of the unpruned program *)
Definition show_pruned_full (r : outcome ferr rprog) (ar0 : arrows) : list N :=
  match r with
  | Ok p =>
      match run_i no_jets p with
      | Ok (_, E) =>
          let st := prune_full [] [] p ar0 E in
          let qf := ls_prog st in
          let wi := kept_witness_items (reach_marks qf) qf in
          let rounds := concat (ls_rounds st) in
          [0; ls_err st; N.of_nat (length rounds)] ++ map N.of_nat rounds ++ [N.of_nat (length wi)] ++ concat wi
      | Err _ => [1; 42]
      | Panic _ => [9]
      | OutOfFuel => [8]
      end
  | Err e => [1; ferr_code e]
  | Panic _ => [9]
  | OutOfFuel => [8]
  end.

Definition run_c12_full (tp : typed_prog) : list N :=
  let m := wmap_of 0 tp in
  let names := fun i => N.of_nat i in
  let r1 := route_construct true tp in
  let r2 := route_named true names m tp in
  let s1 := show_pruned_full r1 (arrows_of_tp tp) in
  (* both routes usually finalise to the same program: prune it once *)
  let same := match r1, r2 with Ok p1, Ok p2 => if rprog_eq_dec p1 p2 then true else false | _, _ => false end in
  let s2 := if same then s1 else show_pruned_full r2 (arrows_of_tp tp) in
  [101] ++ s1 ++ [103] ++ s2.
