(* C17 - the named DAG that `Forest::from_program` builds (`name_program`, Human/Namer.v) satisfies
   the hypotheses of the round-trip theorem: it is a well-formed table, distinct node objects carry
   distinct names, and every witness / disconnect name is reached by one path only.

   Mechanism: `convert::<MaxSharing<Commit>>` shares by identity hash; `CommitData::imr`
   (src/node/commit.rs) gives a node an identity hash iff it is neither a witness nor a disconnect
   and all its children have one (`ihr_closed`, mirrored below as a hypothesis on the class numbers
   that the model takes from the implementation; the check evaluates `from_ok` on every case).
   Hence every node from which a witness / disconnect is reached has no identity hash and is
   converted anew on every path: above a witness the result is a tree. *)
From RS Require Import Lib.Tac Lib.Outcome Core.Prog Human.Namer Human.Render Human.RenderProofs Human.Resolve
  Human.RoundTrip Human.PathCount.
Import ListNotations.
Local Open Scope N_scope.

Definition counted_kind (k : kind) : bool := match k with KDisconnect | KWitness => true | _ => false end.

Lemma counted_mk k pay l r n h : counted (mk_nn k pay l r n h) = counted_kind k.
Proof. destruct k; reflexivity. Qed.

Lemma counted_dummy : counted dummy_nn = false.
Proof. reflexivity. Qed.

(* ------------------------------------------------------------------ tables that grow *)
Lemma nget_app_old t more c : (c < length t)%nat -> nget (t ++ more) c = nget t c.
Proof. intros H. unfold nget. apply app_nth1. exact H. Qed.

Lemma nget_app_new t n : nget (t ++ [n]) (length t) = n.
Proof. unfold nget. rewrite app_nth2 by lia. rewrite Nat.sub_diag. reflexivity. Qed.

Lemma wf_from_app : forall t k more, wf_from k (t ++ more) = wf_from k t && wf_from (k + length t) more.
Proof.
  induction t as [|n r IH]; intros k more; cbn [app wf_from length].
  - rewrite Nat.add_0_r. reflexivity.
  - rewrite IH. replace (S k + length r)%nat with (k + S (length r))%nat by lia. apply andb_assoc.
Qed.

Lemma wf_of t : wf_from 0 t = true -> (0 < length t)%nat -> wf_ndag t = true.
Proof.
  intros H Hl. unfold wf_ndag. rewrite H. destruct (length t); [lia | reflexivity].
Qed.

Lemma wf_children t j c : wf_from 0 t = true -> (j < length t)%nat -> child t j c -> (c < j)%nat.
Proof.
  intros H Hj Hc. apply (wf_child t j c); [apply wf_of; [exact H | lia] | exact Hc].
Qed.

Lemma npaths_ext t more : wf_from 0 t = true -> forall f j w, (j < length t)%nat ->
  npaths f (t ++ more) j w = npaths f t j w.
Proof.
  intros H. induction f as [|f IH]; intros j w Hj; [reflexivity|].
  cbn [npaths]. rewrite (nget_app_old t more j Hj). destruct (Nat.eqb j w); [reflexivity|].
  f_equal.
  - destruct (nn_l (nget t j)) as [c|] eqn:E; [|reflexivity]. apply IH.
    assert (child t j c) by (left; exact E). pose proof (wf_children t j c H Hj H0). lia.
  - destruct (nn_r (nget t j)) as [c|] eqn:E; [|reflexivity]. apply IH.
    assert (child t j c) by (right; exact E). pose proof (wf_children t j c H Hj H0). lia.
Qed.

Lemma paths_ext t more j w : wf_from 0 t = true -> (j < length t)%nat ->
  paths (t ++ more) j w = paths t j w.
Proof. intros H Hj. unfold paths. apply npaths_ext; assumption. Qed.

Lemma paths_high t j w : wf_from 0 t = true -> (j < length t)%nat -> (j < w)%nat -> paths t j w = 0.
Proof. intros H Hj Hw. apply paths_above; [apply wf_of; [exact H | lia] | exact Hw]. Qed.

(* j reaches no witness / disconnect *)
Definition clean (t : ndag) (j : nat) : Prop :=
  forall w, counted (nget t w) = true -> paths t j w = 0.

(* every witness / disconnect that j reaches was created at position base or later *)
Definition above (base : nat) (t : ndag) (j : nat) : Prop :=
  forall w, counted (nget t w) = true -> paths t j w <> 0 -> (base <= w)%nat.

Lemma clean_ext t more j : wf_from 0 t = true -> (j < length t)%nat -> clean t j -> clean (t ++ more) j.
Proof.
  intros H Hj C w Hw. rewrite (paths_ext t more j w H Hj).
  destruct (Nat.lt_ge_cases j w) as [Hlt|Hge]; [apply paths_high; assumption|].
  apply C. rewrite nget_app_old in Hw by lia. exact Hw.
Qed.

Lemma above_ext base t more j : wf_from 0 t = true -> (j < length t)%nat -> above base t j -> above base (t ++ more) j.
Proof.
  intros H Hj A w Hw Hp. rewrite (paths_ext t more j w H Hj) in Hp.
  destruct (Nat.lt_ge_cases j w) as [Hlt|Hge]; [rewrite (paths_high t j w H Hj Hlt) in Hp; congruence|].
  apply A; [|exact Hp]. rewrite nget_app_old in Hw by lia. exact Hw.
Qed.

(* ------------------------------------------------------------------ shapes *)
Lemma shape_arity p i k pay l r : shape_of p i = Some (k, pay, l, r) ->
  match arity k with
  | O => l = None /\ r = None
  | S O => l <> None /\ r = None
  | _ => l <> None /\ r <> None
  end.
Proof.
  unfold shape_of. destruct (nth_error p i) as [n|]; [|discriminate].
  destruct n; try (intros H; injection H as <- <- <- <-; cbn; split; congruence).
  - destruct (is_hidden p l0); [|destruct (is_hidden p r0)];
      intros H; injection H as <- <- <- <-; cbn; split; congruence.
  - discriminate.
Qed.

Section FromProgram.
Variable p : prog.
Variable ihr : nat -> option N.
Variable cmr : nat -> N.
Variable root_cmr : N.
Hypothesis Wp : wf_prog p = true.
(* the operands of every node that has a shape have one (hidden nodes occur below `case` only) *)
Hypothesis Hshape : forall i k pay l r c, shape_of p i = Some (k, pay, l, r) ->
  l = Some c \/ r = Some c -> shape_of p c <> None.
(* CommitData::imr: an identity hash only without witness / disconnect at or below the node *)
Hypothesis Hclosed : forall i k pay l r, shape_of p i = Some (k, pay, l, r) -> ihr i <> None ->
  counted_kind k = false /\ forall c, l = Some c \/ r = Some c -> ihr c <> None.

Record inv (st : cv_state) : Prop := mk_inv {
  i_wf : wf_from 0 (cv_tbl st) = true;
  i_one : forall j w, (j < length (cv_tbl st))%nat -> counted (nget (cv_tbl st) w) = true ->
          paths (cv_tbl st) j w <= 1;
  i_seen : forall k j, seen_get (cv_seen st) k = Some j ->
           (j < length (cv_tbl st))%nat /\ clean (cv_tbl st) j }.

(* the result for one operand *)
Definition child_res (base : nat) (t : ndag) (o o' : option nat) : Prop :=
  match o with
  | None => o' = None
  | Some c => exists j, o' = Some j /\ (j < length t)%nat /\
                (ihr c <> None -> clean t j) /\ (ihr c = None -> above base t j)
  end.

Lemma child_res_ext base t more o o' : wf_from 0 t = true ->
  child_res base t o o' -> child_res base (t ++ more) o o'.
Proof.
  intros H. destruct o as [c|]; cbn [child_res]; [|tauto].
  intros [j [E [Hj [C A]]]]. exists j. split; [exact E|]. split; [rewrite app_length; lia|].
  split; intros Hi; [apply clean_ext; auto | apply above_ext; auto].
Qed.

Definition post (i : nat) (st : cv_state) (res : option nat * cv_state) : Prop :=
  exists more, cv_tbl (snd res) = cv_tbl st ++ more /\ inv (snd res) /\
    child_res (length (cv_tbl st)) (cv_tbl (snd res)) (Some i) (fst res).

Lemma seen_get_cons key j m k : seen_get ((key, j) :: m) k = if key =? k then Some j else seen_get m k.
Proof. reflexivity. Qed.

Lemma cv_visit_inv : forall fuel i st, (i < fuel)%nat -> shape_of p i <> None -> inv st ->
  post i st (cv_visit p ihr cmr root_cmr fuel i st).
Proof.
  induction fuel as [|f IH]; intros i st Hi Hs Inv; [lia|].
  cbn [cv_visit].
  destruct (match ihr i with Some k => seen_get (cv_seen st) k | None => None end) as [j0|] eqn:E0.
  { (* shared: converted before *)
    destruct (ihr i) as [key|] eqn:Ei; [|discriminate E0].
    destruct (i_seen st Inv key j0 E0) as [Hj C].
    exists []. cbn [fst snd]. rewrite app_nil_r. split; [reflexivity|]. split; [exact Inv|].
    exists j0. split; [reflexivity|]. split; [exact Hj|]. rewrite Ei. split; [intros _; exact C | congruence]. }
  destruct (shape_of p i) as [[[[k pay] l] r]|] eqn:Es; [|congruence].
  destruct (shape_children p i k pay l r Wp Es) as [Hl Hr].
  (* an operand *)
  assert (Sub : forall o s, (forall c, o = Some c -> (c < i)%nat /\ shape_of p c <> None) -> inv s ->
            exists o' s1 more, (match o with Some c => cv_visit p ihr cmr root_cmr f c s | None => (None, s) end) = (o', s1) /\
              cv_tbl s1 = cv_tbl s ++ more /\ inv s1 /\ child_res (length (cv_tbl s)) (cv_tbl s1) o o').
  { intros [c|] s Hc Is.
    - destruct (Hc c eq_refl) as [Hlt Hsc].
      destruct (IH c s ltac:(lia) Hsc Is) as [more [Et [I1 R1]]].
      destruct (cv_visit p ihr cmr root_cmr f c s) as [o' s1]. cbn [fst snd] in *.
      exists o', s1, more. split; [reflexivity|]. split; [exact Et|]. split; [exact I1 | exact R1].
    - exists None, s, []. rewrite app_nil_r. split; [reflexivity|]. split; [reflexivity|]. split; [exact Is | reflexivity]. }
  destruct (Sub l st) as [l' [st1 [more1 [E1 [T1 [I1 R1]]]]]]; [|exact Inv|].
  { intros c Hc. split; [apply Hl; exact Hc | apply (Hshape i k pay l r c Es); left; exact Hc]. }
  rewrite E1.
  destruct (Sub r st1) as [r' [st2 [more2 [E2 [T2 [I2 R2]]]]]]; [|exact I1|].
  { intros c Hc. split; [apply Hr; exact Hc | apply (Hshape i k pay l r c Es); right; exact Hc]. }
  rewrite E2. clear Sub E1 E2.
  assert (T02 : cv_tbl st2 = cv_tbl st ++ (more1 ++ more2)) by (rewrite T2, T1, app_assoc; reflexivity).
  destruct (match ihr i with Some key => seen_get (cv_seen st2) key | None => None end) as [j0|] eqn:E3.
  { (* a child carried the same sharing id *)
    destruct (ihr i) as [key|] eqn:Ei; [|discriminate E3].
    destruct (i_seen st2 I2 key j0 E3) as [Hj C].
    exists (more1 ++ more2). cbn [fst snd]. split; [exact T02|]. split; [exact I2|].
    exists j0. split; [reflexivity|]. split; [exact Hj|]. rewrite Ei. split; [intros _; exact C | congruence]. }
  (* a new node *)
  destruct (match k with KDisconnect => let '(h, nm) := name_hole (cv_namer st2) in (Some h, nm) | _ => (None, cv_namer st2) end)
    as [hole nm1] eqn:Eh.
  destruct (if cmr i =? root_cmr then (NMain, nm1) else assign_name nm1 k) as [nme nm2].
  cbn [fst snd cv_tbl].
  set (t2 := cv_tbl st2) in *. set (nd := mk_nn k pay l' r' nme hole). set (j := length t2).
  assert (W2 : wf_from 0 t2 = true) by exact (i_wf st2 I2).
  (* the left result, seen from t2 *)
  assert (R1' : child_res (length (cv_tbl st)) t2 l l').
  { rewrite T2. apply child_res_ext; [exact (i_wf st1 I1) | exact R1]. }
  (* positions of the operands *)
  assert (Ll : forall c, l' = Some c -> (c < length (cv_tbl st1))%nat).
  { intros c E. destruct l as [cl|]; cbn [child_res] in R1; [|congruence].
    destruct R1 as [x [Ex [Hx _]]]. congruence. }
  assert (Lr : forall c, r' = Some c -> (c < j)%nat).
  { intros c E. destruct r as [cr|]; cbn [child_res] in R2; [|congruence].
    destruct R2 as [x [Ex [Hx _]]]. subst j. congruence. }
  assert (Len12 : (length (cv_tbl st1) <= j)%nat) by (subst j; rewrite T2, app_length; lia).
  assert (Len01 : (length (cv_tbl st) <= length (cv_tbl st1))%nat) by (rewrite T1, app_length; lia).
  assert (Hhole : match k with KDisconnect => opt_some hole = true | _ => opt_some hole = false end).
  { destruct k; try (injection Eh as <- _; reflexivity).
    all: unfold name_hole in Eh; injection Eh as <- _; reflexivity. }
  (* the new table is well formed *)
  assert (Wn : node_wf j nd = true).
  { unfold node_wf, nd. cbn [nn_l nn_r nn_kind nn_hole].
    assert (A1 : opt_lt l' j = true).
    { destruct l' as [c|]; [|reflexivity]. cbn. apply Nat.ltb_lt. specialize (Ll c eq_refl). lia. }
    assert (A2 : opt_lt r' j = true).
    { destruct r' as [c|]; [|reflexivity]. cbn. apply Nat.ltb_lt. exact (Lr c eq_refl). }
    rewrite A1, A2. cbn [andb].
    assert (Sl : opt_some l' = opt_some l).
    { destruct l as [cl|]; cbn [child_res] in R1; [destruct R1 as [x [-> _]]; reflexivity | subst l'; reflexivity]. }
    assert (Sr : opt_some r' = opt_some r).
    { destruct r as [cr|]; cbn [child_res] in R2; [destruct R2 as [x [-> _]]; reflexivity | subst r'; reflexivity]. }
    rewrite Sl, Sr. pose proof (shape_arity p i k pay l r Es) as Ar.
    assert (A3 : match arity k with
                 | O => negb (opt_some l) && negb (opt_some r)
                 | S O => opt_some l && negb (opt_some r)
                 | _ => opt_some l && opt_some r end = true).
    { destruct (arity k) as [|[|?]]; destruct Ar as [Al Arr]; destruct l, r; cbn; congruence. }
    rewrite A3. cbn [andb].
    destruct k; rewrite Hhole; reflexivity. }
  assert (W' : wf_from 0 (t2 ++ [nd]) = true).
  { rewrite wf_from_app, W2. cbn [andb wf_from Nat.add]. fold j. rewrite Wn. reflexivity. }
  assert (Wd : wf_ndag (t2 ++ [nd]) = true) by (apply wf_of; [exact W' | rewrite app_length; cbn; lia]).
  assert (Gj : nget (t2 ++ [nd]) j = nd) by apply nget_app_new.
  (* paths from the new node *)
  assert (Pj : forall w, paths (t2 ++ [nd]) j w =
                 (if Nat.eqb j w then 1 else 0) + (match l' with Some c => paths t2 c w | None => 0 end)
                 + (match r' with Some c => paths t2 c w | None => 0 end)).
  { intros w. rewrite (paths_step _ Wd j w), Gj. unfold nd at 1 2. cbn [nn_l nn_r]. f_equal; [f_equal|].
    - destruct l' as [c|]; [|reflexivity]. cbn [opaths]. apply paths_ext; [exact W2|]. specialize (Ll c eq_refl). lia.
    - destruct r' as [c|]; [|reflexivity]. cbn [opaths]. apply paths_ext; [exact W2|]. exact (Lr c eq_refl). }
  assert (Cw : forall w, counted (nget (t2 ++ [nd]) w) = true ->
             ((w < j)%nat /\ counted (nget t2 w) = true) \/ (w = j /\ counted_kind k = true)).
  { intros w Hw. destruct (Nat.lt_trichotomy w j) as [Hlt|[->|Hgt]].
    - left. split; [exact Hlt|]. rewrite nget_app_old in Hw by exact Hlt. exact Hw.
    - right. split; [reflexivity|]. rewrite Gj in Hw. unfold nd in Hw. rewrite counted_mk in Hw. exact Hw.
    - rewrite nget_out in Hw by (rewrite app_length; cbn; fold j; lia). discriminate Hw. }
  (* operands seen as values *)
  assert (Vl : forall w, counted (nget t2 w) = true ->
            match l' with Some c => paths t2 c w | None => 0 end <> 0 ->
            (w < length (cv_tbl st1))%nat /\ (length (cv_tbl st) <= w)%nat /\ (forall cl, l = Some cl -> ihr cl = None)).
  { intros w Hw Hp. destruct l as [cl|]; cbn [child_res] in R1'; [|subst l'; congruence].
    destruct R1' as [x [-> [Hx [C A]]]]. pose proof (Ll x eq_refl) as Hx1.
    split; [|split].
    - destruct (Nat.lt_ge_cases x w) as [Hlt|Hge]; [rewrite (paths_high t2 x w W2 Hx Hlt) in Hp; congruence | lia].
    - destruct (ihr cl) eqn:Ec; [exfalso; apply Hp; apply C; [congruence | exact Hw] | apply (A eq_refl w Hw Hp)].
    - intros cl' E. injection E as <-. destruct (ihr cl) eqn:Ec; [|reflexivity].
      exfalso. apply Hp. apply C; [congruence | exact Hw]. }
  assert (Vr : forall w, counted (nget t2 w) = true ->
            match r' with Some c => paths t2 c w | None => 0 end <> 0 ->
            (length (cv_tbl st1) <= w)%nat /\ (forall cr, r = Some cr -> ihr cr = None)).
  { intros w Hw Hp. destruct r as [cr|]; cbn [child_res] in R2; [|subst r'; congruence].
    destruct R2 as [x [-> [Hx [C A]]]].
    split.
    - destruct (ihr cr) eqn:Ec; [exfalso; apply Hp; apply C; [congruence | exact Hw] | apply (A eq_refl w Hw Hp)].
    - intros cr' E. injection E as <-. destruct (ihr cr) eqn:Ec; [|reflexivity].
      exfalso. apply Hp. apply C; [congruence | exact Hw]. }
  assert (One : forall c w, (c < j)%nat -> counted (nget t2 w) = true -> paths t2 c w <= 1).
  { intros c w Hc Hw. apply (i_one st2 I2); assumption. }
  (* at most one path from the new node to any witness / disconnect *)
  assert (Pone : forall w, counted (nget (t2 ++ [nd]) w) = true -> paths (t2 ++ [nd]) j w <= 1).
  { intros w Hw. rewrite Pj. destruct (Cw w Hw) as [[Hlt Hc]|[-> Hk]].
    - assert (E : Nat.eqb j w = false) by (apply Nat.eqb_neq; lia). rewrite E.
      set (a := match l' with Some c => paths t2 c w | None => 0 end) in *.
      set (b := match r' with Some c => paths t2 c w | None => 0 end) in *.
      assert (Ha : a <= 1).
      { subst a. destruct l' as [c|]; [|lia]. apply One; [specialize (Ll c eq_refl); lia | exact Hc]. }
      assert (Hb : b <= 1).
      { subst b. destruct r' as [c|]; [|lia]. apply One; [exact (Lr c eq_refl) | exact Hc]. }
      destruct (N.eq_dec a 0) as [Za|Na]; [lia|]. destruct (N.eq_dec b 0) as [Zb|Nb]; [lia|].
      exfalso. destruct (Vl w Hc Na) as [H1 _]. destruct (Vr w Hc Nb) as [H2 _]. lia.
    - rewrite Nat.eqb_refl.
      assert (Za : match l' with Some c => paths t2 c j | None => 0 end = 0).
      { destruct l' as [c|]; [|reflexivity]. apply paths_high; [exact W2 | specialize (Ll c eq_refl); lia | specialize (Ll c eq_refl); lia]. }
      assert (Zb : match r' with Some c => paths t2 c j | None => 0 end = 0).
      { destruct r' as [c|]; [|reflexivity]. apply paths_high; [exact W2 | exact (Lr c eq_refl) | exact (Lr c eq_refl)]. }
      rewrite Za, Zb. lia. }
  (* with an identity hash: nothing counted below *)
  assert (Cl : ihr i <> None -> clean (t2 ++ [nd]) j).
  { intros Hi' w Hw. destruct (Hclosed i k pay l r Es Hi') as [Hk Hch]. rewrite Pj.
    destruct (Cw w Hw) as [[Hlt Hc]|[-> Hk']]; [|congruence].
    assert (E : Nat.eqb j w = false) by (apply Nat.eqb_neq; lia). rewrite E.
    destruct (N.eq_dec (match l' with Some c => paths t2 c w | None => 0 end) 0) as [Za|Na].
    - destruct (N.eq_dec (match r' with Some c => paths t2 c w | None => 0 end) 0) as [Zb|Nb]; [lia|].
      exfalso. destruct (Vr w Hc Nb) as [_ Hn]. destruct r as [cr|]; [|cbn [child_res] in R2; subst r'; congruence].
      apply (Hch cr); [right; reflexivity | apply Hn; reflexivity].
    - exfalso. destruct (Vl w Hc Na) as [_ [_ Hn]]. destruct l as [cl|]; [|cbn [child_res] in R1; subst l'; congruence].
      apply (Hch cl); [left; reflexivity | apply Hn; reflexivity]. }
  assert (Ab : above (length (cv_tbl st)) (t2 ++ [nd]) j).
  { intros w Hw Hp. rewrite Pj in Hp. destruct (Cw w Hw) as [[Hlt Hc]|[-> _]]; [|lia].
    assert (E : Nat.eqb j w = false) by (apply Nat.eqb_neq; lia). rewrite E in Hp.
    destruct (N.eq_dec (match l' with Some c => paths t2 c w | None => 0 end) 0) as [Za|Na].
    - destruct (N.eq_dec (match r' with Some c => paths t2 c w | None => 0 end) 0) as [Zb|Nb]; [lia|].
      destruct (Vr w Hc Nb) as [H2 _]. lia.
    - destruct (Vl w Hc Na) as [_ [H1 _]]. exact H1. }
  exists ((more1 ++ more2) ++ [nd]). split; [cbn [snd cv_tbl]; rewrite T02, <- !app_assoc; reflexivity|].
  split.
  - constructor; cbn [fst snd cv_tbl cv_seen].
    + exact W'.
    + intros c w Hc Hw. rewrite app_length in Hc. cbn [length] in Hc. fold j in Hc.
      destruct (Nat.eq_dec c j) as [->|Hne]; [apply Pone; exact Hw|].
      assert (Hc' : (c < j)%nat) by lia.
      rewrite (paths_ext t2 [nd] c w W2 Hc').
      destruct (Cw w Hw) as [[Hlt Hcw]|[-> _]]; [apply One; assumption|].
      rewrite (paths_high t2 c j W2 Hc' Hc'). lia.
    + intros key j1 Hg.
      assert (Old : forall key j1, seen_get (cv_seen st2) key = Some j1 ->
                (j1 < length (t2 ++ [nd]))%nat /\ clean (t2 ++ [nd]) j1).
      { intros key' j' Hg'. destruct (i_seen st2 I2 key' j' Hg') as [Hj' C']. fold t2 in Hj', C'.
        split; [rewrite app_length; lia | apply clean_ext; assumption]. }
      destruct (ihr i) as [ki|] eqn:Ei; [|apply (Old key j1 Hg)].
      rewrite seen_get_cons in Hg. destruct (ki =? key); [|apply (Old key j1 Hg)].
      injection Hg as <-. fold j. split; [rewrite app_length; cbn; lia | apply Cl; congruence].
  - cbn [child_res fst snd cv_tbl]. exists j. split; [reflexivity|]. split; [rewrite app_length; cbn; fold j; lia|].
    split; [exact Cl | intros _; exact Ab].
Qed.
End FromProgram.

(* ------------------------------------------------------------------ the hypotheses as a test *)
Definition shaped (p : prog) (c : nat) : bool := match shape_of p c with Some _ => true | None => false end.
Definition ocheck (f : nat -> bool) (o : option nat) : bool := match o with Some c => f c | None => true end.

Definition node_ok (p : prog) (ihr : nat -> option N) (i : nat) : bool :=
  match shape_of p i with
  | None => true
  | Some (k, _, l, r) =>
      ocheck (shaped p) l && ocheck (shaped p) r &&
      match ihr i with
      | None => true
      | Some _ => negb (counted_kind k) && ocheck (fun c => opt_some (ihr c)) l
                  && ocheck (fun c => opt_some (ihr c)) r
      end
  end.

(* the root is a node; operands are nodes; identity hashes as CommitData::imr assigns them *)
Definition from_ok (p : prog) (ihr : list (option N)) : bool :=
  shaped p (pred (length p)) && forallb (node_ok p (fun i => nth i ihr None)) (seq 0 (length p)).

Lemma shape_range p i : shape_of p i <> None -> (i < length p)%nat.
Proof.
  unfold shape_of. destruct (nth_error p i) eqn:E; [|congruence]. intros _.
  apply nth_error_Some. congruence.
Qed.

Lemma from_ok_spec p ihr : from_ok p ihr = true ->
  let ih := fun i => nth i ihr None in
  shape_of p (pred (length p)) <> None /\
  (forall i k pay l r c, shape_of p i = Some (k, pay, l, r) -> l = Some c \/ r = Some c -> shape_of p c <> None) /\
  (forall i k pay l r, shape_of p i = Some (k, pay, l, r) -> ih i <> None ->
     counted_kind k = false /\ forall c, l = Some c \/ r = Some c -> ih c <> None).
Proof.
  intros H ih. unfold from_ok in H. fold ih in H. apply andb_true_iff in H. destruct H as [H0 H]. rewrite forallb_forall in H.
  assert (Hn : forall i k pay l r, shape_of p i = Some (k, pay, l, r) ->
            ocheck (shaped p) l && ocheck (shaped p) r &&
            match ih i with
            | None => true
            | Some _ => negb (counted_kind k) && ocheck (fun c => opt_some (ih c)) l && ocheck (fun c => opt_some (ih c)) r
            end = true).
  { intros i k pay l r Es. assert (Hi : (i < length p)%nat) by (apply shape_range; congruence).
    specialize (H i ltac:(apply in_seq; lia)). unfold node_ok in H. rewrite Es in H. exact H. }
  split; [|split].
  - unfold shaped in H0. destruct (shape_of p (pred (length p))); congruence.
  - intros i k pay l r c Es Hc. specialize (Hn i k pay l r Es).
    apply andb_true_iff in Hn. destruct Hn as [Hn _]. apply andb_true_iff in Hn. destruct Hn as [A B].
    destruct Hc as [->| ->]; cbn [ocheck] in *; unfold shaped in *; destruct (shape_of p c); congruence.
  - intros i k pay l r Es Hi. specialize (Hn i k pay l r Es).
    apply andb_true_iff in Hn. destruct Hn as [_ Hn]. destruct (ih i); [|congruence].
    apply andb_true_iff in Hn. destruct Hn as [Hn C]. apply andb_true_iff in Hn. destruct Hn as [A B].
    split; [destruct (counted_kind k); [discriminate A | reflexivity]|].
    intros c [->| ->]; cbn [ocheck] in *; destruct (ih c); cbn in *; congruence.
Qed.

Lemma NoDup_map_nname d l : NoDup (map nn_name d) -> NoDup l -> (forall a, In a l -> (a < length d)%nat) ->
  NoDup (map (nname d) l).
Proof.
  intros Hd. induction l as [|x r IH]; intros Hl Hr; cbn [map]; [constructor|].
  inversion Hl as [|? ? Hx Hr']; subst. constructor; [|apply IH; [exact Hr' | intros a Ha; apply Hr; right; exact Ha]].
  intros Hin. apply in_map_iff in Hin. destruct Hin as [y [Ey Hy]].
  assert (y = x); [|subst; contradiction].
  assert (Lx : (x < length (map nn_name d))%nat) by (rewrite map_length; apply Hr; left; reflexivity).
  assert (Ly : (y < length (map nn_name d))%nat) by (rewrite map_length; apply Hr; right; exact Hy).
  apply (proj1 (NoDup_nth (map nn_name d) NMain) Hd y x Ly Lx).
  unfold nname, nget in Ey.
  rewrite (nth_indep (map nn_name d) NMain (nn_name dummy_nn) Ly), (nth_indep (map nn_name d) NMain (nn_name dummy_nn) Lx).
  rewrite !map_nth. exact Ey.
Qed.

(* distinct names + at most one path to every witness / disconnect node = at most one path to every name *)
Lemma name_paths_le_one d j n : wf_ndag d = true -> NoDup (map nn_name d) ->
  (forall w, counted (nget d w) = true -> paths d j w <= 1) -> name_paths d j n <= 1.
Proof.
  intros W Hd H1. unfold name_paths.
  destruct (find (is_named d n) (seq 0 (length d))) as [w0|] eqn:Ef.
  - destruct (find_some _ _ Ef) as [Hin Hn]. apply in_seq in Hin.
    rewrite (sumN_single _ _ w0); [| apply seq_NoDup |].
    + destruct (mem_nat w0 (seq 0 (length d))); [|lia]. rewrite Hn. apply H1.
      unfold is_named in Hn. apply andb_true_iff in Hn. exact (proj1 Hn).
    + intros w Hw Hne. destruct (is_named d n w) eqn:En; [|reflexivity]. exfalso. apply Hne.
      apply in_seq in Hw. unfold is_named in Hn, En.
      apply andb_true_iff in Hn. apply andb_true_iff in En. destruct Hn as [_ Hn], En as [_ En].
      apply name_eqb_eq in Hn. apply name_eqb_eq in En.
      assert (Lw : (w < length (map nn_name d))%nat) by (rewrite map_length; lia).
      assert (L0 : (w0 < length (map nn_name d))%nat) by (rewrite map_length; lia).
      apply (proj1 (NoDup_nth (map nn_name d) NMain) Hd w w0 Lw L0).
      rewrite (nth_indep (map nn_name d) NMain (nn_name dummy_nn) Lw), (nth_indep (map nn_name d) NMain (nn_name dummy_nn) L0).
      rewrite !map_nth. unfold nname, nget in Hn, En. congruence.
  - rewrite sumN_zero; [lia|]. intros w Hw. rewrite (find_none _ _ Ef w Hw). reflexivity.
Qed.

(* ------------------------------------------------------------------ Forest::from_program *)
Theorem from_program_ok p ihr cmr :
  wf_prog p = true ->
  (forall j, (j < pred (length p))%nat -> nth j cmr 0 <> nth (pred (length p)) cmr 0) ->
  from_ok p ihr = true ->
  let d := name_program p ihr cmr in
  wf_ndag d = true /\ NoDup (map (nname d) (post_order d)) /\ path_errs d = [].
Proof.
  intros Wp Hc Hok d.
  destruct (from_ok_spec p ihr Hok) as [Hroot [Hshape Hclosed]].
  pose proof (name_program_names_distinct p ihr cmr Wp Hc) as Hnames. fold d in Hnames.
  set (ih := fun i => nth i ihr None) in *. set (cm := fun i => nth i cmr 0).
  assert (Inv0 : inv (mk_cv [] [] namer_new)).
  { constructor; cbn [cv_tbl cv_seen length]; [reflexivity | intros; lia | intros k j H; discriminate H]. }
  assert (Hlt : (pred (length p) < S (length p))%nat) by lia.
  destruct (cv_visit_inv p ih cm (cm (pred (length p))) Wp Hshape Hclosed (S (length p)) (pred (length p)) _ Hlt Hroot Inv0)
    as [more [Et [I R]]].
  change (cv_tbl (snd (cv_visit p ih cm (cm (pred (length p))) (S (length p)) (pred (length p)) (mk_cv [] [] namer_new)))) with d in *.
  cbn [child_res] in R. destruct R as [j [_ [Hj _]]].
  assert (W : wf_ndag d = true) by (apply wf_of; [exact (i_wf _ I) | exact (Nat.le_lt_trans _ _ _ (Nat.le_0_l j) Hj)]).
  split; [exact W|]. split.
  - pose proof (post_order_facts d W) as F.
    apply NoDup_map_nname; [exact Hnames | exact (pf_nodup _ _ F) | exact (pf_range _ _ F)].
  - apply (proj1 (no_error_iff d W)). apply (proj2 (no_error_iff d W)). intros n.
    apply name_paths_le_one; [exact W | exact Hnames |].
    intros w Hw. apply (i_one _ I); [|exact Hw]. change (root_of d < length d)%nat. pose proof (length_pos d W). unfold root_of. lia.
Qed.

(* hence the rendering of a committed program parses back to the same named DAG (theorem 3) *)
Theorem from_program_roundtrip p ihr cmr cmr_of :
  wf_prog p = true ->
  (forall j, (j < pred (length p))%nat -> nth j cmr 0 <> nth (pred (length p)) cmr 0) ->
  from_ok p ihr = true ->
  let d := name_program p ihr cmr in
  exists d', resolve_lines cmr_of (render d) = Ok [(nname d (root_of d), d')] /\ iso d d' /\ wf_ndag d' = true.
Proof.
  intros Wp Hc Hok d. destruct (from_program_ok p ihr cmr Wp Hc Hok) as [W [Hn Hp]].
  exact (resolve_render_thm d cmr_of W Hn Hp).
Qed.

(* the statement with the weaker hypothesis on the identity hashes (any class numbers whatever) does not
   hold of the model: with an identity hash on the `injl` above a witness, the witness is converted once
   and reached twice.  Not a finding: CommitData::imr never produces such a table (from_ok = false). *)
Definition unreal_p : prog := [NWitness WNone; NInjL 0; NPair 1 1].
Definition unreal_ihr : list (option N) := [None; Some 5; None].
Definition unreal_cmr : list N := [1; 2; 3].

Lemma from_program_needs_ihr_closed :
  wf_prog unreal_p = true /\
  (forall j, (j < pred (length unreal_p))%nat -> nth j unreal_cmr 0 <> nth (pred (length unreal_p)) unreal_cmr 0) /\
  (forall i, nth i unreal_ihr None <> None -> shape_of unreal_p i <> None) /\
  from_ok unreal_p unreal_ihr = false /\
  path_errs (name_program unreal_p unreal_ihr unreal_cmr) <> [].
Proof.
  split; [reflexivity|]. split.
  { intros j Hj. cbn in Hj. destruct j as [|[|j]]; cbn; [discriminate | discriminate | lia]. }
  split.
  { intros i. destruct i as [|[|[|i]]]; cbn; try congruence. destruct i; cbn; congruence. }
  split; [reflexivity|]. vm_compute. discriminate.
Qed.
