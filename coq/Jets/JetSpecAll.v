(* The dispatcher over all specified Core jets: the word-level table of Jets/JetSpec.v (306 jets)
   extended with the value-level table of Jets/JetSpecSha.v (SHA-256 family, parse_lock,
   parse_sequence, field and scalar arithmetic of secp256k1).  [jet_spec2] is the concrete
   [jet_sem] used by the correspondence checks of C05 / C07 (Core/Run2.v). *)
From Coq Require Import String.
From RS Require Import Lib.Tac Lib.Outcome Lib.Bits Ty.Ty Core.Prog Core.Term Core.Typing Core.Sem
  Jets.JetSpec Jets.JetSpecSha.
From RS Require Merkle.Sha256.
Import ListNotations.
Local Open Scope N_scope.

Definition jet_spec2_ty (j : N) : option arrow :=
  match gspec_ty gtable j with
  | Some ar => Some ar
  | None => jet_spec_ty j
  end.

Definition jet_spec2 (j : N) (a : sval) : option sval :=
  match gspec_sem gtable j a with
  | Some r => r
  | None => jet_spec j a
  end.

Theorem jet_spec2_typed : jets_typed jet_spec2_ty jet_spec2.
Proof.
  intros j A B a b Hty Ha Hs. unfold jet_spec2_ty, jet_spec2 in *.
  destruct (gspec_ty gtable j) as [ar|] eqn:Et.
  - injection Hty as ->. destruct (gspec_sem gtable j a) as [r|] eqn:Es.
    + eapply gspec_sem_typed; eauto.
    + unfold gspec_ty, gspec_sem in *. destruct (find_g gtable j); discriminate.
  - assert (gspec_sem gtable j a = None) as Es.
    { unfold gspec_ty, gspec_sem in *. destruct (find_g gtable j); [discriminate|reflexivity]. }
    rewrite Es in Hs. eapply jet_spec_typed; eauto.
Qed.

(* the extension is conservative: on the jets of the word-level table nothing changes *)
Lemma tables_disjoint :
  forallb (fun s => match find_g gtable (j_id s) with None => true | Some _ => false end) jet_table = true.
Proof. vm_compute. reflexivity. Qed.

Lemma jet_spec2_old j a : find_g gtable j = None -> jet_spec2 j a = jet_spec j a /\ jet_spec2_ty j = jet_spec_ty j.
Proof. intros E. unfold jet_spec2, jet_spec2_ty, gspec_sem, gspec_ty. rewrite E. auto. Qed.

Lemma gtable_ids_distinct :
  (fix distinct (l : list N) : bool :=
     match l with
     | [] => true
     | x :: r => negb (existsb (N.eqb x) r) && distinct r
     end) (map g_id gtable) = true.
Proof. vm_compute. reflexivity. Qed.

(* names as byte lists, for the check against the implementation's jet list *)
Definition jet_table_names2 : list (list N) :=
  jet_table_names ++ map (fun g => g_id g :: string_bytes (g_name g)) gtable.

(* ------------------------------------------------------------------ sanity by computation *)
(* hashing "abc" through the context jets gives the FIPS digest *)
Example ctx_abc :
  match ctx_add (mkCtx [] 0 Sha256.sha_iv0) [97; 98; 99] with
  | Some c => Sha256.bytes_of_state (ctx_finalize c) = Sha256.sha256 [97; 98; 99]
  | None => False
  end.
Proof. vm_compute. reflexivity. Qed.

(* the two-block FIPS message, added in two pieces that straddle the block boundary *)
Example ctx_two_blocks :
  match ctx_add (mkCtx [] 0 Sha256.sha_iv0) (firstn 50 (Sha256.msg_two_blocks ++ Sha256.msg_two_blocks)) with
  | Some c =>
      match ctx_add c (skipn 50 (Sha256.msg_two_blocks ++ Sha256.msg_two_blocks)) with
      | Some c' => Sha256.bytes_of_state (ctx_finalize c') = Sha256.sha256 (Sha256.msg_two_blocks ++ Sha256.msg_two_blocks)
                   /\ c_blocks c' = 1 /\ length (c_buf c') = 48%nat
      | None => False
      end
  | None => False
  end.
Proof. vm_compute. auto. Qed.

(* a context survives the round trip through its CTX8 value *)
Example ctx_value_roundtrip :
  let c := mkCtx (firstn 43 Sha256.msg_two_blocks) 5 Sha256.sha_iv0 in
  has_ty (write_ctx c) Ctx8 = true /\ read_ctx (write_ctx c) = Some c.
Proof. vm_compute. auto. Qed.

Example ctx_too_many_blocks :
  read_ctx (write_ctx (mkCtx [] (2 ^ 55) Sha256.sha_iv0)) = None /\
  (exists c, read_ctx (write_ctx (mkCtx [] (2 ^ 55 - 1) Sha256.sha_iv0)) = Some c) /\
  ctx_add (mkCtx (repeat 0 62) (2 ^ 55 - 1) Sha256.sha_iv0) [1; 2] = None /\
  (exists c, ctx_add (mkCtx (repeat 0 62) (2 ^ 55 - 1) Sha256.sha_iv0) [1] = Some c).
Proof. vm_compute. repeat split; eexists; reflexivity. Qed.

Example parse_examples :
  jet_spec2 263 (num_word 5 499999999) = Some (SL (num_word 5 499999999)) /\
  jet_spec2 263 (num_word 5 500000000) = Some (SR (num_word 5 500000000)) /\
  jet_spec2 264 (num_word 5 (2 ^ 31)) = Some (SL SU) /\
  jet_spec2 264 (num_word 5 (2 ^ 22 + 7)) = Some (SR (SR (num_word 4 7))) /\
  jet_spec2 264 (num_word 5 (2 ^ 16 + 7)) = Some (SR (SL (num_word 4 7))).
Proof. vm_compute. auto 6. Qed.
