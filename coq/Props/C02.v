(* C02 - Decoder is total and accepts only the canonical encoding.
   Only pinned statements (`Theorem .. exact lemma`) and `Print Assumptions`.
   Models: Codec/NodeCodec.v (node loop of decode_expression), Codec/Decode.v (second pass, close),
   Codec/Linearise.v (post-order traversal with sharing ids), Codec/JetTab.v (jet code tables).
   Not modelled (compared or observed on the implementation only, see tools/props/c02.py): type inference
   inside decode_expression / finalisation, identity hashes themselves (they enter as an arbitrary assignment
   of ids that distinguishes the nodes), witness types, native stack depth, allocation. *)
From RS Require Import Lib.Tac Lib.Outcome Lib.Bits Lib.Sweep Bits.Natural Bits.BitIter Bits.BitWriter
  Codec.NodeCodec Codec.ProgCodec Codec.JetTab Codec.Linearise Codec.Decode Codec.Structure Codec.Main
  Codec.WitnessCodec Codec.Run Codec.Rules Codec.RealJets.
Import ListNotations.
Local Open Scope N_scope.

(* 1. whatever the node loop accepts is the encoding of the node list it returns followed by the unread
   bits (unique decodability of the program syntax); jets: any code with an exact decoder *)
Theorem C02_syntax_canon : forall (jet : Type) (jet_okb : jet -> bool) (jet_enc : jet -> list bool)
    (jet_dec : list bool -> outcome dec_err (jet * list bool)),
  (forall j r, jet_okb j = true -> jet_dec (jet_enc j ++ r) = Ok (j, r)) ->
  (forall l j r, jet_dec l = Ok (j, r) -> l = jet_enc j ++ r /\ jet_okb j = true) ->
  (forall l, match jet_dec l with Panic _ | OutOfFuel => False | _ => True end) ->
  forall b ns r, dec_prog jet jet_dec b = Ok (ns, r) ->
    b = enc_prog jet jet_enc ns ++ r /\ wf_prog jet jet_okb ns.
Proof. exact syntax_canon. Qed.
Print Assumptions C02_syntax_canon.

(* 2. the node loop never panics (index - n, n - 1, assert_ne!(len, 0), unsupported word type) and never
   runs out of fuel; it returns at most |bits| / 2 nodes *)
Theorem C02_dec_total : forall (jet : Type) (jet_okb : jet -> bool) (jet_enc : jet -> list bool)
    (jet_dec : list bool -> outcome dec_err (jet * list bool)),
  (forall j r, jet_okb j = true -> jet_dec (jet_enc j ++ r) = Ok (j, r)) ->
  (forall l j r, jet_dec l = Ok (j, r) -> l = jet_enc j ++ r /\ jet_okb j = true) ->
  (forall l, match jet_dec l with Panic _ | OutOfFuel => False | _ => True end) ->
  forall b, match dec_prog jet jet_dec b with
            | Panic _ | OutOfFuel => False
            | Ok (ns, r) => (2 * length ns + length r <= length b)%nat
            | Err _ => True
            end.
Proof. exact dec_total. Qed.
Print Assumptions C02_dec_total.

(* 3. the second pass (canonical-order test, converted[i], hidden rules, converted[len - 1]) never panics *)
Theorem C02_dec_struct_total : forall (jet : Type) (jet_okb : jet -> bool) (ns : list (dnode jet)),
  wf_nodes jet jet_okb 0 ns -> ns <> [] ->
  match dec_struct ns with Panic _ | OutOfFuel => False | _ => True end.
Proof. exact dec_struct_total. Qed.
Print Assumptions C02_dec_struct_total.

(* 4. an accepted table is in canonical order: its pointer post-order is 0, 1, ..., len-1
   (no unused node, children first, left before right) *)
Theorem C02_canonical_order : forall (jet : Type) (jet_okb : jet -> bool) (ns : list (dnode jet)),
  wf_nodes jet jet_okb 0 ns -> dec_struct ns = Ok tt -> order_of ns key_ptr = upto (length ns).
Proof. exact dec_struct_order. Qed.
Print Assumptions C02_canonical_order.

(* 5. re-encoding an accepted table under ANY sharing ids that distinguish its positions gives the table *)
Theorem C02_reencode_id : forall (jet : Type) (jet_okb : jet -> bool) (ns : list (dnode jet))
    (key : N -> option N) (kf : N -> N),
  wf_nodes jet jet_okb 0 ns ->
  (forall p, p < N.of_nat (length ns) -> key p = Some (kf p)) ->
  (forall p q, p < N.of_nat (length ns) -> q < N.of_nat (length ns) -> kf p = kf q -> p = q) ->
  dec_struct ns = Ok tt -> linearise ns key = ns.
Proof. exact reencode_id. Qed.
Print Assumptions C02_reencode_id.

(* 6. decode ok => encode (decode b) = b: bits, then bytes (r = the unread bits, which close() requires to be
   fewer than 8 zeros) *)
Theorem C02_reencode_bits : forall (jet : Type) (jet_okb : jet -> bool) (jet_enc : jet -> list bool)
    (jet_dec : list bool -> outcome dec_err (jet * list bool)),
  (forall j r, jet_okb j = true -> jet_dec (jet_enc j ++ r) = Ok (j, r)) ->
  (forall l j r, jet_dec l = Ok (j, r) -> l = jet_enc j ++ r /\ jet_okb j = true) ->
  (forall l, match jet_dec l with Panic _ | OutOfFuel => False | _ => True end) ->
  forall b ns r (key : N -> option N) (kf : N -> N),
  dec_prog jet jet_dec b = Ok (ns, r) ->
  dec_struct ns = Ok tt ->
  (forall p, p < N.of_nat (length ns) -> key p = Some (kf p)) ->
  (forall p q, p < N.of_nat (length ns) -> q < N.of_nat (length ns) -> kf p = kf q -> p = q) ->
  enc_prog jet jet_enc (linearise ns key) ++ r = b.
Proof. exact reencode_bits. Qed.
Print Assumptions C02_reencode_bits.

Theorem C02_reencode_bytes : forall (jet : Type) (jet_okb : jet -> bool) (jet_enc : jet -> list bool)
    (jet_dec : list bool -> outcome dec_err (jet * list bool)),
  (forall j r, jet_okb j = true -> jet_dec (jet_enc j ++ r) = Ok (j, r)) ->
  (forall l j r, jet_dec l = Ok (j, r) -> l = jet_enc j ++ r /\ jet_okb j = true) ->
  (forall l, match jet_dec l with Panic _ | OutOfFuel => False | _ => True end) ->
  forall bytes ns r (key : N -> option N) (kf : N -> N),
  bytes_ok bytes ->
  dec_prog jet jet_dec (bits_of_bytes bytes) = Ok (ns, r) ->
  dec_struct ns = Ok tt ->
  (forall p, p < N.of_nat (length ns) -> key p = Some (kf p)) ->
  (forall p q, p < N.of_nat (length ns) -> q < N.of_nat (length ns) -> kf p = kf q -> p = q) ->
  (length r < 8)%nat -> Forall (fun b => b = false) r ->
  bw_out (bw_flush_all (bw_write_bits bw_new (enc_prog jet jet_enc (linearise ns key)))) = bytes.
Proof. exact reencode_bytes. Qed.
Print Assumptions C02_reencode_bytes.

(* 7. the hypotheses about the jet code hold for every prefix-free code table (C14 proves that the real
   decode trees are the trees of the real tables) *)
Theorem C02_jet_table_dec_enc : forall jt, table_ok jt = true -> forall j r, jet_okb_tab jt j = true ->
  jet_dec_tab jt (jet_enc_tab jt j ++ r) = Ok (j, r).
Proof. exact jet_dec_enc_tab. Qed.
Print Assumptions C02_jet_table_dec_enc.

Theorem C02_jet_table_enc_dec : forall jt l j r, jet_dec_tab jt l = Ok (j, r) ->
  l = jet_enc_tab jt j ++ r /\ jet_okb_tab jt j = true.
Proof. exact jet_enc_dec_tab. Qed.
Print Assumptions C02_jet_table_enc_dec.

Theorem C02_jet_table_total : forall jt l,
  match jet_dec_tab jt l with Panic _ | OutOfFuel => False | _ => True end.
Proof. exact jet_dec_total_tab. Qed.
Print Assumptions C02_jet_table_total.

(* ... so 1. and 2. hold for the real Core and Elements families (tables and decode trees regenerated from
   src/jet/init on every run; C14 proves round trip and completeness of the trees) *)
Theorem C02_syntax_canon_core : forall b ns r, dec_prog N core_dec b = Ok (ns, r) ->
  b = enc_prog N core_enc ns ++ r /\ wf_prog N core_okb ns.
Proof. exact syntax_canon_core. Qed.
Print Assumptions C02_syntax_canon_core.

Theorem C02_syntax_canon_elements : forall b ns r, dec_prog N elements_dec b = Ok (ns, r) ->
  b = enc_prog N elements_enc ns ++ r /\ wf_prog N elements_okb ns.
Proof. exact syntax_canon_elements. Qed.
Print Assumptions C02_syntax_canon_elements.

Theorem C02_dec_total_core : forall b,
  match dec_prog N core_dec b with
  | Panic _ | OutOfFuel => False
  | Ok (ns, r) => (2 * length ns + length r <= length b)%nat
  | Err _ => True
  end.
Proof. exact dec_total_core. Qed.
Print Assumptions C02_dec_total_core.

Theorem C02_dec_total_elements : forall b,
  match dec_prog N elements_dec b with
  | Panic _ | OutOfFuel => False
  | Ok (ns, r) => (2 * length ns + length r <= length b)%nat
  | Err _ => True
  end.
Proof. exact dec_total_elements. Qed.
Print Assumptions C02_dec_total_elements.

(* 8. the witness stream is uniquely decodable at given types (every bit is accounted for) *)
Theorem C02_witness_canon : forall tys bits vs rest, read_witnesses tys bits = Some (vs, rest) ->
  bits = enc_witnesses vs ++ rest /\ all_typed vs tys = true.
Proof. exact witness_canon. Qed.
Print Assumptions C02_witness_canon.

(* 9. one rejection per canonicity rule (non-vacuity of 4-6: these inputs pass the node loop) *)
Theorem C02_reject_unused_node : struct_of [DUnit; DUnit; DUnit; DComp 1 2] = Err ENotInCanonicalOrder.
Proof. exact reject_unused_node. Qed.
Print Assumptions C02_reject_unused_node.

Theorem C02_reject_swapped_order : struct_of [DIden; DUnit; DComp 1 0] = Err ENotInCanonicalOrder.
Proof. exact reject_swapped_order. Qed.
Print Assumptions C02_reject_swapped_order.

Theorem C02_reject_repeated_hidden :
  struct_of [DUnit; DHidden H0; DCase 0 1; DUnit; DHidden H0; DCase 3 4; DPair 2 5] = Err ESharingNotMaximal.
Proof. exact reject_repeated_hidden. Qed.
Print Assumptions C02_reject_repeated_hidden.

Theorem C02_reject_hidden_placement :
  struct_of [DUnit; DHidden H0; DComp 0 1] = Err EHiddenNode /\
  struct_of [DHidden H0; DHidden H1; DCase 0 1] = Err EBothChildrenHidden /\
  struct_of [DHidden H0] = Err EHiddenNode.
Proof. exact (conj reject_hidden_under_comp (conj reject_both_hidden reject_hidden_root)). Qed.
Print Assumptions C02_reject_hidden_placement.

Theorem C02_unshared_duplicate_detectable :
  struct_of [DUnit; DUnit; DPair 0 1] = Ok tt /\
  linearise [DUnit; DUnit; DPair 0 1] (key_list [Some 0; Some 0; Some 1]) = ([DUnit; DPair 0 0] : list dn).
Proof. exact unshared_duplicate_reencodes_differently. Qed.
Print Assumptions C02_unshared_duplicate_detectable.

Theorem C02_reject_trailing_and_padding :
  close_after [36; 0] 6 = Err (TrailingBytes 0) /\ close_after [37] 6 = Err (IllegalPadding 1 2) /\
  close_after [36] 6 = Ok tt.
Proof. exact (conj reject_trailing_byte (conj reject_padding accept_clean_close)). Qed.
Print Assumptions C02_reject_trailing_and_padding.

Theorem C02_reject_natural_bounds :
  dec_prog N (jet_dec_tab jt3) (encode_nat 1 ++ bits_be 5 4 ++ encode_nat 1) = Err (ENatural (BadIndex 1 0)) /\
  dec_prog N (jet_dec_tab jt3) (encode_nat 1 ++ [true; false] ++ encode_nat 33) = Err (ENatural (BadIndex 33 32)) /\
  dec_prog N (jet_dec_tab jt3) (encode_nat (2 ^ 32) ++ bits_be 5 9) = Err (ENatural Overflow).
Proof. exact (conj reject_backref (conj reject_word_size reject_length_overflow)). Qed.
Print Assumptions C02_reject_natural_bounds.

(* 10. all 4368 node tables of up to four nodes: the second pass accepts exactly the tables in canonical
   order, re-encoding reproduces them, and the recursive traversal equals the explicit-stack iterator *)
Theorem C02_reencode_upto4 : forallb reencode_check (tables 4) = true.
Proof. exact reencode_upto4. Qed.
Print Assumptions C02_reencode_upto4.

(* Phase 1: not proved (kept as a statement); phase 2: PROVED below as C02_reencode_partial_ids (theorem 25).
   Sharing ids that are absent for some nodes (commitment time: nodes that
   contain witness or disconnect nodes have no identity hash and are never shared).  Then re-encoding is the
   identity only if such nodes are referenced once; the check covers this case by search and correspondence. *)
Definition C02_reencode_partial_ids_statement : Prop :=
  forall (jet : Type) (jet_okb : jet -> bool) (ns : list (dnode jet)) (key : N -> option N),
  wf_nodes jet jet_okb 0 ns ->
  (forall p q k, p < N.of_nat (length ns) -> q < N.of_nat (length ns) -> key p = Some k -> key q = Some k -> p = q) ->
  (forall p, p < N.of_nat (length ns) -> key p = None ->
     (length (filter (fun q => existsb (N.eqb p) (dchildren (node_at ns q))) (upto (length ns))) <= 1)%nat /\
     forall q, In p (dchildren (node_at ns q)) -> dchildren (node_at ns q) = [p] \/ exists c, c <> p /\ (dchildren (node_at ns q) = [p; c] \/ dchildren (node_at ns q) = [c; p])) ->
  dec_struct ns = Ok tt -> linearise ns key = ns.

(* ------------------------------------------------------------------ phase 2 *)
From RS Require Import Codec.Partial Codec.PartialInst.

(* 24. sharing ids that are absent on some nodes (commitment time): the traversal under ids that distinguish the
   nodes that have one, where every node without id is referenced by one node only and once there, is the
   traversal under pointer identity *)
Theorem C02_traverse_partial : forall (ch : N -> list N) (key : N -> option N) (bound : N),
  (forall n c, In c (ch n) -> c < n) -> (forall n, (length (ch n) <= 2)%nat) ->
  (forall p q k, p < bound -> q < bound -> key p = Some k -> key q = Some k -> p = q) ->
  (forall c q1 q2, c < bound -> key c = None -> In c (ch q1) -> In c (ch q2) -> q1 = q2) ->
  (forall n a b, ch n = [a; b] -> (key a = None \/ key b = None) -> a <> b) ->
  forall root, root < bound -> traverse ch key root = traverse ch key_ptr root.
Proof. exact traverse_partial. Qed.
Print Assumptions C02_traverse_partial.

(* 25. THE STATEMENT KEPT ABOVE AS A DEFINITION: whatever the decoder's second pass accepts is re-encoded as
   itself under such partial ids *)
Theorem C02_reencode_partial_ids : C02_reencode_partial_ids_statement.
Proof. exact reencode_partial_ids. Qed.
Print Assumptions C02_reencode_partial_ids.

(* the hypotheses are satisfiable: a witness node (no id) below a pair (no id), each referenced once *)
Theorem C02_reencode_partial_ids_example :
  let ns : list (dnode N) := [DWitness; DUnit; DPair 0 1; DUnit; DComp 2 3] in
  let key := key_list [None; Some 0; None; Some 1; None] in
  dec_struct ns = Ok tt /\ linearise ns key = ns.
Proof. exact reencode_partial_ex. Qed.
Print Assumptions C02_reencode_partial_ids_example.
