(* Re-typing after pruning (C08): typings of redemption programs, type preservation of runs, and
   "evaluation commutes with Value::prune":  if the same structure is typed once with arrows [ar]
   (the original ones) and once - with its witnesses shrunk - with smaller arrows [ar'] (the
   re-inferred ones), then running the shrunk program on the shrunk input gives the shrunk output
   and the same events.
     src/node/redeem.rs   prune_with_tracker: Pruner (types re-inferred from the structure),
                          Finalizer::convert_witness (witness.prune(&pruned_target_ty))
     src/types/arrow.rs   the typing rule of every combinator (Arrow::{iden, unit, injl, .., for_case,
                          for_disconnect})
   What is NOT proved here: that the arrows Rust re-infers are the least ones and lie below the
   originals (principality of inference, property C04); see retype_le_statement. *)
From RS Require Import Lib.Tac Lib.Outcome Lib.Bits Ty.Ty Core.Prog Redeem.Finalize Redeem.PruneProg.
Import ListNotations.
Local Open Scope N_scope.

Definition arrows := nat -> option arrow.
Definition arrows_of_list (l : list (option arrow)) : arrows := fun i => nth i l None.

(* ------------------------------------------------------------------ words *)

Lemma of_compact_word : forall n bits rest, length bits = (2 ^ n)%nat ->
  exists v, of_compact (word_ty n) (bits ++ rest) = Some (v, rest) /\ has_ty v (word_ty n) = true.
Proof.
  induction n as [|n IH]; intros bits rest Hl.
  - destruct bits as [|b [|b' r]]; cbn in Hl; try lia.
    destruct b; cbn; eexists; split; reflexivity.
  - cbn [Nat.pow] in Hl.
    assert (H1 : length (firstn (2 ^ n) bits) = (2 ^ n)%nat) by (rewrite firstn_length; lia).
    assert (H2 : length (skipn (2 ^ n) bits) = (2 ^ n)%nat) by (rewrite skipn_length; lia).
    rewrite <- (firstn_skipn (2 ^ n) bits), <- app_assoc.
    destruct (IH _ (skipn (2 ^ n) bits ++ rest) H1) as (v1 & E1 & T1).
    destruct (IH _ rest H2) as (v2 & E2 & T2).
    exists (SP v1 v2). cbn [word_ty of_compact]. rewrite E1, E2. split; [reflexivity|].
    cbn. rewrite T1, T2. reflexivity.
Qed.

Lemma word_val_typed n bits : length bits = (2 ^ n)%nat -> has_ty (word_val n bits) (word_ty n) = true.
Proof.
  intros H. destruct (of_compact_word n bits [] H) as (v & E & T). rewrite app_nil_r in E.
  unfold word_val. rewrite E. exact T.
Qed.

(* ------------------------------------------------------------------ typing *)

Section Retype.

Variable HS : hashes.
Variable jet_sem : N -> N -> sval -> option sval.
Variable hash_val : list N -> sval.
Variable jet_ty : N -> N -> option arrow.
(* jets map values of their source type to values of their target type; the hash of a disconnected
   branch is a 256-bit word *)
Hypothesis jet_typed : forall f j s t v o, jet_ty f j = Some (s, t) ->
  has_ty v s = true -> jet_sem f j v = Some o -> has_ty o t = true.
Hypothesis hash_typed : forall h, has_ty (hash_val h) (word_ty 8) = true.

(* the typing rule of node i, given the arrows of all nodes *)
Definition node_okb (ar : arrows) (i : nat) (n : rnode) : bool :=
  match ar i with
  | None => false
  | Some (s, t) =>
      match n with
      | RIden => ty_eqb s t
      | RUnit => ty_eqb t One
      | RInjL c => match ar c, t with
                   | Some (s1, b1), Sum b _ => ty_eqb s1 s && ty_eqb b1 b
                   | _, _ => false
                   end
      | RInjR c => match ar c, t with
                   | Some (s1, c1), Sum _ c' => ty_eqb s1 s && ty_eqb c1 c'
                   | _, _ => false
                   end
      | RTake c => match ar c, s with
                   | Some (a1, t1), Prod a _ => ty_eqb a1 a && ty_eqb t1 t
                   | _, _ => false
                   end
      | RDrop c => match ar c, s with
                   | Some (b1, t1), Prod _ b => ty_eqb b1 b && ty_eqb t1 t
                   | _, _ => false
                   end
      | RComp l r => match ar l, ar r with
                     | Some (s1, m1), Some (m2, t2) => ty_eqb s1 s && ty_eqb m1 m2 && ty_eqb t2 t
                     | _, _ => false
                     end
      | RPair l r => match ar l, ar r, t with
                     | Some (s1, t1), Some (s2, t2), Prod b c =>
                         ty_eqb s1 s && ty_eqb s2 s && ty_eqb t1 b && ty_eqb t2 c
                     | _, _, _ => false
                     end
      | RCase l r => match ar l, ar r, s with
                     | Some (sl, tl), Some (sr, tr), Prod (Sum a b) c =>
                         ty_eqb sl (Prod a c) && ty_eqb sr (Prod b c) && ty_eqb tl t && ty_eqb tr t
                     | _, _, _ => false
                     end
      | RAssertL l _ => match ar l, s with
                        | Some (sl, tl), Prod (Sum a _) c => ty_eqb sl (Prod a c) && ty_eqb tl t
                        | _, _ => false
                        end
      | RAssertR _ r => match ar r, s with
                        | Some (sr, tr), Prod (Sum _ b) c => ty_eqb sr (Prod b c) && ty_eqb tr t
                        | _, _ => false
                        end
      | RDisconnect l r => match ar l, ar r, t with
                           | Some (sl, Prod b c), Some (c2, d), Prod b' d' =>
                               ty_eqb sl (Prod (word_ty 8) s) && ty_eqb c c2 && ty_eqb b b' && ty_eqb d d'
                           | _, _, _ => false
                           end
      | RWitness c => wit_ok c t
      | RFail _ => true
      | RJet f j => match jet_ty f j with
                    | Some (js, jt) => ty_eqb js s && ty_eqb jt t
                    | None => false
                    end
      | RWord n bits => ty_eqb s One && ty_eqb t (word_ty n) && Nat.eqb (length bits) (2 ^ n)
      | RHole _ => false
      end
  end.

(* every node reachable from the root obeys its typing rule *)
Definition typed_from (p : rprog) (ar : arrows) (root : nat) : Prop :=
  forall i n, reach p root i -> nth_error p i = Some n -> node_okb ar i n = true.

Ltac tyeq :=
  repeat match goal with
         | H : _ && _ = true |- _ => apply andb_true_iff in H; destruct H
         | H : ty_eqb _ _ = true |- _ => apply ty_eqb_eq in H
         | H : Nat.eqb _ _ = true |- _ => apply Nat.eqb_eq in H
         end.

Ltac ev_step H :=
  match type of H with
  | obind ?x _ = Ok _ =>
      let E := fresh "E" in destruct x as [[? ?]| | |] eqn:E; cbn [obind fst snd] in H; try discriminate
  end.

Lemma reach_child p root i n c : reach p root i -> nth_error p i = Some n -> In c (rchildren n) -> reach p root c.
Proof. intros. eapply reach_step; eauto. Qed.

(* ------------------------------------------------------------------ runs preserve types *)

Theorem eval_typed p ar root C : typed_from p ar root ->
  forall fuel i v o E s t, reach p root i -> ar i = Some (s, t) -> has_ty v s = true ->
  eval jet_sem hash_val fuel p C i v = Ok (o, E) -> has_ty o t = true.
Proof.
  intros Ht. induction fuel as [|f IH]; intros i v o E s t Hr Ha Hv H; cbn [eval] in H; [discriminate|].
  destruct (nth_error p i) as [n|] eqn:En; [|discriminate].
  pose proof (Ht _ _ Hr En) as Ok1. unfold node_okb in Ok1. rewrite Ha in Ok1.
  assert (Hc : forall c, In c (rchildren n) -> reach p root c) by (intros c Hc; eapply reach_child; eauto).
  destruct n; cbn [rchildren] in Hc.
  - tyeq. subst. injection H as <- <-. exact Hv.
  - tyeq. subst. injection H as <- <-. reflexivity.
  - destruct (ar c) as [[s1 b1]|] eqn:Ac; [|discriminate]. destruct t as [|b c'|]; try discriminate. tyeq. subst.
    ev_step H. injection H as <- <-. cbn. eapply IH; [| |exact Hv|exact E0]; [apply Hc; left; reflexivity|exact Ac].
  - destruct (ar c) as [[s1 c1]|] eqn:Ac; [|discriminate]. destruct t as [|b c'|]; try discriminate. tyeq. subst.
    ev_step H. injection H as <- <-. cbn. eapply IH; [| |exact Hv|exact E0]; [apply Hc; left; reflexivity|exact Ac].
  - destruct (ar c) as [[a1 t1]|] eqn:Ac; [|discriminate]. destruct s as [| |a b]; try discriminate. tyeq. subst.
    destruct v; try discriminate. cbn in Hv. apply andb_true_iff in Hv. destruct Hv as [Hv1 Hv2].
    ev_step H. injection H as <- <-. eapply IH; [| |exact Hv1|exact E0]; [apply Hc; left; reflexivity|exact Ac].
  - destruct (ar c) as [[b1 t1]|] eqn:Ac; [|discriminate]. destruct s as [| |a b]; try discriminate. tyeq. subst.
    destruct v; try discriminate. cbn in Hv. apply andb_true_iff in Hv. destruct Hv as [Hv1 Hv2].
    ev_step H. injection H as <- <-. eapply IH; [| |exact Hv2|exact E0]; [apply Hc; left; reflexivity|exact Ac].
  - destruct (ar l) as [[s1 m1]|] eqn:Al; [|discriminate]. destruct (ar r) as [[m2 t2]|] eqn:Ar; [|discriminate].
    tyeq. subst. ev_step H. ev_step H. injection H as <- <-.
    eapply IH; [| |eapply IH|exact E1]; [apply Hc; right; left; reflexivity|exact Ar| | |exact Hv|exact E0];
      [apply Hc; left; reflexivity|exact Al].
  - (* case *)
    destruct (ar l) as [[sl tl]|] eqn:Al; [|discriminate]. destruct (ar r) as [[sr tr]|] eqn:Ar; [|discriminate].
    destruct s as [| |[|a b|] c]; try discriminate. tyeq. subst.
    destruct v as [| | |[|va|vb|] vc]; try discriminate; cbn in Hv.
    + ev_step H. injection H as <- <-. eapply IH; [| | |exact E0]; [apply Hc; left; reflexivity|exact Al|exact Hv].
    + ev_step H. injection H as <- <-. eapply IH; [| | |exact E0]; [apply Hc; right; left; reflexivity|exact Ar|exact Hv].
  - destruct (ar l) as [[sl tl]|] eqn:Al; [|discriminate].
    destruct s as [| |[|a b|] c]; try discriminate. tyeq. subst.
    destruct v as [| | |[|va|vb|] vc]; try discriminate; cbn in Hv.
    ev_step H. injection H as <- <-. eapply IH; [| | |exact E0]; [apply Hc; left; reflexivity|exact Al|exact Hv].
  - destruct (ar r) as [[sr tr]|] eqn:Ar; [|discriminate].
    destruct s as [| |[|a b|] c]; try discriminate. tyeq. subst.
    destruct v as [| | |[|va|vb|] vc]; try discriminate; cbn in Hv.
    ev_step H. injection H as <- <-. eapply IH; [| | |exact E0]; [apply Hc; left; reflexivity|exact Ar|exact Hv].
  - (* pair *)
    destruct (ar l) as [[s1 t1]|] eqn:Al; [|discriminate]. destruct (ar r) as [[s2 t2]|] eqn:Ar; [|discriminate].
    destruct t as [| |b c]; try discriminate. tyeq. subst. ev_step H. ev_step H. injection H as <- <-.
    cbn. rewrite (IH _ _ _ _ _ _ (Hc _ (or_introl eq_refl)) Al Hv E0).
    rewrite (IH _ _ _ _ _ _ (Hc _ (or_intror (or_introl eq_refl))) Ar Hv E1). reflexivity.
  - (* disconnect *)
    destruct (ar l) as [[sl [| |b c]]|] eqn:Al; try discriminate. destruct (ar r) as [[c2 d]|] eqn:Ar; [|discriminate].
    destruct t as [| |b' d']; try discriminate. tyeq. subst.
    ev_step H. destruct s0; try discriminate. ev_step H. injection H as <- <-.
    assert (Hx : has_ty (SP s0_1 s0_2) (Prod b' c2) = true).
    { eapply IH; [| | |exact E0]; [apply Hc; left; reflexivity|exact Al|].
      cbn. rewrite hash_typed, Hv. reflexivity. }
    cbn in Hx. apply andb_true_iff in Hx. destruct Hx as [Hx1 Hx2].
    cbn. rewrite Hx1. eapply IH; [| |exact Hx2|exact E1]; [apply Hc; right; left; reflexivity|exact Ar].
  - injection H as <- <-. unfold wit_ok in Ok1. apply andb_true_iff in Ok1. exact (proj2 Ok1).
  - discriminate.
  - destruct (jet_ty family id) as [[js jt]|] eqn:J; [|discriminate]. tyeq. subst.
    destruct (jet_sem family id v) eqn:Js; [|discriminate]. injection H as <- <-. eapply jet_typed; eauto.
  - tyeq. subst. injection H as <- <-. apply word_val_typed. assumption.
  - discriminate.
Qed.

(* ------------------------------------------------------------------ shrinking the witnesses *)

(* Finalizer::convert_witness of the pruner: the witness of node i pruned to its new target type *)
Definition shrink_node (ar' : arrows) (i : nat) (n : rnode) : rnode :=
  match n with
  | RWitness c =>
      match ar' i with
      | Some (_, t') => match value_prune c t' with Some c' => RWitness c' | None => n end
      | None => n
      end
  | _ => n
  end.

Fixpoint shrink_from (ar' : arrows) (i : nat) (rest : rprog) : rprog :=
  match rest with
  | [] => []
  | n :: tl => shrink_node ar' i n :: shrink_from ar' (S i) tl
  end.
Definition shrink (ar' : arrows) (p : rprog) : rprog := shrink_from ar' 0 p.

Lemma shrink_from_nth ar' : forall rest i k,
  nth_error (shrink_from ar' i rest) k = option_map (shrink_node ar' (i + k)) (nth_error rest k).
Proof.
  induction rest as [|n tl IH]; intros i k; cbn [shrink_from].
  - destruct k; reflexivity.
  - destruct k as [|k]; cbn [nth_error option_map].
    + rewrite Nat.add_0_r. reflexivity.
    + rewrite IH, Nat.add_succ_r. reflexivity.
Qed.

Lemma shrink_nth ar' p k : nth_error (shrink ar' p) k = option_map (shrink_node ar' k) (nth_error p k).
Proof. unfold shrink. rewrite shrink_from_nth. reflexivity. Qed.

Lemma shrink_children ar' i n : rchildren (shrink_node ar' i n) = rchildren n.
Proof.
  destruct n; try reflexivity. cbn. destruct (ar' i) as [[s t]|]; [|reflexivity].
  destruct (value_prune c t); reflexivity.
Qed.

Lemma reach_shrink ar' p root j : reach p root j -> reach (shrink ar' p) root j.
Proof.
  induction 1 as [|k n c Hr IH Hn Hc]; [constructor|].
  eapply reach_step; [exact IH|rewrite shrink_nth, Hn; reflexivity|rewrite shrink_children; exact Hc].
Qed.

Lemma sprune_pair v t v' : sprune v t = Some v' ->
  match t with
  | Prod a b => exists x y x' y', v = SP x y /\ v' = SP x' y' /\ sprune x a = Some x' /\ sprune y b = Some y'
  | _ => True
  end.
Proof.
  destruct t as [| |a b]; auto. destruct v as [| | |x y]; cbn; try discriminate.
  destruct (sprune x a) as [x'|] eqn:A; [|discriminate]. destruct (sprune y b) as [y'|] eqn:B; [|discriminate].
  intros H. injection H as <-. exists x, y, x', y'. auto.
Qed.

(* ------------------------------------------------------------------ evaluation commutes with Value::prune *)

Theorem retype_commutes p ar ar' root C :
  typed_from p ar root -> typed_from (shrink ar' p) ar' root ->
  forall fuel i v o E s t s' t' v',
    reach p root i -> ar i = Some (s, t) -> ar' i = Some (s', t') ->
    has_ty v s = true -> sprune v s' = Some v' ->
    eval jet_sem hash_val fuel p C i v = Ok (o, E) ->
    exists o', eval jet_sem hash_val fuel (shrink ar' p) C i v' = Ok (o', E) /\ sprune o t' = Some o'.
Proof.
  intros Ht Ht'. induction fuel as [|f IH]; intros i v o E s t s' t' v' Hr Ha Ha' Hv Hs H;
    cbn [eval] in H |- *; [discriminate|].
  rewrite shrink_nth. destruct (nth_error p i) as [n|] eqn:En; [|discriminate]. cbn [option_map].
  pose proof (Ht _ _ Hr En) as Ok1. unfold node_okb in Ok1. rewrite Ha in Ok1.
  assert (En' : nth_error (shrink ar' p) i = Some (shrink_node ar' i n)) by (rewrite shrink_nth, En; reflexivity).
  pose proof (Ht' _ _ (reach_shrink _ _ _ _ Hr) En') as Ok2. unfold node_okb in Ok2. rewrite Ha' in Ok2.
  assert (Hc : forall c, In c (rchildren n) -> reach p root c) by (intros c Hc; eapply reach_child; eauto).
  pose proof (eval_typed p ar root C Ht) as SR.
  destruct n; cbn [shrink_node] in Ok2 |- *; cbn [rchildren] in Hc.
  - (* iden *) tyeq. subst. injection H as <- <-. exists v'. auto.
  - (* unit *) tyeq. subst. injection H as <- <-. exists SU. auto.
  - (* injl *)
    destruct (ar c) as [[s1 b1]|] eqn:Ac; [|discriminate]. destruct t as [|b c0|]; try discriminate.
    destruct (ar' c) as [[s1' b1']|] eqn:Ac'; [|discriminate]. destruct t' as [|b' c0'|]; try discriminate.
    tyeq. subst. ev_step H. injection H as <- <-.
    destruct (IH _ _ _ _ _ _ _ _ _ (Hc _ (or_introl eq_refl)) Ac Ac' Hv Hs E0) as (x' & Ex & Sx).
    rewrite Ex. cbn [obind fst snd]. eexists. split; [reflexivity|]. cbn. rewrite Sx. reflexivity.
  - (* injr *)
    destruct (ar c) as [[s1 b1]|] eqn:Ac; [|discriminate]. destruct t as [|b c0|]; try discriminate.
    destruct (ar' c) as [[s1' b1']|] eqn:Ac'; [|discriminate]. destruct t' as [|b' c0'|]; try discriminate.
    tyeq. subst. ev_step H. injection H as <- <-.
    destruct (IH _ _ _ _ _ _ _ _ _ (Hc _ (or_introl eq_refl)) Ac Ac' Hv Hs E0) as (x' & Ex & Sx).
    rewrite Ex. cbn [obind fst snd]. eexists. split; [reflexivity|]. cbn. rewrite Sx. reflexivity.
  - (* take *)
    destruct (ar c) as [[a1 t1]|] eqn:Ac; [|discriminate]. destruct s as [| |a b]; try discriminate.
    destruct (ar' c) as [[a1' t1']|] eqn:Ac'; [|discriminate]. destruct s' as [| |a' b']; try discriminate.
    tyeq. subst. destruct (sprune_pair _ _ _ Hs) as (x & y & x' & y' & -> & -> & Sx & Sy).
    cbn in Hv. apply andb_true_iff in Hv. destruct Hv as [Hv1 Hv2].
    ev_step H. injection H as <- <-.
    destruct (IH _ _ _ _ _ _ _ _ _ (Hc _ (or_introl eq_refl)) Ac Ac' Hv1 Sx E0) as (o' & Eo & So).
    rewrite Eo. cbn [obind fst snd]. eexists. split; [reflexivity|exact So].
  - (* drop *)
    destruct (ar c) as [[a1 t1]|] eqn:Ac; [|discriminate]. destruct s as [| |a b]; try discriminate.
    destruct (ar' c) as [[a1' t1']|] eqn:Ac'; [|discriminate]. destruct s' as [| |a' b']; try discriminate.
    tyeq. subst. destruct (sprune_pair _ _ _ Hs) as (x & y & x' & y' & -> & -> & Sx & Sy).
    cbn in Hv. apply andb_true_iff in Hv. destruct Hv as [Hv1 Hv2].
    ev_step H. injection H as <- <-.
    destruct (IH _ _ _ _ _ _ _ _ _ (Hc _ (or_introl eq_refl)) Ac Ac' Hv2 Sy E0) as (o' & Eo & So).
    rewrite Eo. cbn [obind fst snd]. eexists. split; [reflexivity|exact So].
  - (* comp *)
    destruct (ar l) as [[s1 m1]|] eqn:Al; [|discriminate]. destruct (ar r) as [[m2 t2]|] eqn:Ar; [|discriminate].
    destruct (ar' l) as [[s1' m1']|] eqn:Al'; [|discriminate]. destruct (ar' r) as [[m2' t2']|] eqn:Ar'; [|discriminate].
    tyeq. subst. ev_step H. ev_step H. injection H as <- <-.
    pose proof (SR _ _ _ _ _ _ _ (Hc _ (or_introl eq_refl)) Al Hv E0) as Hm.
    destruct (IH _ _ _ _ _ _ _ _ _ (Hc _ (or_introl eq_refl)) Al Al' Hv Hs E0) as (x' & Ex & Sx).
    destruct (IH _ _ _ _ _ _ _ _ _ (Hc _ (or_intror (or_introl eq_refl))) Ar Ar' Hm Sx E1) as (o' & Eo & So).
    rewrite Ex. cbn [obind fst snd]. rewrite Eo. cbn [obind fst snd]. eexists. split; [reflexivity|exact So].
  - (* case *)
    destruct (ar l) as [[sl tl]|] eqn:Al; [|discriminate]. destruct (ar r) as [[sr tr]|] eqn:Ar; [|discriminate].
    destruct s as [| |[|a b|] c]; try discriminate.
    destruct (ar' l) as [[sl' tl']|] eqn:Al'; [|discriminate]. destruct (ar' r) as [[sr' tr']|] eqn:Ar'; [|discriminate].
    destruct s' as [| |[|a' b'|] c']; try discriminate. tyeq. subst.
    destruct (sprune_pair _ _ _ Hs) as (x & y & x' & y' & -> & -> & Sx & Sy).
    cbn in Hv. apply andb_true_iff in Hv. destruct Hv as [Hv1 Hv2].
    destruct x as [|va|vb|]; try discriminate; cbn in Sx, Hv1.
    + destruct (sprune va a') as [va'|] eqn:Sa; [|discriminate]. injection Sx as <-.
      ev_step H. injection H as <- <-.
      assert (Sin : sprune (SP va y) (Prod a' c') = Some (SP va' y')) by (cbn; rewrite Sa, Sy; reflexivity).
      assert (Hin : has_ty (SP va y) (Prod a c) = true) by (cbn; rewrite Hv1, Hv2; reflexivity).
      destruct (IH _ _ _ _ _ _ _ _ _ (Hc _ (or_introl eq_refl)) Al Al' Hin Sin E0) as (o' & Eo & So).
      rewrite Eo. cbn [obind fst snd]. eexists. split; [reflexivity|exact So].
    + destruct (sprune vb b') as [vb'|] eqn:Sb; [|discriminate]. injection Sx as <-.
      ev_step H. injection H as <- <-.
      assert (Sin : sprune (SP vb y) (Prod b' c') = Some (SP vb' y')) by (cbn; rewrite Sb, Sy; reflexivity).
      assert (Hin : has_ty (SP vb y) (Prod b c) = true) by (cbn; rewrite Hv1, Hv2; reflexivity).
      destruct (IH _ _ _ _ _ _ _ _ _ (Hc _ (or_intror (or_introl eq_refl))) Ar Ar' Hin Sin E0) as (o' & Eo & So).
      rewrite Eo. cbn [obind fst snd]. eexists. split; [reflexivity|exact So].
  - (* assertl *)
    destruct (ar l) as [[sl tl]|] eqn:Al; [|discriminate]. destruct s as [| |[|a b|] c]; try discriminate.
    destruct (ar' l) as [[sl' tl']|] eqn:Al'; [|discriminate]. destruct s' as [| |[|a' b'|] c']; try discriminate.
    tyeq. subst. destruct (sprune_pair _ _ _ Hs) as (x & y & x' & y' & -> & -> & Sx & Sy).
    cbn in Hv. apply andb_true_iff in Hv. destruct Hv as [Hv1 Hv2].
    destruct x as [|va|vb|]; try discriminate; cbn in Sx, Hv1.
    destruct (sprune va a') as [va'|] eqn:Sa; [|discriminate]. injection Sx as <-.
    ev_step H. injection H as <- <-.
    assert (Sin : sprune (SP va y) (Prod a' c') = Some (SP va' y')) by (cbn; rewrite Sa, Sy; reflexivity).
    assert (Hin : has_ty (SP va y) (Prod a c) = true) by (cbn; rewrite Hv1, Hv2; reflexivity).
    destruct (IH _ _ _ _ _ _ _ _ _ (Hc _ (or_introl eq_refl)) Al Al' Hin Sin E0) as (o' & Eo & So).
    rewrite Eo. cbn [obind fst snd]. eexists. split; [reflexivity|exact So].
  - (* assertr *)
    destruct (ar r) as [[sr tr]|] eqn:Ar; [|discriminate]. destruct s as [| |[|a b|] c]; try discriminate.
    destruct (ar' r) as [[sr' tr']|] eqn:Ar'; [|discriminate]. destruct s' as [| |[|a' b'|] c']; try discriminate.
    tyeq. subst. destruct (sprune_pair _ _ _ Hs) as (x & y & x' & y' & -> & -> & Sx & Sy).
    cbn in Hv. apply andb_true_iff in Hv. destruct Hv as [Hv1 Hv2].
    destruct x as [|va|vb|]; try discriminate; cbn in Sx, Hv1.
    destruct (sprune vb b') as [vb'|] eqn:Sb; [|discriminate]. injection Sx as <-.
    ev_step H. injection H as <- <-.
    assert (Sin : sprune (SP vb y) (Prod b' c') = Some (SP vb' y')) by (cbn; rewrite Sb, Sy; reflexivity).
    assert (Hin : has_ty (SP vb y) (Prod b c) = true) by (cbn; rewrite Hv1, Hv2; reflexivity).
    destruct (IH _ _ _ _ _ _ _ _ _ (Hc _ (or_introl eq_refl)) Ar Ar' Hin Sin E0) as (o' & Eo & So).
    rewrite Eo. cbn [obind fst snd]. eexists. split; [reflexivity|exact So].
  - (* pair *)
    destruct (ar l) as [[s1 t1]|] eqn:Al; [|discriminate]. destruct (ar r) as [[s2 t2]|] eqn:Ar; [|discriminate].
    destruct t as [| |b c]; try discriminate.
    destruct (ar' l) as [[s1' t1']|] eqn:Al'; [|discriminate]. destruct (ar' r) as [[s2' t2']|] eqn:Ar'; [|discriminate].
    destruct t' as [| |b' c']; try discriminate. tyeq. subst. ev_step H. ev_step H. injection H as <- <-.
    destruct (IH _ _ _ _ _ _ _ _ _ (Hc _ (or_introl eq_refl)) Al Al' Hv Hs E0) as (x' & Ex & Sx).
    destruct (IH _ _ _ _ _ _ _ _ _ (Hc _ (or_intror (or_introl eq_refl))) Ar Ar' Hv Hs E1) as (y' & Ey & Sy).
    rewrite Ex. cbn [obind fst snd]. rewrite Ey. cbn [obind fst snd]. eexists. split; [reflexivity|].
    cbn. rewrite Sx, Sy. reflexivity.
  - (* disconnect *)
    destruct (ar l) as [[sl [| |b c]]|] eqn:Al; try discriminate. destruct (ar r) as [[c2 d]|] eqn:Ar; [|discriminate].
    destruct t as [| |b0 d0]; try discriminate.
    destruct (ar' l) as [[sl' [| |b' c']]|] eqn:Al'; try discriminate. destruct (ar' r) as [[c2' d']|] eqn:Ar'; [|discriminate].
    destruct t' as [| |b0' d0']; try discriminate. tyeq. subst.
    ev_step H. destruct s0 as [| | |xb xc]; try discriminate. ev_step H. injection H as <- <-.
    assert (Hin : has_ty (SP (hash_val (nth r C [])) v) (Prod (word_ty 8) s) = true)
      by (cbn; rewrite hash_typed, Hv; reflexivity).
    assert (Sin : sprune (SP (hash_val (nth r C [])) v) (Prod (word_ty 8) s') = Some (SP (hash_val (nth r C [])) v')).
    { cbn [sprune]. rewrite (sprune_id _ _ (hash_typed _)), Hs. reflexivity. }
    destruct (IH _ _ _ _ _ _ _ _ _ (Hc _ (or_introl eq_refl)) Al Al' Hin Sin E0) as (x' & Ex & Sx).
    destruct (sprune_pair _ _ _ Sx) as (xb0 & xc0 & xb' & xc' & Eq & -> & Sb & Sc). injection Eq as <- <-.
    pose proof (SR _ _ _ _ _ _ _ (Hc _ (or_introl eq_refl)) Al Hin E0) as Hx.
    cbn in Hx. apply andb_true_iff in Hx. destruct Hx as [Hx1 Hx2].
    destruct (IH _ _ _ _ _ _ _ _ _ (Hc _ (or_intror (or_introl eq_refl))) Ar Ar' Hx2 Sc E1) as (y' & Ey & Sy).
    rewrite Ex. cbn [obind fst snd]. rewrite Ey. cbn [obind fst snd]. eexists. split; [reflexivity|].
    cbn. rewrite Sb, Sy. reflexivity.
  - (* witness *)
    injection H as <- <-. rewrite Ha' in Ok2 |- *.
    unfold wit_ok in Ok1. apply andb_true_iff in Ok1. destruct Ok1 as [_ Hc1].
    unfold value_prune in *. destruct (sprune (cv_val c) t') as [w|] eqn:Sw; cbn [option_map] in Ok2 |- *.
    + exists w. split; [reflexivity|reflexivity].
    + unfold wit_ok in Ok2. apply andb_true_iff in Ok2. destruct Ok2 as [_ Hc2].
      rewrite (sprune_id _ _ Hc2) in Sw. discriminate.
  - discriminate.
  - (* jet *)
    destruct (jet_ty family id) as [[js jt]|] eqn:J; [|discriminate]. tyeq. subst.
    destruct (jet_sem family id v) as [o1|] eqn:Js; [|discriminate]. injection H as <- <-.
    rewrite (sprune_id _ _ Hv) in Hs. injection Hs as <-. rewrite Js.
    exists o1. split; [reflexivity|]. apply sprune_id. eapply jet_typed; eauto.
  - (* word *)
    tyeq. subst. injection H as <- <-. eexists. split; [reflexivity|]. apply sprune_id, word_val_typed. assumption.
  - discriminate.
Qed.

(* ------------------------------------------------------------------ pruning keeps the original typing *)

Lemma pnode_typed ident C T ar i n : node_okb ar i n = true -> node_okb ar i (pnode ident C T i n) = true.
Proof.
  destruct n; cbn [pnode]; auto.
  destruct (taken ident T i false), (taken ident T i true); auto; unfold node_okb;
    destruct (ar i) as [[s t]|]; try discriminate;
    destruct (ar l) as [[sl tl]|]; try discriminate; destruct (ar r) as [[sr tr]|]; try discriminate;
    destruct s as [| |[|a b|] c]; try discriminate; intros H; tyeq; subst;
    rewrite ?(proj2 (ty_eqb_eq _ _) eq_refl); reflexivity.
Qed.

Lemma reach_prune ident p T root j : reach (prune_struct HS ident p T) root j -> reach p root j.
Proof.
  induction 1 as [|k n c Hr IH Hn Hc]; [constructor|].
  rewrite prune_nth in Hn. destruct (nth_error p k) as [n0|] eqn:En; [|discriminate].
  cbn in Hn. injection Hn as <-. eapply reach_step; [exact IH|exact En|].
  destruct (pnode_children ident (cmrs HS p) T k n0) as [E|(l & r & -> & [E|E])].
  - rewrite E in Hc. exact Hc.
  - rewrite E in Hc. destruct Hc as [<-|[]]. left. reflexivity.
  - rewrite E in Hc. destruct Hc as [<-|[]]. right. left. reflexivity.
Qed.

(* the original arrows still type the pruned program *)
Theorem prune_typed ident p T ar root : typed_from p ar root -> typed_from (prune_struct HS ident p T) ar root.
Proof.
  intros Ht i n Hr Hn. rewrite prune_nth in Hn. destruct (nth_error p i) as [n0|] eqn:En; [|discriminate].
  cbn in Hn. injection Hn as <-. apply pnode_typed. eapply Ht; [eapply reach_prune; exact Hr|exact En].
Qed.

(* ------------------------------------------------------------------ the pruned and re-typed program runs *)

(* q: the pruned structure with the original witnesses (typed by the original arrows ar, prune_typed);
   ar': any typing of q with its witnesses shrunk (the re-inferred one).  A unit-to-unit program then
   runs with the same events and the same (unit) output after re-typing. *)
Corollary retype_run q ar ar' o E : let root := (length q - 1)%nat in
  typed_from q ar root -> typed_from (shrink ar' q) ar' root ->
  ar root = Some (One, One) -> ar' root = Some (One, One) ->
  eval jet_sem hash_val (length q) q (cmrs HS q) root SU = Ok (o, E) ->
  eval jet_sem hash_val (length q) (shrink ar' q) (cmrs HS q) root SU = Ok (SU, E).
Proof.
  intros root Ht Ht' Ha Ha' H.
  destruct (retype_commutes q ar ar' root (cmrs HS q) Ht Ht' (length q) root SU o E One One One One SU
              (reach_refl _ _) Ha Ha' eq_refl eq_refl H) as (o' & Eo & So).
  assert (So' : sprune o One = Some SU) by (destruct o; reflexivity).
  rewrite So' in So. injection So as <-. exact Eo.
Qed.

Lemma shrink_length ar' p : length (shrink ar' p) = length p.
Proof.
  unfold shrink. generalize 0%nat. induction p as [|n tl IH]; intros i; cbn; [reflexivity|].
  rewrite IH. reflexivity.
Qed.

Lemma shrink_node_cmr ar' i tab n : node_cmr HS tab (shrink_node ar' i n) = node_cmr HS tab n.
Proof.
  destruct n; try reflexivity. cbn. destruct (ar' i) as [[s t]|]; [|reflexivity].
  destruct (value_prune c t); reflexivity.
Qed.

Lemma cmrs_shrink ar' p : cmrs HS (shrink ar' p) = cmrs HS p.
Proof.
  unfold cmrs, shrink. generalize (@nil (list N)) as tab. generalize 0%nat as i.
  induction p as [|n tl IH]; intros i tab; cbn [shrink_from cmr_tab]; [reflexivity|].
  rewrite shrink_node_cmr. apply IH.
Qed.

(* in terms of whole-program runs *)
Corollary retype_run_prog q ar ar' o E : let root := (length q - 1)%nat in
  typed_from q ar root -> typed_from (shrink ar' q) ar' root ->
  ar root = Some (One, One) -> ar' root = Some (One, One) ->
  run HS jet_sem hash_val q = Ok (o, E) ->
  run HS jet_sem hash_val (shrink ar' q) = Ok (SU, E).
Proof.
  intros root Ht Ht' Ha Ha' H. unfold run in *. rewrite cmrs_shrink, shrink_length.
  eapply retype_run; eauto.
Qed.

End Retype.

(* ------------------------------------------------------------------ what remains a statement *)

(* The arrows that Rust re-infers for the pruned program are the least typing of its structure and
   therefore lie below the original arrows (which type the same structure, prune_typed).  This is
   principality of type inference (C04); here it is compared on the implementation only. *)
Definition arrows_le (p : rprog) (root : nat) (ar' ar : arrows) : Prop :=
  forall i s t s' t', reach p root i -> ar i = Some (s, t) -> ar' i = Some (s', t') ->
    ty_le s' s = true /\ ty_le t' t = true.

Definition retype_le_statement : Prop :=
  forall (jet_ty : N -> N -> option arrow) (infer : rprog -> arrows) (q : rprog) (ar : arrows),
    (* infer = the implementation's inference on the retained nodes *)
    let root := (length q - 1)%nat in
    typed_from jet_ty q ar root ->
    typed_from jet_ty (shrink (infer q) q) (infer q) root /\ arrows_le q root (infer q) ar.
