(* Model of src/bit_encoding/bititer.rs: the cached-byte bit reader.
   State = the Rust struct (underlying byte iterator as the list of bytes still to
   come, cached_byte, read_bits, total_read).  Each function follows the Rust body
   with the same shifts and masks on u8 values. *)
From RS Require Import Lib.Tac Lib.Outcome Lib.ListExtra Lib.Bits Lib.Sweep Lib.ByteSweep Bits.Natural.
Import ListNotations.
Local Open Scope N_scope.

Record biter := mkBiter {
  bi_rest : list N;        (* iter: bytes not yet pulled *)
  bi_cached : N;           (* cached_byte *)
  bi_read_bits : N;        (* read_bits *)
  bi_total : N             (* total_read *)
}.

Definition biter_of_bytes (bs : list N) : biter := mkBiter bs 0 8 0.

(* Iterator::next *)
Definition bi_next (it : biter) : option (bool * biter) :=
  if bi_read_bits it <? 8 then
    let rb := bi_read_bits it + 1 in
    Some (negb (N.land (bi_cached it) (N.shiftl 1 (8 - rb)) =? 0),
          mkBiter (bi_rest it) (bi_cached it) rb (bi_total it + 1))
  else
    match bi_rest it with
    | [] => None
    | b :: r =>
        (* cached_byte = b; read_bits = 0; self.next() *)
        Some (negb (N.land b (N.shiftl 1 7) =? 0), mkBiter r b 1 (bi_total it + 1))
    end.

Inductive eos := EarlyEndOfStream.

Definition bi_read_bit (it : biter) : outcome eos (bool * biter) :=
  match bi_next it with Some x => Ok x | None => Err EarlyEndOfStream end.

(* read_u2: calls next() twice (both calls happen, tuple evaluation order) *)
Definition bi_read_u2 (it : biter) : outcome eos (N * biter) :=
  match bi_next it with
  | None => Err EarlyEndOfStream     (* second next() on an exhausted iterator is also None *)
  | Some (b1, it1) =>
      match bi_next it1 with
      | None => Err EarlyEndOfStream
      | Some (b2, it2) => Ok (2 * b2n b1 + b2n b2, it2)
      end
  end.


(* read_u8; Panic 2 = debug_assert!(read_bits > 0), Panic 3 = u8 `+` overflow *)
Definition bi_read_u8 (it : biter) : outcome eos (N * biter) :=
  if bi_read_bits it =? 0 then Panic 2 else
  match bi_rest it with
  | [] => Err EarlyEndOfStream
  | nb :: r =>
      let hi := if bi_read_bits it <? 8 then u8 (N.shiftl (bi_cached it) (bi_read_bits it)) else 0 in
      let v := hi + N.shiftr nb (8 - bi_read_bits it) in
      if 255 <? v then Panic 3
      else Ok (v, mkBiter r nb (bi_read_bits it) (bi_total it + 8))
  end.

(* read_natural on the reader: the Rust code pulls bits one by one with read_bit;
   the model runs [read_nat] on the bits still available and then advances the
   reader by the number of bits consumed. *)
Fixpoint bi_skip (n : nat) (it : biter) : option biter :=
  match n with
  | O => Some it
  | S k => match bi_next it with None => None | Some (_, it') => bi_skip k it' end
  end.

Fixpoint bi_take (n : nat) (it : biter) : list bool :=
  match n with
  | O => []
  | S k => match bi_next it with None => [] | Some (b, it') => b :: bi_take k it' end
  end.

Definition bi_remaining_len (it : biter) : nat :=
  N.to_nat (8 - bi_read_bits it) + 8 * length (bi_rest it).

Definition bi_all_bits (it : biter) : list bool := bi_take (bi_remaining_len it) it.

Definition bi_read_natural (ty_max : N) (bound : option N) (it : biter)
  : outcome nat_err (N * biter) :=
  let l := bi_all_bits it in
  match read_nat ty_max bound l with
  | Ok (n, rest) =>
      match bi_skip (length l - length rest) it with
      | Some it' => Ok (n, it')
      | None => Panic 4
      end
  | Err e => Err e
  | Panic c => Panic c
  | OutOfFuel => OutOfFuel
  end.

Inductive close_err :=
| TrailingBytes (first : N)
| IllegalPadding (masked : N) (n_bits : N).

(* close; Panic 5 = the debug_assert on read_bits (1u8 << 8 would overflow) *)
Definition bi_close (it : biter) : outcome close_err unit :=
  match bi_rest it with
  | b :: _ => Err (TrailingBytes b)
  | [] =>
      if (bi_read_bits it <? 1) || (8 <? bi_read_bits it) then Panic 5 else
      let n_bits := 8 - bi_read_bits it in
      let masked := N.land (bi_cached it) (N.shiftl 1 n_bits - 1) in
      if masked =? 0 then Ok tt else Err (IllegalPadding masked n_bits)
  end.

(* byte_slice_window; Panic 6/7 = the two assert!s, Panic 8 = slice index, Panic 9 = unwrap *)
Definition div_ceil8 (x : N) : N := (x + 7) / 8.

Definition bi_window (sl : list N) (start end_ : N) : outcome unit biter :=
  if end_ <? start then Panic 6 else
  if 8 * N.of_nat (length sl) <? end_ then Panic 7 else
  let lo := start / 8 in
  let hi := div_ceil8 end_ in
  if hi <? lo then Panic 8 else
  let actual := firstn (N.to_nat (hi - lo)) (skipn (N.to_nat lo) sl) in
  let rb := start mod 8 in
  if rb =? 0 then Ok (mkBiter actual 0 8 0)
  else match actual with
       | [] => Panic 9
       | c :: r => Ok (mkBiter r c rb 0)
       end.

(* ------------------------------------------------------------ abstraction *)

Definition bytes_ok (bs : list N) : Prop := Forall (fun b => b < 256) bs.

Definition bi_inv (it : biter) : Prop :=
  1 <= bi_read_bits it <= 8 /\ bi_cached it < 256 /\ bytes_ok (bi_rest it).

(* the bits the reader has still to deliver *)
Definition bi_remaining (it : biter) : list bool :=
  bits_be (N.to_nat (8 - bi_read_bits it)) (bi_cached it) ++ bits_of_bytes (bi_rest it).

(* ------------------------------------------------------------- byte sweeps *)

Lemma bi_inv_of_bytes bs : bytes_ok bs -> bi_inv (biter_of_bytes bs).
Proof. intros H. unfold bi_inv, biter_of_bytes; cbn. repeat split; try lia. exact H. Qed.

Lemma bi_remaining_of_bytes bs : bi_remaining (biter_of_bytes bs) = bits_of_bytes bs.
Proof. reflexivity. Qed.

(* next() delivers the head of the remaining bits *)
Theorem bi_next_spec it : bi_inv it ->
  match bi_remaining it with
  | [] => bi_next it = None
  | b :: tl => exists it', bi_next it = Some (b, it') /\ bi_remaining it' = tl /\
                           bi_inv it' /\ bi_total it' = bi_total it + 1
  end.
Proof.
  intros (Hrb & Hc & Hbs). unfold bi_remaining, bi_next.
  destruct (N.ltb_spec (bi_read_bits it) 8) as [Hlt|Hge].
  - (* a bit of the cached byte *)
    set (rb := bi_read_bits it) in *.
    replace (N.to_nat (8 - rb)) with (S (N.to_nat (8 - (rb + 1)))) by lia.
    cbn [bits_be app].
    eexists. split; [|split; [|split]].
    + rewrite mask_is_testbit by lia. rewrite N2Nat.id. reflexivity.
    + cbn. reflexivity.
    + unfold bi_inv; cbn. repeat split; try lia; assumption.
    + reflexivity.
  - replace (8 - bi_read_bits it) with 0 by lia. cbn [N.to_nat bits_be app].
    destruct (bi_rest it) as [|b r] eqn:Er; [reflexivity|].
    inversion Hbs as [|? ? Hb Hr]; subst.
    cbn [bits_of_bytes flat_map]. unfold bits_of_byte at 1.
    change (bits_be 8 b) with (N.testbit b 7 :: bits_be 7 b). cbn [app].
    eexists. split; [|split; [|split]].
    + rewrite mask_is_testbit by lia. reflexivity.
    + cbn. reflexivity.
    + unfold bi_inv; cbn. repeat split; try lia; assumption.
    + reflexivity.
Qed.

Lemma bits_be_8_val_lt v : v < 256 -> val_be (bits_be 8 v) = v.
Proof. intros H. rewrite val_be_bits_be. apply N.mod_small. exact H. Qed.

(* read_u8 delivers the next 8 remaining bits, if there are 8; otherwise the state
   is unchanged and the result is EarlyEndOfStream *)
Theorem bi_read_u8_spec it : bi_inv it ->
  let l := bi_remaining it in
  if Nat.leb 8 (length l) then
    exists v it', bi_read_u8 it = Ok (v, it') /\ v < 256 /\ bits_be 8 v = firstn 8 l /\
                  bi_remaining it' = skipn 8 l /\ bi_inv it' /\
                  bi_total it' = bi_total it + 8
  else bi_read_u8 it = Err EarlyEndOfStream.
Proof.
  destruct it as [rs c rb tot]. unfold bi_inv, bi_remaining, bi_read_u8.
  cbn [bi_rest bi_cached bi_read_bits bi_total]. intros (Hrb & Hc & Hbs).
  replace (rb =? 0) with false by (symmetry; apply N.eqb_neq; lia).
  destruct rs as [|nb r].
  - cbn [bits_of_bytes flat_map]. cbv zeta. rewrite app_nil_r, bits_be_length.
    replace (Nat.leb 8 (N.to_nat (8 - rb))) with false; [reflexivity|].
    symmetry. apply Nat.leb_gt. lia.
  - inversion Hbs as [|? ? Hnb Hr]; subst.
    cbn [bits_of_bytes flat_map]. fold (bits_of_bytes r). unfold bits_of_byte.
    cbv zeta. rewrite !app_length, !bits_be_length.
    replace (Nat.leb 8 (N.to_nat (8 - rb) + (8 + length (bits_of_bytes r)))) with true
      by (symmetry; apply Nat.leb_le; lia).
    destruct (N.ltb_spec rb 8) as [Hlt|Hge].
    + destruct (read_u8_sweep c nb rb Hc Hnb Hlt ltac:(lia)) as (Hv & Hbits & Hskip).
      cbv zeta in Hv, Hbits.
      remember (u8 (N.shiftl c rb) + N.shiftr nb (8 - rb)) as v eqn:Ev.
      replace (255 <? v) with false by (symmetry; apply N.ltb_ge; lia).
      exists v. eexists. split; [reflexivity|]. split; [exact Hv|].
      cbn [bi_rest bi_cached bi_read_bits bi_total]. clear Ev.
      split; [|split; [|split]].
      * rewrite Hbits. rewrite firstn_app, bits_be_length.
        replace (8 - N.to_nat (8 - rb))%nat with (N.to_nat rb) by lia.
        rewrite (@firstn_all2 _ 8 (bits_be (N.to_nat (8 - rb)) c))
          by (rewrite bits_be_length; lia).
        f_equal. rewrite firstn_app, bits_be_length.
        replace (N.to_nat rb - 8)%nat with O by lia. rewrite firstn_O, app_nil_r. reflexivity.
      * rewrite skipn_app, bits_be_length.
        rewrite skipn_all2 by (rewrite bits_be_length; lia). cbn [app].
        replace (8 - N.to_nat (8 - rb))%nat with (N.to_nat rb) by lia.
        rewrite skipn_app, bits_be_length.
        replace (N.to_nat rb - 8)%nat with O by lia. rewrite skipn_O, Hskip. reflexivity.
      * repeat split; try lia; assumption.
      * reflexivity.
    + assert (rb = 8) as Erb by lia. subst rb.
      change (8 - 8) with 0. rewrite N.shiftr_0_r. cbn [N.to_nat bits_be app N.add].
      replace (255 <? nb) with false by (symmetry; apply N.ltb_ge; lia).
      exists nb. eexists. split; [reflexivity|]. split; [exact Hnb|].
      cbn [bi_rest bi_cached bi_read_bits bi_total].
      split; [|split; [|split]].
      * reflexivity.
      * reflexivity.
      * repeat split; try lia; assumption.
      * reflexivity.
Qed.

(* close succeeds exactly when no byte remains and all unread bits are zero *)
Theorem bi_close_iff it : bi_inv it ->
  (bi_close it = Ok tt <->
   bi_rest it = [] /\ Forall (fun b => b = false) (bi_remaining it)) /\
  (forall b, bi_close it = Err (TrailingBytes b) <-> exists r, bi_rest it = b :: r) /\
  (forall c, bi_close it <> Panic c) /\ bi_close it <> OutOfFuel.
Proof.
  intros (Hrb & Hc & Hbs). unfold bi_close, bi_remaining.
  destruct (bi_rest it) as [|b r] eqn:Er.
  - replace ((bi_read_bits it <? 1) || (8 <? bi_read_bits it)) with false.
    2:{ symmetry. apply orb_false_iff. split; [apply N.ltb_ge|apply N.ltb_ge]; lia. }
    rewrite close_mask_sweep by lia.
    cbn [bits_of_bytes flat_map]. rewrite app_nil_r.
    set (bits := bits_be (N.to_nat (8 - bi_read_bits it)) (bi_cached it)).
    assert (Hall : forallb negb bits = true <-> Forall (fun b => b = false) bits).
    { rewrite forallb_forall, Forall_forall. split; intros H x Hx; specialize (H x Hx);
        destruct x; cbn in *; congruence. }
    destruct (forallb negb bits) eqn:Ef.
    + split; [|split; [|split]].
      * split; [intros _; split; [reflexivity|apply Hall; reflexivity] | reflexivity].
      * intros b; split; [discriminate| intros (r & Hr); discriminate].
      * intros c; discriminate.
      * discriminate.
    + split; [|split;[|split]].
      * split; [discriminate| intros (_ & H); apply Hall in H; discriminate].
      * intros b; split; [discriminate| intros (r & Hr); discriminate].
      * intros c; discriminate.
      * discriminate.
  - split; [|split;[|split]].
    + split; [discriminate | intros (H & _); discriminate].
    + intros b'; split; [intros H; injection H as ->; eauto
                        | intros (r' & Hr'); injection Hr' as -> _; reflexivity].
    + intros c; discriminate.
    + discriminate.
Qed.

(* --------------------------------------------------------------- window *)

(* bits [s, e) of a byte list *)
Definition bit_range (sl : list N) (s e : N) : list bool :=
  firstn (N.to_nat (e - s)) (skipn (N.to_nat s) (bits_of_bytes sl)).

Lemma bits_of_bytes_length bs : length (bits_of_bytes bs) = (8 * length bs)%nat.
Proof.
  induction bs as [|b r IH]; [reflexivity|].
  cbn [bits_of_bytes flat_map]. rewrite app_length. fold (bits_of_bytes r).
  rewrite IH. unfold bits_of_byte. rewrite bits_be_length. cbn [length]. lia.
Qed.

Lemma bits_of_bytes_app a b : bits_of_bytes (a ++ b) = bits_of_bytes a ++ bits_of_bytes b.
Proof. unfold bits_of_bytes. apply flat_map_app. Qed.

Lemma skipn_bits_of_bytes k : forall bs,
  skipn (8 * k) (bits_of_bytes bs) = bits_of_bytes (skipn k bs).
Proof.
  induction k as [|k IH]; intros bs; [reflexivity|].
  destruct bs as [|b r]; [reflexivity|].
  replace (8 * S k)%nat with (8 + 8 * k)%nat by lia.
  rewrite <- skipn_add.
  cbn [bits_of_bytes flat_map]. fold (bits_of_bytes r).
  replace (skipn 8 (bits_of_byte b ++ bits_of_bytes r)) with (bits_of_bytes r).
  - rewrite IH. reflexivity.
  - rewrite skipn_app. unfold bits_of_byte. rewrite bits_be_length.
    rewrite skipn_all2 by (rewrite bits_be_length; lia). reflexivity.
Qed.

Lemma firstn_bits_of_bytes k : forall bs,
  firstn (8 * k) (bits_of_bytes bs) = bits_of_bytes (firstn k bs).
Proof.
  induction k as [|k IH]; intros bs; [reflexivity|].
  destruct bs as [|b r]; [reflexivity|].
  replace (8 * S k)%nat with (8 + 8 * k)%nat by lia.
  cbn [bits_of_bytes flat_map firstn]. fold (bits_of_bytes r). fold (bits_of_bytes (firstn k r)).
  unfold bits_of_byte. rewrite firstn_app, bits_be_length.
  rewrite (@firstn_all2 _ (8 + 8 * k) (bits_be 8 b)) by (rewrite bits_be_length; lia).
  f_equal. replace (8 + 8 * k - 8)%nat with (8 * k)%nat by lia. apply IH.
Qed.

Lemma skipn_bits_be k : forall m c, skipn k (bits_be (k + m) c) = bits_be m c.
Proof. induction k as [|k IH]; intros m c; [reflexivity|]. cbn [Nat.add bits_be skipn]. apply IH. Qed.

(* what the window constructor really delivers: bits from [start] up to the next
   byte boundary at or after [end] *)
Theorem bi_window_general sl s e : bytes_ok sl -> s <= e -> e <= 8 * N.of_nat (length sl) ->
  exists it, bi_window sl s e = Ok it /\ bi_inv it /\ bi_total it = 0 /\
             bi_remaining it = bit_range sl s (8 * div_ceil8 e).
Proof.
  intros Hsl Hse He. unfold bi_window.
  replace (e <? s) with false by (symmetry; apply N.ltb_ge; lia).
  replace (8 * N.of_nat (length sl) <? e) with false by (symmetry; apply N.ltb_ge; lia).
  unfold div_ceil8.
  assert (Hlohi : s / 8 <= (e + 7) / 8) by (clear - Hse; lia).
  replace ((e + 7) / 8 <? s / 8) with false by (symmetry; apply N.ltb_ge; lia).
  set (lo := s / 8) in *. set (hi := (e + 7) / 8) in *.
  set (actual := firstn (N.to_nat (hi - lo)) (skipn (N.to_nat lo) sl)).
  assert (Hact : bytes_ok actual).
  { unfold actual, bytes_ok in *. rewrite Forall_forall in *. intros x Hx.
    apply Hsl. eapply skipn_In. eapply firstn_In. exact Hx. }
  assert (Hbits : bits_of_bytes actual
                  = firstn (8 * N.to_nat (hi - lo)) (skipn (8 * N.to_nat lo) (bits_of_bytes sl))).
  { unfold actual. rewrite skipn_bits_of_bytes, firstn_bits_of_bytes. reflexivity. }
  unfold bit_range.
  destruct (N.eqb_spec (s mod 8) 0) as [E|E].
  - eexists. split; [reflexivity|]. split; [apply bi_inv_of_bytes; exact Hact|].
    split; [reflexivity|].
    unfold bi_remaining. cbn [bi_read_bits bi_cached bi_rest].
    change (N.to_nat (8 - 8)) with O. cbn [bits_be app].
    rewrite Hbits.
    replace (8 * N.to_nat (hi - lo))%nat with (N.to_nat (8 * hi - s))
      by (unfold lo, hi in *; clear - E Hse; lia).
    replace (8 * N.to_nat lo)%nat with (N.to_nat s)
      by (unfold lo, hi in *; clear - E Hse; lia).
    reflexivity.
  - assert (Hlt : lo < hi) by (unfold lo, hi; clear - E Hse; lia).
    assert (Hlen : (N.to_nat lo < length sl)%nat).
    { unfold lo, hi in *. clear - Hlt He. lia. }
    destruct actual as [|c r] eqn:Eact.
    + exfalso. unfold actual in Eact.
      assert (length (firstn (N.to_nat (hi - lo)) (skipn (N.to_nat lo) sl)) = O)
        by (rewrite Eact; reflexivity).
      rewrite firstn_length, skipn_length in H. lia.
    + inversion Hact as [|? ? Hc Hr]; subst.
      eexists. split; [reflexivity|]. split; [|split; [reflexivity|]].
      * unfold bi_inv. cbn. pose proof (N.mod_upper_bound s 8 ltac:(lia)). repeat split; try lia; assumption.
      * unfold bi_remaining. cbn [bi_read_bits bi_cached bi_rest].
        set (rb := s mod 8) in *.
        assert (Hrb8 : rb < 8) by (apply N.mod_upper_bound; lia).
        (* remaining = skipn rb (bits of c :: r) *)
        assert (Hsk : bits_be (N.to_nat (8 - rb)) c ++ bits_of_bytes r
                      = skipn (N.to_nat rb) (bits_of_bytes (c :: r))).
        { cbn [bits_of_bytes flat_map]. fold (bits_of_bytes r).
          rewrite skipn_app. unfold bits_of_byte. rewrite bits_be_length.
          replace (N.to_nat rb - 8)%nat with O by lia. rewrite skipn_O. f_equal.
          replace 8%nat with (N.to_nat rb + N.to_nat (8 - rb))%nat at 1 by lia.
          rewrite skipn_bits_be. reflexivity. }
        rewrite Hsk, Hbits, skipn_firstn_comm, skipn_add.
        f_equal; [|f_equal]; unfold lo, hi, rb in *; clear - E Hse; lia.
Qed.

Corollary bi_window_aligned sl s e : bytes_ok sl -> s <= e -> e <= 8 * N.of_nat (length sl) ->
  e mod 8 = 0 ->
  exists it, bi_window sl s e = Ok it /\ bi_inv it /\ bi_total it = 0 /\
             bi_remaining it = bit_range sl s e.
Proof.
  intros Hsl Hse He Hal. destruct (bi_window_general sl s e Hsl Hse He) as (it & H1 & H2 & H3 & H4).
  exists it. split; [exact H1|]. split; [exact H2|]. split; [exact H3|].
  rewrite H4. f_equal. unfold div_ceil8. clear - Hal. lia.
Qed.

(* F-C13: the property ("exactly the bits in its range") fails when end is not a
   multiple of 8: the window 4..10 of three 0xff bytes delivers 12 bits, not 6 *)
Lemma bi_window_overrun_refuted :
  exists sl s e it, s <= e /\ e <= 8 * N.of_nat (length sl) /\ bytes_ok sl /\
    bi_window sl s e = Ok it /\ bi_remaining it <> bit_range sl s e.
Proof.
  exists [255; 255; 255], 4, 10. eexists.
  split; [vm_compute; congruence|]. split; [vm_compute; congruence|].
  split; [repeat constructor|]. split; [vm_compute; reflexivity|].
  vm_compute. discriminate.
Qed.

(* the deviation is exactly the overrun to the byte boundary, nothing else *)
Definition window_overrun_class (s e : N) : Prop := e mod 8 <> 0.
