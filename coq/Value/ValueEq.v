(* C11: ==, cmp and hash of the byte-level Value are semantic (as fixed: they compare the
   compact encoding), and the comparison the code used before the fix (raw bytes of the
   padded form) was not. *)
From RS Require Import Lib.Tac Lib.Outcome Lib.Bits Lib.Sweep Lib.ListExtra Ty.Ty
  Value.ValueModel Value.ValueBits Value.ValueRefine Value.ValueCons.
Import ListNotations.
Local Open Scope N_scope.

Lemma list_beq_bool_refl l : list_beq Bool.eqb l l = true.
Proof. induction l as [|a r IH]; cbn; [reflexivity|]. rewrite eqb_reflx, IH. reflexivity. Qed.

Lemma list_beq_bool_iff l1 l2 : list_beq Bool.eqb l1 l2 = true <-> l1 = l2.
Proof. split; [apply list_beq_bool|intros ->; apply list_beq_bool_refl]. Qed.

(* two well-formed values denote the same element of the same type iff their types and
   compact encodings agree *)
Lemma compact_eq_iff a b : vty a = vty b ->
  (compact_enc (absv a) = compact_enc (absv b) <-> absv a = absv b).
Proof.
  intros Et. split; [|intros ->; reflexivity].
  apply (compact_enc_inj (vty a)); [apply absv_has_ty|rewrite Et; apply absv_has_ty].
Qed.

Theorem v_eq_spec a b : WF a -> WF b ->
  exists r, v_eq a b = Ok r /\ (r = true <-> vty a = vty b /\ absv a = absv b).
Proof.
  intros Ha Hb. unfold v_eq.
  destruct (ty_eqb (vty a) (vty b)) eqn:Et.
  - apply ty_eqb_eq in Et. rewrite !iter_compact_spec by assumption. cbn [obind].
    eexists; split; [reflexivity|].
    rewrite list_beq_bool_iff, (compact_eq_iff a b Et). tauto.
  - exists false. split; [reflexivity|]. split; [discriminate|].
    intros [E _]. apply ty_eqb_eq in E. congruence.
Qed.

Corollary v_eq_true_iff a b : WF a -> WF b ->
  (v_eq a b = Ok true <-> vty a = vty b /\ absv a = absv b).
Proof.
  intros Ha Hb. destruct (v_eq_spec a b Ha Hb) as (r & E & Hr). rewrite E.
  split.
  - intros H. injection H as ->. apply Hr. reflexivity.
  - intros H. f_equal. apply Hr. exact H.
Qed.

(* equal values feed the same stream to the hasher *)
Theorem v_hash_spec v : WF v -> v_hash v = Ok (vty v, compact_enc (absv v)).
Proof. intros H. unfold v_hash. rewrite iter_compact_spec by exact H. reflexivity. Qed.

Theorem v_hash_eq a b : WF a -> WF b -> v_eq a b = Ok true -> v_hash a = v_hash b.
Proof.
  intros Ha Hb E. apply (v_eq_true_iff a b Ha Hb) in E. destruct E as [Et Ea].
  rewrite !v_hash_spec by assumption. rewrite Et, Ea. reflexivity.
Qed.

(* ... and, conversely, values with equal hash streams are equal *)
Theorem v_hash_inj a b : WF a -> WF b -> v_hash a = v_hash b -> v_eq a b = Ok true.
Proof.
  intros Ha Hb E. rewrite !v_hash_spec in E by assumption. injection E as Et Ec.
  apply v_eq_true_iff; auto. split; [exact Et|]. apply (compact_eq_iff a b Et). exact Ec.
Qed.

(* ------------------------------------------------------------------ the lexicographic order on bit strings *)

Lemma bits_cmp_refl l : bits_cmp l l = Eq.
Proof. induction l as [|[|] r IH]; cbn; auto. Qed.

Lemma bits_cmp_eq l1 : forall l2, bits_cmp l1 l2 = Eq -> l1 = l2.
Proof.
  induction l1 as [|x r IH]; intros [|y r2] H; cbn in H; try discriminate; auto.
  destruct x, y; try discriminate; f_equal; auto.
Qed.

Lemma bits_cmp_antisym l1 : forall l2, bits_cmp l2 l1 = CompOpp (bits_cmp l1 l2).
Proof.
  induction l1 as [|x r IH]; intros [|y r2]; cbn; auto.
  destruct x, y; cbn; auto.
Qed.

Lemma bits_cmp_trans l1 : forall l2 l3, bits_cmp l1 l2 = Lt -> bits_cmp l2 l3 = Lt -> bits_cmp l1 l3 = Lt.
Proof.
  induction l1 as [|x r IH]; intros [|y r2] [|z r3] H1 H2; cbn in *; try discriminate; auto.
  destruct x, y, z; try discriminate; auto; eapply IH; eauto.
Qed.

(* ------------------------------------------------------------------ Ord *)

Section Cmp.
  (* the order on types: in the code the byte order of the TMRs *)
  Variable tcmp : ty -> ty -> comparison.
  Hypothesis tcmp_eq : forall a b, tcmp a b = Eq <-> a = b.
  Hypothesis tcmp_antisym : forall a b, tcmp b a = CompOpp (tcmp a b).
  Hypothesis tcmp_trans : forall a b c, tcmp a b = Lt -> tcmp b c = Lt -> tcmp a c = Lt.

  (* the order the code implements, on abstractions *)
  Definition scmp (a b : value) : comparison :=
    match tcmp (vty a) (vty b) with
    | Eq => bits_cmp (compact_enc (absv a)) (compact_enc (absv b))
    | c => c
    end.

  Theorem v_cmp_spec a b : WF a -> WF b -> v_cmp tcmp a b = Ok (scmp a b).
  Proof.
    intros Ha Hb. unfold v_cmp, scmp.
    destruct (tcmp (vty a) (vty b)); try reflexivity.
    rewrite !iter_compact_spec by assumption. reflexivity.
  Qed.

  Lemma scmp_eq_iff a b : scmp a b = Eq <-> vty a = vty b /\ absv a = absv b.
  Proof.
    unfold scmp. destruct (tcmp (vty a) (vty b)) eqn:Et.
    - apply tcmp_eq in Et. split.
      + intros H. apply bits_cmp_eq in H. split; [exact Et|]. apply (compact_eq_iff a b Et). exact H.
      + intros [_ ->]. apply bits_cmp_refl.
    - split; [discriminate|]. intros [E _]. apply tcmp_eq in E. congruence.
    - split; [discriminate|]. intros [E _]. apply tcmp_eq in E. congruence.
  Qed.

  (* the Eq case of cmp coincides with == *)
  Theorem v_cmp_eq_iff a b : WF a -> WF b ->
    (v_cmp tcmp a b = Ok Eq <-> v_eq a b = Ok true).
  Proof.
    intros Ha Hb. rewrite v_cmp_spec by assumption. rewrite (v_eq_true_iff a b Ha Hb), <- scmp_eq_iff.
    split; [intros H; injection H; auto|intros ->; reflexivity].
  Qed.

  Lemma scmp_antisym a b : scmp b a = CompOpp (scmp a b).
  Proof.
    unfold scmp. rewrite (tcmp_antisym (vty a) (vty b)).
    destruct (tcmp (vty a) (vty b)); cbn [CompOpp]; try reflexivity.
    apply bits_cmp_antisym.
  Qed.

  Lemma scmp_trans a b c : scmp a b = Lt -> scmp b c = Lt -> scmp a c = Lt.
  Proof.
    unfold scmp. intros H1 H2.
    destruct (tcmp (vty a) (vty b)) eqn:Eab; try discriminate.
    - apply tcmp_eq in Eab. rewrite Eab.
      destruct (tcmp (vty b) (vty c)) eqn:Ebc; try discriminate; [|reflexivity].
      eapply bits_cmp_trans; eauto.
    - destruct (tcmp (vty b) (vty c)) eqn:Ebc; try discriminate.
      + apply tcmp_eq in Ebc. rewrite <- Ebc, Eab. reflexivity.
      + rewrite (tcmp_trans _ _ _ Eab Ebc). reflexivity.
  Qed.

  (* cmp is a total order on well-formed values: always an answer, antisymmetric, transitive *)
  Theorem v_cmp_total_order a b c : WF a -> WF b -> WF c ->
    (exists o, v_cmp tcmp a b = Ok o) /\
    (forall o, v_cmp tcmp a b = Ok o -> v_cmp tcmp b a = Ok (CompOpp o)) /\
    (v_cmp tcmp a b = Ok Lt -> v_cmp tcmp b c = Ok Lt -> v_cmp tcmp a c = Ok Lt).
  Proof.
    intros Ha Hb Hc. rewrite !v_cmp_spec by assumption. split; [eauto|]. split.
    - intros o E. injection E as <-. f_equal. apply scmp_antisym.
    - intros E1 E2. injection E1 as E1. injection E2 as E2. f_equal. eapply scmp_trans; eauto.
  Qed.
End Cmp.

(* the hypotheses on the type order are satisfiable: the structural order [ty_cmp] *)
Lemma ty_cmp_refl a : ty_cmp a a = Eq.
Proof. induction a as [|a1 IH1 a2 IH2|a1 IH1 a2 IH2]; cbn; rewrite ?IH1, ?IH2; reflexivity. Qed.

Lemma ty_cmp_eq a : forall b, ty_cmp a b = Eq <-> a = b.
Proof.
  induction a as [|a1 IH1 a2 IH2|a1 IH1 a2 IH2]; intros [|b1 b2|b1 b2]; cbn;
    try (split; [discriminate|discriminate]); try (split; reflexivity).
  - destruct (ty_cmp a1 b1) eqn:E1.
    + apply IH1 in E1. subst b1. rewrite IH2. split; [intros ->; reflexivity|intros H; injection H; auto].
    + split; [discriminate|]. intros H. injection H as <- <-. rewrite ty_cmp_refl in E1. discriminate.
    + split; [discriminate|]. intros H. injection H as <- <-. rewrite ty_cmp_refl in E1. discriminate.
  - destruct (ty_cmp a1 b1) eqn:E1.
    + apply IH1 in E1. subst b1. rewrite IH2. split; [intros ->; reflexivity|intros H; injection H; auto].
    + split; [discriminate|]. intros H. injection H as <- <-. rewrite ty_cmp_refl in E1. discriminate.
    + split; [discriminate|]. intros H. injection H as <- <-. rewrite ty_cmp_refl in E1. discriminate.
Qed.

Lemma ty_cmp_antisym a : forall b, ty_cmp b a = CompOpp (ty_cmp a b).
Proof.
  induction a as [|a1 IH1 a2 IH2|a1 IH1 a2 IH2]; intros [|b1 b2|b1 b2]; cbn; try reflexivity.
  - rewrite IH1. destruct (ty_cmp a1 b1); cbn; auto.
  - rewrite IH1. destruct (ty_cmp a1 b1); cbn; auto.
Qed.

Lemma ty_cmp_trans a : forall b c, ty_cmp a b = Lt -> ty_cmp b c = Lt -> ty_cmp a c = Lt.
Proof.
  induction a as [|a1 IH1 a2 IH2|a1 IH1 a2 IH2]; intros [|b1 b2|b1 b2] [|c1 c2|c1 c2] H1 H2;
    cbn in *; try discriminate; try reflexivity.
  - destruct (ty_cmp a1 b1) eqn:E1; try discriminate.
    + apply ty_cmp_eq in E1. subst b1. destruct (ty_cmp a1 c1); try discriminate; eauto.
    + destruct (ty_cmp b1 c1) eqn:E2; try discriminate.
      * apply ty_cmp_eq in E2. subst c1. rewrite E1. reflexivity.
      * rewrite (IH1 _ _ E1 E2). reflexivity.
  - destruct (ty_cmp a1 b1) eqn:E1; try discriminate.
    + apply ty_cmp_eq in E1. subst b1. destruct (ty_cmp a1 c1); try discriminate; eauto.
    + destruct (ty_cmp b1 c1) eqn:E2; try discriminate.
      * apply ty_cmp_eq in E2. subst c1. rewrite E1. reflexivity.
      * rewrite (IH1 _ _ E1 E2). reflexivity.
Qed.

(* ------------------------------------------------------------------ the comparison before the fix *)

(* product(u4 0xA, u4 0xB).as_product().0.to_value()  vs  Value::u4(0xA):
   the same element of 2^4, one at offset 0 of [0xAB], the other at offset 4 of [0x0A] *)
Definition witness_sub : value := mkV [171] 0 (word_ty 2).
Definition witness_direct : value := mkV [10] 4 (word_ty 2).

Example witness_sub_history :
  (obind (v_word_int 2 10) (fun a => obind (v_word_int 2 11) (fun b =>
   obind (v_product a b) (fun p => Ok (option_map fst (as_product p))))))
  = Ok (Some witness_sub).
Proof. vm_compute. reflexivity. Qed.

Example witness_direct_history : v_word_int 2 10 = Ok witness_direct.
Proof. vm_compute. reflexivity. Qed.

Lemma WF_witnesses : WF witness_sub /\ WF witness_direct.
Proof.
  split; (split; [repeat constructor|split; [vm_compute; discriminate|vm_compute; discriminate]]).
Qed.

Theorem eq_raw_not_semantic : exists v1 v2,
  WF v1 /\ WF v2 /\ absv v1 = absv v2 /\ vty v1 = vty v2 /\ eq_raw v1 v2 = Ok false.
Proof.
  exists witness_sub, witness_direct. destruct WF_witnesses as [H1 H2].
  split; [exact H1|]. split; [exact H2|]. split; [vm_compute; reflexivity|].
  split; [reflexivity|]. vm_compute. reflexivity.
Qed.

(* the fixed comparison gets the same pair right *)
Example eq_fixed_on_witness : v_eq witness_sub witness_direct = Ok true.
Proof. vm_compute. reflexivity. Qed.

(* the second historical witness: dirty sum padding.  none : 1 + 2^4 decoded by
   from_padded_bits from 0_1111 (padding all ones) vs Value::none(2^4) *)
Definition witness_dirty : value := mkV [120] 0 (Sum One (word_ty 2)).
Definition witness_clean : value := mkV [0; 0] 7 (Sum One (word_ty 2)).

Example eq_raw_dirty_padding :
  from_padded_bits [false; true; true; true; true; false; false; false] (Sum One (word_ty 2))
    = Ok (witness_dirty, [false; false; false]) /\
  v_none (word_ty 2) = Ok witness_clean /\
  absv witness_dirty = absv witness_clean /\
  eq_raw witness_dirty witness_clean = Ok false /\
  v_eq witness_dirty witness_clean = Ok true.
Proof. repeat split; vm_compute; reflexivity. Qed.
