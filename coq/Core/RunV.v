(* Entry point of the correspondence check for the Value-level pipeline of Core/ExecValue.v
   (harness kind `core execv`): the input is a byte-level Value (buffer, bit offset, type) sitting
   anywhere in a shared buffer, the result is the byte-level Value BitMachine::exec returns. *)
From RS Require Import Lib.Tac Lib.Outcome Lib.Bits Ty.Ty Core.Prog Core.Term Core.Typing Core.Sem
  Core.Bounds Core.Limits Core.Machine Core.Run Core.ExecValue Jets.JetSpec Jets.JetSpecSha Jets.JetSpecAll.
From RS Require Value.ValueModel.
Import ListNotations.
Local Open Scope N_scope.

Definition run_exec_v (prof : N) (p : typed_prog) (cm : cmr_table) (jc : list (N * N))
    (inp : option (list N * N * ty)) : list N :=
  match root_term p cm with
  | None => [7]
  | Some t =>
      let pr := prof_of prof in
      let jcost := lookup_cost jc in
      let b := bounds jcost t in
      let head := head_of b (bw (src t)) (bw (tgt t)) in
      match for_program pr jcost t with
      | Err e => 2 :: head ++ show_limit e
      | Panic _ => [9]
      | OutOfFuel => [8]
      | Ok st0 =>
          let vin := match inp with
                     | None => None
                     | Some (bytes, off, ty) => Some (ValueModel.mkV bytes off ty)
                     end in
          let echo := match inp with
                      | None => [0; 0]
                      | Some (bytes, off, _) => off :: N.of_nat (length bytes) :: bytes
                      end in
          0 :: head ++ [msize (mem st0); machine_cap jcost t; b2n (wt jet_spec2_ty t)] ++
          match machine_exec_v pr jcost jet_spec2 t (mem st0) vin with
          | Ok (st, v) =>
              [0; hwc st; hwf st] ++ echo ++
              [ValueModel.off v; N.of_nat (length (ValueModel.buf v))] ++ ValueModel.buf v ++
              [b2n (ty_eqb (ValueModel.vty v) (tgt t)); b2n (ty_eqb (ValueModel.vty v) One)]
          | Err (e, st) => [1; hwc st; hwf st] ++ show_error e
          | Panic _ => [9]
          | OutOfFuel => [8]
          end
      end
  end.
