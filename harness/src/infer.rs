//! C04: type inference through the construction API, in a construction order chosen by the case.
//!
//! Every result line is `<ms> <dlen> <fsz> <canonical...>`:
//!   ms    wall time of the case in milliseconds (never compared, only flagged by the driver)
//!   dlen  byte length of `types::Error::to_string()` (0 on success), counted by a capped
//!         `fmt::Write` adaptor (formatting stops once the cap is exceeded; dlen > cap then)
//!   fsz   number of nodes of the tree expansions of all *complete* types embedded in the error
//!         (saturating at 2^64-1); 0 on success
//! canonical part (what the Coq model Infer/Run.v prints as well):
//!   0 (5 | 4 <src nums> <tgt nums>)*     success; one entry per node of the CANONICAL table
//!   1 <class> <stage>                     type error; class 20 Bind, 21 CompleteTypeMismatch,
//!                                         22 OccursCheck, 23 context mismatch, 29 other;
//!                                         stage 0 = a constructor, 1 = root := 1 -> 1, 2 = finalisation
//!   1 11 0                                malformed description (shape)
//!   9                                     panic
//! kinds:
//!   prog <0|1 program> <order|-> <cap> <pdl>   order = canonical indices in construction order
//!   progf <mode> <0|1 program> <order|-> <cap> <pdl>   as `prog`, with another finalisation strategy:
//!                                              0 root.finalize_types_non_program() then node by node (= prog)
//!                                              1 no whole-program pass: Arrow::finalize (source, target) of every
//!                                                node in REVERSE construction order (roots first: the deepest
//!                                                not-yet-completed bounds reach Type::finalize / the occurs check)
//!                                              2 as 1 but target before source
//!                                              3 node by node in canonical order, target before source
//!   incs <0|1 program> <order|-> <pdl>         Type::to_incomplete of every node's source and target after
//!                                              construction, BEFORE any finalisation:
//!                                              0 (5 | 4 <src> <tgt>)* with 7 = free variable, 8 = <self-reference>,
//!                                              6 = more than 5000 numbers, otherwise the type numbers (ground
//!                                              words abbreviated as in `prog::ty_nums`)
//!   deep <variant> <N>                         F-C02 family built from a parameter (see `deep`)
//!   tydisp <type>                              -> 0 0 0 <bytes> <chars> of `Final`'s Display
//!   incdisp <0|1 program> <pdl> <node> <0|1 target> -> Display of the node's (incomplete) type:
//!                                              0 <bytes> 0 0 <n "("> <n ")"> <n " + "> <n " × "> <n "..."> <n "?"> <truncated 0|1>
use crate::prog::{self, NodeSpec};
use crate::util::*;
use simplicity::node::{CoreConstructible, DisconnectConstructible, WitnessConstructible};
use simplicity::types::{self, Final, Incomplete};
use simplicity::{BitIter, Cmr, ConstructNode, FailEntropy, Word};
use std::collections::HashMap;
use std::fmt::Write as _;
use std::sync::Arc;
use std::time::Instant;

type N<'b> = Arc<ConstructNode<'b>>;

/// counts the bytes written; fails (stopping the formatter) once more than `cap` were written
struct Counter {
    n: usize,
    chars: usize,
    cap: usize,
}

impl std::fmt::Write for Counter {
    fn write_str(&mut self, s: &str) -> std::fmt::Result {
        self.n += s.len();
        self.chars += s.chars().count();
        if self.n > self.cap {
            Err(std::fmt::Error)
        } else {
            Ok(())
        }
    }
}

fn display_len<T: std::fmt::Display>(x: &T, cap: usize) -> (usize, usize) {
    let mut c = Counter { n: 0, chars: 0, cap };
    let _ = write!(c, "{}", x);
    (c.n, c.chars)
}

/// tree-expansion size of a complete type (number of nodes of the tree, shared nodes counted
/// once per occurrence), saturating; iterative and memoised on the pointer
fn final_tree_size(t: &Arc<Final>, memo: &mut HashMap<*const Final, u64>) -> u64 {
    let mut stack: Vec<(&Arc<Final>, bool)> = vec![(t, false)];
    while let Some((x, done)) = stack.pop() {
        let key = Arc::as_ptr(x);
        if memo.contains_key(&key) {
            continue;
        }
        let kids = x.as_sum().or_else(|| x.as_product());
        match kids {
            None => {
                memo.insert(key, 1);
            }
            Some((a, b)) => {
                if done {
                    let sa = memo[&Arc::as_ptr(a)];
                    let sb = memo[&Arc::as_ptr(b)];
                    memo.insert(key, sa.saturating_add(sb).saturating_add(1));
                } else {
                    stack.push((x, true));
                    stack.push((b, false));
                    stack.push((a, false));
                }
            }
        }
    }
    memo[&Arc::as_ptr(t)]
}

fn incomplete_final_size(i: &Arc<Incomplete>, memo: &mut HashMap<*const Final, u64>) -> u64 {
    let mut total: u64 = 0;
    let mut seen: std::collections::HashSet<*const Incomplete> = Default::default();
    let mut stack: Vec<&Arc<Incomplete>> = vec![i];
    while let Some(x) = stack.pop() {
        if !seen.insert(Arc::as_ptr(x)) {
            continue;
        }
        match &**x {
            Incomplete::Free(_) | Incomplete::Cycle => {}
            Incomplete::Sum(a, b) | Incomplete::Product(a, b) => {
                stack.push(a);
                stack.push(b);
            }
            Incomplete::Final(f) => total = total.saturating_add(final_tree_size(f, memo)),
        }
    }
    total
}

fn error_final_size(e: &types::Error) -> u64 {
    let mut memo = HashMap::new();
    match e {
        types::Error::Bind { existing_bound, new_bound, .. } => {
            incomplete_final_size(existing_bound, &mut memo).saturating_add(incomplete_final_size(new_bound, &mut memo))
        }
        types::Error::CompleteTypeMismatch { type1, type2, .. } => {
            final_tree_size(type1, &mut memo).saturating_add(final_tree_size(type2, &mut memo))
        }
        types::Error::OccursCheck { infinite_bound } => incomplete_final_size(infinite_bound, &mut memo),
        _ => 0,
    }
}

fn class_code(e: &types::Error) -> u128 {
    match e {
        types::Error::Bind { .. } => 20,
        types::Error::CompleteTypeMismatch { .. } => 21,
        types::Error::OccursCheck { .. } => 22,
        types::Error::InferenceContextMismatch => 23,
        #[allow(unreachable_patterns)]
        _ => 29,
    }
}

enum Fail {
    Shape,
    Type(types::Error, u128),
}

/// same construction as `prog::build`, but keeps the `types::Error` (its Display is measured)
fn build_keep<'b>(ctx: &types::Context<'b>, specs: &[NodeSpec]) -> Result<Vec<Option<N<'b>>>, Fail> {
    let mut nodes: Vec<Option<N<'b>>> = Vec::with_capacity(specs.len());
    for (i, s) in specs.iter().enumerate() {
        let get = |k: usize| -> Result<&N<'b>, Fail> {
            if k >= i {
                return Err(Fail::Shape);
            }
            nodes[k].as_ref().ok_or(Fail::Shape)
        };
        let te = |e: types::Error| Fail::Type(e, 0);
        let n: Option<N<'b>> = match s {
            NodeSpec::Iden => Some(N::iden(ctx)),
            NodeSpec::Unit => Some(N::unit(ctx)),
            NodeSpec::InjL(c) => Some(N::injl(get(*c)?)),
            NodeSpec::InjR(c) => Some(N::injr(get(*c)?)),
            NodeSpec::Take(c) => Some(N::take(get(*c)?)),
            NodeSpec::Drop(c) => Some(N::drop_(get(*c)?)),
            NodeSpec::Comp(l, r) => Some(N::comp(get(*l)?, get(*r)?).map_err(te)?),
            NodeSpec::Pair(l, r) => Some(N::pair(get(*l)?, get(*r)?).map_err(te)?),
            NodeSpec::Case(l, r) => {
                if *l >= i || *r >= i {
                    return Err(Fail::Shape);
                }
                match (&specs[*l], &specs[*r]) {
                    (NodeSpec::Hidden(_), NodeSpec::Hidden(_)) => return Err(Fail::Shape),
                    (NodeSpec::Hidden(h), _) => Some(N::assertr(Cmr::from_byte_array(*h), get(*r)?).map_err(te)?),
                    (_, NodeSpec::Hidden(h)) => Some(N::assertl(get(*l)?, Cmr::from_byte_array(*h)).map_err(te)?),
                    _ => Some(N::case(get(*l)?, get(*r)?).map_err(te)?),
                }
            }
            NodeSpec::Disconnect(l, r) => {
                let right: Option<N<'b>> = match r {
                    Some(k) => Some(Arc::clone(get(*k)?)),
                    None => None,
                };
                Some(N::disconnect(get(*l)?, &right).map_err(te)?)
            }
            NodeSpec::Hidden(_) => None,
            NodeSpec::Fail(e) => Some(N::fail(ctx, FailEntropy::from_byte_array(*e))),
            NodeSpec::Jet(fam, name) => {
                let j = prog::jet_by_name(*fam, name).ok_or(Fail::Shape)?;
                Some(N::jet(ctx, j.as_ref()))
            }
            NodeSpec::Word(n, bits) => {
                if *n > 31 || bits.len() != 1usize << n {
                    return Err(Fail::Shape);
                }
                let bytes = prog::pack_bits(bits);
                let mut it = BitIter::from(bytes.into_iter());
                let w = Word::from_bits(&mut it, *n).map_err(|_| Fail::Shape)?;
                Some(N::const_word(ctx, w))
            }
            NodeSpec::Witness(_) => Some(N::witness(ctx, None)),
        };
        nodes.push(n);
    }
    Ok(nodes)
}

fn remap(s: &NodeSpec, pos: &[usize]) -> NodeSpec {
    match s {
        NodeSpec::InjL(c) => NodeSpec::InjL(pos[*c]),
        NodeSpec::InjR(c) => NodeSpec::InjR(pos[*c]),
        NodeSpec::Take(c) => NodeSpec::Take(pos[*c]),
        NodeSpec::Drop(c) => NodeSpec::Drop(pos[*c]),
        NodeSpec::Comp(l, r) => NodeSpec::Comp(pos[*l], pos[*r]),
        NodeSpec::Case(l, r) => NodeSpec::Case(pos[*l], pos[*r]),
        NodeSpec::Pair(l, r) => NodeSpec::Pair(pos[*l], pos[*r]),
        NodeSpec::Disconnect(l, r) => NodeSpec::Disconnect(pos[*l], r.map(|k| pos[k])),
        other => other.clone(),
    }
}

fn children(s: &NodeSpec) -> Vec<usize> {
    match s {
        NodeSpec::InjL(c) | NodeSpec::InjR(c) | NodeSpec::Take(c) | NodeSpec::Drop(c) => vec![*c],
        NodeSpec::Comp(l, r) | NodeSpec::Case(l, r) | NodeSpec::Pair(l, r) => vec![*l, *r],
        NodeSpec::Disconnect(l, r) => {
            let mut v = vec![*l];
            if let Some(k) = r {
                v.push(*k);
            }
            v
        }
        _ => vec![],
    }
}

/// canonical table + construction order -> (table in construction order, position of every canonical node)
fn permute(specs: &[NodeSpec], order: &[usize]) -> Option<(Vec<NodeSpec>, Vec<usize>)> {
    let n = specs.len();
    if order.len() != n {
        return None;
    }
    let mut pos = vec![usize::MAX; n];
    for (k, &o) in order.iter().enumerate() {
        if o >= n || pos[o] != usize::MAX {
            return None;
        }
        pos[o] = k;
    }
    for (i, s) in specs.iter().enumerate() {
        for c in children(s) {
            if c >= n {
                return None;
            }
            if pos[c] >= pos[i] {
                return None; // not topological
            }
        }
    }
    let table = order.iter().map(|&o| remap(&specs[o], &pos)).collect();
    Some((table, pos))
}

/// everything that makes a table "not a construction" is decided before anything is built, so
/// that a malformed description is reported as such even if an earlier node has a type error
fn shape_ok(specs: &[NodeSpec]) -> bool {
    let hidden = |k: usize| matches!(specs[k], NodeSpec::Hidden(_));
    for (i, s) in specs.iter().enumerate() {
        for c in children(s) {
            if c >= i {
                return false;
            }
        }
        match s {
            NodeSpec::Case(l, r) => {
                if hidden(*l) && hidden(*r) {
                    return false;
                }
            }
            NodeSpec::Jet(fam, name) => {
                if prog::jet_by_name(*fam, name).is_none() {
                    return false;
                }
            }
            NodeSpec::Word(n, bits) => {
                if *n > 31 || bits.len() != 1usize << n {
                    return false;
                }
            }
            other => {
                for c in children(other) {
                    if hidden(c) {
                        return false;
                    }
                }
            }
        }
    }
    true
}

struct Outcome {
    dlen: usize,
    fsz: u64,
    canon: Vec<u128>,
}

fn err_outcome(e: &types::Error, stage: u128, cap: usize) -> Outcome {
    let (dlen, _) = display_len(e, cap);
    Outcome { dlen, fsz: error_final_size(e), canon: vec![1, class_code(e), stage] }
}

fn infer_case(specs: &[NodeSpec], order: Option<Vec<usize>>, program: bool, cap: usize, fmode: u32) -> Outcome {
    let n = specs.len();
    let order: Vec<usize> = order.unwrap_or_else(|| (0..n).collect());
    let (table, pos) = match permute(specs, &order) {
        Some(x) => x,
        None => return Outcome { dlen: 0, fsz: 0, canon: vec![1, 11, 0] },
    };
    // (a hidden node cannot be the root of a program: malformed, decided before building)
    if !shape_ok(&table) || (program && matches!(specs[n - 1], NodeSpec::Hidden(_))) {
        return Outcome { dlen: 0, fsz: 0, canon: vec![1, 11, 0] };
    }
    types::Context::with_context(|ctx| {
        let nodes = match build_keep(&ctx, &table) {
            Ok(x) => x,
            Err(Fail::Shape) => return Outcome { dlen: 0, fsz: 0, canon: vec![1, 11, 0] },
            Err(Fail::Type(e, st)) => return err_outcome(&e, st, cap),
        };
        // the root is the last node of the CANONICAL table, wherever it was constructed
        let root = nodes[pos[n - 1]].as_ref();
        if program {
            match root {
                None => return Outcome { dlen: 0, fsz: 0, canon: vec![1, 11, 0] },
                Some(r) => {
                    if let Err(e) = r.set_arrow_to_program() {
                        return err_outcome(&e, 1, cap);
                    }
                }
            }
        }
        match fmode {
            0 => {
                if let Some(r) = root {
                    if let Err(e) = r.finalize_types_non_program() {
                        return err_outcome(&e, 2, cap);
                    }
                }
            }
            1 | 2 => {
                for nd in nodes.iter().rev().flatten() {
                    let (a, b) = if fmode == 1 {
                        (&nd.arrow().source, &nd.arrow().target)
                    } else {
                        (&nd.arrow().target, &nd.arrow().source)
                    };
                    if let Err(e) = a.finalize() {
                        return err_outcome(&e, 2, cap);
                    }
                    if let Err(e) = b.finalize() {
                        return err_outcome(&e, 2, cap);
                    }
                }
            }
            _ => {
                for i in 0..n {
                    if let Some(nd) = nodes[pos[i]].as_ref() {
                        if let Err(e) = nd.arrow().target.finalize() {
                            return err_outcome(&e, 2, cap);
                        }
                        if let Err(e) = nd.arrow().source.finalize() {
                            return err_outcome(&e, 2, cap);
                        }
                    }
                }
            }
        }
        let mut out: Vec<u128> = vec![0];
        for i in 0..n {
            match nodes[pos[i]].as_ref() {
                None => out.push(5),
                Some(nd) => {
                    let s = match nd.arrow().source.finalize() {
                        Ok(x) => x,
                        Err(e) => return err_outcome(&e, 2, cap),
                    };
                    let t = match nd.arrow().target.finalize() {
                        Ok(x) => x,
                        Err(e) => return err_outcome(&e, 2, cap),
                    };
                    out.push(4);
                    prog::ty_nums(&s, &mut out);
                    prog::ty_nums(&t, &mut out);
                }
            }
        }
        Outcome { dlen: 0, fsz: 0, canon: out }
    })
}

/// upper bound on the length of `prog::ty_nums` of a complete type (a word counts 2), saturating,
/// memoised on the pointer
fn final_nums_size(t: &Arc<Final>, memo: &mut HashMap<*const Final, u64>) -> u64 {
    let mut stack: Vec<(&Arc<Final>, bool)> = vec![(t, false)];
    while let Some((x, done)) = stack.pop() {
        let key = Arc::as_ptr(x);
        if memo.contains_key(&key) {
            continue;
        }
        if x.as_word().is_some() {
            memo.insert(key, 3);
            continue;
        }
        match x.as_sum().or_else(|| x.as_product()) {
            None => {
                memo.insert(key, 1);
            }
            Some((a, b)) => {
                if done {
                    let sa = memo[&Arc::as_ptr(a)];
                    let sb = memo[&Arc::as_ptr(b)];
                    memo.insert(key, sa.saturating_add(sb).saturating_add(1));
                } else {
                    stack.push((x, true));
                    stack.push((b, false));
                    stack.push((a, false));
                }
            }
        }
    }
    memo[&Arc::as_ptr(t)]
}

/// upper bound on the length of `inc_nums` (saturating, memoised on the pointer)
fn inc_tree_size(i: &Arc<Incomplete>, memo: &mut HashMap<*const Incomplete, u64>, fmemo: &mut HashMap<*const Final, u64>) -> u64 {
    let mut stack: Vec<(&Arc<Incomplete>, bool)> = vec![(i, false)];
    while let Some((x, done)) = stack.pop() {
        let key = Arc::as_ptr(x);
        if memo.contains_key(&key) {
            continue;
        }
        match &**x {
            Incomplete::Free(_) | Incomplete::Cycle => {
                memo.insert(key, 1);
            }
            Incomplete::Final(f) => {
                let s = final_nums_size(f, fmemo);
                memo.insert(key, s);
            }
            Incomplete::Sum(a, b) | Incomplete::Product(a, b) => {
                if done {
                    let sa = memo[&Arc::as_ptr(a)];
                    let sb = memo[&Arc::as_ptr(b)];
                    memo.insert(key, sa.saturating_add(sb).saturating_add(1));
                } else {
                    stack.push((x, true));
                    stack.push((b, false));
                    stack.push((a, false));
                }
            }
        }
    }
    memo[&Arc::as_ptr(i)]
}

/// numbers of a (small) `Incomplete`: (Some(d) if the subtree is the ground word 2^(2^d), numbers)
fn inc_nums(i: &Incomplete) -> (Option<u128>, Vec<u128>) {
    match i {
        Incomplete::Free(_) => (None, vec![7]),
        Incomplete::Cycle => (None, vec![8]),
        Incomplete::Final(f) => {
            let mut v = vec![];
            prog::ty_nums(f, &mut v);
            (f.as_word().map(|d| d as u128), v)
        }
        Incomplete::Sum(a, b) => {
            let (_, la) = inc_nums(a);
            let (_, lb) = inc_nums(b);
            if la == [0] && lb == [0] {
                (Some(0), vec![1, 0, 0])
            } else {
                let mut v = vec![1];
                v.extend(la);
                v.extend(lb);
                (None, v)
            }
        }
        Incomplete::Product(a, b) => {
            let (wa, la) = inc_nums(a);
            let (wb, lb) = inc_nums(b);
            match (wa, wb) {
                (Some(x), Some(y)) if x == y && x + 1 < 32 => (Some(x + 1), vec![3, x + 1]),
                _ => {
                    let mut v = vec![2];
                    v.extend(la);
                    v.extend(lb);
                    (None, v)
                }
            }
        }
    }
}

fn inc_out(t: &types::Type, out: &mut Vec<u128>) {
    let inc = t.to_incomplete();
    let mut memo = HashMap::new();
    let mut fmemo = HashMap::new();
    if inc_tree_size(&inc, &mut memo, &mut fmemo) > 5000 {
        out.push(6);
    } else {
        out.extend(inc_nums(&inc).1);
    }
}

fn incs_case(specs: &[NodeSpec], order: Option<Vec<usize>>, program: bool) -> Outcome {
    let n = specs.len();
    let order: Vec<usize> = order.unwrap_or_else(|| (0..n).collect());
    let shape = Outcome { dlen: 0, fsz: 0, canon: vec![1, 11, 0] };
    let (table, pos) = match permute(specs, &order) {
        Some(x) => x,
        None => return shape,
    };
    if !shape_ok(&table) || (program && matches!(specs[n - 1], NodeSpec::Hidden(_))) {
        return shape;
    }
    types::Context::with_context(|ctx| {
        let nodes = match build_keep(&ctx, &table) {
            Ok(x) => x,
            Err(Fail::Shape) => return Outcome { dlen: 0, fsz: 0, canon: vec![1, 11, 0] },
            Err(Fail::Type(e, st)) => return err_outcome(&e, st, 1 << 20),
        };
        if program {
            match nodes[pos[n - 1]].as_ref() {
                None => return Outcome { dlen: 0, fsz: 0, canon: vec![1, 11, 0] },
                Some(r) => {
                    if let Err(e) = r.set_arrow_to_program() {
                        return err_outcome(&e, 1, 1 << 20);
                    }
                }
            }
        }
        let mut out: Vec<u128> = vec![0];
        for i in 0..n {
            match nodes[pos[i]].as_ref() {
                None => out.push(5),
                Some(nd) => {
                    out.push(4);
                    inc_out(&nd.arrow().source, &mut out);
                    inc_out(&nd.arrow().target, &mut out);
                }
            }
        }
        Outcome { dlen: 0, fsz: 0, canon: out }
    })
}

/// F-C02 family and relatives, generated from a parameter (a PDL token would be megabytes):
///   variant 0: case (take injl^N iden) (take injl^N (take iden)), finalised as a non-program
///   variant 1: the same two children, but composed by `pair` (no deep unification: control)
///   variant 2: injl^N unit, finalised (deep complete type, no unification: control)
fn chain<'b>(base: N<'b>, n: usize) -> N<'b> {
    let mut x = base;
    for _ in 0..n {
        x = N::injl(&x);
    }
    x
}

fn deep_in<'b>(ctx: &types::Context<'b>, variant: u32, n: usize) -> Result<(), (types::Error, u128)> {
    let root: N<'b> = match variant {
        0 | 1 => {
            let l = N::take(&chain(N::iden(ctx), n));
            let r = N::take(&chain(N::take(&N::iden(ctx)), n));
            if variant == 0 {
                N::case(&l, &r).map_err(|e| (e, 0))?
            } else {
                N::pair(&l, &r).map_err(|e| (e, 0))?
            }
        }
        _ => chain(N::unit(ctx), n),
    };
    root.finalize_types_non_program().map_err(|e| (e, 2))?;
    Ok(())
}

fn deep(variant: u32, n: usize, cap: usize) -> Outcome {
    types::Context::with_context(|ctx| match deep_in(&ctx, variant, n) {
        Ok(()) => Outcome { dlen: 0, fsz: 0, canon: vec![0] },
        Err((e, st)) => err_outcome(&e, st, cap),
    })
}

fn count(s: &str, pat: &str) -> u128 {
    s.matches(pat).count() as u128
}

pub fn run(t: &[&str]) -> String {
    let t0 = Instant::now();
    match guarded(|| run_inner(t)) {
        Some(o) => {
            let ms = t0.elapsed().as_millis();
            format!("{} {} {} {}", ms, o.dlen, o.fsz, join(&o.canon))
        }
        None => format!("{} 0 0 9", t0.elapsed().as_millis()),
    }
}

fn run_inner(t: &[&str]) -> Outcome {
    match t[0] {
        "prog" => {
            let program = t[1] == "1";
            let order = if t[2] == "-" {
                None
            } else {
                Some(t[2].split(',').map(|x| x.parse().expect("order index")).collect())
            };
            let cap: usize = t[3].parse().expect("cap");
            let specs = prog::parse_prog(t[4]);
            infer_case(&specs, order, program, cap, 0)
        }
        "progf" => {
            let fmode: u32 = t[1].parse().expect("mode");
            let program = t[2] == "1";
            let order = if t[3] == "-" {
                None
            } else {
                Some(t[3].split(',').map(|x| x.parse().expect("order index")).collect())
            };
            let cap: usize = t[4].parse().expect("cap");
            let specs = prog::parse_prog(t[5]);
            infer_case(&specs, order, program, cap, fmode)
        }
        "incs" => {
            let program = t[1] == "1";
            let order = if t[2] == "-" {
                None
            } else {
                Some(t[2].split(',').map(|x| x.parse().expect("order index")).collect())
            };
            let specs = prog::parse_prog(t[3]);
            incs_case(&specs, order, program)
        }
        "deep" => {
            let variant: u32 = t[1].parse().unwrap();
            let n: usize = t[2].parse().unwrap();
            deep(variant, n, 1 << 26)
        }
        "tydisp" => {
            let ty = prog::parse_ty(t[1]);
            let (b, c) = display_len(&*ty, 1 << 26);
            Outcome { dlen: 0, fsz: 0, canon: vec![b as u128, c as u128] }
        }
        "incdisp" => {
            let program = t[1] == "1";
            let specs = prog::parse_prog(t[2]);
            let node: usize = t[3].parse().unwrap();
            let target = t[4] == "1";
            types::Context::with_context(|ctx| {
                let nodes = match build_keep(&ctx, &specs) {
                    Ok(x) => x,
                    Err(_) => return Outcome { dlen: 0, fsz: 0, canon: vec![1] },
                };
                if program {
                    if nodes.last().unwrap().as_ref().unwrap().set_arrow_to_program().is_err() {
                        return Outcome { dlen: 0, fsz: 0, canon: vec![1] };
                    }
                }
                let nd = nodes[node].as_ref().unwrap();
                let ty = if target { &nd.arrow().target } else { &nd.arrow().source };
                let inc = ty.to_incomplete();
                let s = inc.to_string();
                let trunc = s.contains("[truncated type after") as u128;
                Outcome {
                    dlen: s.len(),
                    fsz: 0,
                    canon: vec![
                        0,
                        count(&s, "("),
                        count(&s, ")"),
                        count(&s, " + "),
                        count(&s, " × "),
                        count(&s, "..."),
                        count(&s, "?"),
                        trunc,
                    ],
                }
            })
        }
        _ => panic!("kind"),
    }
}
