(* C15 - the Elements environment shown to jets is the supplied transaction.

   An abstract Elements transaction environment and, for every introspection jet covered,
   its specified result as a value ([sval]) of the jet's target type.

   Anchors:  src/jet/elements/c_env.rs (new_tx_data, new_raw_input, new_raw_output, new_tx,
             new_tap_env, new_tx_env, get_annex), simplicity-sys/depend/simplicity/elements/env.c
             (copyInput, copyOutput, mallocTransaction, mallocTapEnv) and elementsJets.c.

   What is data and what is logic.  SHA-256 is not computed here: every hash of a byte string
   (scripts, scriptSigs, proofs, the tail of the last witness element) and every derived
   identifier (issuance entropy, asset and token ids, for both readings of the entropy field)
   is a field of the record, filled in by the harness from the `elements` structures.  The
   specification contains the decisions: which input/output an index selects and what is
   returned when it selects none; when a witness stack carries an annex; when an input has an
   issuance and of which kind; which amount / proof hash / identifier an issuance exposes; the
   null conventions of assets, amounts and nonces; fee outputs and their tally; lock-time
   views; taproot path lookup; parsed null-data; and the encoding of all of it into the
   target type.  It follows the code as it is (e.g. the pegin flag of a TxIn is not consulted,
   see [pegin_of]). *)
From RS Require Import Lib.Tac Lib.Bits Ty.Ty.
Import ListNotations.
Local Open Scope N_scope.

(* ------------------------------------------------------------------ encoders *)

Definition bitv (b : bool) : sval := if b then SR SU else SL SU.

(* the value of type 2^(2^n) whose bits are the first 2^n elements of [l] (missing = 0) *)
Fixpoint word_of_bits (n : nat) (l : list bool) : sval :=
  match n with
  | O => match l with true :: _ => SR SU | _ => SL SU end
  | S k => SP (word_of_bits k (firstn (Nat.pow 2 k) l)) (word_of_bits k (skipn (Nat.pow 2 k) l))
  end.

(* the bits of a number, least significant first (linear time; [bits_be] of Lib/Bits.v
   calls N.testbit once per position) *)
Fixpoint pos_bits_le (p : positive) : list bool :=
  match p with
  | xH => [true]
  | xO q => false :: pos_bits_le q
  | xI q => true :: pos_bits_le q
  end.
Definition N_bits_le (v : N) : list bool := match v with N0 => [] | Npos p => pos_bits_le p end.

(* the first [len] elements of [l], padded with false *)
Fixpoint take_pad (len : nat) (l : list bool) : list bool :=
  match len with
  | O => []
  | S k => match l with
           | [] => false :: take_pad k []
           | b :: r => b :: take_pad k r
           end
  end.

Definition bits_be_fast (len : nat) (v : N) : list bool := rev (take_pad len (N_bits_le v)).

Lemma nth_pos_bits_le p : forall i, nth i (pos_bits_le p) false = Pos.testbit_nat p i.
Proof.
  induction p as [q IH|q IH|]; intros [|i]; cbn [pos_bits_le nth Pos.testbit_nat]; auto.
  destruct i; reflexivity.
Qed.

Lemma nth_N_bits_le v i : nth i (N_bits_le v) false = N.testbit v (N.of_nat i).
Proof.
  destruct v as [|p]; cbn [N_bits_le].
  - destruct i; reflexivity.
  - rewrite nth_pos_bits_le. cbn [N.testbit]. symmetry. apply Ptestbit_Pbit.
Qed.

Lemma take_pad_nth len : forall l, take_pad len l = map (fun i => nth i l false) (seq 0 len).
Proof.
  induction len as [|k IH]; intros l; [reflexivity|].
  cbn [take_pad seq map]. destruct l as [|b r].
  - rewrite IH. f_equal. rewrite <- seq_shift, map_map. apply map_ext. intros [|a]; reflexivity.
  - rewrite IH. cbn [nth]. f_equal. rewrite <- seq_shift, map_map. reflexivity.
Qed.

Lemma bits_be_testbits len v : bits_be len v = rev (map (fun i => N.testbit v (N.of_nat i)) (seq 0 len)).
Proof.
  induction len as [|l IH]; [reflexivity|].
  cbn [bits_be]. rewrite seq_S, map_app, rev_app_distr. cbn [map rev app plus]. rewrite IH. reflexivity.
Qed.

Lemma bits_be_fast_eq len v : bits_be_fast len v = bits_be len v.
Proof.
  unfold bits_be_fast. rewrite take_pad_nth, bits_be_testbits. f_equal. apply map_ext. intros i. apply nth_N_bits_le.
Qed.

(* big-endian word: the low 2^n bits of v *)
Definition wordN (n : nat) (v : N) : sval := word_of_bits n (bits_be_fast (Nat.pow 2 n) v).

Lemma word_of_bits_ty n : forall l, has_ty (word_of_bits n l) (word_ty n) = true.
Proof.
  induction n as [|n IH]; intros l.
  - destruct l as [|[|] r]; reflexivity.
  - cbn [word_of_bits word_ty has_ty]. rewrite !IH. reflexivity.
Qed.

Lemma wordN_ty n v : has_ty (wordN n v) (word_ty n) = true.
Proof. apply word_of_bits_ty. Qed.

(* the compact encoding of a word is its bit string *)
Lemma word_of_bits_compact n : forall l, length l = Nat.pow 2 n -> compact_enc (word_of_bits n l) = l.
Proof.
  induction n as [|n IH]; intros l H.
  - destruct l as [|b [|c r]]; try discriminate. destruct b; reflexivity.
  - cbn [word_of_bits compact_enc]. cbn [Nat.pow] in H.
    rewrite !IH.
    + apply firstn_skipn.
    + rewrite skipn_length. lia.
    + rewrite firstn_length. lia.
Qed.

Lemma wordN_compact n v : compact_enc (wordN n v) = bits_be (Nat.pow 2 n) v.
Proof. unfold wordN. rewrite bits_be_fast_eq. apply word_of_bits_compact, bits_be_length. Qed.

Lemma bitv_ty b : has_ty (bitv b) Bit = true.
Proof. destruct b; reflexivity. Qed.

(* ------------------------------------------------------------------ types of the jet interface *)

Definition U8 := word_ty 3.
Definition U16 := word_ty 4.
Definition U32 := word_ty 5.
Definition U64 := word_ty 6.
Definition H256 := word_ty 8.
Definition conf_ty (a : ty) : ty := Sum (Prod Bit H256) a.   (* (2 * 2^256) + a : confidential | explicit *)
Definition outpoint_ty : ty := Prod H256 U32.
Definition null_datum_ty : ty := Sum (Prod (word_ty 1) H256) (Sum Bit (word_ty 2)).

(* ------------------------------------------------------------------ the abstract transaction *)

(* explicit / confidential / null field (asset: 256-bit id; amount: 64-bit; nonce: 256-bit) *)
Inductive conf :=
| CNull
| CExplicit (v : N)
| CConf (odd : bool) (x : N).   (* parity of y and x coordinate of the commitment *)

Definition is_null (c : conf) : bool := match c with CNull => true | _ => false end.
Definition is_conf (c : conf) : bool := match c with CConf _ _ => true | _ => false end.
Definition is_explicit (c : conf) : bool := match c with CExplicit _ => true | _ => false end.

Record tx_input := {
  in_txid : N;                      (* previous output: transaction id *)
  in_vout : N;                      (*                  output index *)
  in_sequence : N;
  in_is_pegin : bool;               (* the is_pegin flag of the TxIn *)
  in_pegin_genesis : option N;      (* parent genesis hash carried by the pegin witness, if any *)
  in_script_sig_hash : N;
  in_wit_last : option (N * N);     (* last element of the witness stack, if non-empty: first byte, SHA-256 of the rest *)
  in_blinding_nonce : N;            (* issuance: blinding nonce, entropy field, amounts *)
  in_entropy : N;
  in_amount : conf;
  in_keys : conf;
  in_amount_rp_hash : N;            (* SHA-256 of the two issuance range proofs *)
  in_keys_rp_hash : N;
  in_d_entropy_new : N;             (* entropy derived from the outpoint and the entropy field read as contract hash *)
  in_d_asset_new : N;               (* asset / explicit token / confidential token ids of that derived entropy *)
  in_d_tokx_new : N;
  in_d_tokc_new : N;
  in_d_asset_re : N;                (* the same three for the entropy field read as entropy (reissuance) *)
  in_d_tokx_re : N;
  in_d_tokc_re : N;
  in_u_asset : conf;                (* spent output *)
  in_u_value : conf;
  in_u_script_hash : N }.

Record tx_output := {
  out_asset : conf;
  out_value : conf;
  out_nonce : conf;
  out_script_hash : N;
  out_script_empty : bool;
  out_surj_hash : N;                (* SHA-256 of the surjection / range proof bytes *)
  out_range_hash : N;
  out_null_data : option (list (N * N)) }.
  (* parsed TX_NULL_DATA: (code, data hash); code 0-3 = immediate / PUSHDATA1 / 2 / 4,
     4 = OP_1NEGATE, 5 = OP_RESERVED, 6..21 = OP_1..OP_16 *)

Record txenv := {
  tx_version : N;
  tx_lock_time : N;
  tx_ix : N;                        (* index of the input being spent *)
  tx_genesis : N;
  tx_cmr : N;                       (* script root *)
  tx_txid : N;
  tap_leaf_version : N;
  tap_internal_key : N;
  tap_path : list N;                (* control block merkle path *)
  tx_inputs : list tx_input;
  tx_outputs : list tx_output }.

(* list lookup by a number that may be far out of range (never builds a large nat) *)
Definition nthN {A} (l : list A) (i : N) : option A :=
  if i <? N.of_nat (length l) then nth_error l (N.to_nat i) else None.

(* SHA-256 of the empty string *)
Definition empty_hash : N := 0xe3b0c44298fc1c149afbf4c8996fb92427ae41e4649b934ca495991b7852b855.

(* ------------------------------------------------------------------ decisions *)

(* c_env.rs get_annex: the last witness element, when it starts with 0x50, is the annex
   and the annex content is what follows that byte (no minimum stack size is required) *)
Definition annex_of (i : tx_input) : option N :=
  match in_wit_last i with
  | Some (b, h) => if b =? 80 then Some h else None
  | None => None
  end.

(* c_env.rs new_tx_data: the pegin genesis hash is taken from the pegin witness of the inputs
   whose is_pegin flag is set (`inp.pegin_data().filter(|_| inp.is_pegin)`, /repo commit 06fd3e7).
   Before that commit the flag was not consulted: [pegin_of_before_fix], refuted below. *)
Definition pegin_of (i : tx_input) : option N := if in_is_pegin i then in_pegin_genesis i else None.
Definition pegin_of_before_fix (i : tx_input) : option N := in_pegin_genesis i.

(* TxIn::has_issuance = not (amount null and inflation keys null); env.c: copyInput *)
Definition has_issuance (i : tx_input) : bool := negb (is_null (in_amount i) && is_null (in_keys i)).

Inductive iss_kind := NoIss | NewIss | ReIss.
Definition iss_kind_of (i : tx_input) : iss_kind :=
  if has_issuance i then (if in_blinding_nonce i =? 0 then NewIss else ReIss) else NoIss.

Definition iss_entropy (i : tx_input) : N :=
  match iss_kind_of i with NewIss => in_d_entropy_new i | _ => in_entropy i end.
Definition iss_asset (i : tx_input) : N :=
  match iss_kind_of i with NewIss => in_d_asset_new i | _ => in_d_asset_re i end.
Definition iss_token (i : tx_input) : N :=
  match iss_kind_of i, is_conf (in_amount i) with
  | NewIss, false => in_d_tokx_new i
  | NewIss, true => in_d_tokc_new i
  | _, false => in_d_tokx_re i
  | _, true => in_d_tokc_re i
  end.
Definition iss_asset_proof (i : tx_input) : N :=
  match iss_kind_of i with
  | NoIss => empty_hash
  | _ => if is_conf (in_amount i) then in_amount_rp_hash i else empty_hash
  end.
Definition iss_token_proof (i : tx_input) : N :=
  match iss_kind_of i with
  | NewIss => if is_conf (in_keys i) then in_keys_rp_hash i else empty_hash
  | _ => empty_hash
  end.

(* elementsJets.c isFee on the copied output: an absent amount has become explicit zero *)
Definition out_is_fee (o : tx_output) : bool :=
  out_script_empty o && is_explicit (out_asset o) && negb (is_conf (out_value o)).

Definition is_final (t : txenv) : bool := forallb (fun i => in_sequence i =? 4294967295) (tx_inputs t).
Definition lock_height (t : txenv) : N :=
  if negb (is_final t) && (tx_lock_time t <? 500000000) then tx_lock_time t else 0.
Definition lock_time_abs (t : txenv) : N :=
  if negb (is_final t) && (500000000 <=? tx_lock_time t) then tx_lock_time t else 0.
(* maximum over the inputs with a relative lock (bit 31 clear) of the given unit (bit 22) *)
Definition lock_rel (duration : bool) (t : txenv) : N :=
  if 2 <=? tx_version t then
    fold_left (fun acc i =>
      let s := in_sequence i in
      if (s <? 2147483648) && Bool.eqb (N.testbit s 22) duration then N.max acc (s mod 65536) else acc)
      (tx_inputs t) 0
  else 0.

Definition fee_of (asset : N) (t : txenv) : N :=
  (fold_left (fun acc o =>
     match out_asset o, out_value o with
     | CExplicit a, CExplicit v => if out_script_empty o && (a =? asset) then acc + v else acc
     | _, _ => acc
     end) (tx_outputs t) 0) mod 2 ^ 64.

(* ------------------------------------------------------------------ encodings of fields *)

Definition opt_val (o : option sval) : sval := match o with Some v => SR v | None => SL SU end.

(* absent asset = even-parity commitment with x = 0; absent amount = explicit 0 (env.c) *)
Definition enc_asset (c : conf) : sval :=
  match c with
  | CNull => SL (SP (bitv false) (wordN 8 0))
  | CExplicit v => SR (wordN 8 v)
  | CConf odd x => SL (SP (bitv odd) (wordN 8 x))
  end.
Definition enc_amount (c : conf) : sval :=
  match c with
  | CNull => SR (wordN 6 0)
  | CExplicit v => SR (wordN 6 v)
  | CConf odd x => SL (SP (bitv odd) (wordN 8 x))
  end.
Definition enc_nonce (c : conf) : sval :=
  match c with
  | CNull => SL SU
  | CExplicit v => SR (SR (wordN 8 v))
  | CConf odd x => SR (SL (SP (bitv odd) (wordN 8 x)))
  end.
Definition enc_null_datum (op : N * N) : sval :=
  let '(code, h) := op in
  if code <=? 3 then SL (SP (wordN 1 code) (wordN 8 h))
  else if code =? 4 then SR (SL (bitv false))
  else if code =? 5 then SR (SL (bitv true))
  else SR (SR (wordN 2 (code - 6))).

(* ------------------------------------------------------------------ the jets *)

Inductive in_field :=
| F_prev_outpoint | F_sequence | F_pegin | F_asset | F_amount | F_script_hash | F_script_sig_hash
| F_annex_hash | F_reissuance_blinding | F_new_issuance_contract | F_reissuance_entropy
| F_issuance_asset_amount | F_issuance_token_amount | F_issuance_asset_proof | F_issuance_token_proof.

Inductive in_field_ix :=    (* exist only in the indexed form *)
| G_issuance | G_issuance_entropy | G_issuance_asset | G_issuance_token.

Inductive out_field :=
| O_asset | O_amount | O_nonce | O_script_hash | O_surjection_proof | O_range_proof | O_is_fee.

Inductive tx_field :=
| T_version | T_lock_time | T_num_inputs | T_num_outputs | T_current_index | T_genesis_block_hash
| T_script_cmr | T_internal_key | T_tapleaf_version | T_transaction_id | T_tx_is_final
| T_tx_lock_height | T_tx_lock_time | T_tx_lock_distance | T_tx_lock_duration.

Inductive check_field := K_height | K_time | K_distance | K_duration.

Inductive ejet :=
| J_tx (f : tx_field)
| J_check (f : check_field)
| J_tappath
| J_input (f : in_field)          (* input_X / X : 2^32 -> option *)
| J_input_ix (f : in_field_ix)
| J_current (f : in_field)        (* current_X : 1 -> X, fails when the current index selects no input *)
| J_output (f : out_field)
| J_output_null_datum
| J_total_fee.

Definition in_field_ty (f : in_field) : ty :=
  match f with
  | F_prev_outpoint => outpoint_ty
  | F_sequence => U32
  | F_pegin => option_ty H256
  | F_asset => conf_ty H256
  | F_amount => Prod (conf_ty H256) (conf_ty U64)
  | F_script_hash | F_script_sig_hash => H256
  | F_annex_hash => option_ty H256
  | F_reissuance_blinding | F_new_issuance_contract | F_reissuance_entropy => option_ty H256
  | F_issuance_asset_amount | F_issuance_token_amount => option_ty (conf_ty U64)
  | F_issuance_asset_proof | F_issuance_token_proof => H256
  end.

Definition in_field_ix_ty (f : in_field_ix) : ty :=
  match f with
  | G_issuance => option_ty Bit
  | _ => option_ty H256
  end.

Definition out_field_ty (f : out_field) : ty :=
  match f with
  | O_asset => conf_ty H256
  | O_amount => Prod (conf_ty H256) (conf_ty U64)
  | O_nonce => option_ty (conf_ty H256)
  | O_script_hash | O_surjection_proof | O_range_proof => H256
  | O_is_fee => Bit
  end.

Definition tx_field_ty (f : tx_field) : ty :=
  match f with
  | T_version | T_lock_time | T_num_inputs | T_num_outputs | T_current_index
  | T_tx_lock_height | T_tx_lock_time => U32
  | T_genesis_block_hash | T_script_cmr | T_internal_key | T_transaction_id => H256
  | T_tapleaf_version => U8
  | T_tx_is_final => Bit
  | T_tx_lock_distance | T_tx_lock_duration => U16
  end.

Definition jet_source (j : ejet) : ty :=
  match j with
  | J_tx _ | J_current _ => One
  | J_check K_height | J_check K_time => U32
  | J_check _ => U16
  | J_tappath => U8
  | J_input _ | J_input_ix _ | J_output _ => U32
  | J_output_null_datum => U64
  | J_total_fee => H256
  end.

Definition jet_target (j : ejet) : ty :=
  match j with
  | J_tx f => tx_field_ty f
  | J_check _ => One
  | J_tappath => option_ty H256
  | J_input f => option_ty (in_field_ty f)
  | J_input_ix f => option_ty (in_field_ix_ty f)
  | J_current f => in_field_ty f
  | J_output f => option_ty (out_field_ty f)
  | J_output_null_datum => option_ty (option_ty null_datum_ty)
  | J_total_fee => U64
  end.

Definition in_field_val (f : in_field) (i : tx_input) : sval :=
  match f with
  | F_prev_outpoint => SP (wordN 8 (in_txid i)) (wordN 5 (in_vout i))
  | F_sequence => wordN 5 (in_sequence i)
  | F_pegin => opt_val (option_map (wordN 8) (pegin_of i))
  | F_asset => enc_asset (in_u_asset i)
  | F_amount => SP (enc_asset (in_u_asset i)) (enc_amount (in_u_value i))
  | F_script_hash => wordN 8 (in_u_script_hash i)
  | F_script_sig_hash => wordN 8 (in_script_sig_hash i)
  | F_annex_hash => opt_val (option_map (wordN 8) (annex_of i))
  | F_reissuance_blinding =>
      match iss_kind_of i with ReIss => SR (wordN 8 (in_blinding_nonce i)) | _ => SL SU end
  | F_new_issuance_contract =>
      match iss_kind_of i with NewIss => SR (wordN 8 (in_entropy i)) | _ => SL SU end
  | F_reissuance_entropy =>
      match iss_kind_of i with ReIss => SR (wordN 8 (in_entropy i)) | _ => SL SU end
  | F_issuance_asset_amount =>
      match iss_kind_of i with NoIss => SL SU | _ => SR (enc_amount (in_amount i)) end
  | F_issuance_token_amount =>
      match iss_kind_of i with
      | NoIss => SL SU
      | NewIss => SR (enc_amount (in_keys i))
      | ReIss => SR (enc_amount (CExplicit 0))
      end
  | F_issuance_asset_proof => wordN 8 (iss_asset_proof i)
  | F_issuance_token_proof => wordN 8 (iss_token_proof i)
  end.

Definition in_field_ix_val (f : in_field_ix) (i : tx_input) : sval :=
  match iss_kind_of i with
  | NoIss => SL SU
  | k =>
      SR (match f with
          | G_issuance => bitv (match k with ReIss => true | _ => false end)
          | G_issuance_entropy => wordN 8 (iss_entropy i)
          | G_issuance_asset => wordN 8 (iss_asset i)
          | G_issuance_token => wordN 8 (iss_token i)
          end)
  end.

Definition out_field_val (f : out_field) (o : tx_output) : sval :=
  match f with
  | O_asset => enc_asset (out_asset o)
  | O_amount => SP (enc_asset (out_asset o)) (enc_amount (out_value o))
  | O_nonce => enc_nonce (out_nonce o)
  | O_script_hash => wordN 8 (out_script_hash o)
  | O_surjection_proof => wordN 8 (if is_conf (out_asset o) then out_surj_hash o else empty_hash)
  | O_range_proof => wordN 8 (if is_conf (out_value o) then out_range_hash o else empty_hash)
  | O_is_fee => bitv (out_is_fee o)
  end.

Definition tx_field_val (f : tx_field) (t : txenv) : sval :=
  match f with
  | T_version => wordN 5 (tx_version t)
  | T_lock_time => wordN 5 (tx_lock_time t)
  | T_num_inputs => wordN 5 (N.of_nat (length (tx_inputs t)))
  | T_num_outputs => wordN 5 (N.of_nat (length (tx_outputs t)))
  | T_current_index => wordN 5 (tx_ix t)
  | T_genesis_block_hash => wordN 8 (tx_genesis t)
  | T_script_cmr => wordN 8 (tx_cmr t)
  | T_internal_key => wordN 8 (tap_internal_key t)
  | T_tapleaf_version => wordN 3 (tap_leaf_version t)
  | T_transaction_id => wordN 8 (tx_txid t)
  | T_tx_is_final => bitv (is_final t)
  | T_tx_lock_height => wordN 5 (lock_height t)
  | T_tx_lock_time => wordN 5 (lock_time_abs t)
  | T_tx_lock_distance => wordN 4 (lock_rel false t)
  | T_tx_lock_duration => wordN 4 (lock_rel true t)
  end.

Definition check_bound (f : check_field) (t : txenv) : N :=
  match f with
  | K_height => lock_height t
  | K_time => lock_time_abs t
  | K_distance => lock_rel false t
  | K_duration => lock_rel true t
  end.

(* The specified result of a jet on input word [arg] (any number; out-of-range indices
   included).  [None] = the jet fails (the C function returns false). *)
Definition jet_spec (j : ejet) (t : txenv) (arg : N) : option sval :=
  match j with
  | J_tx f => Some (tx_field_val f t)
  | J_check f => if arg <=? check_bound f t then Some SU else None
  | J_tappath => Some (opt_val (option_map (wordN 8) (nthN (tap_path t) arg)))
  | J_input f => Some (opt_val (option_map (in_field_val f) (nthN (tx_inputs t) arg)))
  | J_input_ix f => Some (opt_val (option_map (in_field_ix_val f) (nthN (tx_inputs t) arg)))
  | J_current f => option_map (in_field_val f) (nthN (tx_inputs t) (tx_ix t))
  | J_output f => Some (opt_val (option_map (out_field_val f) (nthN (tx_outputs t) arg)))
  | J_output_null_datum =>
      let i := arg / 2 ^ 32 in
      let k := arg mod 2 ^ 32 in
      Some (opt_val
        (match nthN (tx_outputs t) i with
         | Some o =>
             match out_null_data o with
             | Some ops => Some (opt_val (option_map enc_null_datum (nthN ops k)))
             | None => None
             end
         | None => None
         end))
  | J_total_fee => Some (wordN 6 (fee_of arg t))
  end.

(* ------------------------------------------------------------------ well-typedness *)

Lemma opt_val_ty o t : (forall v, o = Some v -> has_ty v t = true) -> has_ty (opt_val o) (option_ty t) = true.
Proof. destruct o as [v|]; intros H; cbn; [apply H; reflexivity|reflexivity]. Qed.

Lemma opt_val_map_ty {A} (f : A -> sval) (o : option A) t :
  (forall a, has_ty (f a) t = true) -> has_ty (opt_val (option_map f o)) (option_ty t) = true.
Proof. intros H. apply opt_val_ty. destruct o; cbn; intros v E; inversion E; subst; apply H. Qed.

Lemma enc_asset_ty c : has_ty (enc_asset c) (conf_ty H256) = true.
Proof.
  destruct c; cbn [enc_asset conf_ty has_ty]; unfold H256; rewrite ?bitv_ty, ?wordN_ty; reflexivity.
Qed.

Lemma enc_amount_ty c : has_ty (enc_amount c) (conf_ty U64) = true.
Proof.
  destruct c; cbn [enc_amount conf_ty has_ty]; unfold H256, U64; rewrite ?bitv_ty, ?wordN_ty; reflexivity.
Qed.

Lemma enc_nonce_ty c : has_ty (enc_nonce c) (option_ty (conf_ty H256)) = true.
Proof.
  destruct c; cbn [enc_nonce conf_ty option_ty has_ty]; unfold H256; rewrite ?bitv_ty, ?wordN_ty; reflexivity.
Qed.

Lemma enc_null_datum_ty op : has_ty (enc_null_datum op) null_datum_ty = true.
Proof.
  destruct op as [code h]. unfold enc_null_datum, null_datum_ty.
  destruct (code <=? 3); [cbn [has_ty]; unfold H256; rewrite !wordN_ty; reflexivity|].
  destruct (code =? 4); [reflexivity|]. destruct (code =? 5); [reflexivity|].
  cbn [has_ty]. apply wordN_ty.
Qed.

Lemma in_field_typed f i : has_ty (in_field_val f i) (in_field_ty f) = true.
Proof.
  destruct f; cbn [in_field_val in_field_ty outpoint_ty];
    try (apply opt_val_map_ty; intros; apply wordN_ty);
    try apply wordN_ty; try apply enc_asset_ty.
  - unfold outpoint_ty, H256, U32. cbn [has_ty]. rewrite !wordN_ty. reflexivity.
  - cbn [has_ty]. rewrite enc_asset_ty, enc_amount_ty. reflexivity.
  - destruct (iss_kind_of i); cbn [option_ty has_ty]; try reflexivity. apply wordN_ty.
  - destruct (iss_kind_of i); cbn [option_ty has_ty]; try reflexivity. apply wordN_ty.
  - destruct (iss_kind_of i); cbn [option_ty has_ty]; try reflexivity. apply wordN_ty.
  - destruct (iss_kind_of i); cbn [option_ty has_ty]; try reflexivity; apply enc_amount_ty.
  - destruct (iss_kind_of i); cbn [option_ty has_ty]; try reflexivity; apply enc_amount_ty.
Qed.

Lemma in_field_ix_typed f i : has_ty (in_field_ix_val f i) (in_field_ix_ty f) = true.
Proof.
  unfold in_field_ix_val.
  destruct (iss_kind_of i); destruct f; cbn [in_field_ix_ty option_ty has_ty]; try reflexivity;
    try apply wordN_ty.
Qed.

Lemma out_field_typed f o : has_ty (out_field_val f o) (out_field_ty f) = true.
Proof.
  destruct f; cbn [out_field_val out_field_ty]; try apply wordN_ty;
    try apply enc_asset_ty; try apply enc_nonce_ty; try apply bitv_ty.
  cbn [has_ty]. rewrite enc_asset_ty, enc_amount_ty. reflexivity.
Qed.

Lemma tx_field_typed f t : has_ty (tx_field_val f t) (tx_field_ty f) = true.
Proof. destruct f; cbn [tx_field_val tx_field_ty]; try apply wordN_ty; apply bitv_ty. Qed.

(* For all transactions and all input words (indices in and out of range alike) the specified
   result, when the jet does not fail, is a value of the jet's target type. *)
Theorem spec_typed : forall j t arg v, jet_spec j t arg = Some v -> has_ty v (jet_target j) = true.
Proof.
  intros j t arg v H. destruct j; cbn [jet_spec jet_target] in *.
  - injection H as <-. apply tx_field_typed.
  - destruct (arg <=? check_bound f t); [injection H as <-; reflexivity|discriminate].
  - injection H as <-. apply opt_val_map_ty. intros; apply wordN_ty.
  - injection H as <-. apply opt_val_map_ty. apply in_field_typed.
  - injection H as <-. apply opt_val_map_ty. apply in_field_ix_typed.
  - destruct (nthN (tx_inputs t) (tx_ix t)); [injection H as <-|discriminate]. apply in_field_typed.
  - injection H as <-. apply opt_val_map_ty. apply out_field_typed.
  - injection H as <-. apply opt_val_ty. intros w E.
    destruct (nthN (tx_outputs t) _) as [o|]; [|discriminate].
    destruct (out_null_data o) as [ops|]; [injection E as <-|discriminate].
    apply opt_val_map_ty. apply enc_null_datum_ty.
  - injection H as <-. apply wordN_ty.
Qed.

(* ------------------------------------------------------------------ behaviour at the boundaries *)

Lemma nthN_out_of_range {A} (l : list A) i : N.of_nat (length l) <= i -> nthN l i = None.
Proof. intros H. unfold nthN. destruct (N.ltb_spec i (N.of_nat (length l))); [lia|reflexivity]. Qed.

Lemma nthN_in_range {A} (l : list A) i : i < N.of_nat (length l) -> exists a, nthN l i = Some a.
Proof.
  intros H. unfold nthN. destruct (N.ltb_spec i (N.of_nat (length l))); [|lia].
  destruct (nth_error l (N.to_nat i)) eqn:E; [eauto|]. apply nth_error_None in E. lia.
Qed.

(* every indexed jet returns the documented absent value (none) exactly when the index is out of range *)
Theorem input_out_of_range : forall f t i, N.of_nat (length (tx_inputs t)) <= i ->
  jet_spec (J_input f) t i = Some (SL SU) /\ forall g, jet_spec (J_input_ix g) t i = Some (SL SU).
Proof. intros f t i H. cbn [jet_spec]. rewrite nthN_out_of_range by exact H. auto. Qed.

Theorem input_in_range : forall f t i, i < N.of_nat (length (tx_inputs t)) ->
  exists inp, nthN (tx_inputs t) i = Some inp /\ jet_spec (J_input f) t i = Some (SR (in_field_val f inp)).
Proof.
  intros f t i H. destruct (nthN_in_range (tx_inputs t) i H) as [a E]. exists a. cbn [jet_spec].
  rewrite E. auto.
Qed.

Theorem output_out_of_range : forall f t i, N.of_nat (length (tx_outputs t)) <= i ->
  jet_spec (J_output f) t i = Some (SL SU).
Proof. intros f t i H. cbn [jet_spec]. rewrite nthN_out_of_range by exact H. auto. Qed.

Theorem output_in_range : forall f t i, i < N.of_nat (length (tx_outputs t)) ->
  exists o, nthN (tx_outputs t) i = Some o /\ jet_spec (J_output f) t i = Some (SR (out_field_val f o)).
Proof.
  intros f t i H. destruct (nthN_in_range (tx_outputs t) i H) as [a E]. exists a. cbn [jet_spec].
  rewrite E. auto.
Qed.

(* current_X is input_X at the current index without the option, and fails when that index selects no input *)
Theorem current_agrees_with_indexed : forall f t,
  match jet_spec (J_current f) t 0 with
  | Some v => jet_spec (J_input f) t (tx_ix t) = Some (SR v)
  | None => jet_spec (J_input f) t (tx_ix t) = Some (SL SU) /\ N.of_nat (length (tx_inputs t)) <= tx_ix t
  end.
Proof.
  intros f t. cbn [jet_spec]. unfold nthN.
  destruct (N.ltb_spec (tx_ix t) (N.of_nat (length (tx_inputs t)))) as [Hlt|Hge].
  - destruct (nth_error (tx_inputs t) (N.to_nat (tx_ix t))) eqn:E; cbn; auto.
    apply nth_error_None in E. lia.
  - cbn. auto.
Qed.

(* the annex is recognised exactly by the 0x50 prefix of the last witness element; the
   specified hash is that of the bytes after the prefix *)
Theorem annex_spec : forall i,
  annex_of i = match in_wit_last i with
               | Some (80, h) => Some h
               | _ => None
               end.
Proof.
  intros i. unfold annex_of. destruct (in_wit_last i) as [[b h]|]; [|reflexivity].
  destruct (N.eqb_spec b 80) as [->|Hne]; [reflexivity|].
  destruct b as [|p]; [reflexivity|].
  do 7 (destruct p as [p|p|]; try reflexivity). congruence.
Qed.

(* issuance views are mutually consistent *)
Theorem issuance_views : forall i,
  match iss_kind_of i with
  | NoIss => in_field_ix_val G_issuance i = SL SU /\ in_field_val F_issuance_asset_amount i = SL SU /\
             in_field_val F_new_issuance_contract i = SL SU /\ in_field_val F_reissuance_entropy i = SL SU /\
             iss_asset_proof i = empty_hash /\ iss_token_proof i = empty_hash
  | NewIss => in_field_ix_val G_issuance i = SR (SL SU) /\
              in_field_val F_new_issuance_contract i = SR (wordN 8 (in_entropy i)) /\
              in_field_val F_reissuance_entropy i = SL SU /\ in_field_val F_reissuance_blinding i = SL SU
  | ReIss => in_field_ix_val G_issuance i = SR (SR SU) /\
             in_field_val F_new_issuance_contract i = SL SU /\
             in_field_val F_reissuance_entropy i = SR (wordN 8 (in_entropy i)) /\
             in_field_val F_reissuance_blinding i = SR (wordN 8 (in_blinding_nonce i)) /\
             in_field_val F_issuance_token_amount i = SR (SR (wordN 6 0)) /\ iss_token_proof i = empty_hash
  end.
Proof.
  intros i. unfold in_field_ix_val, in_field_val, iss_asset_proof, iss_token_proof.
  destruct (iss_kind_of i); cbn [enc_amount]; auto 10.
Qed.

Definition demo_input (pegin_flag : bool) (pegin : option N) (wit : option (N * N)) : tx_input :=
  {| in_txid := 1; in_vout := 0; in_sequence := 4294967294; in_is_pegin := pegin_flag;
     in_pegin_genesis := pegin; in_script_sig_hash := empty_hash; in_wit_last := wit;
     in_blinding_nonce := 0; in_entropy := 0; in_amount := CNull; in_keys := CNull;
     in_amount_rp_hash := empty_hash; in_keys_rp_hash := empty_hash;
     in_d_entropy_new := 0; in_d_asset_new := 0; in_d_tokx_new := 0; in_d_tokc_new := 0;
     in_d_asset_re := 0; in_d_tokx_re := 0; in_d_tokc_re := 0;
     in_u_asset := CExplicit 7; in_u_value := CExplicit 1000; in_u_script_hash := empty_hash |}.

Definition demo_env (inputs : list tx_input) : txenv :=
  {| tx_version := 2; tx_lock_time := 0; tx_ix := 0; tx_genesis := 5; tx_cmr := 6; tx_txid := 7;
     tap_leaf_version := 190; tap_internal_key := 8; tap_path := [9; 10];
     tx_inputs := inputs; tx_outputs := [] |}.

(* an input whose is_pegin flag is clear is reported as not a pegin, whatever its pegin witness holds *)
Theorem pegin_follows_flag : forall t i inp, nthN (tx_inputs t) i = Some inp -> in_is_pegin inp = false ->
  jet_spec (J_input F_pegin) t i = Some (SR (SL SU)).
Proof.
  intros t i inp E F. cbn [jet_spec]. rewrite E. cbn [option_map opt_val in_field_val]. unfold pegin_of. rewrite F.
  reflexivity.
Qed.

(* the same statement about the marshalling before the fix is false (finding reported by this check,
   fixed by /repo commit 06fd3e7; the generator keeps the class "pegin data without flag" as a regression) *)
Lemma pegin_follows_flag_before_fix_refuted :
  ~ (forall inp, in_is_pegin inp = false -> pegin_of_before_fix inp = None).
Proof. intros H. specialize (H (demo_input false (Some 3) None) eq_refl). discriminate. Qed.

(* non-vacuity: a transaction with an annex, queried in and out of range *)
Example annex_example :
  let t := demo_env [demo_input false None (Some (80, 1234)); demo_input false None (Some (81, 1234))] in
  jet_spec (J_input F_annex_hash) t 0 = Some (SR (SR (wordN 8 1234))) /\
  jet_spec (J_input F_annex_hash) t 1 = Some (SR (SL SU)) /\
  jet_spec (J_input F_annex_hash) t 2 = Some (SL SU) /\
  jet_spec (J_input F_annex_hash) t 4294967295 = Some (SL SU) /\
  jet_spec (J_current F_annex_hash) t 0 = Some (SR (wordN 8 1234)) /\
  jet_spec (J_tappath) t 1 = Some (SR (wordN 8 10)) /\
  jet_spec (J_tappath) t 2 = Some (SL SU).
Proof. vm_compute. repeat split; reflexivity. Qed.
