(* C04 - reference type inference: generate the constraints (Constraints.v), solve them in
   construction order (Unify.v), perform the occurs check at the END (as Type::finalize does),
   set the remaining free variables to unit and read off every node's arrow.

     ConstructNode::{constructors}            -> gen + solve (stage 0)
     ConstructNode::set_arrow_to_program      -> root_tmpl + solve (stage 1)
     finalize_types_non_program / Type::finalize / Incomplete::occurs_check -> resolve (stage 2)

   Error classes.  Reading the Rust code: every failure of `unify` / `bind_product` is reported as
   Error::Bind (also a mismatch of two complete types: context.rs maps every BindError to
   Error::Bind); Error::OccursCheck only comes from Type::finalize; Error::CompleteTypeMismatch is
   never produced by inference (only by finalize_unpruned's witness check, node/construct.rs).
   The enum keeps the three classes of the Rust type; `infer_never_complete_mismatch` states the
   third is unreachable here. *)
From RS Require Import Lib.Tac Lib.Outcome Ty.Ty Core.Prog Infer.Constraints Infer.Unify.
Import ListNotations.

Inductive ierr : Type :=
| EShape                      (* not a construction (forward reference, hidden child outside case ...) *)
| EBind (stage : N)           (* stage 0: a constructor; 1: root := 1 -> 1 *)
| ECompleteMismatch
| EOccurs.

(* the type of a variable in a solved store: follow links and structure; free variables are
   unit.  None = out of fuel = a cycle (fuel S (length s), see Principal.v) *)
Fixpoint resolve (fuel : nat) (s : store) (v : nat) : option ty :=
  match fuel with
  | O => None
  | S f =>
      match sget s (find s v) with
      | BFree | BOne => Some One
      | BSum a b =>
          match resolve f s a with
          | None => None
          | Some ta => match resolve f s b with
                       | None => None
                       | Some tb => Some (Sum ta tb)
                       end
          end
      | BProd a b =>
          match resolve f s a with
          | None => None
          | Some ta => match resolve f s b with
                       | None => None
                       | Some tb => Some (Prod ta tb)
                       end
          end
      | BLink _ => None
      end
  end.

Definition res (s : store) (v : nat) : option ty := resolve (S (length s)) s v.

Definition is_some {A} (o : option A) : bool := match o with Some _ => true | None => false end.

(* the occurs check over the whole store *)
Definition occurs_ok (s : store) : bool :=
  forallb (fun v => is_some (res s v)) (seq 0 (length s)).

Definition tarrow := (ty * ty)%type.

Definition res_arrow (s : store) (a : option varrow) : option tarrow :=
  match a with
  | None => None
  | Some (x, y) =>
      match res s x, res s y with
      | Some tx, Some t_y => Some (tx, t_y)
      | _, _ => None
      end
  end.

Definition lift_solve (stage : N) (o : outcome unit store) : outcome ierr store :=
  match o with
  | Ok s => Ok s
  | Err _ => Err (EBind stage)
  | Panic c => Panic c
  | OutOfFuel => OutOfFuel
  end.

Local Open Scope outcome_scope.

(* root = Some r: node r is the program root (source = target = 1) *)
Definition infer (jt : jet_table) (root : option nat) (p : prog) : outcome ierr (list (option tarrow)) :=
  match gen jt p with
  | None => Err EShape
  | Some g =>
      match root_tmpl g root with
      | None => Err EShape
      | Some (rb, re) =>
          s1 <- lift_solve 0 (solve (g_store g) (g_eqs g)) ;;
          s2 <- lift_solve 1 (solve (s1 ++ rb) re) ;;
          if occurs_ok s2 then Ok (map (res_arrow s2) (g_arr g)) else Err EOccurs
      end
  end.

(* ------------------------------------------------------------------ the typing rules *)

(* Does arrow `own` satisfy the rule of combinator nd, given the arrows tau of the other nodes? *)
Definition check_node (jt : jet_table) (tau : list (option tarrow)) (nd : node) (own : option tarrow) : bool :=
  match nd, own with
  | NHidden _, None => true
  | NHidden _, Some _ => false
  | _, None => false
  | NIden, Some (A, B) => ty_eqb A B
  | NUnit, Some (A, B) => ty_eqb B One
  | NInjL c, Some (A, B) =>
      match arr_of tau c, B with
      | Some (A', B'), Sum B1 _ => ty_eqb A A' && ty_eqb B1 B'
      | _, _ => false
      end
  | NInjR c, Some (A, B) =>
      match arr_of tau c, B with
      | Some (A', B'), Sum _ B2 => ty_eqb A A' && ty_eqb B2 B'
      | _, _ => false
      end
  | NTake c, Some (A, B) =>
      match arr_of tau c, A with
      | Some (A', B'), Prod A1 _ => ty_eqb A1 A' && ty_eqb B B'
      | _, _ => false
      end
  | NDrop c, Some (A, B) =>
      match arr_of tau c, A with
      | Some (A', B'), Prod _ A2 => ty_eqb A2 A' && ty_eqb B B'
      | _, _ => false
      end
  | NComp l r, Some (A, B) =>
      match arr_of tau l, arr_of tau r with
      | Some (A1, B1), Some (A2, B2) => ty_eqb A A1 && ty_eqb B1 A2 && ty_eqb B B2
      | _, _ => false
      end
  | NPair l r, Some (A, B) =>
      match arr_of tau l, arr_of tau r, B with
      | Some (A1, B1), Some (A2, B2), Prod C1 C2 =>
          ty_eqb A A1 && ty_eqb A A2 && ty_eqb C1 B1 && ty_eqb C2 B2
      | _, _, _ => false
      end
  | NCase l r, Some (A, B) =>
      match A with
      | Prod (Sum a b) c =>
          negb (hidden_at tau l && hidden_at tau r) &&
          (match arr_of tau l with
           | Some (A1, B1) => ty_eqb A1 (Prod a c) && ty_eqb B1 B
           | None => hidden_at tau l
           end) &&
          (match arr_of tau r with
           | Some (A2, B2) => ty_eqb A2 (Prod b c) && ty_eqb B2 B
           | None => hidden_at tau r
           end)
      | _ => false
      end
  | NDisconnect l ro, Some (A, B) =>
      match arr_of tau l, B with
      | Some (A1, Prod b1 c1), Prod b d =>
          ty_eqb A1 (Prod (word_ty 8) A) && ty_eqb b1 b &&
          (match ro with
           | Some r => match arr_of tau r with
                       | Some (A2, B2) => ty_eqb A2 c1 && ty_eqb B2 d
                       | None => false
                       end
           | None => true
           end)
      | _, _ => false
      end
  | NFail _, Some _ => true
  | NWitness _, Some _ => true
  | NWord k bits, Some (A, B) =>
      Nat.leb k 31 && Nat.eqb (length bits) (2 ^ k) && ty_eqb A One && ty_eqb B (word_ty k)
  | NJet fam id, Some (A, B) =>
      match jet_lookup jt fam id with
      | Some (gs, gt) => ty_eqb A (gty_ty gs) && ty_eqb B (gty_ty gt)
      | None => false
      end
  end.

(* tau types program p: every node satisfies its rule w.r.t. the arrows of EARLIER nodes
   (children point backwards), and the root of a program is 1 -> 1 *)
Fixpoint check_nodes (jt : jet_table) (tau : list (option tarrow)) (i : nat) (p : list node) : bool :=
  match p with
  | [] => true
  | nd :: rest =>
      check_node jt (firstn i tau) nd (nth i tau None) && check_nodes jt tau (S i) rest
  end.

Definition check_root (tau : list (option tarrow)) (root : option nat) : bool :=
  match root with
  | None => true
  | Some r => match arr_of tau r with
              | Some (A, B) => ty_eqb A One && ty_eqb B One
              | None => false
              end
  end.

Definition check_typing (jt : jet_table) (root : option nat) (p : prog) (tau : list (option tarrow)) : bool :=
  Nat.eqb (length tau) (length p) && check_nodes jt tau 0 p && check_root tau root.

(* pointwise order on typings: unit below everything (Ty.ty_le) *)
Definition arrow_le (a b : option tarrow) : bool :=
  match a, b with
  | None, None => true
  | Some (a1, a2), Some (b1, b2) => ty_le a1 b1 && ty_le a2 b2
  | _, _ => false
  end.

Fixpoint typing_le (t1 t2 : list (option tarrow)) : bool :=
  match t1, t2 with
  | [], [] => true
  | a :: r1, b :: r2 => arrow_le a b && typing_le r1 r2
  | _, _ => false
  end.
