(* C04 - Type inference is sound, principal and order-independent.
   Only pinned statements (`Theorem .. exact lemma`) and `Print Assumptions`, plus Examples
   showing that the hypotheses are satisfiable.
   Models: Infer/Constraints.v (the constraints of every combinator, from types/arrow.rs),
   Infer/Unify.v (reference unification, occurs check deferred), Infer/Infer.v (infer and the
   typing rules check_typing), Infer/Display.v (printers).  Proofs: Infer/Unify.v,
   Infer/Principal.v, Infer/Gen.v, Infer/Theorems.v, Infer/Order.v.
   The Rust union-bound algorithm itself is tied to `infer` by the correspondence check. *)
From RS Require Import Lib.Tac Lib.Outcome Ty.Ty Core.Prog Generated.Consts
  Infer.Constraints Infer.Unify Infer.Infer Infer.Principal Infer.Gen Infer.Theorems Infer.Order
  Infer.Display Infer.DisplayBound
  Infer.Run Infer.Run2 Infer.UnionFind Infer.Slab Infer.RunSlab Infer.Rational Infer.ErrClass Infer.ErrDisplay Infer.SlabProofs.
Import ListNotations.

(* ------------------------------------------------------------------ inference *)

(* infer_sound: a finalised program satisfies the typing rule of every combinator (and a
   program root is 1 -> 1) *)
Theorem C04_infer_sound : forall (jt : jet_table) (root : option nat) (p : prog) tau,
  infer jt root p = Ok tau -> check_typing jt root p tau = true.
Proof. exact infer_sound. Qed.
Print Assumptions C04_infer_sound.

(* infer_complete: a program finalises EXACTLY when its typing rules have a finite (ground)
   solution ... *)
Theorem C04_infer_complete : forall (jt : jet_table) (root : option nat) (p : prog),
  (exists tau, check_typing jt root p tau = true) <-> (exists tau0, infer jt root p = Ok tau0).
Proof. exact infer_complete_iff. Qed.
Print Assumptions C04_infer_complete.

(* ... and otherwise returns an error: never a panic, never out of fuel (the fuel
   S (nroots s) of unify and S (length s) of the occurs check are sufficient) *)
Theorem C04_infer_total : forall (jt : jet_table) (root : option nat) (p : prog),
  match infer jt root p with Ok _ | Err _ => True | Panic _ | OutOfFuel => False end.
Proof. exact infer_total_outcome. Qed.
Print Assumptions C04_infer_total.

Theorem C04_infer_rejects : forall (jt : jet_table) (root : option nat) (p : prog),
  (forall tau, check_typing jt root p tau = false) -> exists e, infer jt root p = Err e.
Proof. exact infer_rejects. Qed.
Print Assumptions C04_infer_rejects.

(* infer_least (principal types): the result is the most general solution with all remaining
   variables set to unit: it is below EVERY typing of the program in the pointwise ty_le order
   (unit below everything, Ty.v) - hence the unique least typing *)
Theorem C04_infer_least : forall (jt : jet_table) (root : option nat) (p : prog) tau0 tau,
  infer jt root p = Ok tau0 -> check_typing jt root p tau = true -> typing_le tau0 tau = true.
Proof. exact infer_least. Qed.
Print Assumptions C04_infer_least.

(* infer_order: any two topological construction orders of the same DAG (p' = p renumbered
   by the bijection pi, children before parents in both) give node by node the same arrows,
   or both fail *)
Theorem C04_infer_order : forall (jt : jet_table) (root : option nat) (p p' : prog) (pi pinv : nat -> nat),
  perm_of (length p) pi pinv -> permuted pi p p' ->
  wf_from 0 p = true -> wf_from 0 p' = true ->
  (forall r, root = Some r -> (r < length p)%nat) ->
  match infer jt root p, infer jt (option_map pi root) p' with
  | Ok tau, Ok tau' => forall i, (i < length p)%nat -> nth (pi i) tau' None = nth i tau None
  | Err _, Err _ => True
  | _, _ => False
  end.
Proof. exact infer_order. Qed.
Print Assumptions C04_infer_order.

(* error classes: inference never reports CompleteTypeMismatch (the Rust code reports every
   unification failure as Error::Bind and cycles as Error::OccursCheck) *)
Theorem C04_infer_never_complete_mismatch : forall (jt : jet_table) (root : option nat) (p : prog),
  infer jt root p <> Err ECompleteMismatch.
Proof. exact infer_never_complete_mismatch. Qed.
Print Assumptions C04_infer_never_complete_mismatch.

(* ------------------------------------------------------------------ the pieces *)

(* unification computes exactly the models of the store that satisfy the equations (most
   general unifier, semantically), for cyclic stores as well *)
Theorem C04_solve_exact : forall (s s' : store) (eqs : list (nat * nat)),
  wf s -> eqs_in (length s) eqs -> solve s eqs = Ok s' ->
  forall al, sat al s' <-> (sat al s /\ eqs_hold al eqs).
Proof. exact solve_exact. Qed.
Print Assumptions C04_solve_exact.

Theorem C04_solve_fails_only_without_model : forall (s : store) (eqs : list (nat * nat)),
  wf s -> eqs_in (length s) eqs ->
  match solve s eqs with
  | Ok _ => True
  | Err _ => forall al, ~ (sat al s /\ eqs_hold al eqs)
  | _ => False
  end.
Proof. exact solve_fails_only_without_model. Qed.
Print Assumptions C04_solve_fails_only_without_model.

(* the occurs check at the end is exact: it passes iff the solved store has a finite model *)
Theorem C04_occurs_check_exact : forall s : store, wf s ->
  (occurs_ok s = true <-> exists al, sat al s).
Proof. exact occurs_check_exact. Qed.
Print Assumptions C04_occurs_check_exact.

(* the constraints generated for one node are exactly its typing rule *)
Theorem C04_constraints_sound : forall jt n ar nd nb ne a al,
  node_tmpl jt n ar nd = Some (nb, ne, a) -> sat_list al n nb -> eqs_hold al ne ->
  check_node jt (map (img al) ar) nd (img al a) = true.
Proof. exact node_tmpl_sound. Qed.
Print Assumptions C04_constraints_sound.

Theorem C04_constraints_complete : forall jt n ar nd al own,
  arr_in n ar -> check_node jt (map (img al) ar) nd own = true ->
  exists nb ne a al', node_tmpl jt n ar nd = Some (nb, ne, a) /\
    (forall v, (v < n)%nat -> al' v = al v) /\ sat_list al' n nb /\ eqs_hold al' ne /\ img al' a = own.
Proof. exact node_tmpl_complete. Qed.
Print Assumptions C04_constraints_complete.

(* ------------------------------------------------------------------ display *)

(* display_bounded: the printer of incomplete bounds (verbose pre-order walk with
   MAX_DISPLAY_DEPTH / MAX_DISPLAY_LENGTH) terminates and emits at most 3 (LENGTH + 1) + 1
   <= 3 (LENGTH + DEPTH) tokens on any bound graph, cyclic or not; a complete type embedded in
   the bound counts as one token here (see the refuted clause below) *)
Theorem C04_display_bounded : forall (g : igraph) (root : nat),
  exists out, print_inc g root (N.to_nat c_max_display_depth) (N.to_nat c_max_display_length) = Ok out /\
    (length out <= 3 * (N.to_nat c_max_display_length + N.to_nat c_max_display_depth))%nat.
Proof. exact display_bounded. Qed.
Print Assumptions C04_display_bounded.

(* space: the iterator's stack never holds more than DEPTH + 1 items *)
Theorem C04_display_space : forall (g : igraph) (root D L : nat) (st : pstate),
  reach g D L (mk_pstate [mk_item root 0 0 0] 0 false []) st -> (length (st_stack st) <= D + 1)%nat.
Proof. exact print_inc_space. Qed.
Print Assumptions C04_display_space.

(* display_final_size: Final's Display writes at least one token per node of the TREE
   expansion of a (product-only) complete type: no depth or length limit, no sharing *)
Theorem C04_display_final_size : forall t, prod_only t = true ->
  (ty_size t <= length (display_final t))%nat.
Proof. exact display_final_size. Qed.
Print Assumptions C04_display_final_size.

(* F-C04: the boundedness clause is refuted for errors that embed complete types: the
   complete type of n nested `pair x x` over `pair unit (word u8)` (a DAG of n + 7 nodes) is
   printed with at least 2^n tokens; no bound of the form c (LENGTH + DEPTH) holds *)
Theorem C04_display_final_unbounded_refuted : forall B : nat, exists t : ty,
  (B < length (display_final t))%nat.
Proof. exact display_final_unbounded_refuted. Qed.
Print Assumptions C04_display_final_unbounded_refuted.

Theorem C04_display_final_bomb : forall n, (2 ^ n <= length (display_final (bomb_ty n)))%nat.
Proof. exact display_final_bomb. Qed.
Print Assumptions C04_display_final_bomb.

(* ------------------------------------------------------------------ the hypotheses are satisfiable *)

(* pair iden unit, take of it; constructed in the order 0 1 2 3 and in the order 1 0 2 3 *)
Example C04_ex_infer :
  infer [] None [NIden; NUnit; NPair 0 1; NTake 2] =
  Ok [Some (One, One); Some (One, One); Some (One, Prod One One); Some (Prod One One, Prod One One)].
Proof. vm_compute. reflexivity. Qed.

Example C04_ex_order :
  let p := [NIden; NUnit; NPair 0 1; NTake 2] in
  let p' := [NUnit; NIden; NPair 1 0; NTake 2] in
  let pi := fun i => match i with 0 => 1 | 1 => 0 | k => k end%nat in
  perm_of (length p) pi pi /\ permuted pi p p' /\ wf_from 0 p = true /\ wf_from 0 p' = true /\
  infer [] None p' = Ok [Some (One, One); Some (One, One); Some (One, Prod One One); Some (Prod One One, Prod One One)].
Proof.
  cbn zeta. split; [|split; [|split; [reflexivity|split; [reflexivity|vm_compute; reflexivity]]]].
  - constructor; intros [|[|[|[|k]]]] H; cbn in *; lia.
  - split; [reflexivity|]. intros [|[|[|[|k]]]] H; cbn in *; try reflexivity; lia.
Qed.

(* an occurs-check cycle (disconnect iden iden), an ill-typed program, a program root *)
Example C04_ex_occurs : infer [] None [NIden; NDisconnect 0 (Some 0%nat)] = Err EOccurs.
Proof. vm_compute. reflexivity. Qed.

Example C04_ex_bind : infer [] None [NUnit; NCase 0 0; NDisconnect 1 (Some 0%nat)] = Err (EBind 0).
Proof. vm_compute. reflexivity. Qed.

Example C04_ex_root : infer [] (Some 2%nat) [NIden; NDrop 0; NCase 1 0] = Err (EBind 1).
Proof. vm_compute. reflexivity. Qed.

Example C04_ex_solve :
  let s := [BFree; BFree; BSum 0 1; BOne; BSum 3 3] in
  wf s /\ eqs_in (length s) [(2, 4)]%nat /\ exists s', solve s [(2, 4)]%nat = Ok s'.
Proof.
  cbn zeta. split; [|split].
  - intros [|[|[|[|[|v]]]]] H; cbn in *; lia.
  - intros x y [E|[]]. injection E as <- <-. cbn. lia.
  - eexists. vm_compute. reflexivity.
Qed.

(* ================================================================== phase 2 *)

(* ------------------------------------------------------------------ the Rust union-bound heap (union_bound.rs as written) *)

(* UbElement::root_element (path halving): under the rank invariant it returns the representative
   within the fuel 1 + largest rank, keeps the invariant, the ranks, the roots' data, and the
   represented partition: every element has the same representative before and after *)
Theorem C04_uf_root_element : forall (u : uf) (x : nat), uf_wf u -> (x < length u)%nat ->
  exists u', root_element (uf_fuel u) u x = Ok (u', rep u x) /\ uf_wf u' /\ length u' = length u /\
    max_rank u' = max_rank u /\
    (forall e, ub_rank (ufget u' e) = ub_rank (ufget u e)) /\
    (forall e, (e < length u)%nat -> rep u' e = rep u e) /\
    (forall e, is_uroot u e -> ufget u' e = ufget u e) /\
    (forall e, is_uroot u' e -> is_uroot u e).
Proof. exact root_element_ok. Qed.
Print Assumptions C04_uf_root_element.

(* the linking step of UbElement::unify (rank increment on equal ranks, then y.data := EqualTo(x)):
   keeps the rank invariant and merges exactly the classes of the two roots *)
Theorem C04_uf_link : forall (u : uf) (x y : nat), uf_wf u -> (x < length u)%nat -> (y < length u)%nat ->
  is_uroot u x -> is_uroot u y -> x <> y -> (ub_rank (ufget u y) <= ub_rank (ufget u x))%N ->
  uf_wf (ub_link u x y) /\ length (ub_link u x y) = length u /\
  forall e, (e < length u)%nat -> rep (ub_link u x y) e = if Nat.eqb (rep u e) y then x else rep u e.
Proof. exact ub_link_spec. Qed.
Print Assumptions C04_uf_link.

(* the full refinement (the slab model of Infer/Slab.v computes, on every construction, what the
   reference computes) is compared case by case (RunSlab.run_both) and stated here *)
Definition C04_slab_refines_reference_statement : Prop :=
  forall (fmode : nat) (program : bool) (order : list nat) (jets : list (N * N * list N * list N)) (p : prog),
    strip99 (run_rinfer fmode program order jets p) = run_infer program order jets p.

(* ------------------------------------------------------------------ what is independent of the order, error class included *)

(* solve succeeds exactly when store and equations have a model in possibly infinite trees; it
   reports a clash exactly when they have none *)
Theorem C04_solve_ok_iff : forall (s : store) (eqs : list (nat * nat)), wf s -> eqs_in (length s) eqs ->
  ((exists s', solve s eqs = Ok s') <-> consistent s eqs).
Proof. exact solve_ok_iff. Qed.
Print Assumptions C04_solve_ok_iff.

Theorem C04_solve_err_iff : forall (s : store) (eqs : list (nat * nat)), wf s -> eqs_in (length s) eqs ->
  (solve s eqs = Err tt <-> ~ consistent s eqs).
Proof. exact solve_err_iff. Qed.
Print Assumptions C04_solve_err_iff.

(* any reordering (any list with the same members) of the equations gives the same outcome class:
   clash / solved store failing the occurs check / solved store passing it, and then the same
   resolved type of every variable *)
Theorem C04_solve_perm_class : forall (s : store) (eqs eqs' : list (nat * nat)),
  wf s -> eqs_in (length s) eqs -> same_members eqs eqs' ->
  match solve s eqs, solve s eqs' with
  | Ok s1, Ok s2 =>
      occurs_ok s1 = occurs_ok s2 /\
      (occurs_ok s1 = true -> forall v, (v < length s)%nat -> res s1 v = res s2 v)
  | Err _, Err _ => True
  | _, _ => False
  end.
Proof. exact solve_perm_class. Qed.
Print Assumptions C04_solve_perm_class.

(* what does depend on the order: the failing equation is the last one of the shortest inconsistent prefix *)
Theorem C04_solve_first_failure : forall (s : store) (eqs : list (nat * nat)), wf s -> eqs_in (length s) eqs ->
  (solve s eqs = Err tt <->
   exists k x y, nth_error eqs k = Some (x, y) /\ consistent s (firstn k eqs) /\ ~ consistent s (firstn (S k) eqs)).
Proof. exact solve_first_failure. Qed.
Print Assumptions C04_solve_first_failure.

(* the error class of infer in terms of the constraint SET *)
Theorem C04_infer_class_char : forall jt root p g rb re, gen jt p = Some g -> root_tmpl g root = Some (rb, re) ->
  let c0 := consistent (g_store g) (g_eqs g) in
  let c1 := consistent (g_store g ++ rb) (g_eqs g ++ re) in
  let fin := finite_model (g_store g ++ rb) (g_eqs g ++ re) in
  (infer jt root p = Err (EBind 0) <-> ~ c0) /\
  (infer jt root p = Err (EBind 1) <-> c0 /\ ~ c1) /\
  (infer jt root p = Err EOccurs <-> c1 /\ ~ fin) /\
  ((exists tau, infer jt root p = Ok tau) <-> fin).
Proof. exact infer_class_char. Qed.
Print Assumptions C04_infer_class_char.

(* construction orders: the class is the same for every valid order - full statement, and its proof by
   computation for all 1565 programs of <= 3 nodes over 5 leaves + 7 combinators x all orders x program flag *)
Definition C04_class_order_statement : Prop := class_order_statement.

Theorem C04_class_order_partial :
  forallb check_table (all_tables 1 ++ all_tables 2 ++ all_tables 3) = true.
Proof. exact class_order_small. Qed.
Print Assumptions C04_class_order_partial.

(* Type::to_incomplete reports <self-reference> exactly when the reference occurs check fails on that variable *)
Theorem C04_to_incomplete_cycle : forall (s : store) (v : nat), show_inc s v = [8%N] <-> res s v = None.
Proof. exact show_inc_cycle. Qed.
Print Assumptions C04_to_incomplete_cycle.

Example C04_ex_consistent_cyclic :
  (* iden; disconnect iden iden: the constraints are consistent in infinite trees (solve succeeds) but have no finite model *)
  exists g s', gen [] [NIden; NDisconnect 0 (Some 0%nat)] = Some g /\ solve (g_store g) (g_eqs g) = Ok s' /\ occurs_ok s' = false.
Proof. eexists. eexists. split; [reflexivity|]. split; vm_compute; reflexivity. Qed.

Example C04_ex_uf :
  let u := [mk_ub (UEq 1) 0; mk_ub (UEq 2) 1; mk_ub (URoot 7) 2] in
  uf_wf u /\ root_element (uf_fuel u) u 0 = Ok ([mk_ub (UEq 2) 0; mk_ub (UEq 2) 1; mk_ub (URoot 7) 2], 2%nat).
Proof.
  cbn zeta. split; [|vm_compute; reflexivity].
  intros [|[|[|e]]] H; cbn in *; try lia; auto; split; lia.
Qed.

(* ------------------------------------------------------------------ Display of types::Error on the slab model *)

(* a Bind error whose existing bound is a complete type t prints Final's whole Display of t *)
Theorem C04_error_display_embeds : forall (c : ctx) st ex nb t,
  (ex < length (c_slab c))%nat -> slab_get c ex = RComplete t ->
  forall n x, err_display (RBind st ex nb) c = Ok (n, x) ->
  x = [TFinal t] /\ (length (display_final t) <= length (expand n ++ expand x))%nat.
Proof. exact err_display_embeds. Qed.
Print Assumptions C04_error_display_embeds.

(* F-C04 on the model of the error path: no bound on the text of a type error *)
Theorem C04_error_display_unbounded_refuted : forall B : nat, exists c e n x,
  err_display e c = Ok (n, x) /\ (B < length (expand n ++ expand x))%nat.
Proof. exact err_display_unbounded_refuted. Qed.
Print Assumptions C04_error_display_unbounded_refuted.

(* apart from embedded complete types the message is bounded: each of the two bounds takes at most
   3 (MAX_DISPLAY_LENGTH + 1) + 1 tokens, one token per embedded complete type *)
Theorem C04_error_display_bounded : forall (c : ctx) e n x, err_display e c = Ok (n, x) ->
  (length n <= 3 * (disp_length + 1) + 1)%nat /\ (length x <= 3 * (disp_length + 1) + 1)%nat.
Proof. exact err_display_bounded. Qed.
Print Assumptions C04_error_display_bounded.

(* ------------------------------------------------------------------ the slab model against valuations (first part of the refinement) *)

(* bound.root(): returns the BoundRef of the representative; partition, representatives' data and models unchanged *)
Theorem C04_slab_root : forall (c : ctx) (e : nat), cwf c -> (e < length (c_uf c))%nat ->
  exists u', c_root c e = Ok (put_uf c u', bref_of (c_uf c) (rep (c_uf c) e)) /\ same_part (c_uf c) u' /\
             (forall al, rsat al (put_uf c u') <-> rsat al c).
Proof.
  intros c e CW He. destruct (c_root_spec c e CW He) as (u' & E & P).
  exists u'. split; [exact E|]. split; [exact P|]. intros al. apply rsat_same_part. exact P.
Qed.
Print Assumptions C04_slab_root.

(* bind(existing, Complete t) - the Complete-vs-Incomplete arms of context.rs as written, recursing on the
   roots of both children - is sound: every model of the state it returns is a model of the state before
   in which the class of `existing` has type t; no class is merged *)
Theorem C04_slab_bind_complete_sound : forall fuel (c : ctx) b t c' eb,
  cwf c -> holds_ref c eb b ->
  bind fuel c b (RComplete t) = Ok c' ->
  cwf c' /\ keeps_part c c' /\ length (c_slab c') = length (c_slab c) /\
  (forall al, rsat al c' -> rsat al c /\ al eb = t).
Proof. exact bind_complete_sound. Qed.
Print Assumptions C04_slab_bind_complete_sound.

(* A x A against the complete asymmetric 2 x 2^8: the hypotheses hold and the model rejects *)
Example C04_ex_slab_bind_asym :
  let c := mk_ctx [RFree; RProd 0 0] [mk_ub (URoot 0) 0; mk_ub (URoot 1) 0] in
  cwf c /\ holds_ref c 1 1 /\ exists e, bind 10 c 1 (RComplete (Prod Bit (word_ty 3))) = Err e.
Proof.
  cbn zeta. split; [|split].
  - unfold cwf. cbn [c_uf c_slab]. split; [|split; [|split]].
    + intros [|[|e]] H; cbn in *; try lia; exact I.
    + intros [|[|b]] x y [H|H]; cbn in H; try discriminate; try (injection H as <- <-; cbn; lia);
        destruct b; discriminate.
    + intros [|[|e]] [|[|e']] H H' R R' E; cbn in *; try lia; try reflexivity; discriminate.
    + intros [|[|e]] H R; cbn in *; lia.
  - unfold holds_ref. cbn. repeat split; lia.
  - eexists. vm_compute. reflexivity.
Qed.
