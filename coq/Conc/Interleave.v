(* C20 - results are independent of threads and scheduling: the part that is logic.

   What the library shares between threads while types are inferred:
     src/types/variable.rs   NEXT_ID: one process-wide atomic counter, `fetch_add(1, SeqCst)`,
                             used only to make the *names* of fresh type variables unique;
     src/types/context.rs    Context { inner: Arc<Mutex<..slab..>> }: every operation locks the
                             one context it is given; nodes of different contexts cannot be
                             combined (check_eq -> InferenceContextMismatch);
     immutable data          Arc<Final> types, values, commitment and redemption programs:
                             read only.
   Model: a global state = name counter x map from context id to an abstract per-context
   inference state x the remaining operations of every thread; an operation acts on ONE
   context (owned by the thread that issues it) and may take ONE fresh name from the counter.
   (In the code a name is taken by `new_name` and stored in the context by a later, separately
   locked, `alloc_free`; the second step touches thread-owned state only, so merging the two
   into one atomic step does not change the set of reachable results.)
   The per-context semantics is a Section variable [step] with one hypothesis: it never looks
   inside names (it is equivariant under every renaming).  In the code names only end up in
   `Bound::Free(name)` and from there in error values and Display output.

   Theorem [schedule_independent]: for any two schedules that give thread k the same number of
   steps - in particular an arbitrary interleaving and the run of thread k alone - the sequences
   of results of thread k are equal up to a renaming of variable names that is injective on the
   names involved.  [schedule_independent_erased]: after erasing names they are equal.

   What this does not cover: data races, memory ordering, thread-local initialisation, the
   C code and its static tables, the allocator shims, deadlock freedom of std::sync::Mutex.
   Those are exercised by the stress comparison of tools/props/c20.py, not proved. *)
From RS Require Import Lib.Tac.
Import ListNotations.
Local Open Scope N_scope.

Definition upd {A} (f : nat -> A) (i : nat) (a : A) : nat -> A :=
  fun j => if Nat.eqb j i then a else f j.

Lemma upd_same {A} (f : nat -> A) i a : upd f i a i = a.
Proof. unfold upd. rewrite Nat.eqb_refl. reflexivity. Qed.

Lemma upd_other {A} (f : nat -> A) i j a : j <> i -> upd f i a j = f j.
Proof. intros H. unfold upd. destruct (Nat.eqb_spec j i); [contradiction|reflexivity]. Qed.

Section Interleave.

Variables (D St R Op : Type).
Variable shared : D.                          (* immutable shared data *)
Variable needs_name : Op -> bool.             (* does the operation call new_name? *)
Variable step : D -> Op -> option N -> St -> St * R.
Variable ren_S : (N -> N) -> St -> St.        (* renaming of the names stored in a context *)
Variable ren_R : (N -> N) -> R -> R.          (* ... and of the names shown in a result *)

Hypothesis step_equivariant : forall rho op n s,
  step shared op (option_map rho n) (ren_S rho s) =
  (ren_S rho (fst (step shared op n s)), ren_R rho (snd (step shared op n s))).

(* ---------------------------------------------------------------- global machine *)

Record gstate := {
  counter : N;
  ctxs : nat -> St;                           (* context id -> state *)
  progs : nat -> list (nat * Op) }.           (* thread id -> remaining (context id, operation) *)

(* one event of the trace: which thread, the name it was handed (if any), its result *)
Definition event := (nat * option N * R)%type.

Definition name_for (op : Op) (g : gstate) : option N :=
  if needs_name op then Some (counter g) else None.

Definition after (k c : nat) (op : Op) (rest : list (nat * Op)) (g : gstate) : gstate :=
  {| counter := if needs_name op then counter g + 1 else counter g;
     ctxs := upd (ctxs g) c (fst (step shared op (name_for op g) (ctxs g c)));
     progs := upd (progs g) k rest |}.

(* an arbitrary interleaving: the list of thread ids that take a step, in order; a thread with
   nothing left to do skips *)
Fixpoint run_schedule (sch : list nat) (g : gstate) : list event :=
  match sch with
  | [] => []
  | k :: sch' =>
      match progs g k with
      | [] => run_schedule sch' g
      | (c, op) :: rest =>
          (k, name_for op g, snd (step shared op (name_for op g) (ctxs g c)))
            :: run_schedule sch' (after k c op rest g)
      end
  end.

Definition results_for (k : nat) (tr : list event) : list R :=
  flat_map (fun e : event => let '(k', _, r) := e in if Nat.eqb k' k then [r] else []) tr.

Definition names_for (k : nat) (tr : list event) : list N :=
  flat_map (fun e : event => let '(k', n, _) := e in
                             if Nat.eqb k' k then match n with Some x => [x] | None => [] end else []) tr.

(* every context is used by one thread only *)
Definition owned (owner : nat -> nat) (g : gstate) : Prop :=
  forall k c op, In (c, op) (progs g k) -> owner c = k.

(* ---------------------------------------------------------------- a thread on its own *)

(* the thread-local run: [fuel] steps, names taken from a supply *)
Fixpoint local_run (fuel : nat) (names : list N) (ops : list (nat * Op)) (cx : nat -> St) : list R :=
  match fuel, ops with
  | S f, (c, op) :: rest =>
      if needs_name op then
        match names with
        | [] => []
        | n :: names' =>
            snd (step shared op (Some n) (cx c))
              :: local_run f names' rest (upd cx c (fst (step shared op (Some n) (cx c))))
        end
      else
        snd (step shared op None (cx c))
          :: local_run f names rest (upd cx c (fst (step shared op None (cx c))))
  | _, _ => []
  end.

Lemma local_run_ext : forall fuel names ops cx cx',
  (forall c op, In (c, op) ops -> cx c = cx' c) ->
  local_run fuel names ops cx = local_run fuel names ops cx'.
Proof.
  induction fuel as [|f IH]; intros names ops cx cx' H; [reflexivity|].
  destruct ops as [|[c op] rest]; [reflexivity|]. cbn [local_run].
  assert (E : cx c = cx' c) by (apply (H c op); left; reflexivity). rewrite E.
  destruct (needs_name op).
  - destruct names as [|n names']; [reflexivity|]. f_equal. apply IH.
    intros c0 op0 Hin. unfold upd. destruct (Nat.eqb c0 c); [reflexivity|]. apply (H c0 op0). right; exact Hin.
  - f_equal. apply IH.
    intros c0 op0 Hin. unfold upd. destruct (Nat.eqb c0 c); [reflexivity|]. apply (H c0 op0). right; exact Hin.
Qed.

Lemma owned_after owner k c op rest g :
  progs g k = (c, op) :: rest -> owned owner g -> owned owner (after k c op rest g).
Proof.
  intros E H k' c' op' Hin. cbn [after progs] in Hin. unfold upd in Hin.
  destruct (Nat.eqb_spec k' k) as [->|Hne].
  - apply (H k c' op'). rewrite E. right; exact Hin.
  - apply (H k' c' op'). exact Hin.
Qed.

(* non-interference: what thread k sees in any interleaving is its own program run on the
   names it was handed *)
Lemma local_sim owner : forall sch g k, owned owner g ->
  results_for k (run_schedule sch g) =
  local_run (count_occ Nat.eq_dec sch k) (names_for k (run_schedule sch g)) (progs g k) (ctxs g).
Proof.
  induction sch as [|k' sch IH]; intros g k Hown; [reflexivity|].
  cbn [run_schedule count_occ].
  destruct (progs g k') as [|[c op] rest] eqn:E.
  - (* k' has nothing left: skip *)
    rewrite IH by exact Hown.
    destruct (Nat.eq_dec k' k) as [->|Hne]; [|reflexivity].
    rewrite E. destruct (count_occ Nat.eq_dec sch k); reflexivity.
  - pose proof (owned_after owner k' c op rest g E Hown) as Hown'.
    cbn [results_for names_for flat_map]. fold (results_for k (run_schedule sch (after k' c op rest g))).
    fold (names_for k (run_schedule sch (after k' c op rest g))).
    destruct (Nat.eq_dec k' k) as [->|Hne].
    + rewrite Nat.eqb_refl. rewrite E. cbn [local_run app].
      rewrite (IH _ k Hown'). cbn [after progs ctxs]. rewrite upd_same.
      unfold name_for. destruct (needs_name op); cbn [app]; reflexivity.
    + destruct (Nat.eqb_spec k' k) as [Heq|_]; [contradiction|]. cbn [app].
      rewrite (IH _ k Hown'). cbn [after progs ctxs]. rewrite upd_other by congruence.
      apply local_run_ext. intros c0 op0 Hin.
      apply upd_other. intros ->.
      assert (owner c = k) by (apply (Hown k c op0); exact Hin).
      assert (owner c = k') by (apply (Hown k' c op); rewrite E; left; reflexivity).
      congruence.
Qed.

(* the thread-local run commutes with renaming *)
Lemma local_run_equivariant rho : forall fuel names ops cx cx',
  (forall c, cx' c = ren_S rho (cx c)) ->
  local_run fuel (map rho names) ops cx' = map (ren_R rho) (local_run fuel names ops cx).
Proof.
  induction fuel as [|f IH]; intros names ops cx cx' H; [reflexivity|].
  destruct ops as [|[c op] rest]; [reflexivity|]. cbn [local_run].
  destruct (needs_name op).
  - destruct names as [|n names']; [reflexivity|]. cbn [map].
    rewrite (H c). pose proof (step_equivariant rho op (Some n) (cx c)) as Eq. cbn [option_map] in Eq.
    rewrite Eq. cbn [fst snd]. f_equal. apply IH.
    intros c0. unfold upd. destruct (Nat.eqb c0 c); [reflexivity|apply H].
  - cbn [map].
    rewrite (H c). pose proof (step_equivariant rho op None (cx c)) as Eq. cbn [option_map] in Eq.
    rewrite Eq. cbn [fst snd]. f_equal. apply IH.
    intros c0. unfold upd. destruct (Nat.eqb c0 c); [reflexivity|apply H].
Qed.

(* ---------------------------------------------------------------- the names a thread is handed *)

Fixpoint count_names (ops : list (nat * Op)) : nat :=
  match ops with
  | [] => O
  | (_, op) :: rest => (if needs_name op then 1 else 0) + count_names rest
  end.

(* how many: determined by the thread's own program and its number of steps *)
Lemma names_for_length : forall sch g k,
  length (names_for k (run_schedule sch g)) =
  count_names (firstn (count_occ Nat.eq_dec sch k) (progs g k)).
Proof.
  induction sch as [|k' sch IH]; intros g k; [reflexivity|].
  cbn [run_schedule count_occ].
  destruct (progs g k') as [|[c op] rest] eqn:E.
  - rewrite IH. destruct (Nat.eq_dec k' k) as [->|Hne]; [|reflexivity].
    rewrite E. rewrite !firstn_nil. reflexivity.
  - cbn [names_for flat_map]. fold (names_for k (run_schedule sch (after k' c op rest g))).
    rewrite app_length, IH. cbn [after progs].
    destruct (Nat.eq_dec k' k) as [->|Hne].
    + rewrite Nat.eqb_refl, upd_same, E. cbn [firstn count_names]. unfold name_for.
      destruct (needs_name op); reflexivity.
    + destruct (Nat.eqb_spec k' k) as [Heq|_]; [contradiction|]. rewrite upd_other by congruence. reflexivity.
Qed.

(* strictly increasing lists, bounded below *)
Fixpoint increasing_from (lo : N) (l : list N) : Prop :=
  match l with
  | [] => True
  | x :: r => lo <= x /\ increasing_from (x + 1) r
  end.

Lemma increasing_from_weaken : forall l lo lo', lo' <= lo -> increasing_from lo l -> increasing_from lo' l.
Proof. destruct l as [|x r]; cbn; intros lo lo' H1 H2; [exact I|]. destruct H2; split; [lia|assumption]. Qed.

Lemma names_for_increasing : forall sch g k, increasing_from (counter g) (names_for k (run_schedule sch g)).
Proof.
  induction sch as [|k' sch IH]; intros g k; [exact I|].
  cbn [run_schedule]. destruct (progs g k') as [|[c op] rest] eqn:E; [apply IH|].
  cbn [names_for flat_map]. fold (names_for k (run_schedule sch (after k' c op rest g))).
  specialize (IH (after k' c op rest g) k). cbn [after counter] in IH. unfold name_for.
  destruct (Nat.eqb k' k); destruct (needs_name op); cbn [app increasing_from];
    try (split; [lia|]); try exact IH; eapply increasing_from_weaken; try exact IH; lia.
Qed.

Lemma increasing_from_lower : forall l lo x, increasing_from lo l -> In x l -> lo <= x.
Proof.
  induction l as [|y r IH]; intros lo x H Hin; [contradiction|]. destruct H as [H1 H2].
  destruct Hin as [->|Hin]; [exact H1|]. specialize (IH _ _ H2 Hin). lia.
Qed.

Lemma increasing_NoDup : forall l lo, increasing_from lo l -> NoDup l.
Proof.
  induction l as [|y r IH]; intros lo H; [constructor|]. destruct H as [H1 H2]. constructor.
  - intros Hin. pose proof (increasing_from_lower _ _ _ H2 Hin). lia.
  - eapply IH; exact H2.
Qed.

(* no name is handed out twice, to whatever threads *)
Definition all_names (tr : list event) : list N :=
  flat_map (fun e : event => let '(_, n, _) := e in match n with Some x => [x] | None => [] end) tr.

Lemma all_names_increasing : forall sch g, increasing_from (counter g) (all_names (run_schedule sch g)).
Proof using Type.
  clear step_equivariant.
  induction sch as [|k' sch IH]; intros g; [exact I|].
  cbn [run_schedule]. destruct (progs g k') as [|[c op] rest] eqn:E; [apply IH|].
  cbn [all_names flat_map]. fold (all_names (run_schedule sch (after k' c op rest g))).
  specialize (IH (after k' c op rest g)). cbn [after counter] in IH. unfold name_for.
  destruct (needs_name op); cbn [app increasing_from]; [split; [lia|exact IH]|exact IH].
Qed.

Theorem names_unique : forall sch g, NoDup (all_names (run_schedule sch g)).
Proof using Type. intros sch g. eapply increasing_NoDup. apply all_names_increasing. Qed.

(* ---------------------------------------------------------------- renamings between two name supplies *)

Fixpoint lookup (tbl : list (N * N)) (x : N) : N :=
  match tbl with
  | [] => x
  | (a, b) :: r => if x =? a then b else lookup r x
  end.

Lemma map_lookup : forall from to, length from = length to -> NoDup from ->
  map (lookup (combine from to)) from = to.
Proof.
  induction from as [|a from IH]; intros [|b to] Hlen Hnd; try discriminate; [reflexivity|].
  cbn [combine map lookup]. rewrite N.eqb_refl. f_equal.
  inversion Hnd as [|? ? Hnotin Hnd']; subst.
  transitivity (map (lookup (combine from to)) from).
  - apply map_ext_in. intros x Hin. destruct (N.eqb_spec x a) as [->|_]; [contradiction|reflexivity].
  - apply IH; [cbn in Hlen; congruence|assumption].
Qed.

Lemma lookup_injective_on : forall from to, length from = length to -> NoDup from -> NoDup to ->
  forall x y, In x from -> In y from -> lookup (combine from to) x = lookup (combine from to) y -> x = y.
Proof.
  intros from to Hlen Hf Ht x y Hx Hy E.
  pose proof (map_lookup from to Hlen Hf) as M.
  destruct (In_nth from x 0 Hx) as (i & Hi & Ei). destruct (In_nth from y 0 Hy) as (j & Hj & Ej).
  assert (Ai : nth i to 0 = lookup (combine from to) x).
  { rewrite <- M at 1. rewrite (nth_indep _ 0 (lookup (combine from to) 0)) by (rewrite map_length; exact Hi).
    rewrite map_nth, Ei. reflexivity. }
  assert (Aj : nth j to 0 = lookup (combine from to) y).
  { rewrite <- M at 1. rewrite (nth_indep _ 0 (lookup (combine from to) 0)) by (rewrite map_length; exact Hj).
    rewrite map_nth, Ej. reflexivity. }
  assert (i = j).
  { apply (proj1 (NoDup_nth to 0) Ht); [lia|lia|congruence]. }
  subst j. congruence.
Qed.

(* ---------------------------------------------------------------- the theorem *)

Definition closed (cx : nat -> St) : Prop := forall rho c, ren_S rho (cx c) = cx c.

(* Two schedules that give thread k the same number of steps - e.g. any interleaving with the
   other threads, and thread k running alone - give thread k the same results up to a renaming
   of fresh names that is injective on the names handed to k. *)
Theorem schedule_independent : forall owner g sch sch' k,
  owned owner g -> closed (ctxs g) ->
  count_occ Nat.eq_dec sch k = count_occ Nat.eq_dec sch' k ->
  exists rho : N -> N,
    results_for k (run_schedule sch g) = map (ren_R rho) (results_for k (run_schedule sch' g)) /\
    names_for k (run_schedule sch g) = map rho (names_for k (run_schedule sch' g)) /\
    (forall x y, In x (names_for k (run_schedule sch' g)) -> In y (names_for k (run_schedule sch' g)) ->
                 rho x = rho y -> x = y).
Proof.
  intros owner g sch sch' k Hown Hclosed Hcount.
  set (to := names_for k (run_schedule sch g)).
  set (from := names_for k (run_schedule sch' g)).
  assert (Hlen : length from = length to).
  { unfold from, to. rewrite !names_for_length, Hcount. reflexivity. }
  assert (Hf : NoDup from) by (eapply increasing_NoDup; apply names_for_increasing).
  assert (Ht : NoDup to) by (eapply increasing_NoDup; apply names_for_increasing).
  exists (lookup (combine from to)).
  pose proof (map_lookup from to Hlen Hf) as M.
  split; [|split].
  - rewrite (local_sim owner sch g k Hown), (local_sim owner sch' g k Hown), Hcount.
    fold to from. rewrite <- M at 1.
    apply local_run_equivariant. intros c. symmetry. apply Hclosed.
  - symmetry. exact M.
  - intros x y Hx Hy. apply lookup_injective_on; assumption.
Qed.

(* the sequential run of thread k: k alone takes all the steps it takes in [sch] *)
Definition alone (k : nat) (sch : list nat) : list nat := repeat k (count_occ Nat.eq_dec sch k).

Lemma count_occ_alone k sch : count_occ Nat.eq_dec sch k = count_occ Nat.eq_dec (alone k sch) k.
Proof.
  unfold alone. induction (count_occ Nat.eq_dec sch k) as [|n IH]; [reflexivity|].
  cbn [repeat count_occ]. destruct (Nat.eq_dec k k); [congruence|contradiction].
Qed.

Corollary schedule_independent_alone : forall owner g sch k,
  owned owner g -> closed (ctxs g) ->
  exists rho : N -> N,
    results_for k (run_schedule sch g) = map (ren_R rho) (results_for k (run_schedule (alone k sch) g)) /\
    (forall x y, In x (names_for k (run_schedule (alone k sch) g)) ->
                 In y (names_for k (run_schedule (alone k sch) g)) -> rho x = rho y -> x = y).
Proof.
  intros owner g sch k Hown Hcl.
  destruct (schedule_independent owner g sch (alone k sch) k Hown Hcl (count_occ_alone k sch)) as (rho & A & _ & C).
  exists rho. auto.
Qed.

(* with names erased from the results (what the stress comparison compares) they are equal *)
Corollary schedule_independent_erased : forall (E : Type) (erase : R -> E) owner g sch sch' k,
  (forall rho r, erase (ren_R rho r) = erase r) ->
  owned owner g -> closed (ctxs g) ->
  count_occ Nat.eq_dec sch k = count_occ Nat.eq_dec sch' k ->
  map erase (results_for k (run_schedule sch g)) = map erase (results_for k (run_schedule sch' g)).
Proof.
  intros E erase owner g sch sch' k Her Hown Hcl Hc.
  destruct (schedule_independent owner g sch sch' k Hown Hcl Hc) as (rho & A & _).
  rewrite A, map_map. apply map_ext. intros r. apply Her.
Qed.

End Interleave.

(* ------------------------------------------------------------------ a concrete instance *)

(* Per-context state: the slab of the free variables allocated in the context, by name.
   Operations: create a node whose arrow needs [n] fresh variables one at a time (unit and iden
   take one, witness and fail two, ...) - each is ONE step taking ONE name here, so a node
   needing two names is two consecutive operations of the thread, between which other threads
   may run, exactly as in the code; read back the name stored in a slot; count the slots. *)
Inductive cop := CAlloc | CRead (slot : nat) | CSize.
Inductive cres := RName (n : N) | RSlot (n : option N) | RCount (n : nat).

Definition cneeds (o : cop) : bool := match o with CAlloc => true | _ => false end.

Definition cstep (_ : unit) (o : cop) (n : option N) (s : list N) : list N * cres :=
  match o with
  | CAlloc => match n with
              | Some x => (s ++ [x], RName x)
              | None => (s, RSlot None)
              end
  | CRead i => (s, RSlot (nth_error s i))
  | CSize => (s, RCount (length s))
  end.

Definition cren_S (rho : N -> N) (s : list N) : list N := map rho s.
Definition cren_R (rho : N -> N) (r : cres) : cres :=
  match r with
  | RName x => RName (rho x)
  | RSlot o => RSlot (option_map rho o)
  | RCount n => RCount n
  end.

Lemma cstep_equivariant : forall rho op n s,
  cstep tt op (option_map rho n) (cren_S rho s) =
  (cren_S rho (fst (cstep tt op n s)), cren_R rho (snd (cstep tt op n s))).
Proof.
  intros rho op n s. destruct op as [|i|]; cbn [cstep].
  - destruct n as [x|]; cbn [option_map fst snd cren_R]; unfold cren_S; [rewrite map_app|]; reflexivity.
  - cbn [fst snd cren_R]. unfold cren_S.
    assert (E : nth_error (map rho s) i = option_map rho (nth_error s i)).
    { revert i. induction s as [|a s IH]; intros [|i]; cbn; auto. }
    rewrite E. reflexivity.
  - cbn [fst snd cren_R]. unfold cren_S. rewrite map_length. reflexivity.
Qed.

Definition crun := run_schedule unit (list N) cres cop tt cneeds cstep.
Definition cinit (c0 : N) (programs : list (list (nat * cop))) : gstate (list N) cop :=
  {| counter := c0; ctxs := fun _ => []; progs := fun k => nth k programs [] |}.

(* every interleaving of concrete threads is a renaming of the thread running alone *)
Theorem concrete_schedule_independent : forall owner c0 programs sch k,
  owned (list N) cop owner (cinit c0 programs) ->
  exists rho : N -> N,
    results_for cres k (crun sch (cinit c0 programs)) =
    map (cren_R rho) (results_for cres k (crun (alone k sch) (cinit c0 programs))) /\
    (forall x y, In x (names_for cres k (crun (alone k sch) (cinit c0 programs))) ->
                 In y (names_for cres k (crun (alone k sch) (cinit c0 programs))) -> rho x = rho y -> x = y).
Proof.
  intros owner c0 programs sch k Hown.
  apply (schedule_independent_alone unit (list N) cres cop tt cneeds cstep cren_S cren_R cstep_equivariant owner).
  - exact Hown.
  - intros rho c. reflexivity.
Qed.

(* non-vacuity: two threads, contexts 0 and 1, a schedule that interleaves them *)
Definition ex_programs : list (list (nat * cop)) :=
  [ [(0%nat, CAlloc); (0%nat, CAlloc); (0%nat, CRead 1); (0%nat, CSize)];
    [(1%nat, CAlloc); (1%nat, CRead 0); (1%nat, CAlloc); (1%nat, CRead 1)] ].
Definition ex_schedule : list nat := [0; 1; 1; 0; 1; 0; 1; 0]%nat.

Example ex_owned : owned (list N) cop (fun c => c) (cinit 1 ex_programs).
Proof.
  intros k c op H. cbn [cinit progs] in H.
  destruct k as [|[|k]]; cbn in H.
  - repeat (destruct H as [H|H]; [injection H as <- _; reflexivity|]). contradiction.
  - repeat (destruct H as [H|H]; [injection H as <- _; reflexivity|]). contradiction.
  - destruct k; contradiction.
Qed.

Example ex_interleaved :
  results_for cres 0 (crun ex_schedule (cinit 1 ex_programs)) = [RName 1; RName 3; RSlot (Some 3); RCount 2] /\
  results_for cres 1 (crun ex_schedule (cinit 1 ex_programs)) = [RName 2; RSlot (Some 2); RName 4; RSlot (Some 4)] /\
  results_for cres 0 (crun (alone 0 ex_schedule) (cinit 1 ex_programs)) = [RName 1; RName 2; RSlot (Some 2); RCount 2] /\
  results_for cres 1 (crun (alone 1 ex_schedule) (cinit 1 ex_programs)) = [RName 1; RSlot (Some 1); RName 2; RSlot (Some 2)].
Proof. vm_compute. repeat split; reflexivity. Qed.
