(* C04, phase 3 - layers (a)/(b) of the refinement, instantiated and tied to the reference `unify`.

     * finite types (`ty`, Leibniz equality):  drsat = SlabProofs.rsat;  unify / bind on the slab compute exactly
       the finite models (fin_unify_exact, fin_bind_exact);
     * possibly infinite trees (Rational.itree):  every well-formed slab state has a model (rwalk_model, the
       analogue of Rational.walk_model), hence
           ctx_unify fuel c x y = Ok _   ->  c has a tree model with x = y
           ctx_unify fuel c x y = Err _  ->  it has none                                   (slab_unify_class)
       which is what Rational.solve_ok_iff / solve_err_iff say of the reference;
     * the simulation step (unify_simulates): if a slab state c and a reference store s have the same models
       through an embedding `em` of UbElements into store variables (msim, in both domains), then
       `ctx_unify fuel c x y` and the reference `unify_top s (em x) (em y)` both succeed or both fail, and on
       success the resulting states again have the same models through the same embedding.
   As in SlabSim.v the statements are about Ok / Err results of the slab model (its Panic / OutOfFuel outcomes
   are not excluded here). *)
From RS Require Import Lib.Tac Lib.Outcome Ty.Ty Core.Prog Infer.Constraints Infer.Unify Infer.Infer
  Infer.UnionFind Infer.Slab Infer.SlabProofs Infer.Rational Infer.SlabSim.
Import ListNotations.
Local Open Scope outcome_scope.

(* ------------------------------------------------------------------ the two domains *)

Ltac fin_hyps :=
  try (intros; reflexivity); try (intros; symmetry; assumption); try (intros; etransitivity; eassumption);
  try (intros; subst; reflexivity); try (intros ? ? ? ? H; injection H; auto); try (intros; discriminate).

Definition fsat : (nat -> ty) -> ctx -> Prop := drsat ty eq One Sum Prod.
Definition tsat_r : (nat -> itree) -> ctx -> Prop := drsat itree teq tone tsum tprod.

Lemma dof_ty t : dof ty One Sum Prod t = t.
Proof. induction t; cbn [dof]; congruence. Qed.

Lemma fsat_rsat al c : fsat al c <-> rsat al c.
Proof.
  unfold fsat, drsat, rsat.
  assert (H : forall e b, dholds_r ty eq One Sum Prod al e b <-> holds_r al e b).
  { intros e b. destruct b; cbn [dholds_r holds_r]; rewrite ?dof_ty; tauto. }
  split; intros [H1 H2]; (split; [exact H1|]); intros e He Hr; apply H; apply H2; assumption.
Qed.

Theorem fin_unify_exact : forall fuel c x y, cwf c -> (x < length (c_uf c))%nat -> (y < length (c_uf c))%nat ->
  match ctx_unify fuel c x y with
  | Ok c' => cwf c' /\ length (c_uf c') = length (c_uf c) /\ (forall al, rsat al c' <-> rsat al c /\ al x = al y)
  | Err _ => forall al, ~ (rsat al c /\ al x = al y)
  | _ => True
  end.
Proof.
  intros fuel c x y CW Lx Ly.
  pose proof (unify_spec_all ty eq One Sum Prod) as U.
  specialize (U ltac:(fin_hyps) ltac:(fin_hyps) ltac:(fin_hyps) ltac:(fin_hyps) ltac:(fin_hyps)
                ltac:(fin_hyps) ltac:(fin_hyps) ltac:(fin_hyps) ltac:(fin_hyps) ltac:(fin_hyps) fuel c x y CW Lx Ly).
  destruct (ctx_unify fuel c x y) as [c'|e| |]; try exact I.
  - destruct U as ((CW' & L & _) & _ & S). split; [exact CW'|]. split; [exact L|].
    intros al. rewrite <- !fsat_rsat. apply S.
  - intros al. rewrite <- fsat_rsat. apply U.
Qed.

Theorem fin_bind_exact : forall fuel c b new eb, cwf c -> holds_ref c eb b -> bound_in (length (c_uf c)) new ->
  match bind fuel c b new with
  | Ok c' => cwf c' /\ length (c_uf c') = length (c_uf c) /\ (forall al, rsat al c' <-> rsat al c /\ holds_r al eb new)
  | Err _ => forall al, ~ (rsat al c /\ holds_r al eb new)
  | _ => True
  end.
Proof.
  intros fuel c b new eb CW HR BI.
  pose proof (bind_spec_all ty eq One Sum Prod) as U.
  specialize (U ltac:(fin_hyps) ltac:(fin_hyps) ltac:(fin_hyps) ltac:(fin_hyps) ltac:(fin_hyps)
                ltac:(fin_hyps) ltac:(fin_hyps) ltac:(fin_hyps) ltac:(fin_hyps) ltac:(fin_hyps) fuel c b new eb CW HR BI).
  assert (H : forall al, dholds_r ty eq One Sum Prod al eb new <-> holds_r al eb new).
  { intros al. destruct new; cbn [dholds_r holds_r]; rewrite ?dof_ty; tauto. }
  destruct (bind fuel c b new) as [c'|e| |]; try exact I.
  - destruct U as ((CW' & L & _) & S). split; [exact CW'|]. split; [exact L|].
    intros al. rewrite <- !fsat_rsat, <- H. apply S.
  - intros al. rewrite <- fsat_rsat, <- H. apply U.
Qed.

(* ------------------------------------------------------------------ every well-formed state has a tree model *)

Definition tof : ty -> itree := dof itree tone tsum tprod.

Fixpoint rwalk (c : ctx) (e : nat) (p : list bool) : option lab :=
  match slab_get c (bref_of (c_uf c) (rep (c_uf c) e)) with
  | RFree => tone p
  | RComplete t => tof t p
  | RSum a b => match p with [] => Some LSum | d :: q => rwalk c (if d then b else a) q end
  | RProd a b => match p with [] => Some LProd | d :: q => rwalk c (if d then b else a) q end
  end.

Lemma rwalk_unfold c e p : rwalk c e p =
  match slab_get c (bref_of (c_uf c) (rep (c_uf c) e)) with
  | RFree => tone p
  | RComplete t => tof t p
  | RSum a b => tsum (rwalk c a) (rwalk c b) p
  | RProd a b => tprod (rwalk c a) (rwalk c b) p
  end.
Proof.
  destruct p as [|[|] q]; cbn [rwalk]; destruct (slab_get c _); reflexivity.
Qed.

Lemma rep_idem u e : uf_wf u -> (e < length u)%nat -> rep u (rep u e) = rep u e.
Proof. intros W He. apply rep_of_root. apply rep_root; assumption. Qed.

Theorem rwalk_model c : cwf c -> tsat_r (rwalk c) c.
Proof.
  intros (W & Ch & Un & Br). split.
  - intros e He p. rewrite (rwalk_unfold c e), (rwalk_unfold c (rep (c_uf c) e)), rep_idem by assumption. reflexivity.
  - intros e He Hr.
    assert (E : forall p, rwalk c e p = match slab_get c (bref_of (c_uf c) e) with
                                      | RFree => tone p
                                      | RComplete t => tof t p
                                      | RSum a b => tsum (rwalk c a) (rwalk c b) p
                                      | RProd a b => tprod (rwalk c a) (rwalk c b) p
                                      end).
    { intros p. rewrite rwalk_unfold, (rep_of_root _ e Hr). reflexivity. }
    destruct (slab_get c (bref_of (c_uf c) e)) as [|t|a b|a b]; cbn [dholds_r]; [exact I| | |]; intros p; apply E.
Qed.

Definition slab_consistent (c : ctx) (x y : nat) : Prop := exists al, tsat_r al c /\ teq (al x) (al y).

Theorem slab_unify_class : forall fuel c x y, cwf c -> (x < length (c_uf c))%nat -> (y < length (c_uf c))%nat ->
  match ctx_unify fuel c x y with
  | Ok c' => cwf c' /\ slab_consistent c x y
  | Err _ => ~ slab_consistent c x y
  | _ => True
  end.
Proof.
  intros fuel c x y CW Lx Ly.
  pose proof (unify_spec_all itree teq tone tsum tprod) as U.
  specialize (U ltac:(dom_hyps) ltac:(dom_hyps) ltac:(dom_hyps) ltac:(dom_hyps) ltac:(dom_hyps)
                ltac:(dom_hyps) ltac:(dom_hyps) ltac:(dom_hyps) ltac:(dom_hyps) ltac:(dom_hyps) fuel c x y CW Lx Ly).
  destruct (ctx_unify fuel c x y) as [c'|e| |]; try exact I.
  - destruct U as ((CW' & _) & _ & S). split; [exact CW'|]. exists (rwalk c'). apply S. apply rwalk_model. exact CW'.
  - intros (al & Sa & E). apply (U al). split; assumption.
Qed.

(* ------------------------------------------------------------------ the simulation step against the reference store *)

Section Msim.
  Variable D : Type.
  Variable deq : D -> D -> Prop.
  Variable done : D.
  Variable dsum dprod : D -> D -> D.
  Hypothesis deq_refl : forall a, deq a a.
  Hypothesis deq_sym : forall a b, deq a b -> deq b a.
  Hypothesis deq_trans : forall a b c, deq a b -> deq b c -> deq a c.
  Hypothesis dsum_cong : forall a b c d, deq a c -> deq b d -> deq (dsum a b) (dsum c d).
  Hypothesis dprod_cong : forall a b c d, deq a c -> deq b d -> deq (dprod a b) (dprod c d).
  Hypothesis dsum_inj : forall a b c d, deq (dsum a b) (dsum c d) -> deq a c /\ deq b d.
  Hypothesis dprod_inj : forall a b c d, deq (dprod a b) (dprod c d) -> deq a c /\ deq b d.
  Hypothesis one_sum : forall a b, ~ deq done (dsum a b).
  Hypothesis one_prod : forall a b, ~ deq done (dprod a b).
  Hypothesis sum_prod : forall a b c d, ~ deq (dsum a b) (dprod c d).

  Let ssat := drsat D deq done dsum dprod.
  Let rsat_ := dsat D deq done dsum dprod.

  (* a model of the slab state only matters on the allocated elements, up to deq *)
  Lemma drsat_ext al al' c : cwf c -> (forall e, (e < length (c_uf c))%nat -> deq (al' e) (al e)) -> ssat al c -> ssat al' c.
  Proof.
    intros (W & Ch & Un & Br) E [H1 H2]. split.
    - intros e He. destruct (rep_root _ e W He) as [_ Lr].
      eapply deq_trans; [apply E; exact He|]. eapply deq_trans; [apply H1; exact He|]. apply deq_sym. apply E. exact Lr.
    - intros e He Hr. specialize (H2 e He Hr). pose proof (Ch (bref_of (c_uf c) e)) as Chb.
      destruct (slab_get c (bref_of (c_uf c) e)) as [|t|a b|a b]; cbn [dholds_r] in *; auto.
      + eapply deq_trans; [apply E; exact He|exact H2].
      + destruct (Chb a b (or_introl eq_refl)) as [La Lb].
        eapply deq_trans; [apply E; exact He|]. eapply deq_trans; [exact H2|]. apply dsum_cong; apply deq_sym; apply E; assumption.
      + destruct (Chb a b (or_intror eq_refl)) as [La Lb].
        eapply deq_trans; [apply E; exact He|]. eapply deq_trans; [exact H2|]. apply dprod_cong; apply deq_sym; apply E; assumption.
  Qed.

  (* same models through the embedding em of UbElements into store variables *)
  Definition msimD (c : ctx) (s : store) (em : nat -> nat) : Prop :=
    (forall al, rsat_ al s -> ssat (fun e => al (em e)) c) /\
    (forall be, ssat be c -> exists al, rsat_ al s /\ forall e, (e < length (c_uf c))%nat -> deq (al (em e)) (be e)).

  Lemma msimD_step fuel c x y c' s s' em : cwf c -> wf s ->
    (x < length (c_uf c))%nat -> (y < length (c_uf c))%nat -> (em x < length s)%nat -> (em y < length s)%nat ->
    msimD c s em -> ctx_unify fuel c x y = Ok c' -> unify_top s (em x) (em y) = Ok s' -> msimD c' s' em.
  Proof.
    intros CW Ws Lx Ly Lex Ley [M1 M2] Uc Us.
    pose proof (unify_spec_all D deq done dsum dprod deq_refl deq_sym deq_trans dsum_cong dprod_cong dsum_inj dprod_inj
                  one_sum one_prod sum_prod fuel c x y CW Lx Ly) as U. rewrite Uc in U. destruct U as ((CW' & L' & _) & _ & Sx).
    pose proof (d_unify_sound D deq done dsum dprod deq_refl deq_sym deq_trans dsum_cong dprod_cong dsum_inj dprod_inj
                  one_sum one_prod sum_prod _ s (em x) (em y) s' Ws Lex Ley Us) as Rs.
    split.
    - intros al Sa. destruct (Rs al Sa) as [Sa0 E]. apply Sx. split; [apply M1; exact Sa0|exact E].
    - intros be Sb. apply Sx in Sb. destruct Sb as [Sb E]. destruct (M2 be Sb) as (al & Sa & Ag). exists al.
      split; [|intros e He; apply Ag; lia].
      destruct (d_unify_complete D deq done dsum dprod deq_refl deq_sym deq_trans dsum_cong dprod_cong dsum_inj dprod_inj
                  one_sum one_prod sum_prod (S (nroots s)) s (em x) (em y) al Ws Lex Ley ltac:(lia) Sa) as (s2 & U2 & S2).
      + eapply deq_trans; [apply Ag; exact Lx|]. eapply deq_trans; [exact E|]. apply deq_sym. apply Ag. exact Ly.
      + unfold unify_top in Us. rewrite Us in U2. injection U2 as <-. exact S2.
  Qed.
End Msim.

Definition msim (c : ctx) (s : store) (em : nat -> nat) : Prop :=
  (forall e, (e < length (c_uf c))%nat -> (em e < length s)%nat) /\
  msimD ty eq One Sum Prod c s em /\ msimD itree teq tone tsum tprod c s em.

Theorem unify_simulates : forall fuel c s em x y, cwf c -> wf s -> msim c s em ->
  (x < length (c_uf c))%nat -> (y < length (c_uf c))%nat ->
  match ctx_unify fuel c x y, unify_top s (em x) (em y) with
  | Ok c', Ok s' => cwf c' /\ wf s' /\ msim c' s' em
  | Err _, Err _ => True
  | Ok _, _ | Err _, _ => False
  | _, _ => True
  end.
Proof.
  intros fuel c s em x y CW Ws (Rg & Mf & Mt) Lx Ly.
  pose proof (Rg x Lx) as Lex. pose proof (Rg y Ly) as Ley.
  pose proof (unify_total (S (nroots s)) s (em x) (em y) Ws Lex Ley ltac:(lia)) as T.
  pose proof (unify_spec_all itree teq tone tsum tprod) as U.
  specialize (U ltac:(dom_hyps) ltac:(dom_hyps) ltac:(dom_hyps) ltac:(dom_hyps) ltac:(dom_hyps)
                ltac:(dom_hyps) ltac:(dom_hyps) ltac:(dom_hyps) ltac:(dom_hyps) ltac:(dom_hyps) fuel c x y CW Lx Ly).
  destruct (ctx_unify fuel c x y) as [c'|e| |] eqn:Uc; try exact I.
  - (* the slab succeeds: its tree model gives a tree model of the store *)
    destruct U as ((CW' & L' & _) & _ & Sx).
    pose proof (rwalk_model c' CW') as Mw. apply Sx in Mw. destruct Mw as [Mw E].
    pose proof Mt as [_ Mt2]. destruct (Mt2 _ Mw) as (al & Sa & Ag).
    assert (E' : teq (al (em x)) (al (em y))).
    { eapply teq_trans; [apply Ag; exact Lx|]. eapply teq_trans; [exact E|]. apply teq_sym. apply Ag. exact Ly. }
    destruct (d_unify_complete itree teq tone tsum tprod ltac:(dom_hyps) ltac:(dom_hyps) ltac:(dom_hyps) ltac:(dom_hyps) ltac:(dom_hyps)
                ltac:(dom_hyps) ltac:(dom_hyps) ltac:(dom_hyps) ltac:(dom_hyps) ltac:(dom_hyps)
                (S (nroots s)) s (em x) (em y) al Ws Lex Ley ltac:(lia) Sa E') as (s' & Us & _).
    unfold unify_top. rewrite Us.
    destruct (unify_sound _ _ _ _ _ Ws Lex Ley Us) as (Ws' & Ls' & _ & _).
    split; [exact CW'|]. split; [exact Ws'|]. split; [intros e0 He0; rewrite Ls'; apply Rg; lia|]. split.
    + eapply (msimD_step ty eq One Sum Prod); try exact Uc; try exact Us; auto; fin_hyps.
    + eapply (msimD_step itree teq tone tsum tprod); try exact Uc; try exact Us; auto; dom_hyps.
  - (* the slab fails: the reference cannot succeed *)
    unfold unify_top. destruct (unify (S (nroots s)) s (em x) (em y)) as [s'|[]| |] eqn:Us; try contradiction; try exact I.
    destruct (unify_sound _ _ _ _ _ Ws Lex Ley Us) as (Ws' & _ & _ & _).
    pose proof (walk_model s' Ws') as Mw.
    destruct (d_unify_sound itree teq tone tsum tprod ltac:(dom_hyps) ltac:(dom_hyps) ltac:(dom_hyps) ltac:(dom_hyps) ltac:(dom_hyps)
                ltac:(dom_hyps) ltac:(dom_hyps) ltac:(dom_hyps) ltac:(dom_hyps) ltac:(dom_hyps)
                _ s (em x) (em y) s' Ws Lex Ley Us (walk s') Mw) as [M0 E0].
    destruct Mt as [Mt1 _]. apply (U (fun e => walk s' (em e))). split; [apply Mt1; exact M0|exact E0].
Qed.
