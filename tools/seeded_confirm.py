#!/usr/bin/env python3
"""Independent confirmation of the seeded changes under /verif/seeded/<name>/: in a scratch worktree
of /repo HEAD (a) the change applies and compiles, (b) the repository's test suite still passes with
it, (c) the demonstration fails with the change and passes without it.  Writes the outcome into
meta.json under the key "confirmed".   usage: seeded_confirm.py [name ...]"""
import json
import os
import re
import shutil
import subprocess
import sys

VERIF = os.path.dirname(os.path.dirname(os.path.abspath(__file__)))
SEEDED = os.path.join(VERIF, "seeded")
SCRATCH = "/tmp/verif_seeded_confirm"


def run(cmd, cwd=None, timeout=3600):
    p = subprocess.run(cmd, cwd=cwd, stdout=subprocess.PIPE, stderr=subprocess.STDOUT, text=True, timeout=timeout,
                       env=dict(os.environ, CARGO_NET_OFFLINE="true", CARGO_TARGET_DIR=os.path.join(SCRATCH, "target")))
    return p.returncode, p.stdout


def suite(wt):
    rc, out = run(["cargo", "test", "--workspace", "--no-fail-fast", "--offline"], cwd=wt)
    passed = sum(int(x) for x in re.findall(r"test result: \w+\. (\d+) passed", out))
    failed = sum(int(x) for x in re.findall(r"test result: \w+\. \d+ passed; (\d+) failed", out))
    return rc, passed, failed


def demo(wt, d):
    src = os.path.join(d, "demo.rs")
    dst = os.path.join(wt, "tests", "seeded_demo.rs")
    os.makedirs(os.path.dirname(dst), exist_ok=True)
    shutil.copy(src, dst)
    rc, out = run(["cargo", "test", "--offline", "--features", "human_encoding,test-utils", "--test", "seeded_demo"], cwd=wt)
    os.remove(dst)
    return rc, out[-1500:]


def one(name):
    d = os.path.join(SEEDED, name)
    wt = os.path.join(SCRATCH, name)
    if os.path.exists(wt):
        run(["git", "-C", "/repo", "worktree", "remove", "--force", wt])
    os.makedirs(SCRATCH, exist_ok=True)
    run(["git", "-C", "/repo", "worktree", "add", "--detach", wt, "HEAD"])
    res = {}
    try:
        rc0, out0 = demo(wt, d)
        res["demo_without_change"] = "pass" if rc0 == 0 else "FAIL"
        rc, out = run(["git", "-C", wt, "apply", os.path.join(d, "patch.diff")])
        res["applies"] = rc == 0
        if rc != 0:
            res["error"] = out
            return res
        rc, passed, failed = suite(wt)
        res["suite_with_change"] = {"exit": rc, "passed": passed, "failed": failed}
        rc1, out1 = demo(wt, d)
        res["demo_with_change"] = "fail" if rc1 != 0 else "PASS"
        res["ok"] = (rc0 == 0 and rc == 0 and failed == 0 and rc1 != 0)
        if not res["ok"]:
            res["demo_output"] = out1
        head = subprocess.run(["git", "-C", "/repo", "rev-parse", "HEAD"], capture_output=True, text=True).stdout.strip()
        res["repo_head"] = head
    finally:
        run(["git", "-C", "/repo", "worktree", "remove", "--force", wt])
        shutil.rmtree(wt, ignore_errors=True)
    return res


def main():
    names = sys.argv[1:] or sorted(n for n in os.listdir(SEEDED) if os.path.exists(os.path.join(SEEDED, n, "patch.diff")))
    for n in names:
        r = one(n)
        mp = os.path.join(SEEDED, n, "meta.json")
        meta = json.load(open(mp))
        meta["confirmed"] = r
        json.dump(meta, open(mp, "w"), indent=1)
        print(n, json.dumps(r))
        sys.stdout.flush()
    shutil.rmtree(os.path.join(SCRATCH, "target"), ignore_errors=True)


if __name__ == "__main__":
    main()
