(* Redemption-time programs and the finalisers that attach witness data (C12, used by C08).
     src/node/construct.rs   ConstructNode::finalize_unpruned (Finalizer::convert_witness)
     src/node/redeem.rs      RedeemNode::decode (DecodeFinalizer::convert_witness),
                             prune_with_tracker (Finalizer::convert_witness: Value::prune(..).expect)
     src/human_encoding/named_node.rs  to_construct_node (Populator::convert_witness)
     src/value.rs            Value::prune, Value::zero, Value::is_of_type, from_compact_bits
   A `Value` of the library carries its own type; the model keeps the pair (type, structural
   value).  `Value::is_of_type` compares the carried type with the node's target. *)
From RS Require Import Lib.Tac Lib.Outcome Lib.Bits Ty.Ty Core.Prog.
Import ListNotations.
Local Open Scope N_scope.

(* ------------------------------------------------------------------ values with their type *)

Record cval : Type := CV { cv_ty : ty; cv_val : sval }.

(* invariant of every `Value`: it denotes an element of the type it carries *)
Definition cval_wf (c : cval) : bool := has_ty (cv_val c) (cv_ty c).

(* `v.is_of_type(target)` for a wf value *)
Definition is_of_type (c : cval) (target : ty) : bool := ty_eqb (cv_ty c) target.

(* the invariant of redemption programs: witness is a wf value of exactly the target type *)
Definition wit_ok (c : cval) (target : ty) : bool :=
  is_of_type c target && has_ty (cv_val c) target.

(* `Value::prune(&self, pruned_ty)`: None when the structure does not fit.  The first arm of the
   Rust loop (`value.ty == pruned_ty` returns the value itself) is the identity of sprune on
   typed values: sprune_id below. *)
Definition value_prune (c : cval) (t : ty) : option cval :=
  option_map (CV t) (sprune (cv_val c) t).

Definition value_zero (t : ty) : cval := CV t (szero t).

Lemma sprune_id : forall v t, has_ty v t = true -> sprune v t = Some v.
Proof.
  induction v as [|v IH|v IH|v1 IH1 v2 IH2]; intros t H; destruct t as [|a b|a b]; cbn in H;
    try discriminate; cbn [sprune].
  - reflexivity.
  - rewrite (IH _ H). reflexivity.
  - rewrite (IH _ H). reflexivity.
  - apply andb_true_iff in H. destruct H as [H1 H2]. rewrite (IH1 _ H1), (IH2 _ H2). reflexivity.
Qed.

Lemma value_prune_ok c t c' : value_prune c t = Some c' -> wit_ok c' t = true.
Proof.
  unfold value_prune, wit_ok, is_of_type. destruct (sprune (cv_val c) t) as [v|] eqn:E; [|discriminate].
  cbn. intros H. injection H as <-. cbn. rewrite (proj2 (ty_eqb_eq t t) eq_refl).
  rewrite (sprune_has_ty _ _ _ E). reflexivity.
Qed.

Lemma value_prune_id c t : wit_ok c t = true -> value_prune c t = Some (CV t (cv_val c)).
Proof.
  unfold wit_ok, value_prune. intros H. apply andb_true_iff in H. destruct H as [_ H].
  rewrite (sprune_id _ _ H). reflexivity.
Qed.

Lemma value_zero_ok t : wit_ok (value_zero t) t = true.
Proof.
  unfold wit_ok, is_of_type, value_zero. cbn. rewrite (proj2 (ty_eqb_eq t t) eq_refl), szero_has_ty.
  reflexivity.
Qed.

(* ------------------------------------------------------------------ redemption programs *)

(* node::Inner of a RedeemNode, children as indices into the table (sharing = same index) *)
Inductive rnode : Type :=
| RIden
| RUnit
| RInjL (c : nat)
| RInjR (c : nat)
| RTake (c : nat)
| RDrop (c : nat)
| RComp (l r : nat)
| RCase (l r : nat)
| RAssertL (l : nat) (hidden : list N)
| RAssertR (hidden : list N) (r : nat)
| RPair (l r : nat)
| RDisconnect (l r : nat)
| RWitness (c : cval)
| RFail (entropy : list N)
| RJet (family id : N)
| RWord (n : nat) (bits : list bool)
| RHole (cmr : list N).       (* table slot of a hidden node: never a child of a node *)

Definition rprog := list rnode.

Definition rchildren (n : rnode) : list nat :=
  match n with
  | RInjL c | RInjR c | RTake c | RDrop c | RAssertL c _ | RAssertR _ c => [c]
  | RComp l r | RCase l r | RPair l r | RDisconnect l r => [l; r]
  | _ => []
  end.

Fixpoint rwf_from (i : nat) (p : rprog) : bool :=
  match p with
  | [] => true
  | n :: rest => forallb (fun c => Nat.ltb c i) (rchildren n) && rwf_from (S i) rest
  end.
Definition rwf (p : rprog) : bool := rwf_from 0 p.

(* ------------------------------------------------------------------ errors *)

Inductive ferr : Type :=
| FType            (* FinalizeError::Type(CompleteTypeMismatch): witness does not fit its target *)
| FDisconnect      (* FinalizeError::DisconnectRedeemTime *)
| FExec (code : N) (* FinalizeError::Execution: the unpruned program does not run *)
| FShape           (* description is not a program (bad index, hidden node used as a child, no arrow) *)
| FWitBits         (* candidate bits do not decode at the stated type: refused by the harness *)
| DEndOfStream     (* decode: witness bits ran out *)
| DTrailing        (* decode: unread witness bytes *)
| DPadding         (* decode: non-zero padding after the last witness bit *)
.

(* ------------------------------------------------------------------ construction-time witnesses *)

(* the `Option<Value>` stored in a ConstructNode witness node, from its description *)
Definition cval_of_spec (w : wit_spec) (target : ty) : outcome ferr (option cval) :=
  match w with
  | WNone => Ok None
  | WCompact bits =>
      match of_compact target bits with
      | Some (v, []) => Ok (Some (CV target v))
      | _ => Err FWitBits
      end
  | WTyped t bits =>
      match of_compact t bits with
      | Some (v, []) => Ok (Some (CV t v))
      | _ => Err FWitBits
      end
  end.

Lemma cval_of_spec_wf w target c : cval_of_spec w target = Ok (Some c) -> cval_wf c = true.
Proof.
  destruct w as [|bits|t bits]; cbn [cval_of_spec]; [discriminate| |].
  - destruct (of_compact target bits) as [[v [|b r]]|] eqn:E; try discriminate.
    intros H. injection H as <-. apply of_compact_inv in E. exact (proj1 E).
  - destruct (of_compact t bits) as [[v [|b r]]|] eqn:E; try discriminate.
    intros H. injection H as <-. apply of_compact_inv in E. exact (proj1 E).
Qed.

(* Finalizer::convert_witness of finalize_unpruned.
     fixed = true : the code as it is now (value coerced with Value::prune or refused)
     fixed = false: the code before commit 7523d2e (value copied unchecked) *)
Definition convert_witness (fixed : bool) (w : option cval) (target : ty) : outcome ferr cval :=
  match w with
  | Some c =>
      if fixed then
        match value_prune c target with
        | Some c' => Ok c'
        | None => Err FType
        end
      else Ok c
  | None => Ok (value_zero target)
  end.

Lemma convert_witness_typed w target c :
  convert_witness true w target = Ok c -> wit_ok c target = true.
Proof.
  destruct w as [c0|]; cbn [convert_witness].
  - destruct (value_prune c0 target) as [c'|] eqn:E; [|discriminate].
    intros H. injection H as <-. eapply value_prune_ok; eauto.
  - intros H. injection H as <-. apply value_zero_ok.
Qed.

Lemma convert_witness_total fixed w target :
  match convert_witness fixed w target with Panic _ | OutOfFuel => False | _ => True end.
Proof.
  destruct w as [c0|]; cbn [convert_witness]; [|exact I].
  destruct fixed; [|exact I]. destruct (value_prune c0 target); exact I.
Qed.

Lemma convert_witness_identity c target :
  wit_ok c target = true -> convert_witness true (Some c) target = Ok (CV target (cv_val c)).
Proof. intros H. cbn [convert_witness]. rewrite (value_prune_id _ _ H). reflexivity. Qed.

(* ------------------------------------------------------------------ finalising a node table *)

Definition is_hidden (tp : typed_prog) (i : nat) : option (list N) :=
  match nth_error tp i with
  | Some (NHidden h, _) => Some h
  | _ => None
  end.

(* one node; [wit] is the construction-time witness supplied for this node *)
Definition finalize_node (fixed : bool) (tp : typed_prog) (wit : option cval)
    (e : node * option arrow) : outcome ferr rnode :=
  match e with
  | (NHidden h, _) => Ok (RHole h)
  | (_, None) => Err FShape
  | (NIden, Some _) => Ok RIden
  | (NUnit, Some _) => Ok RUnit
  | (NInjL c, Some _) => Ok (RInjL c)
  | (NInjR c, Some _) => Ok (RInjR c)
  | (NTake c, Some _) => Ok (RTake c)
  | (NDrop c, Some _) => Ok (RDrop c)
  | (NComp l r, Some _) => Ok (RComp l r)
  | (NPair l r, Some _) => Ok (RPair l r)
  | (NCase l r, Some _) =>
      match is_hidden tp l, is_hidden tp r with
      | Some _, Some _ => Err FShape
      | Some h, None => Ok (RAssertR h r)
      | None, Some h => Ok (RAssertL l h)
      | None, None => Ok (RCase l r)
      end
  | (NDisconnect l (Some r), Some _) => Ok (RDisconnect l r)
  | (NDisconnect l None, Some _) => Err FDisconnect
  | (NFail en, Some _) => Ok (RFail en)
  | (NJet f j, Some _) => Ok (RJet f j)
  | (NWord n bits, Some _) => Ok (RWord n bits)
  | (NWitness _, Some ar) => omap RWitness (convert_witness fixed wit (snd ar))
  end.

(* the witness source of a route: which `Option<Value>` sits in witness node i *)
Definition wit_source := nat -> node * option arrow -> outcome ferr (option cval).

Fixpoint finalize_from (fixed : bool) (tp : typed_prog) (src : wit_source) (i : nat)
    (rest : typed_prog) : outcome ferr rprog :=
  match rest with
  | [] => Ok []
  | e :: tl =>
      obind (src i e) (fun w =>
      obind (finalize_node fixed tp w e) (fun n =>
      obind (finalize_from fixed tp src (S i) tl) (fun p => Ok (n :: p))))
  end.

Definition finalize (fixed : bool) (tp : typed_prog) (src : wit_source) : outcome ferr rprog :=
  finalize_from fixed tp src 0 tp.

(* target type of witness node i according to the arrows handed to the model *)
Definition target_of (tp : typed_prog) (i : nat) : option ty :=
  match nth_error tp i with
  | Some (NWitness _, Some ar) => Some (snd ar)
  | _ => None
  end.

(* every witness of the redemption program has exactly the target type of its node *)
Definition all_wit_ok (tp : typed_prog) (p : rprog) : Prop :=
  forall i c, nth_error p i = Some (RWitness c) ->
    exists t, target_of tp i = Some t /\ wit_ok c t = true.

Lemma finalize_node_witness fixed tp w e c :
  finalize_node fixed tp w e = Ok (RWitness c) ->
  exists ws ar, e = (NWitness ws, Some ar) /\ convert_witness fixed w (snd ar) = Ok c.
Proof.
  destruct e as [n [ar|]]; destruct n; cbn [finalize_node]; try discriminate;
    try (destruct r; discriminate);
    try (destruct (is_hidden tp l), (is_hidden tp r); discriminate).
  unfold omap, obind. destruct (convert_witness fixed w (snd ar)) eqn:E; try discriminate.
    intros H. injection H as <-. eauto.
Qed.

Lemma finalize_from_nth fixed tp src : forall rest i p,
  finalize_from fixed tp src i rest = Ok p ->
  length p = length rest /\
  forall k e, nth_error rest k = Some e ->
    exists w n, src (i + k)%nat e = Ok w /\ finalize_node fixed tp w e = Ok n /\ nth_error p k = Some n.
Proof.
  induction rest as [|e tl IH]; intros i p H; cbn [finalize_from] in H.
  - injection H as <-. split; [reflexivity|]. intros k e Hk. destruct k; discriminate.
  - unfold obind in H.
    destruct (src i e) as [w| | |] eqn:Es; try discriminate.
    destruct (finalize_node fixed tp w e) as [n| | |] eqn:En; try discriminate.
    destruct (finalize_from fixed tp src (S i) tl) as [p'| | |] eqn:Ep; try discriminate.
    injection H as <-. destruct (IH _ _ Ep) as [Hl Hn]. split; [cbn; congruence|].
    intros k e' Hk. destruct k as [|k].
    + cbn in Hk. injection Hk as <-. exists w, n. rewrite Nat.add_0_r. auto.
    + cbn in Hk. destruct (Hn _ _ Hk) as (w' & n' & A & B & C).
      exists w', n'. rewrite Nat.add_succ_r. auto.
Qed.

(* the finaliser as it is now returns only well-typed witnesses, whatever the witness source *)
Theorem finalize_typed tp src p : finalize true tp src = Ok p -> all_wit_ok tp p.
Proof.
  intros H i c Hi. unfold finalize in H. destruct (finalize_from_nth _ _ _ _ _ _ H) as [Hl Hn].
  assert (Hlt : (i < length tp)%nat) by (rewrite <- Hl; apply nth_error_Some; congruence).
  destruct (nth_error tp i) as [e|] eqn:Ee; [|apply nth_error_None in Ee; lia].
  destruct (Hn _ _ Ee) as (w & n & A & B & C). rewrite Hi in C. injection C as <-.
  destruct (finalize_node_witness _ _ _ _ _ B) as (ws & ar & -> & Hc).
  exists (snd ar). split.
  - unfold target_of. rewrite Ee. reflexivity.
  - eapply convert_witness_typed; eauto.
Qed.

Lemma finalize_node_total fixed tp w e :
  match finalize_node fixed tp w e with Panic _ | OutOfFuel => False | _ => True end.
Proof.
  destruct e as [n [ar|]]; destruct n; cbn [finalize_node]; try exact I;
    try (destruct r; exact I);
    try (destruct (is_hidden tp l), (is_hidden tp r); exact I).
  pose proof (convert_witness_total fixed w (snd ar)) as T. unfold omap, obind.
    destruct (convert_witness fixed w (snd ar)); auto.
Qed.

Definition src_total (src : wit_source) : Prop :=
  forall i e, match src i e with Panic _ | OutOfFuel => False | _ => True end.

Theorem finalize_total fixed tp src : src_total src ->
  match finalize fixed tp src with Panic _ | OutOfFuel => False | _ => True end.
Proof.
  intros Hs. unfold finalize. generalize 0%nat. generalize tp at 2.
  induction tp0 as [|e tl IH]; intros i; cbn [finalize_from]; [exact I|].
  unfold obind. pose proof (Hs i e) as A. destruct (src i e) as [w| | |]; try exact I; try contradiction.
  pose proof (finalize_node_total fixed tp w e) as B.
  destruct (finalize_node fixed tp w e); try exact I; try contradiction.
  specialize (IH (S i)). destruct (finalize_from fixed tp src (S i) tl); auto.
Qed.

(* ------------------------------------------------------------------ witness sources of the routes *)

(* (a) construction-time witnesses: the value written in the description *)
Definition src_construct : wit_source := fun _ e =>
  match e with
  | (NWitness w, Some ar) => cval_of_spec w (snd ar)
  | _ => Ok None
  end.

(* (b) Populator: the value found under the node's name in the witness map, if any; the
   description's own witness field plays no role (a committed program has none) *)
Definition wmap := list (N * cval).
Fixpoint wmap_get (m : wmap) (name : N) : option cval :=
  match m with
  | [] => None
  | (k, c) :: r => if k =? name then Some c else wmap_get r name
  end.
Definition src_named (names : nat -> N) (m : wmap) : wit_source := fun i _ => Ok (wmap_get m (names i)).

Lemma src_construct_total : src_total src_construct.
Proof.
  intros i [n [ar|]]; destruct n; cbn; try exact I.
  destruct w as [|bits|t bits]; cbn [cval_of_spec]; try exact I.
  - destruct (of_compact (snd ar) bits) as [[v [|b r]]|]; exact I.
  - destruct (of_compact t bits) as [[v [|b r]]|]; exact I.
Qed.

Lemma src_named_total names m : src_total (src_named names m).
Proof. intros i e. exact I. Qed.

(* ------------------------------------------------------------------ (c) decoding witnesses from bits *)

(* DecodeFinalizer::convert_witness, called once per witness node in stream order:
   Value::from_compact_bits at the inferred target type *)
Fixpoint decode_witnesses (targets : list ty) (bits : list bool) : outcome ferr (list cval * list bool) :=
  match targets with
  | [] => Ok ([], bits)
  | t :: tl =>
      match of_compact t bits with
      | None => Err DEndOfStream
      | Some (v, rest) =>
          obind (decode_witnesses tl rest) (fun '(cs, rest') => Ok (CV t v :: cs, rest'))
      end
  end.

(* `witness.close()` after [consumed] bits of a stream of whole bytes: no unread byte and the unread
   bits of the last byte are zero (C13_close_iff).  A stream from which nothing was read must be empty. *)
Definition close_check (consumed : nat) (rest : list bool) : outcome ferr unit :=
  let want := ((8 - consumed mod 8) mod 8)%nat in
  if Nat.ltb want (length rest) then Err DTrailing
  else if forallb negb rest then Ok tt else Err DPadding.

Definition decode_stream (targets : list ty) (stream : list bool) : outcome ferr (list cval) :=
  obind (decode_witnesses targets stream) (fun '(cs, rest) =>
  obind (close_check (length stream - length rest) rest) (fun _ => Ok cs)).

Lemma decode_witnesses_typed : forall targets bits cs rest,
  decode_witnesses targets bits = Ok (cs, rest) ->
  Forall2 (fun c t => wit_ok c t = true) cs targets /\
  bits = flat_map (fun c => compact_enc (cv_val c)) cs ++ rest.
Proof.
  induction targets as [|t tl IH]; intros bits cs rest H; cbn [decode_witnesses] in H.
  - injection H as <- <-. split; [constructor|reflexivity].
  - destruct (of_compact t bits) as [[v r]|] eqn:E; [|discriminate].
    unfold obind in H. destruct (decode_witnesses tl r) as [[cs' r']| | |] eqn:E2; try discriminate.
    injection H as <- <-. destruct (IH _ _ _ E2) as [F ->].
    destruct (of_compact_inv _ _ _ _ E) as [Hv ->]. split.
    + constructor; [|exact F]. unfold wit_ok, is_of_type. cbn.
      rewrite (proj2 (ty_eqb_eq t t) eq_refl), Hv. reflexivity.
    + cbn [flat_map cv_val]. rewrite app_assoc. reflexivity.
Qed.

Theorem decode_stream_typed targets stream cs :
  decode_stream targets stream = Ok cs -> Forall2 (fun c t => wit_ok c t = true) cs targets.
Proof.
  unfold decode_stream, obind. destruct (decode_witnesses targets stream) as [[cs' rest]| | |] eqn:E; try discriminate.
  destruct (close_check _ rest); try discriminate. intros H. injection H as <-.
  exact (proj1 (decode_witnesses_typed _ _ _ _ E)).
Qed.

Lemma decode_witnesses_total : forall targets bits,
  match decode_witnesses targets bits with Panic _ | OutOfFuel => False | _ => True end.
Proof.
  induction targets as [|t tl IH]; intros bits; cbn [decode_witnesses]; [exact I|].
  destruct (of_compact t bits) as [[v r]|]; [|exact I].
  specialize (IH r). unfold obind. destruct (decode_witnesses tl r) as [[cs r']| | |]; auto.
Qed.

Theorem decode_stream_total targets stream :
  match decode_stream targets stream with Panic _ | OutOfFuel => False | _ => True end.
Proof.
  unfold decode_stream, obind. pose proof (decode_witnesses_total targets stream) as T.
  destruct (decode_witnesses targets stream) as [[cs rest]| | |]; auto.
  unfold close_check. destruct (Nat.ltb _ _); [exact I|]. destruct (forallb negb rest); exact I.
Qed.

(* ------------------------------------------------------------------ serialisation of typed witnesses *)

(* the witness stream written by encode_witness: compact bits of every witness in stream order *)
Definition witness_stream (cs : list cval) : list bool := flat_map (fun c => compact_enc (cv_val c)) cs.

(* a program whose witnesses are typed serialises to a stream that decodes back to the same values
   at the same types and is consumed exactly *)
Theorem typed_encodes : forall cs targets rest,
  Forall2 (fun c t => wit_ok c t = true) cs targets ->
  decode_witnesses targets (witness_stream cs ++ rest) = Ok (cs, rest).
Proof.
  induction cs as [|c cs IH]; intros targets rest F; inversion F as [|c' t cs' tl Hc Ft]; subst.
  - reflexivity.
  - unfold witness_stream. cbn [flat_map decode_witnesses]. rewrite <- app_assoc.
    unfold wit_ok, is_of_type in Hc. apply andb_true_iff in Hc. destruct Hc as [Ht Hv].
    apply ty_eqb_eq in Ht. rewrite (of_compact_enc t _ _ Hv).
    fold (witness_stream cs). rewrite (IH _ _ Ft). cbn. destruct c as [ct cv]. cbn in Ht. subst ct. reflexivity.
Qed.

(* padding the stream to whole bytes with zeros keeps it decodable and closable *)
Definition pad_to_byte (bits : list bool) : list bool :=
  bits ++ repeat false ((8 - length bits mod 8) mod 8).

Theorem typed_stream_decodes cs targets :
  Forall2 (fun c t => wit_ok c t = true) cs targets ->
  decode_stream targets (pad_to_byte (witness_stream cs)) = Ok cs.
Proof.
  intros F. unfold decode_stream, pad_to_byte, obind.
  rewrite (typed_encodes _ _ _ F). rewrite app_length, repeat_length.
  replace (length (witness_stream cs) + (8 - length (witness_stream cs) mod 8) mod 8
           - (8 - length (witness_stream cs) mod 8) mod 8)%nat with (length (witness_stream cs)) by lia.
  unfold close_check. rewrite repeat_length, Nat.ltb_irrefl.
  assert (Z : forall n, forallb negb (repeat false n) = true) by (induction n; cbn; auto).
  rewrite Z. reflexivity.
Qed.

(* the machine writes exactly [width target] cells for a typed witness *)
Theorem typed_witness_width c t : wit_ok c t = true ->
  length (padded_enc t (cv_val c)) = N.to_nat (width t).
Proof.
  unfold wit_ok. intros H. apply andb_true_iff in H. apply padded_enc_length. exact (proj2 H).
Qed.

(* an ill-typed witness (the value carries another type) is written with the width of its own type *)
Lemma untyped_witness_width c : cval_wf c = true ->
  length (padded_enc (cv_ty c) (cv_val c)) = N.to_nat (width (cv_ty c)).
Proof. apply padded_enc_length. Qed.
