"""Shared by C08 (pruning) and C12 (well-typed witnesses): python reference semantics of redemption
programs (run with events, structural pruning, Value::prune), generators, rendering for the Coq
model (Redeem/Run.v) and parsers for the output of harness_redeem (kinds c08, c12)."""
import os

import proggen as pg
import vplib

CRATE = None  # merged into the main harness crate
COMMAND = "redeem"
U = pg.U
BIT = pg.BIT

ENV0 = (0, 0xFFFFFFFF)          # ElementsEnv::dummy(): lock time 0, sequence MAX (final)
ENV1 = (100, 0)                 # lock height 100, not final
ENVS = [ENV0, ENV1, (600000000, 0), (499999999, 5), (7, 0xFFFFFFFF)]   # time lock; max height; final with lock time


def env_str(env):
    return "%d:%d" % env


def env_params(env):
    """(lock height, final, raw lock time) as the C jets see them"""
    lt, seq = env
    final = seq == 0xFFFFFFFF
    lockh = lt if (not final and lt < 500000000) else 0
    return lockh, 1 if final else 0, lt


# ------------------------------------------------------------------ jets used by the generators
# name -> (model id, source, target)
W8, W16, W32, W64 = pg.word(3), pg.word(4), pg.word(5), pg.word(6)
JETS = {
    "verify": (1, BIT, U),
    "eq_8": (2, W16, BIT),
    "lt_8": (3, W16, BIT),
    "is_zero_8": (4, W8, BIT),
    "complement_1": (5, BIT, BIT),
    "low_8": (6, U, W8),
    "high_8": (7, U, W8),
    "one_8": (8, U, W8),
    "eq_32": (9, W64, BIT),
    "lt_32": (10, W64, BIT),
    "le_32": (11, W64, BIT),
    "is_zero_32": (12, W32, BIT),
    "tx_lock_height": (13, U, W32),
    "check_lock_height": (14, W32, U),
    "tx_is_final": (15, U, BIT),
    "lock_time": (16, U, W32),
}
JET_IDS = {("e", n): v[0] for n, v in JETS.items()}
JET_LIST = [("e", n, v[1], v[2]) for n, v in sorted(JETS.items())]


def word_int(v):
    x = 0
    for b in pg.compact_bits(v):
        x = 2 * x + b
    return x


def int_word(n, x):
    return pg.word_value(n, x)


def bitv(b):
    return ("R", ("U",)) if b else ("L", ("U",))


def make_jet_fn(env):
    lockh, final, lt = env_params(env)

    def jet_fn(fam, name, v):
        if name == "verify":
            if v == ("R", ("U",)):
                return ("U",)
            raise pg.EvalFail("jet")
        if name in ("eq_8", "eq_32"):
            return bitv(word_int(v[1]) == word_int(v[2]))
        if name in ("lt_8", "lt_32"):
            return bitv(word_int(v[1]) < word_int(v[2]))
        if name == "le_32":
            return bitv(word_int(v[1]) <= word_int(v[2]))
        if name in ("is_zero_8", "is_zero_32"):
            return bitv(word_int(v) == 0)
        if name == "complement_1":
            return bitv(v[0] == "L")
        if name == "low_8":
            return int_word(3, 0)
        if name == "high_8":
            return int_word(3, 255)
        if name == "one_8":
            return int_word(3, 1)
        if name == "tx_lock_height":
            return int_word(5, lockh)
        if name == "check_lock_height":
            if word_int(v) <= lockh:
                return ("U",)
            raise pg.EvalFail("jet")
        if name == "tx_is_final":
            return bitv(final)
        if name == "lock_time":
            return int_word(5, lt)
        raise pg.EvalFail("nojet")

    return jet_fn


# ------------------------------------------------------------------ values
def sprune(v, t):
    """Value::prune: None when the structure does not fit"""
    if t[0] == "u":
        return ("U",)
    if t[0] == "s":
        if v[0] == "L":
            r = sprune(v[1], t[1])
            return None if r is None else ("L", r)
        if v[0] == "R":
            r = sprune(v[1], t[2])
            return None if r is None else ("R", r)
        return None
    if v[0] != "P":
        return None
    a = sprune(v[1], t[1])
    b = sprune(v[2], t[2])
    if a is None or b is None:
        return None
    return ("P", a, b)


def wit_value(n, target):
    """(type, value) of the candidate in witness node n, None for wit.-; target for compact ones"""
    w = n[1]
    if w is None:
        return None
    if w[0] == "c":
        r = pg.of_compact(target, w[1])
        return (target, r[0])
    r = pg.of_compact(w[1], w[2])
    return (w[1], r[0])


# ------------------------------------------------------------------ reference run with events
class Run:
    """big-step run of a node table; events = [(node, None | 0 | 1)] in execution order.
    witness values: dict node -> value (already of the node's target type)."""

    def __init__(self, prog, wvals, jet_fn):
        self.prog = prog
        self.wvals = wvals
        self.jet_fn = jet_fn
        self.events = []

    def ev(self, i, v):
        n = self.prog[i]
        k = n[0]
        if k == "case":
            s, c = v[1], v[2]
            side = 0 if s[0] == "L" else 1
            j = n[1 + side]
            if self.prog[j][0] == "hid":
                raise pg.EvalFail("pruned", self.prog[j][1])
            self.events.append((i, side))
            return self.ev(j, ("P", s[1], c))
        self.events.append((i, None))
        if k == "iden":
            return v
        if k == "unit":
            return ("U",)
        if k == "injl":
            return ("L", self.ev(n[1], v))
        if k == "injr":
            return ("R", self.ev(n[1], v))
        if k == "take":
            return self.ev(n[1], v[1])
        if k == "drop":
            return self.ev(n[1], v[2])
        if k == "comp":
            return self.ev(n[2], self.ev(n[1], v))
        if k == "pair":
            a = self.ev(n[1], v)
            return ("P", a, self.ev(n[2], v))
        if k == "wit":
            if i not in self.wvals:
                raise pg.EvalFail("nowitness")
            return self.wvals[i]
        if k == "word":
            return pg.of_compact(pg.word(n[1]), n[2])[0]
        if k == "fail":
            raise pg.EvalFail("fail", n[1])
        if k == "jet":
            return self.jet_fn(n[1], n[2], v)
        raise pg.EvalFail("unsupported")


def run_prog(prog, wvals, jet_fn):
    """('ok', value, events) | ('err', exec code)"""
    r = Run(prog, wvals, jet_fn)
    try:
        v = r.ev(len(prog) - 1, ("U",))
    except pg.EvalFail as e:
        return ("err", {"fail": 11, "pruned": 12, "jet": 14}.get(e.kind, 19))
    return ("ok", v, r.events)


def taken(events, ident, i, side):
    return any(s == side and ident[j] == ident[i] for (j, s) in events)


def prune_ref(prog, events, ident):
    """structure codes of one pruning pass: 0 dropped, 1 kept, 2 case->assertl, 3 case->assertr, 5 hidden"""
    n = len(prog)
    newkind = {}
    for i, nd in enumerate(prog):
        if nd[0] == "case" and prog[nd[1]][0] != "hid" and prog[nd[2]][0] != "hid":
            l, r = taken(events, ident, i, 0), taken(events, ident, i, 1)
            if l and not r:
                newkind[i] = 2
            elif r and not l:
                newkind[i] = 3
    reach = [False] * n
    reach[n - 1] = True
    for i in range(n - 1, -1, -1):
        if not reach[i]:
            continue
        nd = prog[i]
        ch = pg.children(nd)
        if nd[0] == "case":
            if newkind.get(i) == 2:
                ch = [nd[1]]
            elif newkind.get(i) == 3:
                ch = [nd[2]]
        for c in ch:
            if prog[c][0] != "hid":
                reach[c] = True
    return [5 if prog[i][0] == "hid" else (0 if not reach[i] else newkind.get(i, 1)) for i in range(n)]


def descendants(prog, roots):
    seen = set()
    stack = list(roots)
    while stack:
        i = stack.pop()
        if i in seen:
            continue
        seen.add(i)
        stack += pg.children(prog[i])
    return seen


# ------------------------------------------------------------------ rendering for Coq
def tprog_coq(prog, arrows):
    parts = []
    for n, ar in zip(prog, arrows):
        a = "None" if ar is None else "(Some (%s, %s))" % (pg.ty_coq(ar[0]), pg.ty_coq(ar[1]))
        parts.append("(%s, %s)" % (pg.node_coq(n, JET_IDS), a))
    return "[" + "; ".join(parts) + "]"


def nat_list(xs):
    return "[" + "; ".join("%d%%nat" % x for x in xs) + "]"


# ------------------------------------------------------------------ harness helpers
def harness_binary():
    binary, out = vplib.harness_build("debug", crate=CRATE)
    if binary is None:
        raise vplib.Infra("harness build failed:\n" + out[-3000:])
    return binary


def get_arrows(binary, progs, workdir):
    """inferred arrows (forced 1 -> 1) of every program: list of (list | ('err', code))"""
    lines = ["a%d arrows 1 %s" % (i, pg.prog_pdl(p)) for i, p in enumerate(progs)]
    res = vplib.run_harness(binary, "prog", lines, workdir=workdir)
    return [pg.parse_arrows(res.get("a%d" % i)) for i in range(len(progs))]


# ------------------------------------------------------------------ generator
class RGen:
    """Type-directed generator of node tables with DAG sharing (memo per intended arrow), twins
    (copies of an existing sub-DAG: distinct nodes, same structure), witness placeholders, words,
    jets from JET_LIST, and cases over sums."""

    def __init__(self, rng, opts=None):
        self.rng = rng
        self.nodes = []
        self.memo = {}
        self.o = dict(share=30, twin=6, witness=14, word=20, jets=True, fail=0, hidden=3, comp=30, verify=25, twice=25)
        if opts:
            self.o.update(opts)

    def add(self, node, key=None):
        self.nodes.append(node)
        i = len(self.nodes) - 1
        if key is not None:
            self.memo.setdefault(key, []).append(i)
        return i

    def copy(self, i):
        """deep copy of the sub-DAG at i (fresh nodes; sharing inside the copy preserved)"""
        ren = {}

        def go(j):
            if j in ren:
                return ren[j]
            n = self.nodes[j]
            k = n[0]
            if k in ("injl", "injr", "take", "drop"):
                m = (k, go(n[1]))
            elif k in ("comp", "case", "pair"):
                a = go(n[1])
                m = (k, a, go(n[2]))
            else:
                m = n
            ren[j] = self.add(m)
            return ren[j]

        return go(i)

    def gen(self, a, b, depth):
        rng, o = self.rng, self.o
        key = (a, b)
        if key in self.memo:
            r = rng.below(100)
            if r < o["share"]:
                return rng.choice(self.memo[key])
            if r < o["share"] + o["twin"]:
                return self.copy(rng.choice(self.memo[key]))
        cands = []
        if a == b:
            cands += ["iden"] * 2
        if b == U:
            cands += ["unit"] * (1 if depth > 0 else 3)
        if depth > 0:
            if b[0] == "s":
                cands += ["injl", "injr"]
            if b[0] == "p":
                cands += ["pair"] * 2
            if a[0] == "p":
                cands += ["take", "drop"]
                if a[1][0] == "s":
                    cands += ["case"] * 5
                    if rng.below(100) < o["hidden"]:
                        cands += ["assertl", "assertr"]
            if rng.below(100) < o["comp"]:
                cands += ["comp"] * 2
            if b == U and o["jets"] and rng.below(100) < o["verify"]:
                cands += ["verify"] * 2
            if b == U and depth >= 2 and rng.below(100) < o["twice"]:
                cands += ["twice"] * 3
            if b == U and depth >= 2 and rng.below(100) < o.get("ntimes", 25):
                cands += ["ntimes"] * 3
        if rng.below(100) < o["witness"]:
            cands += ["wit"] * 2
        if a == U and pg.as_word(b) is not None and rng.below(100) < o["word"]:
            cands += ["word"] * 2
        if o["jets"]:
            for j in JET_LIST:
                if j[2] == a and j[3] == b:
                    cands += [("jet", j)] * 3
        if o["fail"] and rng.below(100) < o["fail"]:
            cands.append("fail")
        if not cands:
            if b == U:
                cands = ["unit"]
            elif a == b:
                cands = ["iden"]
            elif b[0] == "p":
                cands = ["pair"]
            elif b[0] == "s":
                cands = ["injl", "injr"]
            else:
                cands = ["wit"]
        c = rng.choice(cands)
        d = depth - 1
        if c == "iden":
            return self.add(("iden",), key)
        if c == "unit":
            return self.add(("unit",), key)
        if c == "injl":
            return self.add(("injl", self.gen(a, b[1], d)), key)
        if c == "injr":
            return self.add(("injr", self.gen(a, b[2], d)), key)
        if c == "pair":
            x = self.gen(a, b[1], d)
            return self.add(("pair", x, self.gen(a, b[2], d)), key)
        if c == "take":
            return self.add(("take", self.gen(a[1], b, d)), key)
        if c == "drop":
            return self.add(("drop", self.gen(a[2], b, d)), key)
        if c == "case":
            x = self.gen(pg.P(a[1][1], a[2]), b, d)
            return self.add(("case", x, self.gen(pg.P(a[1][2], a[2]), b, d)), key)
        if c == "assertl":
            x = self.gen(pg.P(a[1][1], a[2]), b, d)
            h = self.add(("hid", "".join("%02x" % v for v in rng.bytes(32))))
            return self.add(("case", x, h), key)
        if c == "assertr":
            h = self.add(("hid", "".join("%02x" % v for v in rng.bytes(32))))
            return self.add(("case", h, self.gen(pg.P(a[1][2], a[2]), b, d)), key)
        if c == "comp":
            m = mid_type(rng)
            x = self.gen(a, m, d)
            return self.add(("comp", x, self.gen(m, b, d)), key)
        if c == "twice":
            # one case node object, run twice in one execution on independently produced inputs:
            # comp (pair (comp f c) (comp g c)) unit   with c = case .. : (x + y) * z -> t
            xs, ys = rng.choice([(U, U), (BIT, U), (U, pg.word(1)), (pg.word(3), pg.word(3)), (BIT, BIT)])
            z = rng.choice([U, BIT, pg.word(3)])
            t = rng.choice([U, BIT, pg.word(3), pg.S(U, BIT)])
            m = pg.P(pg.S(xs, ys), z)
            cl = self.gen(pg.P(xs, z), t, d - 1)
            cr = self.gen(pg.P(ys, z), t, d - 1)
            cn = self.add(("case", cl, cr), (m, t))
            f = self.gen(a, m, d - 1)
            g = self.gen(a, m, d - 1)
            if f == g:
                g = self.copy(f) if rng.below(2) else g
            p1 = self.add(("comp", f, cn))
            p2 = self.add(("comp", g, cn))
            pr = self.add(("pair", p1, p2))
            return self.add(("comp", pr, self.add(("unit",))), key)
        if c == "ntimes":
            # one case node object run 3 or 4 times in one execution with a CHOSEN sequence of sides
            # (every pattern of L/R, e.g. L,R,R): comp (pair (comp f1 c) (pair (comp f2 c) ...)) unit
            # with f_i = pair (injl|injr <x_i>) <z_i>
            n = rng.choice([3, 3, 4])
            sides = [rng.below(2) for _ in range(n)]
            xs, ys = rng.choice([(U, U), (BIT, U), (U, pg.word(1)), (pg.word(3), pg.word(3)), (BIT, BIT)])
            z = rng.choice([U, BIT, pg.word(3)])
            t = rng.choice([U, BIT, pg.word(3), pg.S(U, BIT)])
            m = pg.P(pg.S(xs, ys), z)
            cl = self.gen(pg.P(xs, z), t, d - 1)
            cr = self.gen(pg.P(ys, z), t, d - 1)
            cn = self.add(("case", cl, cr), (m, t))
            runs = []
            for sd in sides:
                if sd:
                    inj = self.add(("injr", self.gen(a, ys, max(d - 2, 0))))
                else:
                    inj = self.add(("injl", self.gen(a, xs, max(d - 2, 0))))
                f = self.add(("pair", inj, self.gen(a, z, max(d - 2, 0))))
                runs.append(self.add(("comp", f, cn)))
            acc = runs[-1]
            for r_ in reversed(runs[:-1]):
                acc = self.add(("pair", r_, acc))
            return self.add(("comp", acc, self.add(("unit",))), key)
        if c == "verify":
            x = self.gen(a, BIT, d)
            return self.add(("comp", x, self.add(("jet", "e", "verify"))), key)
        if c == "wit":
            return self.add(("wit", None), None)
        if c == "word":
            n = pg.as_word(b)
            return self.add(("word", n, rng.bits(2 ** n)), key)
        if c == "fail":
            return self.add(("fail", "".join("%02x" % v for v in rng.bytes(64))), None)
        if isinstance(c, tuple):
            j = c[1]
            return self.add(("jet", j[0], j[1]), key)
        raise ValueError(c)


def mid_type(rng):
    """intermediate types: sums first so that cases are reachable"""
    r = rng.below(10)
    small = [BIT, pg.S(BIT, U), pg.S(U, pg.word(1)), pg.S(pg.word(3), pg.word(3)), pg.S(BIT, BIT), pg.opt(pg.word(3))]
    if r < 4:
        return pg.P(rng.choice(small), rng.choice([U, BIT, pg.word(3), pg.P(BIT, pg.word(3)), pg.word(5)]))
    if r < 6:
        return rng.choice(small)
    if r < 8:
        return rng.choice([pg.word(3), pg.word(4), pg.word(5), pg.word(6), BIT])
    return pg.rand_ty(rng, 2)


def gen_structure(rng, depth, opts=None):
    """1 -> 1 program `comp (1 -> T) (T -> 1)` with witness placeholders"""
    g = RGen(rng, opts)
    t = mid_type(rng)
    x = g.gen(U, t, depth)
    y = g.gen(t, U, depth)
    g.add(("comp", x, y))
    return pg.compact_prog(g.nodes)


def _forcing(rng, nodes, depth):
    """a term X -> 1 whose typing rule forces structure on X: unit | take F | drop F | case F F"""
    def add(n):
        nodes.append(n)
        return len(nodes) - 1
    if depth <= 0 or rng.below(100) < 25:
        return add(("unit",))
    k = rng.choice(["take", "drop", "case", "case"])
    if k == "case":
        a = _forcing(rng, nodes, depth - 1)
        return add(("case", a, _forcing(rng, nodes, depth - 1)))
    return add((k, _forcing(rng, nodes, depth - 1)))


def gen_shared_witness(rng):
    """the shape of finding F-C08 with a witness: ONE node object S that contains a witness node W is used in both
    branches of a case; the consumer in one branch forces a wide type on S (hence on W), the other a narrow one:
        main := comp (pair sel unit) (case (drop (comp S F1)) (drop (comp S F2)))
    Whichever branch the selector witness picks, the other one is dropped by pruning and W must be re-typed and
    its value shrunk (or kept, when the forcing branch is the executed one)."""
    nodes = []

    def add(n):
        nodes.append(n)
        return len(nodes) - 1

    sel = add(("wit", None))
    pr = add(("pair", sel, add(("unit",))))
    w = add(("wit", None))
    kind = rng.choice(["w", "w", "injl", "injr", "pair_wu", "pair_uw", "comp_wi", "pair_ww", "pair_w2"])
    if kind == "w":
        s = w
    elif kind in ("injl", "injr"):
        s = add((kind, w))
    elif kind == "pair_wu":
        s = add(("pair", w, add(("unit",))))
    elif kind == "pair_uw":
        s = add(("pair", add(("unit",)), w))
    elif kind == "comp_wi":
        s = add(("comp", w, add(("iden",))))
    elif kind == "pair_ww":
        s = add(("pair", w, w))
    else:
        s = add(("pair", w, add(("wit", None))))
    f1 = _forcing(rng, nodes, rng.choice([0, 1, 1, 2]))
    f2 = _forcing(rng, nodes, rng.choice([1, 2, 3, 3]))
    a = add(("drop", add(("comp", s, f1))))
    b = add(("drop", add(("comp", s, f2))))
    if rng.below(2):
        a, b = b, a
    c = add(("case", a, b))
    add(("comp", pr, c))
    return pg.compact_prog(nodes)


def witness_nodes(prog):
    return [i for i, n in enumerate(prog) if n[0] == "wit"]


def choose_witnesses(rng, prog, arrows, env, tries=24):
    """witness values (node -> value of the inferred target type) that make the run succeed, if found;
    returns (wvals, result of run_prog)"""
    jet_fn = make_jet_fn(env)
    ws = witness_nodes(prog)
    best = None
    for t in range(tries):
        wv = {}
        for i in ws:
            ty = arrows[i][1]
            wv[i] = pg.zero_value(ty) if (t == 0 and False) else pg.rand_value(rng, ty)
        r = run_prog(prog, wv, jet_fn)
        if best is None:
            best = (wv, r)
        if r[0] == "ok":
            return wv, r
    return best


def with_compact_witnesses(prog, wvals):
    out = []
    for i, n in enumerate(prog):
        if n[0] == "wit":
            n = ("wit", ("c", pg.compact_bits(wvals[i]))) if i in wvals else ("wit", None)
        out.append(n)
    return out


# ------------------------------------------------------------------ parsing harness output
def split_sections(nums, start):
    """sections `<marker> <count> ...` of the c08 output; returns dict marker -> raw list (after count)"""
    return nums[start:]


def parse_c08(r):
    """dict with hdr fields and sections, or {'stage': 1|2, 'code': c}"""
    if not isinstance(r, list) or not r:
        return None
    if r[0] in (1, 2):
        return {"stage": r[0], "code": r[1] if len(r) > 1 else -1}
    names = ["stage", "prune", "cmr_eq", "exec_pruned", "out_eq", "reprune", "alltyped", "c_pruned", "c_unpruned",
             "changed", "selfdec", "c_cmr_eq", "principal"]
    d = dict(zip(names, r[:13]))
    pos = 13
    d["complete"] = False
    try:
        while pos < len(r):
            m = r[pos]
            cnt = r[pos + 1]
            pos += 2
            if m in (50, 55, 52, 56):
                d[m] = r[pos:pos + cnt]
                pos += cnt
            elif m == 51:
                d[51] = [tuple(r[pos + 3 * k:pos + 3 * k + 3]) for k in range(cnt)]
                pos += 3 * cnt
            elif m == 53:
                items = []
                for _ in range(cnt):
                    idx, typed, nb = r[pos], r[pos + 1], r[pos + 2]
                    items.append((idx, typed, r[pos + 3:pos + 3 + nb]))
                    pos += 3 + nb
                d[53] = items
            elif m == 54:
                items = []
                for _ in range(cnt):
                    idx = r[pos]
                    s, p1 = pg.ty_from_nums(r, pos + 1)
                    t, p2 = pg.ty_from_nums(r, p1)
                    items.append((idx, s, t))
                    pos = p2
                d[54] = items
            else:
                return d
        d["complete"] = all(k in d for k in (50, 51, 52, 53, 54, 55, 56))
        if d["complete"]:
            n = len(d[50])
            d["rounds"] = [d[56][k:k + n] for k in range(0, len(d[56]), n)] if n else []
    except (IndexError, TypeError):
        pass
    return d


def project_c08(r):
    """what Redeem/Run.v run_c08 prints"""
    d = parse_c08(r)
    if d is None:
        return r
    if d["stage"] in (1, 2):
        return [d["stage"], d["code"]]
    if not d.get("complete"):
        return r
    out = [0, 50, len(d[50])] + list(d[50]) + [55, len(d[55])] + list(d[55]) + [51, len(d[51])]
    for t in d[51]:
        out += list(t)
    out += [57, 1 if d["reprune"] == 0 else 0]
    return out


def parse_c12(r):
    """dict route marker -> outcome dict; 104 has 'order'; 105 -> idents"""
    if not isinstance(r, list) or not r or r[0] != 100:
        return None
    d = {}
    pos = 0
    try:
        while pos < len(r):
            m = r[pos]
            pos += 1
            if m in (105, 106):
                cnt = r[pos]
                d[m] = r[pos + 1:pos + 1 + cnt]
                pos += 1 + cnt
                continue
            o = {}
            if m == 104:
                if r[pos] == 8 and (pos + 1 >= len(r) or r[pos + 1] == 105):  # base program failed
                    o["kind"] = 8
                    d[m] = o
                    pos += 1
                    continue
                cnt = r[pos]
                o["order"] = r[pos + 1:pos + 1 + cnt]
                pos += 1 + cnt
            k = r[pos]
            pos += 1
            o["kind"] = k
            if k == 1:
                o["err"] = r[pos]
                pos += 1
            elif k == 0:
                if m == 104:
                    o["alltyped"], o["reenc"], o["exec"] = r[pos:pos + 3]
                    pos += 3
                else:
                    o["alltyped"], o["selfdec"], o["exec"], o["principal"] = r[pos:pos + 4]
                    pos += 4
                cnt = r[pos]
                pos += 1
                items = []
                if cnt == 999:
                    o["walk_failed"] = True
                    cnt = 0
                for _ in range(cnt):
                    idx, nb = r[pos], r[pos + 1]
                    items.append((idx, r[pos + 2:pos + 2 + nb]))
                    pos += 2 + nb
                o["items"] = items
            d[m] = o
    except (IndexError, TypeError):
        return None
    return d


def project_c12(r):
    """what Redeem/Run.v run_c12 prints: pruned routes without the witness bits, route 104 without
    the execution code"""
    d = parse_c12(r)
    if d is None:
        return r
    out = []
    for m in (100, 101, 102, 103, 104):
        o = d.get(m)
        if o is None:
            return r
        out.append(m)
        if m == 104 and "order" in o:
            out += [len(o["order"])] + list(o["order"])
        k = o["kind"]
        out.append(k)
        if k == 1:
            out.append(o["err"])
        elif k == 0:
            if m == 104:
                out += [o["alltyped"], o["reenc"], len(o["items"])]
                for idx, bits in o["items"]:
                    out += [idx, len(bits)] + list(bits)
            else:
                out += [o["alltyped"], o["selfdec"], o["exec"], o["principal"], len(o["items"])]
                for idx, bits in o["items"]:
                    out += [idx] if m in (101, 103) else [idx, len(bits)] + list(bits)
    ids = d.get(105, [])
    n = len(ids)
    out += [105, n] + [x if x < n else i for i, x in enumerate(ids)]     # absent (hidden) nodes: own index
    return out


def load_corpus(prop):
    """corpus/<prop>/*.case: lines `<name> <kind> <args>` in the harness notation"""
    d = os.path.join(vplib.VERIF, "corpus", prop)
    out = []
    if not os.path.isdir(d):
        return out
    for fn in sorted(os.listdir(d)):
        if not fn.endswith(".case"):
            continue
        for line in open(os.path.join(d, fn)):
            line = line.strip()
            if not line or line.startswith("#"):
                continue
            t = line.split()
            out.append((t[0], t[1], t[2:], fn))
    return out


def parse_pdl(s):
    """PDL text -> node table (inverse of proggen.prog_pdl)"""
    out = []
    for tok in s.split(","):
        f = tok.split(".")
        k = f[0]
        if k in ("iden", "unit"):
            out.append((k,))
        elif k in ("injl", "injr", "take", "drop"):
            out.append((k, int(f[1])))
        elif k in ("comp", "case", "pair"):
            out.append((k, int(f[1]), int(f[2])))
        elif k == "disc":
            out.append((k, int(f[1]), None if f[2] == "-" else int(f[2])))
        elif k in ("hid", "fail"):
            out.append((k, f[1]))
        elif k == "jet":
            out.append((k, f[1], f[2]))
        elif k == "word":
            out.append((k, int(f[1]), bits_of(f[2])))
        elif k == "wit":
            if f[1] == "-":
                out.append(("wit", None))
            elif f[1] == "c":
                out.append(("wit", ("c", bits_of(f[2]))))
            else:
                out.append(("wit", ("t", parse_ty(f[2]), bits_of(f[3]))))
        else:
            raise ValueError(tok)
    return out


def bits_of(s):
    return [] if s == "-" else [int(c) for c in s]


def parse_ty(s):
    pos = [0]

    def go():
        c = s[pos[0]]
        pos[0] += 1
        if c == "u":
            return U
        if c == "w":
            d = pg.DIG.index(s[pos[0]])
            pos[0] += 1
            return pg.word(d)
        a = go()
        b = go()
        return pg.S(a, b) if c == "s" else pg.P(a, b)

    t = go()
    assert pos[0] == len(s)
    return t
