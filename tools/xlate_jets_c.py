#!/usr/bin/env python3
"""Helper of xlate_jets.py: parsers of the machine-generated C tables of libsimplicity
(simplicity-sys/depend/simplicity): jet nodes, jet enum, type enum + type table, the two decoders."""
import re
from xlate_jets_rust import TranslateError, Lines

HDR = r"/\* This file has been automatically generated\. \*/"


def parse_enum_jet(path):
    L = Lines(path)
    L.expect(HDR)
    names = []
    while not L.at_end():
        m = L.expect(r"([A-Z][A-Z0-9_]*),", "an enumerator line `NAME,`")
        names.append(m.group(1))
    if len(set(names)) != len(names):
        raise TranslateError("%s: duplicate enumerator" % path)
    return names


def parse_enum_ty(path):
    """`ty_x = k,` or `ty_x,` : returns names in index order (explicit values must equal the position)."""
    L = Lines(path)
    L.expect(HDR)
    names = []
    while not L.at_end():
        m = L.expect(r"(ty_[A-Za-z0-9]+)(?: = (\d+))?,", "an enumerator line `ty_x [= k],`")
        if m.group(2) is not None and int(m.group(2)) != len(names):
            raise TranslateError("%s: %s = %s is not its position %d" % (path, m.group(1), m.group(2), len(names)))
        names.append(m.group(1))
    if len(set(names)) != len(names):
        raise TranslateError("%s: duplicate type enumerator" % path)
    return names


def parse_init_ty(path, tynames):
    """returns list aligned with tynames: ('ONE',) | ('SUM', i, j) | ('PRODUCT', i, j)"""
    ix = {n: i for i, n in enumerate(tynames)}
    L = Lines(path)
    L.expect(HDR)
    table = {}
    while not L.at_end():
        m = L.expect(r"\(\*bound_var\)\[(ty_[A-Za-z0-9]+)\] = \(unification_var\)\{ \.isBound = true, \.bound = \{ \.kind = "
                     r"(?:(ONE) \}|(SUM|PRODUCT), \.arg = \{ &\(\*bound_var\)\[(ty_[A-Za-z0-9]+)\], &\(\*bound_var\)\[(ty_[A-Za-z0-9]+)\] \} \})\};",
                     "a type table line")
        n = m.group(1)
        if n not in ix or n in table:
            raise TranslateError("%s:%d: unknown or repeated type %s" % (path, L.i, n))
        if m.group(2):
            table[n] = ("ONE",)
        else:
            for a in (m.group(4), m.group(5)):
                if a not in ix:
                    raise TranslateError("%s:%d: unknown argument type %s" % (path, L.i, a))
            table[n] = (m.group(3), ix[m.group(4)], ix[m.group(5)])
    missing = [n for n in tynames if n not in table]
    if missing:
        raise TranslateError("%s: no binding for %s" % (path, missing[:5]))
    return [table[n] for n in tynames]


def parse_jet_nodes(path, jetnames, tynames):
    """returns {NAME: dict(jet=c function, cmr=[8 words], source=ty index, target=ty index, cost=int)}"""
    tix = {n: i for i, n in enumerate(tynames)}
    L = Lines(path)
    L.expect(HDR)
    rows = {}
    first = True
    while not L.at_end():
        m = L.expect(r"%s\[([A-Z][A-Z0-9_]*)\] =" % ("" if first else ","), "a designated initialiser `[NAME] =`")
        first = False
        name = m.group(1)
        if name in rows or name not in jetnames:
            raise TranslateError("%s:%d: unknown or repeated jet %s" % (path, L.i, name))
        L.expect(r"\{ \.tag = JET")
        jet = L.expect(r", \.jet = ([A-Za-z0-9_]+)").group(1)
        m = L.expect(r", \.cmr = \{\{((?:0x[0-9a-f]{8}u, ){7}0x[0-9a-f]{8}u)\}\}")
        cmr = [int(x[:-1], 16) for x in m.group(1).split(", ")]
        s = L.expect(r", \.sourceIx = (ty_[A-Za-z0-9]+)").group(1)
        t = L.expect(r", \.targetIx = (ty_[A-Za-z0-9]+)").group(1)
        cost = int(L.expect(r", \.cost = (\d+) /\* milli weight units \*/").group(1))
        L.expect(r"\}")
        if s not in tix or t not in tix:
            raise TranslateError("%s:%d: unknown type name in %s" % (path, L.i, name))
        rows[name] = {"jet": jet, "cmr": cmr, "source": tix[s], "target": tix[t], "cost": cost}
    missing = [n for n in jetnames if n not in rows]
    if missing:
        raise TranslateError("%s: no node for %s" % (path, missing[:5]))
    return rows


def parse_decoder(path, jetnames):
    """The C decoder: a tree of `decodeUptoMaxInt` reads.  Returns ('S', [(case number, subtree)]) with
    leaves ('L', NAME)."""
    L = Lines(path)
    L.expect(HDR)
    L.skip_blank()
    L.expect(r"\{")
    L.expect(r"  int32_t code;")

    def switch(ind):
        sp = " " * ind
        L.expect(sp + r"code = rustsimplicity_0_7_decodeUptoMaxInt\(stream\);")
        L.expect(sp + r"if \(code < 0\) return \(simplicity_err\)code;")
        L.expect(sp + r"switch \(code\) \{")
        cases = []
        seen = set()
        while True:
            m = L.accept(sp + r"  case (\d+): \*result = ([A-Z][A-Z0-9_]*); return SIMPLICITY_NO_ERROR;")
            if m:
                k = int(m.group(1))
                if m.group(2) not in jetnames:
                    raise TranslateError("%s:%d: decoder returns unknown jet %s" % (path, L.i, m.group(2)))
                sub = ("L", m.group(2))
            else:
                m = L.accept(sp + r"  case (\d+):")
                if not m:
                    break
                k = int(m.group(1))
                sub = switch(ind + 4)
                L.expect(sp + r"    break;")
            if k in seen:
                raise TranslateError("%s:%d: duplicate case label %d" % (path, L.i, k))
            seen.add(k)
            cases.append((k, sub))
        L.expect(sp + r"\}")
        return ("S", cases)

    t = switch(2)
    L.expect(r"\}")
    if not L.at_end():
        L.fail("end of file")
    return t


def check_decode_primitive(path):
    """primitive.c: family bit 0 -> core decoder, 1 -> elements decoder, then DATA_OUT_OF_RANGE."""
    txt = re.sub(r"\s+", " ", open(path).read())
    want = ('static simplicity_err decodePrimitive(jetName* result, bitstream* stream) { int32_t bit = read1Bit(stream); '
            'if (bit < 0) return (simplicity_err)bit; if (!bit) { /* Core jets */ #include "../decodeCoreJets.inc" '
            'return SIMPLICITY_ERR_DATA_OUT_OF_RANGE; } else { /* Elements jets */ #include "decodeElementsJets.inc" '
            'return SIMPLICITY_ERR_DATA_OUT_OF_RANGE; } }')
    if want not in txt:
        raise TranslateError("%s: decodePrimitive no longer has the modelled shape" % path)
    for inc in ('#include "primitiveEnumTy.inc"', '#include "primitiveInitTy.inc"', '#include "primitiveEnumJet.inc"',
                '#include "primitiveJetNode.inc"'):
        if inc not in txt:
            raise TranslateError("%s: %s missing" % (path, inc))
    if "return jet_node[name];" not in txt:
        raise TranslateError("%s: jetNode changed" % path)


def check_decode_upto_max_int(path):
    """bitstream.c: decodeUptoMaxInt is the natural-number code (prefix-free), limited to 2^31-1."""
    txt = re.sub(r"\s+", " ", open(path).read())
    want = ("int32_t rustsimplicity_0_7_decodeUptoMaxInt(bitstream* stream) { int32_t bit = read1Bit(stream); if (bit < 0) return bit; "
            "if (0 == bit) { return 1; } else { int32_t n = decodeUpto65535(stream); if (n < 0) return n; "
            "if (30 < n) return SIMPLICITY_ERR_DATA_OUT_OF_RANGE; { int32_t result = rustsimplicity_0_7_readNBits(n, stream); "
            "if (result < 0) return result; return ((1 << n) | result); } } }")
    if want not in txt:
        raise TranslateError("%s: decodeUptoMaxInt no longer has the modelled shape" % path)
