(* C17 - the last step of `parse_inner` (src/human_encoding/parse/mod.rs, "From each root, count the
   number of ways that each witness node can be reached") as written, and what it computes.

     for root in roots.values() {
         let mut counts: Vec<HashMap<Arc<str>, usize>> = vec![];
         for data in root.post_order_iter::<InternalSharing>() {
             let mut new_counts = HashMap::new();
             if let Some(idx) = data.left_index  { for (name, count) in &counts[idx] { *new_counts.entry(name).or_insert(0) += count; } }
             if let Some(idx) = data.right_index { ... the same ... }
             if matches!(data.node.inner(), Disconnect(..) | Witness(..)) { *new_counts.entry(data.node.name()).or_insert(0) += 1; }
             counts.push(new_counts);
         }
         for (name, count) in counts.last().unwrap() { if *count > 1 { errors.add(WitnessDisconnectRepeated { name, count }) } }
     }

   `pc_loop` is this loop: one map per yielded node, in yield order; `left_index` / `right_index` are the
   positions of the children among the nodes yielded before (`pos_of`); a map is an association list
   with distinct keys (`cnt_add` = `*entry(name).or_insert(0) += k`; the iteration order of a HashMap
   is arbitrary: the model iterates in list order and every theorem below is about the map as a
   function name -> count, which does not depend on the order).  The loop above is the code BEFORE commit
   c273481 (plain `+=` on usize, finding F-C17m): with overflow checks (debug profile) an addition that
   leaves 2^64 panics - `wd_check_old` gives Panic then; without them the sum wraps (PathRun.wrap).  Since
   c273481 every addition is `saturating_add`: Human/PathSat.v (`wd_check_sat`) is the code as it is; the
   unbounded loop `pc_loop` / `wd_errors` of this file is what both mean.

   `path_counts` / `path_errs` of Human/Resolve.v is the tidier version (evaluation over the whole
   table in table order, the left map extended by the right one, error codes only).  Theorems:
   both compute, for every name n, `name_paths d root n` = the number of pairs (path from the root,
   witness / disconnect node named n at its end); `path_errs d = []` iff `wd_errors d = []` iff every
   name is reached by at most one path. *)
From RS Require Import Lib.Tac Lib.Outcome Human.Namer Human.Render Human.RenderProofs Human.Resolve Human.RoundTrip.
Import ListNotations.
Local Open Scope N_scope.

(* ------------------------------------------------------------------ maps as functions *)
Lemma cnt_get_add c n k m :
  cnt_get (cnt_add c n k) m = cnt_get c m + (if name_eqb n m then k else 0).
Proof.
  induction c as [|[m0 k0] r IH]; cbn [cnt_add cnt_get].
  - destruct (name_eqb n m); lia.
  - destruct (name_eqb m0 n) eqn:E0; cbn [cnt_get].
    + apply name_eqb_eq in E0. subst m0. destruct (name_eqb n m); lia.
    + destruct (name_eqb m0 m) eqn:E1.
      * apply name_eqb_eq in E1. subst m0.
        assert (E : name_eqb n m = false).
        { apply name_eqb_neq. intros ->. rewrite name_eqb_refl in E0. discriminate E0. }
        rewrite E. lia.
      * exact IH.
Qed.

Lemma name_eqb_sym a b : name_eqb a b = name_eqb b a.
Proof.
  destruct (name_eqb a b) eqn:E.
  - apply name_eqb_eq in E. subst. symmetry. apply name_eqb_refl.
  - apply name_eqb_neq in E. symmetry. apply name_eqb_neq. congruence.
Qed.

Definition keys_ok (c : counts) : Prop := NoDup (map fst c).

Lemma cnt_add_keys_ok c n k : keys_ok c -> keys_ok (cnt_add c n k).
Proof.
  unfold keys_ok. induction c as [|[m0 k0] r IH]; cbn [cnt_add map fst]; intros H.
  - constructor; [intros []|constructor].
  - inversion H as [|? ? Hn Hr]; subst. destruct (name_eqb m0 n) eqn:E0; cbn [map fst].
    + constructor; assumption.
    + constructor; [|apply IH; exact Hr].
      intros Hin. apply Hn. clear IH Hn Hr H.
      induction r as [|[m1 k1] r IH]; cbn [cnt_add map fst] in *.
      * destruct Hin as [->|[]]. rewrite name_eqb_refl in E0. discriminate E0.
      * destruct (name_eqb m1 n); cbn [map fst] in Hin; destruct Hin as [->|Hin]; try (left; reflexivity);
          right; [exact Hin | apply IH; exact Hin].
Qed.

(* the sum of the entries under a name (for a map with distinct keys: the entry) *)
Fixpoint cnt_tot (c : counts) (m : name) : N :=
  match c with
  | [] => 0
  | (m0, k0) :: r => (if name_eqb m0 m then k0 else 0) + cnt_tot r m
  end.

Lemma cnt_tot_notin c m : ~ In m (map fst c) -> cnt_tot c m = 0.
Proof.
  induction c as [|[m0 k0] r IH]; cbn [cnt_tot map fst]; intros H; [reflexivity|].
  rewrite IH by (intros Hin; apply H; right; exact Hin).
  destruct (name_eqb m0 m) eqn:E; [|lia]. apply name_eqb_eq in E. subst. exfalso. apply H. left. reflexivity.
Qed.

Lemma cnt_get_notin c m : ~ In m (map fst c) -> cnt_get c m = 0.
Proof.
  induction c as [|[m0 k0] r IH]; cbn [cnt_get map fst]; intros H; [reflexivity|].
  destruct (name_eqb m0 m) eqn:E; [apply name_eqb_eq in E; subst; exfalso; apply H; left; reflexivity|].
  apply IH. intros Hin. apply H. right. exact Hin.
Qed.

Lemma cnt_tot_get c m : keys_ok c -> cnt_tot c m = cnt_get c m.
Proof.
  unfold keys_ok. induction c as [|[m0 k0] r IH]; cbn [cnt_tot cnt_get map fst]; intros H; [reflexivity|].
  inversion H as [|? ? Hn Hr]; subst. destruct (name_eqb m0 m) eqn:E.
  - apply name_eqb_eq in E. subst. rewrite cnt_tot_notin by exact Hn. lia.
  - rewrite IH by exact Hr. lia.
Qed.

Lemma cnt_merge_spec : forall b a m,
  cnt_get (cnt_merge a b) m = cnt_get a m + cnt_tot b m.
Proof.
  unfold cnt_merge. induction b as [|[m0 k0] r IH]; intros a m; cbn [fold_left cnt_tot fst snd]; [lia|].
  rewrite IH, cnt_get_add. lia.
Qed.

Lemma cnt_merge_keys_ok : forall b a, keys_ok a -> keys_ok (cnt_merge a b).
Proof.
  unfold cnt_merge. induction b as [|[m0 k0] r IH]; intros a H; cbn [fold_left]; [exact H|].
  apply IH. apply cnt_add_keys_ok. exact H.
Qed.

Lemma In_cnt_get c n k : keys_ok c -> In (n, k) c -> cnt_get c n = k.
Proof.
  unfold keys_ok. induction c as [|[m0 k0] r IH]; cbn [cnt_get map fst]; intros H Hin; [inversion Hin|].
  inversion H as [|? ? Hn Hr]; subst. destruct Hin as [E|Hin].
  - injection E as -> ->. rewrite name_eqb_refl. reflexivity.
  - destruct (name_eqb m0 n) eqn:E.
    + apply name_eqb_eq in E. subst. exfalso. apply Hn. apply (in_map fst) in Hin. exact Hin.
    + apply IH; assumption.
Qed.

Lemma cnt_get_In c n : cnt_get c n <> 0 -> In (n, cnt_get c n) c.
Proof.
  induction c as [|[m0 k0] r IH]; cbn [cnt_get]; intros H; [congruence|].
  destruct (name_eqb m0 n) eqn:E.
  - apply name_eqb_eq in E. subst. left. reflexivity.
  - right. apply IH. exact H.
Qed.

(* ------------------------------------------------------------------ paths in a table *)
(* number of paths from node j down to node w (children are smaller: fuel S j suffices) *)
Fixpoint npaths (fuel : nat) (d : ndag) (j w : nat) : N :=
  match fuel with
  | O => 0
  | S f =>
      if Nat.eqb j w then 1
      else (match nn_l (nget d j) with Some c => npaths f d c w | None => 0 end) +
           (match nn_r (nget d j) with Some c => npaths f d c w | None => 0 end)
  end.

Definition paths (d : ndag) (j w : nat) : N := npaths (S j) d j w.

Definition sumN (f : nat -> N) (l : list nat) : N := fold_right (fun w s => f w + s) 0 l.

Definition is_named (d : ndag) (n : name) (w : nat) : bool :=
  counted (nget d w) && name_eqb (nname d w) n.

(* number of pairs (path from j, witness / disconnect node named n at its end) *)
Definition name_paths (d : ndag) (j : nat) (n : name) : N :=
  sumN (fun w => if is_named d n w then paths d j w else 0) (seq 0 (length d)).

Lemma sumN_add f g l : sumN (fun w => f w + g w) l = sumN f l + sumN g l.
Proof. induction l as [|x r IH]; cbn [sumN fold_right]; [reflexivity|]. fold (sumN (fun w => f w + g w) r) (sumN f r) (sumN g r). lia. Qed.

Lemma sumN_ext f g l : (forall w, In w l -> f w = g w) -> sumN f l = sumN g l.
Proof.
  induction l as [|x r IH]; intros H; cbn [sumN fold_right]; [reflexivity|].
  fold (sumN f r) (sumN g r). rewrite IH by (intros w Hw; apply H; right; exact Hw).
  rewrite (H x) by (left; reflexivity). reflexivity.
Qed.

Lemma sumN_zero f l : (forall w, In w l -> f w = 0) -> sumN f l = 0.
Proof.
  induction l as [|x r IH]; intros H; cbn [sumN fold_right]; [reflexivity|].
  fold (sumN f r). rewrite IH by (intros w Hw; apply H; right; exact Hw).
  rewrite (H x) by (left; reflexivity). reflexivity.
Qed.

(* a sum with at most one non-zero term *)
Lemma sumN_single f l w0 : NoDup l -> (forall w, In w l -> w <> w0 -> f w = 0) ->
  sumN f l = if mem_nat w0 l then f w0 else 0.
Proof.
  induction l as [|x r IH]; intros Hd H; cbn [sumN fold_right mem_nat existsb]; [reflexivity|].
  fold (sumN f r). fold (mem_nat w0 r). inversion Hd as [|? ? Hx Hr]; subst.
  destruct (Nat.eqb w0 x) eqn:E; cbn [orb].
  - apply Nat.eqb_eq in E. subst x. rewrite sumN_zero; [lia|].
    intros w Hw. apply H; [right; exact Hw|]. intros ->. contradiction.
  - rewrite IH; [|exact Hr|intros w Hw; apply H; right; exact Hw].
    rewrite (H x); [lia|left; reflexivity|]. intros ->. rewrite Nat.eqb_refl in E. discriminate E.
Qed.

Lemma mem_nat_seq w n : mem_nat w (seq 0 n) = Nat.ltb w n.
Proof.
  destruct (Nat.ltb w n) eqn:E.
  - apply mem_nat_In. apply in_seq. apply Nat.ltb_lt in E. lia.
  - destruct (mem_nat w (seq 0 n)) eqn:M; [|reflexivity].
    apply mem_nat_In in M. apply in_seq in M. apply Nat.ltb_ge in E. lia.
Qed.

Section Paths.
Variable d : ndag.
Hypothesis W : wf_ndag d = true.

Lemma npaths_fuel2 : forall f1 f2 j w, (j < f1)%nat -> (j < f2)%nat -> npaths f1 d j w = npaths f2 d j w.
Proof.
  induction f1 as [|f1 IH]; intros f2 j w H1 H2; [lia|]. destruct f2 as [|f2]; [lia|].
  cbn [npaths]. destruct (Nat.eqb j w); [reflexivity|].
  assert (Hc : forall c, child d j c -> npaths f1 d c w = npaths f2 d c w).
  { intros c Hc. destruct (wf_child d j c W Hc) as [Hlt _]. apply IH; lia. }
  f_equal.
  - destruct (nn_l (nget d j)) as [c|] eqn:E; [|reflexivity]. apply Hc. left. exact E.
  - destruct (nn_r (nget d j)) as [c|] eqn:E; [|reflexivity]. apply Hc. right. exact E.
Qed.

Definition opaths (o : option nat) (w : nat) : N := match o with Some c => paths d c w | None => 0 end.

Lemma paths_unfold j w :
  paths d j w = if Nat.eqb j w then 1 else opaths (nn_l (nget d j)) w + opaths (nn_r (nget d j)) w.
Proof.
  unfold paths at 1. cbn [npaths]. destruct (Nat.eqb j w); [reflexivity|].
  f_equal.
  - destruct (nn_l (nget d j)) as [c|] eqn:E; [|reflexivity]. cbn [opaths].
    assert (child d j c) by (left; exact E). destruct (wf_child d j c W H) as [Hlt _].
    apply npaths_fuel2; lia.
  - destruct (nn_r (nget d j)) as [c|] eqn:E; [|reflexivity]. cbn [opaths].
    assert (child d j c) by (right; exact E). destruct (wf_child d j c W H) as [Hlt _].
    apply npaths_fuel2; lia.
Qed.

(* nothing above j is reached from j *)
Lemma paths_above : forall j w, (j < w)%nat -> paths d j w = 0.
Proof.
  induction j as [j IH] using lt_wf_ind. intros w Hw. rewrite paths_unfold.
  assert (E : Nat.eqb j w = false) by (apply Nat.eqb_neq; lia). rewrite E.
  assert (Hc : forall o, (forall c, o = Some c -> child d j c) -> opaths o w = 0).
  { intros [c|] Hc; [|reflexivity]. cbn [opaths]. destruct (wf_child d j c W (Hc c eq_refl)) as [Hlt _].
    apply IH; lia. }
  rewrite (Hc (nn_l (nget d j))) by (intros c E'; left; exact E').
  rewrite (Hc (nn_r (nget d j))) by (intros c E'; right; exact E'). reflexivity.
Qed.

Lemma paths_refl j : paths d j j = 1.
Proof. rewrite paths_unfold, Nat.eqb_refl. reflexivity. Qed.

(* without the case distinction *)
Lemma paths_step j w :
  paths d j w = (if Nat.eqb j w then 1 else 0) + opaths (nn_l (nget d j)) w + opaths (nn_r (nget d j)) w.
Proof.
  rewrite paths_unfold. destruct (Nat.eqb j w) eqn:E; [|lia].
  apply Nat.eqb_eq in E. subst w.
  assert (Hc : forall o, (forall c, o = Some c -> child d j c) -> opaths o j = 0).
  { intros [c|] Hc; [|reflexivity]. cbn [opaths]. destruct (wf_child d j c W (Hc c eq_refl)) as [Hlt _].
    apply paths_above. exact Hlt. }
  rewrite (Hc (nn_l (nget d j))) by (intros c E'; left; exact E').
  rewrite (Hc (nn_r (nget d j))) by (intros c E'; right; exact E'). reflexivity.
Qed.

Definition oname_paths (o : option nat) (n : name) : N :=
  match o with Some c => name_paths d c n | None => 0 end.

Definition own (j : nat) (n : name) : N := if is_named d n j then 1 else 0.

Lemma name_paths_step j n : (j < length d)%nat ->
  name_paths d j n = own j n + oname_paths (nn_l (nget d j)) n + oname_paths (nn_r (nget d j)) n.
Proof.
  intros Hj. unfold name_paths at 1.
  rewrite (sumN_ext _ (fun w => (if is_named d n w then (if Nat.eqb j w then 1 else 0) else 0) +
                                ((if is_named d n w then opaths (nn_l (nget d j)) w else 0) +
                                 (if is_named d n w then opaths (nn_r (nget d j)) w else 0)))).
  2:{ intros w _. rewrite paths_step. destruct (is_named d n w); lia. }
  rewrite sumN_add, sumN_add.
  assert (E1 : sumN (fun w => if is_named d n w then if Nat.eqb j w then 1 else 0 else 0) (seq 0 (length d)) = own j n).
  { rewrite (sumN_single _ _ j); [| apply seq_NoDup |].
    - rewrite mem_nat_seq. assert (E : Nat.ltb j (length d) = true) by (apply Nat.ltb_lt; exact Hj).
      rewrite E, Nat.eqb_refl. reflexivity.
    - intros w _ Hne. assert (E : Nat.eqb j w = false) by (apply Nat.eqb_neq; congruence).
      rewrite E. destruct (is_named d n w); reflexivity. }
  rewrite E1.
  assert (E2 : forall o, sumN (fun w => if is_named d n w then opaths o w else 0) (seq 0 (length d)) = oname_paths o n).
  { intros [c|]; cbn [opaths oname_paths]; [reflexivity|].
    apply sumN_zero. intros w _. destruct (is_named d n w); reflexivity. }
  rewrite !E2. lia.
Qed.

(* ------------------------------------------------------------------ one step of either evaluation *)
(* a map that is the function name_paths of node c *)
Definition is_map_of (c : nat) (m : counts) : Prop :=
  keys_ok m /\ forall n, cnt_get m n = name_paths d c n.

Definition is_omap_of (o : option nat) (m : counts) : Prop :=
  match o with Some c => is_map_of c m | None => m = [] end.

Lemma omap_get o m n : is_omap_of o m -> cnt_tot m n = oname_paths o n /\ cnt_get m n = oname_paths o n /\ keys_ok m.
Proof.
  destruct o as [c|]; cbn [is_omap_of oname_paths].
  - intros [K H]. rewrite cnt_tot_get by exact K. rewrite H. repeat split; [exact K].
  - intros ->. repeat split. constructor.
Qed.

(* the tidy step (Resolve.cnt_node) *)
Lemma cnt_node_spec j ml mr : (j < length d)%nat ->
  is_omap_of (nn_l (nget d j)) ml -> is_omap_of (nn_r (nget d j)) mr ->
  is_map_of j (cnt_node (nget d j) (Some ml) (Some mr)).
Proof.
  intros Hj Hl Hr. unfold cnt_node. split.
  - destruct (counted (nget d j)); [apply cnt_add_keys_ok|]; apply cnt_merge_keys_ok;
      apply (omap_get _ _ NMain Hl).
  - intros n. rewrite (name_paths_step j n Hj).
    destruct (omap_get _ _ n Hl) as [_ [Gl _]]. destruct (omap_get _ _ n Hr) as [Tr _].
    unfold own, is_named, nname.
    destruct (counted (nget d j)); cbn [andb].
    + rewrite cnt_get_add, cnt_merge_spec, Gl, Tr. lia.
    + rewrite cnt_merge_spec, Gl, Tr. lia.
Qed.

(* the step as written: an empty map, the left map added, the right map added, then the own name *)
Definition pc_new (n : nnode) (ml mr : option counts) : counts :=
  let c0 : counts := [] in
  let c1 := match ml with Some m => cnt_merge c0 m | None => c0 end in
  let c2 := match mr with Some m => cnt_merge c1 m | None => c1 end in
  if counted n then cnt_add c2 (nn_name n) 1 else c2.

Lemma pc_new_spec j ml mr : (j < length d)%nat ->
  is_omap_of (nn_l (nget d j)) ml -> is_omap_of (nn_r (nget d j)) mr ->
  is_map_of j (pc_new (nget d j)
                 (match nn_l (nget d j) with Some _ => Some ml | None => None end)
                 (match nn_r (nget d j) with Some _ => Some mr | None => None end)).
Proof.
  intros Hj Hl Hr. unfold pc_new.
  set (c1 := match match nn_l (nget d j) with Some _ => Some ml | None => None end with
             | Some m => cnt_merge [] m | None => [] end).
  assert (K1 : keys_ok c1 /\ forall n, cnt_get c1 n = oname_paths (nn_l (nget d j)) n).
  { subst c1. destruct (nn_l (nget d j)) as [c|].
    - split; [apply cnt_merge_keys_ok; constructor|]. intros n. rewrite cnt_merge_spec.
      destruct (omap_get _ _ n Hl) as [T _]. rewrite T. reflexivity.
    - split; [constructor | reflexivity]. }
  destruct K1 as [K1 G1].
  set (c2 := match match nn_r (nget d j) with Some _ => Some mr | None => None end with
             | Some m => cnt_merge c1 m | None => c1 end).
  assert (K2 : keys_ok c2 /\ forall n, cnt_get c2 n = oname_paths (nn_l (nget d j)) n + oname_paths (nn_r (nget d j)) n).
  { subst c2. destruct (nn_r (nget d j)) as [c|].
    - split; [apply cnt_merge_keys_ok; exact K1|]. intros n. rewrite cnt_merge_spec, G1.
      destruct (omap_get _ _ n Hr) as [T _]. rewrite T. reflexivity.
    - split; [exact K1|]. intros n. rewrite G1. cbn [oname_paths]. lia. }
  destruct K2 as [K2 G2]. clearbody c2. clear c1 K1 G1.
  split.
  - destruct (counted (nget d j)); [apply cnt_add_keys_ok|]; exact K2.
  - intros n. rewrite (name_paths_step j n Hj). unfold own, is_named, nname.
    destruct (counted (nget d j)); cbn [andb].
    + rewrite cnt_get_add, G2. lia.
    + rewrite G2. lia.
Qed.

(* ------------------------------------------------------------------ Resolve.path_counts *)
Lemma eval_cnt_spec : forall j, (j < length d)%nat -> is_map_of j (nth j (eval_tbl [] cnt_node d) []).
Proof.
  induction j as [j IH] using lt_wf_ind. intros Hj.
  rewrite (eval_tbl_nth [] cnt_node d j W Hj).
  assert (Hc : forall o, (forall c, o = Some c -> child d j c) ->
            is_omap_of o (match o with Some c => nth c (eval_tbl [] cnt_node d) [] | None => [] end)).
  { intros [c|] Hc; cbn [is_omap_of]; [|reflexivity].
    destruct (wf_child d j c W (Hc c eq_refl)) as [Hlt Hj']. apply IH; lia. }
  pose proof (Hc (nn_l (nget d j)) (fun c E => or_introl E)) as Hl.
  pose proof (Hc (nn_r (nget d j)) (fun c E => or_intror E)) as Hr.
  pose proof (cnt_node_spec j _ _ Hj Hl Hr) as S.
  (* cnt_node treats a missing child as the empty map *)
  destruct (nn_l (nget d j)) as [cl|], (nn_r (nget d j)) as [cr|]; cbn [option_map]; exact S.
Qed.

Lemma length_pos : (0 < length d)%nat.
Proof.
  unfold wf_ndag in W. apply andb_true_iff in W. destruct W as [W0 _].
  destruct (length d); [discriminate W0 | lia].
Qed.

Lemma path_counts_spec : is_map_of (root_of d) (path_counts d).
Proof. unfold path_counts. apply eval_cnt_spec. pose proof length_pos. unfold root_of. lia. Qed.
End Paths.

(* ------------------------------------------------------------------ the post order yields children first *)
(* a list (newest first) in which the children of every entry occur further down *)
Fixpoint cc (d : ndag) (l : list nat) : Prop :=
  match l with
  | [] => True
  | a :: r => (forall c, child d a c -> In c r) /\ cc d r
  end.

Lemma po_cc d : wf_ndag d = true -> forall fuel i seen, (i < fuel)%nat -> cc d seen ->
  cc d (po fuel d i seen) /\ In i (po fuel d i seen) /\ incl seen (po fuel d i seen).
Proof.
  intros W. induction fuel as [|f IH]; intros i seen Hi Hc; [lia|].
  rewrite po_unfold. destruct (mem_nat i seen) eqn:Em.
  - apply mem_nat_In in Em. split; [exact Hc|]. split; [exact Em | apply incl_refl].
  - assert (IHo : forall o s, (forall c, o = Some c -> (c < f)%nat) -> cc d s ->
              cc d (po_opt f d o s) /\ (forall c, o = Some c -> In c (po_opt f d o s)) /\ incl s (po_opt f d o s)).
    { intros [c|] s Hlt Hs; cbn [po_opt].
      - destruct (IH c s (Hlt c eq_refl) Hs) as [A [B C]]. split; [exact A|]. split; [|exact C].
        intros c' E. injection E as <-. exact B.
      - split; [exact Hs|]. split; [discriminate | apply incl_refl]. }
    assert (Hl : forall c, nn_l (nget d i) = Some c -> (c < f)%nat).
    { intros c E. assert (child d i c) by (left; exact E). apply (wf_child d i c W) in H. lia. }
    assert (Hr : forall c, nn_r (nget d i) = Some c -> (c < f)%nat).
    { intros c E. assert (child d i c) by (right; exact E). apply (wf_child d i c W) in H. lia. }
    destruct (IHo (nn_l (nget d i)) seen Hl Hc) as [C1 [I1 S1]].
    destruct (IHo (nn_r (nget d i)) _ Hr C1) as [C2 [I2 S2]].
    split; [|split].
    + cbn [cc]. split; [|exact C2]. intros c [E|E]; [apply S2, I1, E | apply I2, E].
    + left. reflexivity.
    + intros x Hx. right. apply S2, S1, Hx.
Qed.

(* position of a node among the nodes yielded so far (PostOrderIterItem::left_index / right_index) *)
Fixpoint pos_of (i : nat) (l : list nat) : nat :=
  match l with
  | [] => 0
  | x :: r => if Nat.eqb x i then 0 else S (pos_of i r)
  end.

Lemma pos_of_spec i l : In i l -> (pos_of i l < length l)%nat /\ nth (pos_of i l) l 0%nat = i.
Proof.
  induction l as [|x r IH]; intros H; [inversion H|]. cbn [pos_of].
  destruct (Nat.eqb x i) eqn:E.
  - apply Nat.eqb_eq in E. subst. cbn. split; [lia | reflexivity].
  - destruct H as [->|H]; [rewrite Nat.eqb_refl in E; discriminate E|].
    destruct (IH H) as [A B]. cbn [length nth]. split; [lia | exact B].
Qed.

(* ------------------------------------------------------------------ the loop as written *)
Definition pc_step (d : ndag) (yielded : list nat) (cs : list counts) (i : nat) : counts :=
  let n := nget d i in
  pc_new n (option_map (fun c => nth (pos_of c yielded) cs []) (nn_l n))
           (option_map (fun c => nth (pos_of c yielded) cs []) (nn_r n)).

Fixpoint pc_loop (d : ndag) (todo yielded : list nat) (cs : list counts) : list counts :=
  match todo with
  | [] => cs
  | i :: r => pc_loop d r (yielded ++ [i]) (cs ++ [pc_step d yielded cs i])
  end.

(* the vector of maps after the loop over one root *)
Definition pc_all (d : ndag) : list counts := pc_loop d (post_order d) [] [].

Definition usize_max : N := 18446744073709551615.

Definition over (m : counts) : bool := existsb (fun nk => usize_max <? snd nk) m.

Definition wd_of (m : counts) : list (name * N) := filter (fun nk => 1 <? snd nk) m.

(* `counts.last().unwrap()` and the report; Panic 1: an addition overflowed (every partial sum of an
   entry is below the entry: an addition overflows iff some finished entry is above usize::MAX);
   Panic 2: unwrap on an empty vector *)
Definition wd_check_old (d : ndag) : outcome unit (list (name * N)) :=
  let cs := pc_all d in
  if existsb over cs then Panic 1
  else match rev cs with
       | [] => Panic 2
       | m :: _ => Ok (wd_of m)
       end.

(* unbounded counts: what the loop means *)
Definition wd_errors (d : ndag) : list (name * N) := wd_of (last (pc_all d) []).

Section Loop.
Variable d : ndag.
Hypothesis W : wf_ndag d = true.

(* invariant: one map per yielded node, each the function name_paths of its node *)
Definition loop_inv (yielded : list nat) (cs : list counts) : Prop :=
  length cs = length yielded /\
  forall k, (k < length yielded)%nat -> is_map_of d (nth k yielded 0%nat) (nth k cs []).

Lemma pc_loop_inv : forall todo yielded cs,
  loop_inv yielded cs ->
  (forall a, In a todo -> (a < length d)%nat) ->
  cc d (rev (yielded ++ todo)) ->
  loop_inv (yielded ++ todo) (pc_loop d todo yielded cs).
Proof.
  induction todo as [|i r IH]; intros yielded cs Inv Hr Hc; cbn [pc_loop].
  - rewrite app_nil_r. exact Inv.
  - replace (yielded ++ i :: r) with ((yielded ++ [i]) ++ r) by (rewrite <- app_assoc; reflexivity).
    apply IH.
    + destruct Inv as [Hlen Hm]. split; [rewrite !app_length, Hlen; reflexivity|].
      intros k Hk. rewrite app_length in Hk. cbn [length] in Hk.
      destruct (Nat.lt_ge_cases k (length yielded)) as [Hlt|Hge].
      * rewrite !app_nth1 by lia. apply Hm. exact Hlt.
      * assert (k = length yielded) by lia. subst k.
        rewrite app_nth2 by lia. rewrite Nat.sub_diag. cbn [nth].
        rewrite <- Hlen at 1. rewrite app_nth2 by lia. rewrite Nat.sub_diag. cbn [nth].
        (* the children of i were yielded before *)
        assert (Hch : forall c, child d i c -> In c yielded).
        { intros c Hcc. rewrite rev_app_distr in Hc. cbn [rev] in Hc. rewrite <- app_assoc in Hc.
          clear - Hc Hcc. induction (rev r) as [|x l IHl]; cbn [app cc] in Hc.
          - destruct Hc as [Hc _]. apply in_rev. exact (Hc c Hcc).
          - apply IHl. exact (proj2 Hc). }
        assert (Ho : forall o, (forall c, o = Some c -> child d i c) ->
                  is_omap_of d o (match o with Some c => nth (pos_of c yielded) cs [] | None => [] end)).
        { intros [c|] Hoc; cbn [is_omap_of]; [|reflexivity].
          destruct (pos_of_spec c yielded (Hch c (Hoc c eq_refl))) as [P1 P2].
          specialize (Hm _ P1). rewrite P2 in Hm. exact Hm. }
        pose proof (Ho (nn_l (nget d i)) (fun c E => or_introl E)) as Hl.
        pose proof (Ho (nn_r (nget d i)) (fun c E => or_intror E)) as Hrr.
        pose proof (pc_new_spec d W i _ _ (Hr i (or_introl eq_refl)) Hl Hrr) as S.
        unfold pc_step. destruct (nn_l (nget d i)) as [cl|], (nn_r (nget d i)) as [cr|]; cbn [option_map]; exact S.
    + intros a Ha. apply Hr. right. exact Ha.
    + rewrite <- app_assoc. exact Hc.
Qed.

Lemma post_order_cc : cc d (rev (post_order d)).
Proof.
  unfold post_order. rewrite rev_involutive.
  apply (po_cc d W); [|exact I]. pose proof (length_pos d W). unfold root_of. lia.
Qed.

Lemma po_head : exists rest, po (S (length d)) d (root_of d) [] = root_of d :: rest.
Proof.
  rewrite po_unfold. cbn [mem_nat existsb]. eexists. reflexivity.
Qed.

Lemma pc_all_inv : loop_inv (post_order d) (pc_all d).
Proof.
  unfold pc_all. apply (pc_loop_inv (post_order d) [] []).
  - split; [reflexivity|]. intros k Hk. cbn in Hk. lia.
  - intros a Ha. exact (pf_range _ _ (post_order_facts d W) a Ha).
  - cbn [app]. exact post_order_cc.
Qed.

(* the last map is the one of the root *)
Lemma pc_last : is_map_of d (root_of d) (last (pc_all d) []).
Proof.
  destruct pc_all_inv as [Hlen Hm]. destruct po_head as [rest E].
  assert (P : post_order d = rev rest ++ [root_of d]) by (unfold post_order; rewrite E; reflexivity).
  assert (Hn : (length (post_order d) = S (length rest))%nat).
  { rewrite P, app_length, rev_length. cbn. lia. }
  specialize (Hm (length rest) ltac:(lia)).
  rewrite P in Hm at 1. rewrite app_nth2 in Hm by (rewrite rev_length; lia).
  rewrite rev_length, Nat.sub_diag in Hm. cbn [nth] in Hm.
  assert (L : last (pc_all d) [] = nth (length rest) (pc_all d) []).
  { clear Hm. revert Hlen. rewrite Hn. generalize (pc_all d) (length rest). 
    induction l as [|x l IHl]; intros n Hl; [discriminate Hl|].
    destruct l as [|y l]; [cbn in Hl; assert (n = 0)%nat by lia; subst; reflexivity|].
    destruct n as [|n]; [cbn in Hl; lia|]. cbn [last nth]. apply IHl. cbn in Hl |- *. lia. }
  rewrite L. exact Hm.
Qed.

(* the two versions agree as functions; both are name_paths *)
Theorem pc_agree n :
  cnt_get (last (pc_all d) []) n = name_paths d (root_of d) n /\
  cnt_get (path_counts d) n = name_paths d (root_of d) n.
Proof. split; [apply pc_last | apply (path_counts_spec d W)]. Qed.

Lemma wd_of_spec m n c : keys_ok m -> (In (n, c) (wd_of m) <-> c = cnt_get m n /\ 1 < c).
Proof.
  intros K. unfold wd_of. rewrite filter_In. cbn [snd]. rewrite N.ltb_lt. split.
  - intros [Hin Hc]. split; [symmetry; apply In_cnt_get; assumption | exact Hc].
  - intros [-> Hc]. split; [|exact Hc]. apply cnt_get_In. lia.
Qed.

Lemma wd_of_keys m : keys_ok m -> NoDup (map fst (wd_of m)).
Proof.
  unfold keys_ok, wd_of. induction m as [|[a k] r IH]; cbn [filter map fst]; intros H; [constructor|].
  inversion H as [|? ? Hn Hr]; subst. cbn [snd]. destruct (1 <? k); cbn [map fst]; [|apply IH; exact Hr].
  constructor; [|apply IH; exact Hr]. intros Hin. apply Hn.
  clear - Hin. induction r as [|[b j] r IH]; cbn [filter map fst snd] in *; [inversion Hin|].
  destruct (1 <? j); cbn [map fst] in Hin; [destruct Hin as [->|Hin]; [left; reflexivity|]|]; right; apply IH; exact Hin.
Qed.

(* the reported pairs: exactly the names reached by more than one path, each once, with that number *)
Theorem wd_errors_spec n c :
  In (n, c) (wd_errors d) <-> c = name_paths d (root_of d) n /\ 1 < c.
Proof.
  unfold wd_errors. destruct pc_last as [K G]. rewrite (wd_of_spec _ n c K), G. reflexivity.
Qed.

Theorem wd_errors_names : NoDup (map fst (wd_errors d)).
Proof. unfold wd_errors. apply wd_of_keys. apply pc_last. Qed.

Lemma wd_of_nil m : keys_ok m -> (wd_of m = [] <-> forall n, cnt_get m n <= 1).
Proof.
  intros K. split.
  - intros E n. destruct (N.le_gt_cases (cnt_get m n) 1) as [H|H]; [exact H|].
    assert (In (n, cnt_get m n) (wd_of m)) by (apply wd_of_spec; [exact K | split; [reflexivity | exact H]]).
    rewrite E in H0. inversion H0.
  - intros H. destruct (wd_of m) as [|[n c] r] eqn:E; [reflexivity|].
    assert (Hin : In (n, c) (wd_of m)) by (rewrite E; left; reflexivity).
    apply wd_of_spec in Hin; [|exact K]. destruct Hin as [-> Hc]. specialize (H n). lia.
Qed.

Lemma path_errs_nil_iff : path_errs d = [] <-> wd_of (path_counts d) = [].
Proof.
  unfold path_errs, wd_of. induction (path_counts d) as [|[n k] r IH]; cbn [flat_map filter snd]; [tauto|].
  destruct (1 <? k); cbn [app]; [split; discriminate | exact IH].
Qed.

(* no error  <->  the tidy version reports none  <->  every name is reached by at most one path *)
Theorem no_error_iff :
  (wd_errors d = [] <-> path_errs d = []) /\
  (wd_errors d = [] <-> forall n, name_paths d (root_of d) n <= 1).
Proof.
  destruct pc_last as [K G]. destruct (path_counts_spec d W) as [K' G'].
  assert (A : wd_errors d = [] <-> forall n, name_paths d (root_of d) n <= 1).
  { unfold wd_errors. rewrite (wd_of_nil _ K). split; intros H n; specialize (H n); [rewrite <- G | rewrite G]; exact H. }
  split; [|exact A].
  rewrite A, path_errs_nil_iff, (wd_of_nil _ K').
  split; intros H n; specialize (H n); [rewrite G' | rewrite <- G']; exact H.
Qed.

(* with overflow checks: no panic exactly when every count fits, and then the unbounded report *)
Lemma wd_check_old_ok : existsb over (pc_all d) = false -> wd_check_old d = Ok (wd_errors d).
Proof.
  intros H. unfold wd_check_old, wd_errors. rewrite H.
  destruct pc_all_inv as [Hlen _]. destruct po_head as [rest E].
  assert (Hn : (length (pc_all d) = S (length rest))%nat).
  { rewrite Hlen. unfold post_order. rewrite E. cbn [rev]. rewrite app_length, rev_length. cbn. lia. }
  destruct (pc_all d) as [|x l] using rev_ind; [discriminate Hn|].
  rewrite rev_app_distr. cbn [rev app]. rewrite last_last. reflexivity.
Qed.

Lemma wd_check_old_total : match wd_check_old d with Ok _ => True | Panic c => c = 1 | _ => False end.
Proof.
  destruct (existsb over (pc_all d)) eqn:H.
  - unfold wd_check_old. rewrite H. reflexivity.
  - rewrite (wd_check_old_ok H). exact I.
Qed.
End Loop.

Theorem pc_agree_thm : forall d n, wf_ndag d = true ->
  cnt_get (last (pc_all d) []) n = name_paths d (root_of d) n /\
  cnt_get (path_counts d) n = name_paths d (root_of d) n.
Proof. intros d n W. exact (pc_agree d W n). Qed.

Theorem wd_errors_spec_thm : forall d n c, wf_ndag d = true ->
  (In (n, c) (wd_errors d) <-> c = name_paths d (root_of d) n /\ 1 < c).
Proof. intros d n c W. exact (wd_errors_spec d W n c). Qed.
