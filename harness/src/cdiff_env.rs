//! Deterministic family of Elements transaction environments for C03 (pruning) and C06.
//!
//! An environment is described by the token
//!     env.<seed>.<n_in>.<n_out>.<ix>.<annex 0|1|2>.<lock_time>.<sequence>
//! (annex: 0 = absent, 1 = present on the current input, 2 = present on every input).  Everything
//! else (pegins, issuances, explicit / confidential / null assets, values and nonces, script
//! lengths, range / surjection proofs, taproot merkle path length, parity) is drawn from a
//! SplitMix64 generator seeded with <seed>.  `dummy` is the equivalent of the library's
//! `ElementsEnv::dummy()` (which is `#[cfg(test)]` and therefore not reachable from here).
//! The script CMR of the taproot environment is the CMR of the program under test.
use simplicity::bitcoin;
use simplicity::elements::confidential::{self, RangeProof, SurjectionProof};
use simplicity::elements::taproot::ControlBlock;
use simplicity::elements::{
    AssetBlindingNonce, AssetEntropy, AssetId, AssetIssuance, BlockHash, LockTime, OutPoint,
    PeginData, PeginWitness, Script, Sequence, Transaction, TxIn, TxInWitness, TxOut, TxOutWitness,
    Txid, Witness,
};
use simplicity::jet::elements::{ElementsEnv, ElementsUtxo};
use simplicity::Cmr;
use std::sync::Arc;

pub struct Rng(pub u64);

impl Rng {
    pub fn next(&mut self) -> u64 {
        self.0 = self.0.wrapping_add(0x9E3779B97F4A7C15);
        let mut z = self.0;
        z = (z ^ (z >> 30)).wrapping_mul(0xBF58476D1CE4E5B9);
        z = (z ^ (z >> 27)).wrapping_mul(0x94D049BB133111EB);
        z ^ (z >> 31)
    }
    pub fn below(&mut self, n: u64) -> u64 {
        if n == 0 {
            0
        } else {
            self.next() % n
        }
    }
    pub fn bytes(&mut self, n: usize) -> Vec<u8> {
        (0..n).map(|_| self.next() as u8).collect()
    }
    pub fn arr32(&mut self) -> [u8; 32] {
        let mut a = [0u8; 32];
        for b in a.iter_mut() {
            *b = self.next() as u8;
        }
        a
    }
}

/// a 33-byte commitment with one of the two given prefixes whose x coordinate is on the curve
fn commitment(rng: &mut Rng, p0: u8, check: &dyn Fn(&[u8]) -> bool) -> Option<[u8; 33]> {
    for _ in 0..64 {
        let mut c = [0u8; 33];
        c[0] = p0 + (rng.below(2) as u8);
        c[1..].copy_from_slice(&rng.arr32());
        // keep x below the field prime with overwhelming probability
        c[1] &= 0x7f;
        if check(&c) {
            return Some(c);
        }
    }
    None
}

fn gen_asset(rng: &mut Rng, allow_null: bool) -> confidential::Asset {
    match rng.below(if allow_null { 5 } else { 4 }) {
        0 | 1 => confidential::Asset::Explicit(AssetId::from_byte_array(rng.arr32())),
        2 | 3 => {
            let c = commitment(rng, 0x0a, &|b| confidential::Asset::from_commitment(b).is_ok());
            match c {
                Some(c) => confidential::Asset::from_commitment(&c).unwrap(),
                None => confidential::Asset::Explicit(AssetId::from_byte_array(rng.arr32())),
            }
        }
        _ => confidential::Asset::Null,
    }
}

fn gen_value(rng: &mut Rng, allow_null: bool) -> confidential::Value {
    match rng.below(if allow_null { 5 } else { 4 }) {
        0 | 1 => {
            let v = match rng.below(4) {
                0 => rng.below(1000),
                1 => rng.next() >> 20,
                2 => 21_000_000 * 100_000_000,
                _ => rng.next(),
            };
            confidential::Value::Explicit(v)
        }
        2 | 3 => {
            let c = commitment(rng, 0x08, &|b| confidential::Value::from_commitment(b).is_ok());
            match c {
                Some(c) => confidential::Value::from_commitment(&c).unwrap(),
                None => confidential::Value::Explicit(rng.next()),
            }
        }
        _ => confidential::Value::Null,
    }
}

fn gen_nonce(rng: &mut Rng) -> confidential::Nonce {
    match rng.below(4) {
        0 => confidential::Nonce::Explicit(rng.arr32()),
        1 => {
            let c = commitment(rng, 0x02, &|b| confidential::Nonce::from_commitment(b).is_ok());
            match c {
                Some(c) => confidential::Nonce::from_commitment(&c).unwrap(),
                None => confidential::Nonce::Null,
            }
        }
        _ => confidential::Nonce::Null,
    }
}

fn gen_script(rng: &mut Rng) -> Script {
    let n = match rng.below(5) {
        0 => 0,
        1 => 22,
        2 => 34,
        3 => rng.below(80) as usize,
        _ => 25,
    };
    Script::from(rng.bytes(n))
}

/// Proof bytes: the C side only hashes them.  The `elements` types parse their input, so we try a few
/// plausible byte strings and fall back to the empty proof.
fn gen_rangeproof(rng: &mut Rng) -> RangeProof {
    if rng.below(3) == 0 {
        return RangeProof::EMPTY;
    }
    for _ in 0..4 {
        let n = 1 + rng.below(120) as usize;
        let mut b = rng.bytes(n);
        // single-value proof header: exponent -1 / exact value form parses without further structure
        b[0] &= 0x3f;
        if let Ok(p) = RangeProof::from_slice(&b) {
            return p;
        }
    }
    RangeProof::EMPTY
}

fn gen_surjectionproof(rng: &mut Rng) -> SurjectionProof {
    if rng.below(3) == 0 {
        return SurjectionProof::EMPTY;
    }
    for _ in 0..4 {
        // n_inputs (LE u16), bitmap of ceil(n/8) bytes with k bits set, then 32*(1+k) bytes
        let n_inputs = 1 + rng.below(3) as usize;
        let mut b = vec![n_inputs as u8, 0u8];
        let bitmap: u8 = 1 << rng.below(n_inputs as u64);
        b.push(bitmap);
        b.extend(rng.bytes(64));
        if let Ok(p) = SurjectionProof::from_slice(&b) {
            return p;
        }
    }
    SurjectionProof::EMPTY
}

fn gen_issuance(rng: &mut Rng) -> AssetIssuance {
    match rng.below(4) {
        0 | 1 => AssetIssuance::default(),
        2 => AssetIssuance {
            // new issuance
            asset_blinding_nonce: AssetBlindingNonce::NEW_ISSUANCE,
            asset_entropy: AssetEntropy::from_byte_array(rng.arr32()),
            amount: gen_value(rng, true),
            inflation_keys: gen_value(rng, true),
        },
        _ => AssetIssuance {
            // reissuance
            asset_blinding_nonce: AssetBlindingNonce::from_byte_array({
                let mut a = rng.arr32();
                a[0] &= 0x7f;
                a[31] |= 1;
                a
            }),
            asset_entropy: AssetEntropy::from_byte_array(rng.arr32()),
            amount: gen_value(rng, false),
            inflation_keys: confidential::Value::Null,
        },
    }
}

pub const CTRL_KEY: [u8; 32] = [
    0xeb, 0x04, 0xb6, 0x8e, 0x9a, 0x26, 0xd1, 0x16, 0x04, 0x6c, 0x76, 0xe8, 0xff, 0x47, 0x33, 0x2f,
    0xb7, 0x1d, 0xda, 0x90, 0xff, 0x4b, 0xef, 0x53, 0x70, 0xf2, 0x52, 0x26, 0xd3, 0xbc, 0x09, 0xfc,
];

pub type Env = ElementsEnv<Arc<Transaction>>;

/// equivalent of the library's test-only `ElementsEnv::dummy()`
pub fn dummy(script_cmr: Cmr) -> Env {
    let mut cb = vec![0xc0u8];
    cb.extend_from_slice(&CTRL_KEY);
    ElementsEnv::new(
        Arc::new(Transaction {
            version: 2,
            lock_time: LockTime::ZERO,
            input: vec![TxIn {
                previous_output: OutPoint::default(),
                is_pegin: false,
                script_sig: Script::new(),
                sequence: Sequence::MAX,
                asset_issuance: AssetIssuance::default(),
                witness: TxInWitness::default(),
            }],
            output: Vec::default(),
        }),
        vec![ElementsUtxo {
            script_pubkey: Script::new(),
            asset: confidential::Asset::Null,
            value: confidential::Value::Null,
        }],
        0,
        script_cmr,
        ControlBlock::from_slice(&cb).unwrap(),
        None,
        BlockHash::GENESIS_PREVIOUS_BLOCK_HASH,
    )
}

/// Parse `env.<seed>.<n_in>.<n_out>.<ix>.<annex>.<lock_time>.<sequence>` or `dummy`.
pub fn build(desc: &str, script_cmr: Cmr) -> Env {
    if desc == "dummy" {
        return dummy(script_cmr);
    }
    let f: Vec<&str> = desc.split('.').collect();
    assert_eq!(f[0], "env");
    let seed: u64 = f[1].parse().unwrap();
    let n_in: usize = f[2].parse().unwrap();
    let n_out: usize = f[3].parse().unwrap();
    let ix: u32 = f[4].parse().unwrap();
    let annex_mode: u32 = f[5].parse().unwrap();
    let lock_time: u32 = f[6].parse().unwrap();
    let sequence: u32 = f[7].parse().unwrap();
    let mut rng = Rng(seed);
    use bitcoin::hashes::Hash as _;

    // taproot control block: leaf version 0xbe, random parity, path of 0..3 nodes
    let mut cb = vec![0xbeu8 | (rng.below(2) as u8)];
    cb.extend_from_slice(&CTRL_KEY);
    for _ in 0..rng.below(4) {
        cb.extend_from_slice(&rng.arr32());
    }
    let control_block = ControlBlock::from_slice(&cb).unwrap();

    let mut inputs = vec![];
    let mut utxos = vec![];
    for i in 0..n_in {
        let is_pegin = rng.below(5) == 0;
        let issuance = gen_issuance(&mut rng);
        let mut stack: Vec<Vec<u8>> = vec![];
        for _ in 0..rng.below(3) {
            let n = rng.below(40) as usize;
            let mut item = rng.bytes(n);
            if !item.is_empty() && item[0] == 0x50 {
                item[0] = 0x51;
            }
            stack.push(item);
        }
        stack.push(cb.clone());
        let with_annex = annex_mode == 2 || (annex_mode == 1 && i as u32 == ix);
        let annex = if with_annex {
            let n = rng.below(70) as usize;
            let mut a = vec![0x50u8];
            a.extend(rng.bytes(n));
            Some(a)
        } else {
            None
        };
        if let Some(a) = &annex {
            stack.push(a.clone());
        }
        let pegin_witness = if is_pegin {
            PeginWitness::new(PeginData {
                value: rng.next() >> 16,
                asset_id: AssetId::from_byte_array(rng.arr32()),
                genesis_hash: bitcoin::BlockHash::from_byte_array(rng.arr32()),
                claim_script: bitcoin::ScriptBuf::from_bytes(rng.bytes(22)),
                transaction: rng.bytes(60),
                merkle_proof: rng.bytes(80),
                referenced_block: bitcoin::BlockHash::from_byte_array(rng.arr32()),
            })
        } else {
            PeginWitness::EMPTY
        };
        let seq = if i as u32 == ix {
            sequence
        } else {
            match rng.below(4) {
                0 => 0xffff_ffff,
                1 => 0xffff_fffe,
                2 => rng.below(0x10000) as u32,
                _ => (1 << 22) | rng.below(0x10000) as u32,
            }
        };
        let has_issuance = !issuance.is_null();
        inputs.push(TxIn {
            previous_output: OutPoint {
                txid: Txid::from_byte_array(rng.arr32()),
                vout: rng.below(8) as u32,
            },
            is_pegin,
            script_sig: if rng.below(4) == 0 { gen_script(&mut rng) } else { Script::new() },
            sequence: Sequence::from_consensus(seq),
            asset_issuance: issuance,
            witness: TxInWitness {
                amount_rangeproof: if has_issuance { gen_rangeproof(&mut rng) } else { RangeProof::EMPTY },
                inflation_keys_rangeproof: if has_issuance { gen_rangeproof(&mut rng) } else { RangeProof::EMPTY },
                script_witness: Witness::from(stack),
                pegin_witness,
            },
        });
        utxos.push(ElementsUtxo {
            script_pubkey: gen_script(&mut rng),
            asset: gen_asset(&mut rng, false),
            value: gen_value(&mut rng, false),
        });
    }
    let mut outputs = vec![];
    for _ in 0..n_out {
        let asset = gen_asset(&mut rng, true);
        let value = gen_value(&mut rng, true);
        let conf = asset.is_confidential() || value.is_confidential();
        outputs.push(TxOut {
            asset,
            value,
            nonce: gen_nonce(&mut rng),
            script_pubkey: if rng.below(6) == 0 {
                // fee output / null-data style
                Script::new()
            } else {
                gen_script(&mut rng)
            },
            witness: TxOutWitness {
                surjection_proof: if conf { gen_surjectionproof(&mut rng) } else { SurjectionProof::EMPTY },
                rangeproof: if conf { gen_rangeproof(&mut rng) } else { RangeProof::EMPTY },
            },
        });
    }
    let annex_cur = inputs[ix as usize]
        .witness
        .script_witness
        .last()
        .filter(|l| l.first() == Some(&0x50))
        .map(|l| l.to_vec());
    let tx = Transaction {
        version: if rng.below(4) == 0 { rng.next() as u32 } else { 2 },
        lock_time: LockTime::from_consensus(lock_time),
        input: inputs,
        output: outputs,
    };
    let genesis = if rng.below(2) == 0 {
        BlockHash::GENESIS_PREVIOUS_BLOCK_HASH
    } else {
        BlockHash::from_byte_array(rng.arr32())
    };
    ElementsEnv::new(Arc::new(tx), utxos, ix, script_cmr, control_block, annex_cur, genesis)
}

/// a few numbers describing what the generator produced (for the evidence histogram)
pub fn summary(env: &Env) -> Vec<u128> {
    let tx = env.tx();
    let mut v = vec![
        tx.input.len() as u128,
        tx.output.len() as u128,
        tx.input.iter().filter(|i| i.is_pegin).count() as u128,
        tx.input.iter().filter(|i| i.has_issuance()).count() as u128,
        tx.output.iter().filter(|o| o.asset.is_confidential() || o.value.is_confidential()).count() as u128,
        tx.output.iter().filter(|o| o.asset.is_null() || o.value.is_null()).count() as u128,
        env.annex().is_some() as u128,
        env.control_block().merkle_branch.as_inner().len() as u128,
    ];
    v.push(tx.input.iter().filter(|i| !i.witness.amount_rangeproof.is_empty()).count() as u128
        + tx.output.iter().filter(|o| !o.witness.rangeproof.is_empty()).count() as u128);
    v
}
