(* C04, phase 3 - layer (c), end: case; every node; whole construction sequences; set_arrow_to_program. *)
From RS Require Import Lib.Tac Lib.Outcome Ty.Ty Core.Prog Infer.Constraints Infer.Unify Infer.Infer Infer.Gen Infer.Theorems
  Infer.UnionFind Infer.Slab Infer.SlabProofs Infer.Rational Infer.SlabSim Infer.SlabSimInst Infer.SlabPrims Infer.SlabNodes
  Infer.SlabNodes2 Infer.SlabNodes3 Infer.SlabNodes4.
Import ListNotations.
Local Open Scope outcome_scope.

Section Nodes.
  Variable fuel : nat.
  Variable jt : jet_table.

  Lemma arr_some_not_hidden {A} (ar : list (option A)) ch x : arr_of ar ch = Some x -> hidden_at ar ch = false.
  Proof. unfold arr_of, hidden_at. destruct (nth_error ar ch) as [[?|]|]; congruence. Qed.

  Lemma node_case l r : forall c s eqs em ar_s nb ne a_r, Sim c s eqs em -> arr_in (length (c_uf c)) ar_s ->
    node_tmpl jt (length s) (map (amap em) ar_s) (NCase l r) = Some (nb, ne, a_r) ->
    node_post fuel jt c s eqs em ar_s (NCase l r) nb ne a_r.
  Proof.
    intros c s eqs em ar_s nb ne a_r S0 Ai H. unfold node_post. cbn [r_node]. cbn [node_tmpl] in H.
    rewrite !arr_of_amap, !hidden_at_amap in H.
    pose proof (forcase fuel c s eqs em (arr_of ar_s l) (arr_of ar_s r) S0 (fun ss st E => Ai l ss st E) (fun ss st E => Ai r ss st E)) as F.
    cbv zeta in F.
    destruct (arr_of ar_s l) as [[ls lt]|] eqn:El; destruct (arr_of ar_s r) as [[rs rt]|] eqn:Er.
    - rewrite (arr_some_not_hidden _ _ _ El), (arr_some_not_hidden _ _ _ Er) in *. cbn [amap andb orb negb] in H |- *.
      injection H as <- <- <-.
      revert F. match goal with |- match ?X0 with _ => _ end -> match obind ?X _ with _ => _ end =>
        change X0 with X; destruct X as [[c' [p t]]|[[|st0 ex0 nb0|] ce]| |] end; intros F; cbn [obind]; try exact F; try exact I.
      + destruct F as (em' & Ex & S' & Ep & Et & Et5 & Ll & Lp & Lt). cbn [side_eqs] in S'.
        destruct (Ai l ls lt El) as [L1 L2]. destruct (Ai r rs rt Er) as [L3 L4].
        rewrite Et5, !Ex in S' by assumption.
        exists em'. split; [exact Ex|]. split; [exact S'|]. split; [cbn [amap]; rewrite Ep, Et; reflexivity|]. split; [exact Ll|].
        intros x y E. injection E as <- <-. split; assumption.
      + destruct st0; [|exact F]. destruct F as (em' & Ex & Et5 & F). cbn [side_eqs] in F.
        destruct (Ai l ls lt El) as [L1 L2]. destruct (Ai r rs rt Er) as [L3 L4].
        rewrite Et5, !Ex in F by assumption. exact F.
    - rewrite (arr_some_not_hidden _ _ _ El) in *. cbn [amap andb orb negb] in H |- *.
      destruct (hidden_at ar_s r) eqn:Hr; [|discriminate]. cbn [negb orb] in *. injection H as <- <- <-.
      revert F. match goal with |- match ?X0 with _ => _ end -> match obind ?X _ with _ => _ end =>
        change X0 with X; destruct X as [[c' [p t]]|[[|st0 ex0 nb0|] ce]| |] end; intros F; cbn [obind]; try exact F; try exact I.
      + destruct F as (em' & Ex & S' & Ep & Et & Et5 & Ll & Lp & Lt). cbn [side_eqs] in S'.
        destruct (Ai l ls lt El) as [L1 L2].
        rewrite Et5, !Ex in S' by assumption.
        exists em'. split; [exact Ex|]. split; [exact S'|]. split; [cbn [amap]; rewrite Ep, Et; reflexivity|]. split; [exact Ll|].
        intros x y E. injection E as <- <-. split; assumption.
      + destruct st0; [|exact F]. destruct F as (em' & Ex & Et5 & F). cbn [side_eqs] in F.
        destruct (Ai l ls lt El) as [L1 L2].
        rewrite Et5, !Ex in F by assumption. exact F.
    - rewrite (arr_some_not_hidden _ _ _ Er) in *. cbn [amap andb orb negb] in H |- *.
      destruct (hidden_at ar_s l) eqn:Hl; [|discriminate]. cbn [negb orb andb] in *. injection H as <- <- <-.
      revert F. match goal with |- match ?X0 with _ => _ end -> match obind ?X _ with _ => _ end =>
        change X0 with X; destruct X as [[c' [p t]]|[[|st0 ex0 nb0|] ce]| |] end; intros F; cbn [obind]; try exact F; try exact I.
      + destruct F as (em' & Ex & S' & Ep & Et & Et5 & Ll & Lp & Lt). cbn [side_eqs app] in S'.
        destruct (Ai r rs rt Er) as [L3 L4].
        rewrite Et5, !Ex in S' by assumption.
        exists em'. split; [exact Ex|]. split; [exact S'|]. split; [cbn [amap]; rewrite Ep, Et; reflexivity|]. split; [exact Ll|].
        intros x y E. injection E as <- <-. split; assumption.
      + destruct st0; [|exact F]. destruct F as (em' & Ex & Et5 & F). cbn [side_eqs app] in F.
        destruct (Ai r rs rt Er) as [L3 L4].
        rewrite Et5, !Ex in F by assumption. exact F.
    - exfalso. cbn [amap] in H. destruct (hidden_at ar_s l); destruct (hidden_at ar_s r); cbn in H; discriminate.
  Qed.

  Theorem r_node_sim nd : forall c s eqs em ar_s nb ne a_r, Sim c s eqs em -> arr_in (length (c_uf c)) ar_s ->
    node_tmpl jt (length s) (map (amap em) ar_s) nd = Some (nb, ne, a_r) -> node_post fuel jt c s eqs em ar_s nd nb ne a_r.
  Proof.
    destruct nd.
    - apply node_iden. - apply node_unit. - apply node_injl. - apply node_injr. - apply node_take. - apply node_drop.
    - apply node_comp. - apply node_case. - apply node_pair. - apply node_disconnect. - apply node_hidden.
    - apply node_fail. - apply node_jet. - apply node_word. - apply node_witness.
  Qed.

  (* ---- whole construction sequences: Constraints.gen_nodes against Slab.r_nodes *)
  Lemma gen_nodes_ext : forall p g g', gen_nodes jt p g = Some g' ->
    exists l m, g_store g' = g_store g ++ l /\ g_eqs g' = g_eqs g ++ m.
  Proof.
    induction p as [|nd rest IH]; intros g g' H; cbn [gen_nodes] in H.
    - injection H as <-. exists [], []. rewrite !app_nil_r. split; reflexivity.
    - destruct (node_tmpl jt (length (g_store g)) (g_arr g) nd) as [[[nb ne] a]|]; [|discriminate].
      destruct (IH _ _ H) as (l & m & E1 & E2). cbn [g_store g_eqs] in E1, E2.
      exists (nb ++ l), (ne ++ m). rewrite !app_assoc. split; assumption.
  Qed.

  Theorem r_nodes_sim : forall p c s eqs em ar_s g', Sim c s eqs em -> arr_in (length (c_uf c)) ar_s ->
    gen_nodes jt p (mk_gstate s eqs (map (amap em) ar_s)) = Some g' ->
    match r_nodes fuel jt c ar_s p with
    | Ok (c', ar') => exists em', Sim c' (g_store g') (g_eqs g') em' /\ g_arr g' = map (amap em') ar' /\
                                  arr_in (length (c_uf c')) ar'
    | Err (RBind 0 _ _, _) => ~ consistent (g_store g') (g_eqs g')
    | Err _ => False
    | _ => True
    end.
  Proof.
    induction p as [|nd rest IH]; intros c s eqs em ar_s g' S0 Ai H; cbn [gen_nodes r_nodes] in *.
    - injection H as <-. cbn [g_store g_eqs g_arr]. exists em. auto.
    - cbn [g_store g_arr g_eqs] in H.
      destruct (node_tmpl jt (length s) (map (amap em) ar_s) nd) as [[[nb ne] a_r]|] eqn:T; [|discriminate].
      pose proof (r_node_sim nd c s eqs em ar_s nb ne a_r S0 Ai T) as N. unfold node_post in N.
      destruct (r_node fuel jt c ar_s nd) as [[c1 a_s]|[[|st0 ex0 nb0|] ce]| |]; cbn [obind]; try exact N; try exact I.
      + destruct N as (em1 & Ex & S1 & Ea & Ll & La).
        assert (Ai1 : arr_in (length (c_uf c1)) (ar_s ++ [a_s])).
        { intros ch x y E. unfold arr_of in E. destruct (Nat.lt_ge_cases ch (length ar_s)) as [L|G].
          - rewrite nth_error_app1 in E by exact L. destruct (Ai ch x y E). lia.
          - rewrite nth_error_app2 in E by exact G. destruct (ch - length ar_s)%nat as [|k]; cbn in E.
            + destruct a_s as [[x0 y0]|]; [|discriminate]. injection E as <- <-. apply La. reflexivity.
            + destruct k; discriminate. }
        apply (IH c1 _ _ em1 (ar_s ++ [a_s]) g' S1 Ai1).
        rewrite map_app. cbn [map]. rewrite (map_amap_ext em em1 (length (c_uf c)) ar_s Ex Ai), <- Ea. exact H.
      + destruct st0; [|exact N]. destruct (gen_nodes_ext _ _ _ H) as (l & m & E1 & E2). cbn [g_store g_eqs] in E1, E2.
        rewrite E1, E2. intros C. apply N. apply (consistent_mono _ l _ m). exact C.
  Qed.

  (* ConstructNode::set_arrow_to_program *)
  Lemma set_program_sim c s eqs em x y : Sim c s eqs em -> (x < length (c_uf c))%nat -> (y < length (c_uf c))%nat ->
    match r_set_program fuel c (x, y) with
    | Ok c' => exists em', (forall e, (e < length (c_uf c))%nat -> em' e = em e) /\
                 Sim c' (s ++ [BOne]) (eqs ++ [(em x, length s); (em y, length s)]) em' /\
                 (length (c_uf c) <= length (c_uf c'))%nat
    | Err (RBind 1 _ _, _) => ~ consistent (s ++ [BOne]) (eqs ++ [(em x, length s); (em y, length s)])
    | Err _ => False
    | _ => True
    end.
  Proof.
    intros S0 Lx Ly. unfold r_set_program. cbn [fst snd].
    destruct (blk_g GOne (length s)) as [Bf Bt]. cbn [galloc fst snd gty_ty] in Bf, Bt.
    destruct (sim_block c s eqs em _ _ One S0 Bf Bt) as (S1 & E1 & L1).
    destruct (ty_complete c One) as [c1 u] eqn:N1. cbn [fst snd] in *. subst u.
    set (em1 := upd em (length (c_uf c)) (length s)) in *.
    assert (V : em1 (length (c_uf c)) = length s /\ em1 x = em x /\ em1 y = em y).
    { unfold em1. rewrite upd_eq, !upd_lt by assumption. auto. }
    destruct V as (Vu & Vx & Vy).
    pose proof (sim_unify fuel c1 _ eqs em1 x (length (c_uf c)) S1 ltac:(lia) ltac:(lia)) as U1. rewrite Vu, Vx in U1.
    destruct (ctx_unify fuel c1 x (length (c_uf c))) as [c2|[[ex new] ce]| |]; cbn [lift_bind obind alloc_bound]; try exact I.
    2:{ intros C. apply U1. apply (consistent_mono _ [] _ [(em y, length s)]). rewrite app_nil_r, <- app_assoc. exact C. }
    destruct U1 as [S2 L2].
    pose proof (sim_unify fuel c2 _ _ em1 y (length (c_uf c)) S2 ltac:(lia) ltac:(lia)) as U2. rewrite Vu, Vy, <- app_assoc in U2. cbn [app] in U2.
    destruct (ctx_unify fuel c2 y (length (c_uf c))) as [c3|[[ex new] ce]| |]; cbn [lift_bind obind alloc_bound]; try exact I.
    - destruct U2 as [S3 L3]. exists em1. split; [|split; [exact S3|lia]]. intros e He. unfold em1. apply upd_lt. exact He.
    - exact U2.
  Qed.
End Nodes.

Lemma Sim_empty : Sim empty_ctx [] [] (fun e => e).
Proof.
  assert (B : base empty_ctx [] [] (fun e => e)).
  { split; [|split; [|split]].
    - unfold cwf, empty_ctx. cbn [c_uf c_slab]. split; [intros e He; cbn in He; lia|]. split; [|split].
      + intros b x y Hb. exfalso. unfold slab_get in Hb. cbn [c_slab] in Hb. destruct b; cbn in Hb; destruct Hb; discriminate.
      + intros e e' He. cbn in He. lia.
      + intros e He. cbn in He. lia.
    - intros v Hv. cbn in Hv. lia.
    - intros x y [].
    - intros e He. cbn in He. lia. }
  split; [exact B| |].
  - split.
    + intros al _. split; intros e He; cbn in He; lia.
    + intros be _. exists (fun _ => One). split; [split|].
      * intros v Hv. cbn in Hv. lia.
      * intros x y [].
      * intros e He. cbn in He. lia.
  - split.
    + intros al _. split; intros e He; cbn in He; lia.
    + intros be _. exists (fun _ => tone). split; [split|].
      * intros v Hv. cbn in Hv. lia.
      * intros x y [].
      * intros e He. cbn in He. lia.
Qed.
