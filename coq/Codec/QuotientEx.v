(* C01 - the premises of Codec/Quotient.v decoded_fixed_point are satisfiable: a program with two separate
   `unit` nodes of equal arrow that the sharing ids merge (and a third one with another source type kept apart). *)
From RS Require Import Lib.Tac Lib.Outcome Lib.Bits Lib.ListExtra Ty.Ty Core.Prog.
From RS Require Import Dag.DagModel Dag.PostOrderSpec Dag.PostOrderProps Dag.VisitFacts Dag.Coverage Dag.Acyclic.
From RS Require Import Infer.Constraints Infer.Infer Infer.Order.
From RS Require Import Codec.NodeCodec Codec.Linearise Codec.Structure Codec.WitnessCodec Codec.Run Codec.DagBridge
  Codec.ClassMap Codec.Reinfer Codec.DecodedProg Codec.Quotient.
Import ListNotations.
Local Open Scope N_scope.

Definition ex_keys : list (option N) := [Some 0; Some 0; Some 1; Some 2; Some 3].
Definition ex_dch := dag_of (tch N (map (pdl_node true) ex_q_p)).
Definition ex_dkey := key_of (key_list ex_keys).

Lemma ex_key_none n : (5 <= n)%nat -> ex_dkey n = None.
Proof.
  intros H. unfold ex_dkey, key_of, key_list, ex_keys.
  rewrite nth_overflow; [reflexivity|]. cbn [length]. lia.
Qed.

Lemma ex_dch_vals : ex_dch 0%nat = Nul /\ ex_dch 1%nat = Nul /\ ex_dch 2%nat = Bin 0 1 /\ ex_dch 3%nat = Nul /\ ex_dch 4%nat = Bin 2 3.
Proof. vm_compute. auto. Qed.

Lemma ex_dch_big n : (5 <= n)%nat -> ex_dch n = Nul.
Proof.
  intros H. unfold ex_dch, dag_of, Structure.tch, Linearise.node_at. rewrite Nat2N.id.
  rewrite nth_overflow; [reflexivity|]. cbn [map length ex_q_p]. lia.
Qed.

Example ex_cong : key_congruent ex_dch ex_dkey.
Proof.
  destruct ex_dch_vals as (D0 & D1 & D2 & D3 & D4).
  intros a b k Ha Hb.
  assert (La : (a < 5)%nat) by (destruct (Nat.lt_ge_cases a 5) as [L|L]; [exact L|rewrite (ex_key_none a L) in Ha; discriminate]).
  assert (Lb : (b < 5)%nat) by (destruct (Nat.lt_ge_cases b 5) as [L|L]; [exact L|rewrite (ex_key_none b L) in Hb; discriminate]).
  unfold shape_cong.
  do 5 (destruct a as [|a]; [do 5 (destruct b as [|b]; [vm_compute in Ha, Hb; rewrite ?D0, ?D1, ?D2, ?D3, ?D4; try congruence; try exact I; try (split; left; reflexivity)|]); lia|]); lia.
Qed.

Lemma ex_child n c : is_child ex_dch n c -> (n = 2%nat /\ (c = 0%nat \/ c = 1%nat)) \/ (n = 4%nat /\ (c = 2%nat \/ c = 3%nat)).
Proof.
  destruct ex_dch_vals as (D0 & D1 & D2 & D3 & D4). unfold is_child.
  destruct (Nat.lt_ge_cases n 5) as [L|L].
  - do 5 (destruct n as [|n]; [rewrite ?D0, ?D1, ?D2, ?D3, ?D4; cbn; intros [H|H]; try discriminate; injection H as <-; auto|]). lia.
  - rewrite (ex_dch_big n L). cbn. intros [H|H]; discriminate.
Qed.

Lemma ex_reach_lt c x : reach ex_dch c x -> (x <= c)%nat.
Proof.
  induction 1 as [|n c x Hc _ IH]; [lia|].
  destruct (ex_child _ _ Hc) as [[-> [->| ->]]|[-> [->| ->]]]; lia.
Qed.

Example ex_acyclic : key_acyclic ex_dch ex_dkey.
Proof.
  intros n c x k Hc Hx Hn Hk. pose proof (ex_reach_lt _ _ Hx) as Lx.
  destruct (ex_child _ _ Hc) as [[-> [->| ->]]|[-> [->| ->]]]; vm_compute in Hn; injection Hn as <-;
    (destruct x as [|[|[|[|x]]]]; try lia; vm_compute in Hk; discriminate).
Qed.

Example ex_reach : forall i, (i < length ex_q_p)%nat -> reach ex_dch (length ex_q_p - 1)%nat i.
Proof.
  destruct ex_dch_vals as (D0 & D1 & D2 & D3 & D4).
  assert (C42 : is_child ex_dch 4 2) by (left; rewrite D4; reflexivity).
  assert (C43 : is_child ex_dch 4 3) by (right; rewrite D4; reflexivity).
  assert (C20 : is_child ex_dch 2 0) by (left; rewrite D2; reflexivity).
  assert (C21 : is_child ex_dch 2 1) by (right; rewrite D2; reflexivity).
  intros i Hi. cbn [ex_q_p length Nat.sub] in *.
  destruct i as [|[|[|[|[|i]]]]]; try lia.
  - eapply reach_step; [exact C42|]. eapply reach_step; [exact C20|apply reach_refl].
  - eapply reach_step; [exact C42|]. eapply reach_step; [exact C21|apply reach_refl].
  - eapply reach_step; [exact C42|apply reach_refl].
  - eapply reach_step; [exact C43|apply reach_refl].
  - apply reach_refl.
Qed.

Definition ex_tau : list (option tarrow) :=
  [Some (One, One); Some (One, One); Some (One, Prod One One); Some (Prod One One, One); Some (One, One)].

Example ex_fixed_point_premises :
  wf_from 0 ex_q_p = true /\ ex_q_p <> [] /\
  (forall i, (i < length ex_q_p)%nat -> ex_dkey i <> None) /\
  (forall a b, (a < length ex_q_p)%nat -> (b < length ex_q_p)%nat -> ex_dkey a = ex_dkey b ->
     skeleton (nth a ex_q_p NUnit) = skeleton (nth b ex_q_p NUnit)) /\
  infer [] (Some (length ex_q_p - 1)%nat) ex_q_p = Ok ex_tau /\
  (forall a b, (a < length ex_q_p)%nat -> (b < length ex_q_p)%nat -> ex_dkey a = ex_dkey b ->
     nth a ex_tau None = nth b ex_tau None) /\
  decoded_prog ex_q_p ex_keys = ex_q_p'.
Proof.
  split; [reflexivity|]. split; [discriminate|]. split; [|split; [|split; [vm_compute; reflexivity|split; [|vm_compute; reflexivity]]]].
  - intros i Hi. cbn [ex_q_p length] in Hi. destruct i as [|[|[|[|[|i]]]]]; try lia; vm_compute; discriminate.
  - intros a b Ha Hb. cbn [ex_q_p length] in Ha, Hb.
    destruct a as [|[|[|[|[|a]]]]]; try lia; destruct b as [|[|[|[|[|b]]]]]; try lia; vm_compute; intros E; try discriminate E; reflexivity.
  - intros a b Ha Hb. cbn [ex_q_p length] in Ha, Hb.
    destruct a as [|[|[|[|[|a]]]]]; try lia; destruct b as [|[|[|[|[|b]]]]]; try lia; vm_compute; intros E; try discriminate E; reflexivity.
Qed.

(* the theorem applied: for any hash, the decoded program ex_q_p' gets the arrows and roots of ex_q_p *)
Example ex_fixed_point_applied
  (H : Type) (compress : H -> H * H -> H) (iv ivi : Merkle.Tagged.tag -> H) (zero : H) (of_weight : N -> H)
  (bit_cmr : bool -> H) (tmr_unit : H) (tmr_two_two_n : list H) (jet_cmr : N -> N -> H) (h_of_bytes : list N -> H)
  (compact_value : list bool -> H) :
  exists tau', infer [] (Some (length ex_q_p' - 1)%nat) ex_q_p' = Ok tau' /\
    forall t, Merkle.Ihr.redeem_table H compress iv ivi zero of_weight bit_cmr tmr_unit tmr_two_two_n jet_cmr h_of_bytes
                compact_value (combine ex_q_p ex_tau) = Ok t ->
      exists t', Merkle.Ihr.redeem_table H compress iv ivi zero of_weight bit_cmr tmr_unit tmr_two_two_n jet_cmr h_of_bytes
                   compact_value (combine ex_q_p' tau') = Ok t' /\
        nth_error t' (length ex_q_p' - 1) = nth_error t (length ex_q_p - 1).
Proof.
  destruct ex_fixed_point_premises as (W & Ne & Tot & Pay & Inf & Arr & Dec).
  destruct (decoded_fixed_point H compress iv ivi zero of_weight bit_cmr tmr_unit tmr_two_two_n jet_cmr h_of_bytes
              compact_value [] ex_q_p ex_keys ex_tau W Ne ex_reach Tot ex_cong ex_acyclic Pay Inf Arr)
    as (Q & tau' & E' & _ & Ht).
  rewrite Dec in E', Ht. exists tau'. split; [exact E'|]. intros t Et.
  destruct (Ht t Et) as (t' & Et' & Hs). exists t'. split; [exact Et'|].
  rewrite <- (Hs (length ex_q_p - 1)%nat ltac:(cbn; lia)). f_equal.
Qed.
