(* C04, phase 2 - model of the Rust inference state AS WRITTEN: the slab of bounds of
   src/types/context.rs on top of the union-bound heap of src/types/union_bound.rs
   (Infer/UnionFind.v), the constructors of src/types/arrow.rs in their allocation order,
   Type::finalize (src/types/mod.rs) with the occurs check of src/types/incomplete.rs (explicit
   stack, `in_progress` / `completed` sets), ConstructNode::set_arrow_to_program and the
   finalisation orders the harness uses.

     Bound::{Free, Complete, Sum, Product}          -> rbound (children are UbElements = heap indices)
     ContextInner::alloc_bound / Type::wrap_bound   -> alloc_bound / new_type
     reassign_non_complete (assert!)                -> reassign_non_complete (Panic 10)
     complete_pair_data                             -> complete_pair_data (two `root` calls: path halving)
     Context::alloc_sum / alloc_product             -> ty_sum / ty_product (eager completion at allocation)
     WithGhostToken<ContextInner>::unify            -> ctx_unify = ub_unify with the `bind` callback
     WithGhostToken<ContextInner>::bind             -> bind: the six arms in the order of the `match`,
                                                       the Complete-vs-Incomplete arms recurse on the
                                                       roots of BOTH children computed before the first
                                                       recursive bind, the Sum/Sum and Product/Product arms
                                                       unify the children and then complete eagerly
     Context::bind_product / Context::unify         -> bind_product / ctx_unify (+ alloc of the error's bound)
     Incomplete::occurs_check                       -> occurs_check
     Incomplete::from_bound_ref                     -> inc_of_bound (post-order, BoundRefSharing)
     Type::finalize                                 -> finalize
   Mutex, GhostToken, Arc are modelled away; `Arc<Final>` equality (by TMR) is structural equality of `ty`. *)
From RS Require Import Lib.Tac Lib.Outcome Ty.Ty Core.Prog Infer.Constraints Infer.Infer Infer.UnionFind.
Import ListNotations.
Local Open Scope outcome_scope.

Inductive rbound : Type :=
| RFree
| RComplete (t : ty)
| RSum (a b : nat)
| RProd (a b : nat).

Record ctx : Type := mk_ctx { c_slab : list rbound; c_uf : uf }.

Definition put_uf (c : ctx) (u : uf) : ctx := mk_ctx (c_slab c) u.

Definition slab_get (c : ctx) (b : nat) : rbound := nth b (c_slab c) RFree.

Fixpoint lset {A} (l : list A) (i : nat) (x : A) : list A :=
  match l, i with
  | [], _ => []
  | _ :: r, O => x :: r
  | y :: r, S k => y :: lset r k x
  end.

(* BindError { existing : BoundRef, new : Bound }; a failing operation also returns the state it
   leaves behind (the error message is built from it) *)
Definition berr := (nat * rbound)%type.
Definition bres := outcome (berr * ctx) ctx.

Definition lift_u {A} (o : outcome unit A) : outcome (berr * ctx) A :=
  match o with
  | Ok a => Ok a
  | Err _ => Panic 2
  | Panic c => Panic c
  | OutOfFuel => OutOfFuel
  end.

Definition alloc_bound (c : ctx) (b : rbound) : ctx * nat :=
  (mk_ctx (c_slab c ++ [b]) (c_uf c), length (c_slab c)).

(* Type::wrap_bound(ctx.alloc_*(..)): one slab entry and one singleton UbElement *)
Definition new_type (c : ctx) (b : rbound) : ctx * nat :=
  let '(c1, r) := alloc_bound c b in
  let '(u, e) := ub_new (c_uf c1) r in (mk_ctx (c_slab c1) u, e).

Definition reassign_non_complete (c : ctx) (b : nat) (new : rbound) : outcome (berr * ctx) ctx :=
  match slab_get c b with
  | RComplete _ => Panic 10                       (* "tried to modify finalized type" *)
  | _ => Ok (mk_ctx (lset (c_slab c) b new) (c_uf c))
  end.

(* bound.root(&mut token): representative's BoundRef, with path halving *)
Definition c_root (c : ctx) (e : nat) : outcome (berr * ctx) (ctx * nat) :=
  '(u, b) <- lift_u (root (c_uf c) e) ;; Ok (put_uf c u, b).

Definition complete_pair_data (c : ctx) (e1 e2 : nat) : outcome (berr * ctx) (ctx * option (ty * ty)) :=
  '(c1, b1) <- c_root c e1 ;;
  '(c2, b2) <- c_root c1 e2 ;;
  match slab_get c2 b1, slab_get c2 b2 with
  | RComplete d1, RComplete d2 => Ok (c2, Some (d1, d2))
  | _, _ => Ok (c2, None)
  end.

(* ---- WithGhostToken<ContextInner>::{bind, unify}: mutually recursive through the callback *)
Fixpoint bind (fuel : nat) (c : ctx) (existing : nat) (new : rbound) : bres :=
  match fuel with
  | O => OutOfFuel
  | S f =>
      let unify := fun (c0 : ctx) (x y : nat) =>
        ub_unify c_uf put_uf (fun c' xb yb => bind f c' xb (slab_get c' yb)) c0 x y in
      let bind_error := @Err (berr * ctx) ctx ((existing, new), c) in
      (* (Complete, incomplete) | (incomplete, Complete) with matching constructors *)
      let comp_arm := fun (t1 t2 : nat) (c1 c2 : ty) =>
        '(ca, b1) <- c_root c t1 ;;
        '(cb, b2) <- c_root ca t2 ;;
        cc <- bind f cb b1 (RComplete c1) ;;
        bind f cc b2 (RComplete c2) in
      (* (Sum, Sum) | (Product, Product) *)
      let struct_arm := fun (is_sum : bool) (x1 x2 y1 y2 : nat) =>
        c1 <- unify c x1 y1 ;;
        c2 <- unify c1 x2 y2 ;;
        '(c3, d) <- complete_pair_data c2 y1 y2 ;;
        match d with
        | Some (d1, d2) => reassign_non_complete c3 existing (RComplete (if is_sum then Sum d1 d2 else Prod d1 d2))
        | None => Ok c3
        end in
      match slab_get c existing, new with
      | _, RFree => Ok c
      | RFree, _ => reassign_non_complete c existing new
      | RComplete ef, RComplete nf => if ty_eqb ef nf then Ok c else bind_error
      | RComplete (Sum c1 c2), RSum t1 t2 => comp_arm t1 t2 c1 c2
      | RComplete (Prod c1 c2), RProd t1 t2 => comp_arm t1 t2 c1 c2
      | RComplete _, _ => bind_error
      | RSum t1 t2, RComplete (Sum c1 c2) => comp_arm t1 t2 c1 c2
      | RProd t1 t2, RComplete (Prod c1 c2) => comp_arm t1 t2 c1 c2
      | _, RComplete _ => bind_error
      | RSum x1 x2, RSum y1 y2 => struct_arm true x1 x2 y1 y2
      | RProd x1 x2, RProd y1 y2 => struct_arm false x1 x2 y1 y2
      | _, _ => bind_error
      end
  end.

Definition ctx_unify (fuel : nat) (c : ctx) (e1 e2 : nat) : bres :=
  ub_unify c_uf put_uf (fun c' xb yb => bind fuel c' xb (slab_get c' yb)) c e1 e2.

Definition bind_product (fuel : nat) (c : ctx) (existing l r : nat) : bres :=
  '(c1, b) <- c_root c existing ;; bind fuel c1 b (RProd l r).

(* ---- Type::{free, unit, complete, sum, product} *)
Definition ty_free (c : ctx) := new_type c RFree.
Definition ty_complete (c : ctx) (t : ty) := new_type c (RComplete t).

Definition ty_pair (is_sum : bool) (c : ctx) (l r : nat) : outcome (berr * ctx) (ctx * nat) :=
  '(c1, d) <- complete_pair_data c l r ;;
  match d with
  | Some (d1, d2) => Ok (new_type c1 (RComplete (if is_sum then Sum d1 d2 else Prod d1 d2)))
  | None => Ok (new_type c1 (if is_sum then RSum l r else RProd l r))
  end.

(* ---- Incomplete::occurs_check: explicit stack, in_progress / completed sets; returns true when
   a cycle is found.  children: (ctx, bound).left_child() / right_child() = roots of the two
   TypeInners of a Sum / Product bound *)
Inductive ocs : Type := OIter (b : nat) | ODone (id : nat).

Definition mem (x : nat) (l : list nat) : bool := existsb (Nat.eqb x) l.
Definition remove_nat (x : nat) (l : list nat) : list nat := filter (fun y => negb (Nat.eqb x y)) l.

Definition kids (c : ctx) (b : nat) : outcome (berr * ctx) (ctx * option (nat * nat)) :=
  match slab_get c b with
  | RSum t1 t2 | RProd t1 t2 =>
      '(c1, r1) <- c_root c t1 ;; '(c2, r2) <- c_root c1 t2 ;; Ok (c2, Some (r1, r2))
  | _ => Ok (c, None)
  end.

Fixpoint occurs_loop (fuel : nat) (c : ctx) (stack : list ocs) (in_progress completed : list nat)
  : outcome (berr * ctx) (ctx * bool) :=
  match fuel with
  | O => OutOfFuel
  | S f =>
      match stack with
      | [] => Ok (c, false)
      | ODone id :: rest => occurs_loop f c rest (remove_nat id in_progress) (id :: completed)
      | OIter b :: rest =>
          if mem b completed then occurs_loop f c rest in_progress completed
          else if mem b in_progress then Ok (c, true)
          else
            '(c1, k) <- kids c b ;;
            match k with
            | Some (l, r) => occurs_loop f c1 (OIter l :: OIter r :: ODone b :: rest) (b :: in_progress) completed
            | None => occurs_loop f c1 (ODone b :: rest) (b :: in_progress) completed
            end
      end
  end.

Definition occurs_fuel (c : ctx) : nat := 4 * length (c_slab c) + 4.

Definition occurs_check (c : ctx) (b : nat) : outcome (berr * ctx) (ctx * bool) :=
  occurs_loop (occurs_fuel c) c [OIter b] [] [].

(* ---- Type::finalize.  After a successful occurs check: the post-order iteration over the tree
   expansion (NoSharing; a bound that was completed at its first occurrence is a leaf at the second) *)
Inductive ferr : Type := FOccurs.

Fixpoint fin_bound (fuel : nat) (c : ctx) (b : nat) : outcome (berr * ctx) (ctx * ty) :=
  match fuel with
  | O => OutOfFuel
  | S f =>
      match slab_get c b with
      | RComplete t => Ok (c, t)
      | RFree => c1 <- reassign_non_complete c b (RComplete One) ;; Ok (c1, One)
      | RSum t1 t2 =>
          '(c1, k) <- kids c b ;;
          match k with
          | Some (l, r) =>
              '(c2, ta) <- fin_bound f c1 l ;;
              '(c3, tb) <- fin_bound f c2 r ;;
              match slab_get c3 b with
              | RComplete _ => Ok (c3, Sum ta tb)
              | _ => c4 <- reassign_non_complete c3 b (RComplete (Sum ta tb)) ;; Ok (c4, Sum ta tb)
              end
          | None => Panic 11
          end
      | RProd t1 t2 =>
          '(c1, k) <- kids c b ;;
          match k with
          | Some (l, r) =>
              '(c2, ta) <- fin_bound f c1 l ;;
              '(c3, tb) <- fin_bound f c2 r ;;
              match slab_get c3 b with
              | RComplete _ => Ok (c3, Prod ta tb)
              | _ => c4 <- reassign_non_complete c3 b (RComplete (Prod ta tb)) ;; Ok (c4, Prod ta tb)
              end
          | None => Panic 11
          end
      end
  end.

(* Ok (c, Some t) = finalized; Ok (c, None) = Error::OccursCheck *)
Definition finalize (c : ctx) (e : nat) : outcome (berr * ctx) (ctx * option ty) :=
  '(c1, b) <- c_root c e ;;
  match slab_get c1 b with
  | RComplete t => Ok (c1, Some t)
  | _ =>
      '(c2, cyc) <- occurs_check c1 b ;;
      if cyc then Ok (c2, None) else
      '(c3, t) <- fin_bound (S (length (c_slab c2))) c2 b ;; Ok (c3, Some t)
  end.

(* ---- Incomplete::from_bound_ref: occurs check, then a post-order with BoundRefSharing.  The result
   as a tree with free leaves (Infer/Run2.fty is the same shape; kept separate to avoid a dependency) *)
Inductive inc : Type :=
| IcFree
| IcCycle
| IcFinal (t : ty)
| IcSum (a b : inc)
| IcProd (a b : inc).

Fixpoint inc_tree (fuel : nat) (c : ctx) (b : nat) : outcome (berr * ctx) (ctx * inc) :=
  match fuel with
  | O => OutOfFuel
  | S f =>
      match slab_get c b with
      | RFree => Ok (c, IcFree)
      | RComplete t => Ok (c, IcFinal t)
      | RSum _ _ =>
          '(c1, k) <- kids c b ;;
          match k with
          | Some (l, r) => '(c2, ta) <- inc_tree f c1 l ;; '(c3, tb) <- inc_tree f c2 r ;; Ok (c3, IcSum ta tb)
          | None => Panic 11
          end
      | RProd _ _ =>
          '(c1, k) <- kids c b ;;
          match k with
          | Some (l, r) => '(c2, ta) <- inc_tree f c1 l ;; '(c3, tb) <- inc_tree f c2 r ;; Ok (c3, IcProd ta tb)
          | None => Panic 11
          end
      end
  end.

Definition inc_of_bound (c : ctx) (b : nat) : outcome (berr * ctx) (ctx * inc) :=
  '(c1, cyc) <- occurs_check c b ;;
  if cyc then Ok (c1, IcCycle) else inc_tree (S (length (c_slab c1))) c1 b.

(* Type::to_incomplete *)
Definition to_incomplete (c : ctx) (e : nat) : outcome (berr * ctx) (ctx * inc) :=
  '(c1, b) <- c_root c e ;; inc_of_bound c1 b.

(* the complete types embedded in the Incomplete of a bound, one per distinct BoundRef (the DAG that
   from_bound_ref builds shares per BoundRef): list of (bound ref, type) *)
Fixpoint finals_of (fuel : nat) (c : ctx) (todo : list nat) (seen : list nat) (acc : list ty)
  : outcome (berr * ctx) (ctx * list ty) :=
  match fuel with
  | O => OutOfFuel
  | S f =>
      match todo with
      | [] => Ok (c, acc)
      | b :: rest =>
          if mem b seen then finals_of f c rest seen acc else
          match slab_get c b with
          | RFree => finals_of f c rest (b :: seen) acc
          | RComplete t => finals_of f c rest (b :: seen) (t :: acc)
          | RSum _ _ | RProd _ _ =>
              '(c1, k) <- kids c b ;;
              match k with
              | Some (l, r) => finals_of f c1 (l :: r :: rest) (b :: seen) acc
              | None => Panic 11
              end
          end
      end
  end.

(* ================================================================== arrows (src/types/arrow.rs) *)

Inductive rerr : Type :=
| RShape
| RBind (stage : N) (existing : nat) (new_ref : nat)     (* Error::Bind: the two bound refs whose Incompletes are printed *)
| ROccurs.

Definition rres (A : Type) := outcome (rerr * ctx) A.

(* Context::unify / bind_product map a BindError to Error::Bind after allocating the new bound *)
Definition lift_bind {A} (stage : N) (o : outcome (berr * ctx) A) : rres A :=
  match o with
  | Ok a => Ok a
  | Err ((ex, new), c) => let '(c1, nb) := alloc_bound c new in Err (RBind stage ex nb, c1)
  | Panic k => Panic k
  | OutOfFuel => OutOfFuel
  end.

Definition lift_unwrap {A} (o : outcome (berr * ctx) A) : rres A :=
  match o with
  | Ok a => Ok a
  | Err _ => Panic 20                               (* `.unwrap()` on an Err *)
  | Panic k => Panic k
  | OutOfFuel => OutOfFuel
  end.

Section Arrows.
  Variable fuel : nat.                               (* recursion depth allowed to bind *)
  Variable jt : jet_table.

  Definition a_unify (c : ctx) (x y : nat) : rres ctx := lift_bind 0 (ctx_unify fuel c x y).
  Definition a_bind_product (c : ctx) (ex l r : nat) : rres ctx := lift_bind 0 (bind_product fuel c ex l r).

  (* Arrow::for_case *)
  Definition for_case (c : ctx) (l r : option varrow) : rres (ctx * varrow) :=
    let '(c, a) := ty_free c in
    let '(c, b) := ty_free c in
    let '(c, cc) := ty_free c in
    '(c, sum_a_b) <- lift_unwrap (ty_pair true c a b) ;;
    '(c, prod) <- lift_unwrap (ty_pair false c sum_a_b cc) ;;
    let '(c, target) := ty_free c in
    c <- match l with
         | Some (ls, lt) =>
             c <- a_bind_product c ls a cc ;;
             lift_unwrap (ctx_unify fuel c target lt)
         | None => Ok c
         end ;;
    c <- match r with
         | Some (rs, rt) =>
             c <- a_bind_product c rs b cc ;;
             a_unify c target rt
         | None => Ok c
         end ;;
    Ok (c, (prod, target)).

  (* Arrow::for_disconnect *)
  Definition for_disconnect (c : ctx) (ls lt rs rt : nat) : rres (ctx * varrow) :=
    let '(c, a) := ty_free c in
    let '(c, b) := ty_free c in
    let '(c, w) := ty_complete c (word_ty 8) in
    c <- a_bind_product c ls w a ;;
    c <- a_bind_product c lt b rs ;;
    '(c, prod_b_d) <- lift_unwrap (ty_pair false c b rt) ;;
    Ok (c, (a, prod_b_d)).

  Definition r_node (c : ctx) (ar : list (option varrow)) (nd : node) : rres (ctx * option varrow) :=
    match nd with
    | NIden => let '(c, n) := ty_free c in Ok (c, Some (n, n))
    | NUnit => let '(c, s) := ty_free c in let '(c, t) := ty_complete c One in Ok (c, Some (s, t))
    | NInjL ch =>
        match arr_of ar ch with
        | Some (cs, ct) =>
            let '(c, f) := ty_free c in
            '(c, t) <- lift_unwrap (ty_pair true c ct f) ;; Ok (c, Some (cs, t))
        | None => Err (RShape, c)
        end
    | NInjR ch =>
        match arr_of ar ch with
        | Some (cs, ct) =>
            let '(c, f) := ty_free c in
            '(c, t) <- lift_unwrap (ty_pair true c f ct) ;; Ok (c, Some (cs, t))
        | None => Err (RShape, c)
        end
    | NTake ch =>
        match arr_of ar ch with
        | Some (cs, ct) =>
            let '(c, f) := ty_free c in
            '(c, s) <- lift_unwrap (ty_pair false c cs f) ;; Ok (c, Some (s, ct))
        | None => Err (RShape, c)
        end
    | NDrop ch =>
        match arr_of ar ch with
        | Some (cs, ct) =>
            let '(c, f) := ty_free c in
            '(c, s) <- lift_unwrap (ty_pair false c f cs) ;; Ok (c, Some (s, ct))
        | None => Err (RShape, c)
        end
    | NComp l r =>
        match arr_of ar l, arr_of ar r with
        | Some (ls, lt), Some (rs, rt) => c <- a_unify c lt rs ;; Ok (c, Some (ls, rt))
        | _, _ => Err (RShape, c)
        end
    | NPair l r =>
        match arr_of ar l, arr_of ar r with
        | Some (ls, lt), Some (rs, rt) =>
            c <- a_unify c ls rs ;;
            '(c, t) <- lift_unwrap (ty_pair false c lt rt) ;; Ok (c, Some (ls, t))
        | _, _ => Err (RShape, c)
        end
    | NCase l r =>
        if (hidden_at ar l && hidden_at ar r)%bool then Err (RShape, c) else
        let la := arr_of ar l in
        let ra := arr_of ar r in
        if (match la with None => negb (hidden_at ar l) | _ => false end
            || match ra with None => negb (hidden_at ar r) | _ => false end)%bool then Err (RShape, c) else
        '(c, a) <- for_case c la ra ;; Ok (c, Some a)
    | NDisconnect l ro =>
        match arr_of ar l with
        | None => Err (RShape, c)
        | Some (ls, lt) =>
            match ro with
            | Some r =>
                match arr_of ar r with
                | Some (rs, rt) => '(c, a) <- for_disconnect c ls lt rs rt ;; Ok (c, Some a)
                | None => Err (RShape, c)
                end
            | None =>
                let '(c, s) := ty_free c in
                let '(c, t) := ty_free c in
                '(c, a) <- for_disconnect c ls lt s t ;; Ok (c, Some a)
            end
        end
    | NHidden _ => Ok (c, None)
    | NFail _ | NWitness _ =>
        let '(c, s) := ty_free c in let '(c, t) := ty_free c in Ok (c, Some (s, t))
    | NWord k bits =>
        if (Nat.leb k 31 && Nat.eqb (length bits) (2 ^ k))%bool then
          let '(c, s) := ty_complete c One in
          let '(c, t) := ty_complete c (word_ty k) in Ok (c, Some (s, t))
        else Err (RShape, c)
    | NJet fam id =>
        match jet_lookup jt fam id with
        | None => Err (RShape, c)
        | Some (gs, gt) =>
            let '(c, s) := ty_complete c (gty_ty gs) in
            let '(c, t) := ty_complete c (gty_ty gt) in Ok (c, Some (s, t))
        end
    end.

  Fixpoint r_nodes (c : ctx) (ar : list (option varrow)) (p : list node) : rres (ctx * list (option varrow)) :=
    match p with
    | [] => Ok (c, ar)
    | nd :: rest => '(c1, a) <- r_node c ar nd ;; r_nodes c1 (ar ++ [a]) rest
    end.

  (* ConstructNode::set_arrow_to_program *)
  Definition r_set_program (c : ctx) (a : varrow) : rres ctx :=
    let '(c, u) := ty_complete c One in
    c <- lift_bind 1 (ctx_unify fuel c (fst a) u) ;;
    lift_bind 1 (ctx_unify fuel c (snd a) u).
End Arrows.

Definition empty_ctx : ctx := mk_ctx [] [].
