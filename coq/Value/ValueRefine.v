(* The byte-level Value refines typed value trees: well-formedness invariant, abstraction
   function, and the specifications of the accessors and of the two iterators. *)
From RS Require Import Lib.Tac Lib.Outcome Lib.Bits Lib.Sweep Lib.ListExtra Ty.Ty
  Value.ValueModel Value.ValueBits.
Import ListNotations.
Local Open Scope N_scope.

(* below saturation Final::bit_width is the mathematical width *)
Definition small (t : ty) : Prop := width t <= usize_max.

(* WF: every byte is a u8, the [width] bits at the offset lie inside the buffer
   (exactly what keeps every inner[..] index of value.rs in range), width not saturated *)
Definition WF (v : value) : Prop :=
  bytes_ok (buf v) /\ off v + width (vty v) <= blen (buf v) /\ small (vty v).

(* the padded bits the value occupies in its buffer, and the element they denote *)
Definition vbits (v : value) : list bool :=
  bitrange (buf v) (off v) (N.to_nat (width (vty v))).

Definition absv (v : value) : sval := of_padded (vty v) (vbits v).

Lemma bw_small t : small t -> bw t = width t.
Proof. apply width_sat_eq. Qed.

Lemma small_sum a b : small (Sum a b) -> small a /\ small b.
Proof. unfold small. cbn [width]. lia. Qed.

Lemma small_prod a b : small (Prod a b) -> small a /\ small b.
Proof. unfold small. cbn [width]. lia. Qed.

Lemma vbits_length v : length (vbits v) = N.to_nat (width (vty v)).
Proof. apply bitrange_length. Qed.

Lemma vbits_padded_of v : padded_of (vty v) (absv v) (vbits v).
Proof. apply of_padded_total, vbits_length. Qed.

Lemma absv_has_ty v : has_ty (absv v) (vty v) = true.
Proof. eapply padded_of_has_ty, vbits_padded_of. Qed.

Lemma absv_unique v s : padded_of (vty v) s (vbits v) -> absv v = s.
Proof. apply of_padded_spec. Qed.

(* ------------------------------------------------------------------ first_bit and the accessors *)

Lemma first_bit_spec v : bytes_ok (buf v) -> off v < blen (buf v) ->
  first_bit v = Some (getbit (buf v) (off v)).
Proof.
  intros Hb Ho. unfold first_bit, blen in *.
  rewrite get_byte_some by lia. f_equal.
  unfold getbit. apply first_bit_sweep; [apply bytes_ok_nth, Hb|lia].
Qed.

Lemma as_left_not_sum v : (forall a b, vty v <> Sum a b) -> as_left v = None /\ as_right v = None.
Proof.
  intros H. unfold as_left, as_right.
  destruct (first_bit v) as [[|]|]; destruct (vty v); auto; exfalso; eapply H; reflexivity.
Qed.

(* the shape of the bits of a sum value *)
Lemma vbits_sum v a b : vty v = Sum a b ->
  vbits v = getbit (buf v) (off v) :: bitrange (buf v) (off v + 1) (N.to_nat (N.max (width a) (width b))).
Proof.
  intros E. unfold vbits. rewrite E. cbn [width].
  replace (N.to_nat (1 + N.max (width a) (width b))) with (S (N.to_nat (N.max (width a) (width b)))) by lia.
  reflexivity.
Qed.

Theorem as_left_spec v a b : WF v -> vty v = Sum a b ->
  if getbit (buf v) (off v) then as_left v = None
  else let l := mkV (buf v) (off v + 1 + pad_left a b) a in
       as_left v = Some l /\ WF l /\ absv v = SL (absv l).
Proof.
  intros (Hb & Hw & Hs) E. rewrite E in Hw, Hs. cbn [width] in Hw.
  destruct (small_sum _ _ Hs) as [Hsa Hsb].
  unfold as_left. rewrite first_bit_spec by (auto; lia).
  destruct (getbit (buf v) (off v)) eqn:G; [reflexivity|].
  rewrite E. rewrite !bw_small by assumption. cbv zeta.
  replace (off v + (1 + N.max (width a) (width b)) - width a) with (off v + 1 + pad_left a b)
    by (unfold pad_left; lia).
  split; [reflexivity|]. split.
  - unfold WF. cbn [buf off vty]. unfold pad_left. repeat split; auto; lia.
  - unfold absv at 1. rewrite (vbits_sum v a b E), G, E. cbn [of_padded]. f_equal.
    unfold absv, vbits. cbn [buf off vty]. f_equal.
    rewrite skipn_bitrange by (unfold pad_left; lia). f_equal; unfold pad_left; lia.
Qed.

Theorem as_right_spec v a b : WF v -> vty v = Sum a b ->
  if getbit (buf v) (off v) then
    let r := mkV (buf v) (off v + 1 + pad_right a b) b in
    as_right v = Some r /\ WF r /\ absv v = SR (absv r)
  else as_right v = None.
Proof.
  intros (Hb & Hw & Hs) E. rewrite E in Hw, Hs. cbn [width] in Hw.
  destruct (small_sum _ _ Hs) as [Hsa Hsb].
  unfold as_right. rewrite first_bit_spec by (auto; lia).
  destruct (getbit (buf v) (off v)) eqn:G; [|reflexivity].
  rewrite E. rewrite !bw_small by assumption. cbv zeta.
  replace (off v + (1 + N.max (width a) (width b)) - width b) with (off v + 1 + pad_right a b)
    by (unfold pad_right; lia).
  split; [reflexivity|]. split.
  - unfold WF. cbn [buf off vty]. unfold pad_right. repeat split; auto; lia.
  - unfold absv at 1. rewrite (vbits_sum v a b E), G, E. cbn [of_padded]. f_equal.
    unfold absv, vbits. cbn [buf off vty]. f_equal.
    rewrite skipn_bitrange by (unfold pad_right; lia). f_equal; unfold pad_right; lia.
Qed.

Theorem as_product_spec v a b : WF v -> vty v = Prod a b ->
  let l := mkV (buf v) (off v) a in
  let r := mkV (buf v) (off v + width a) b in
  as_product v = Some (l, r) /\ WF l /\ WF r /\ absv v = SP (absv l) (absv r).
Proof.
  intros (Hb & Hw & Hs) E. rewrite E in Hw, Hs. cbn [width] in Hw.
  destruct (small_prod _ _ Hs) as [Hsa Hsb].
  unfold as_product. rewrite E, (bw_small a Hsa). cbv zeta.
  split; [reflexivity|]. split; [|split].
  - unfold WF. cbn [buf off vty]. repeat split; auto; lia.
  - unfold WF. cbn [buf off vty]. repeat split; auto; lia.
  - unfold absv at 1, vbits. rewrite E. cbn [of_padded width].
    replace (N.to_nat (width a + width b)) with (N.to_nat (width a) + N.to_nat (width b))%nat by lia.
    rewrite bitrange_app, N2Nat.id.
    rewrite firstn_app, bitrange_length, Nat.sub_diag, firstn_O, app_nil_r.
    rewrite firstn_all2 by (rewrite bitrange_length; lia).
    rewrite skipn_app, bitrange_length, Nat.sub_diag.
    rewrite skipn_all2 by (rewrite bitrange_length; lia). cbn [skipn app].
    reflexivity.
Qed.

Lemma as_product_not_prod v : (forall a b, vty v <> Prod a b) -> as_product v = None.
Proof. intros H. unfold as_product. destruct (vty v); auto. exfalso; eapply H; reflexivity. Qed.

(* ------------------------------------------------------------------ RawByteIter and iter_padded *)

Lemma raw_byte_spec v k : bytes_ok (buf v) -> off v + 8 * k < blen (buf v) ->
  exists b, raw_byte v k = Ok b /\ b < 256 /\
            forall j, j < 8 -> N.testbit b (7 - j) = getbit (buf v) (off v + 8 * k + j).
Proof.
  intros Hb Hk. unfold raw_byte, blen in *.
  replace (off v / 8 + (k + 1) - 1) with (off v / 8 + k) by lia.
  rewrite get_byte_some by lia.
  destruct (off v mod 8 =? 0) eqn:Eo.
  - apply N.eqb_eq in Eo. eexists; split; [reflexivity|]. split; [apply bytes_ok_nth, Hb|].
    intros j Hj. unfold getbit.
    replace ((off v + 8 * k + j) / 8) with (off v / 8 + k) by lia.
    replace ((off v + 8 * k + j) mod 8) with j by lia. reflexivity.
  - apply N.eqb_neq in Eo.
    set (r1 := nth (N.to_nat (off v / 8 + k)) (buf v) 0).
    assert (Hr1 : r1 < 256) by apply bytes_ok_nth, Hb.
    rewrite (get_byte_nth (buf v) (off v / 8 + (k + 1))).
    set (r2 := nth (N.to_nat (off v / 8 + (k + 1))) (buf v) 0).
    assert (Hr2 : r2 < 256) by apply bytes_ok_nth, Hb.
    set (o := off v mod 8) in *.
    assert (Ho : o < 8) by (subst o; lia).
    eexists; split; [reflexivity|]. split.
    + apply lor_lt_256; [apply (shl8_sweep r1 o 0); lia|apply (shr_sweep r2 o 0); lia].
    + intros j Hj. rewrite N.lor_spec.
      destruct (shl8_sweep r1 o j Hr1 Ho Hj) as [-> _].
      destruct (shr_sweep r2 o j Hr2 ltac:(lia) Ho Hj) as [-> _].
      unfold getbit.
      destruct (o + j <? 8) eqn:Elt.
      * apply N.ltb_lt in Elt.
        replace (8 <=? o + j) with false by (symmetry; apply N.leb_gt; lia).
        rewrite orb_false_r. cbn [andb].
        replace ((off v + 8 * k + j) / 8) with (off v / 8 + k) by (subst o; lia).
        replace ((off v + 8 * k + j) mod 8) with (o + j) by (subst o; lia).
        reflexivity.
      * apply N.ltb_ge in Elt.
        replace (8 <=? o + j) with true by (symmetry; apply N.leb_le; lia).
        cbn [andb orb].
        replace ((off v + 8 * k + j) / 8) with (off v / 8 + (k + 1)) by (subst o; lia).
        replace ((off v + 8 * k + j) mod 8) with (o + j - 8) by (subst o; lia).
        reflexivity.
Qed.

Lemma bitrange_byte_ext b l o : (forall j, j < 8 -> N.testbit b (7 - j) = getbit l (o + j)) ->
  bitrange [b] 0 8 = bitrange l o 8.
Proof.
  intros H. apply bitrange_ext. intros i Hi.
  rewrite getbit_head by lia. rewrite N.add_0_l. apply H. lia.
Qed.

Lemma raw_bytes_from_spec v : bytes_ok (buf v) -> forall n k,
  (n = 0%nat \/ off v + 8 * (k + N.of_nat n - 1) < blen (buf v)) ->
  exists bs, raw_bytes_from v k n = Ok bs /\ length bs = n /\ bytes_ok bs /\
             bitrange bs 0 (8 * n) = bitrange (buf v) (off v + 8 * k) (8 * n).
Proof.
  intros Hb. induction n as [|n IH]; intros k Hk.
  - exists []. cbn. repeat split; constructor.
  - destruct Hk as [Hk|Hk]; [discriminate|].
    destruct (raw_byte_spec v k Hb ltac:(lia)) as (b & Eb & Hb256 & Hbits).
    destruct (IH (k + 1)) as (bs & Ebs & Hlen & Hok & Hbs).
    { destruct n; [left; reflexivity|right; lia]. }
    exists (b :: bs). cbn [raw_bytes_from]. rewrite Eb. cbn [obind]. rewrite Ebs. cbn [obind].
    split; [reflexivity|]. split; [cbn; lia|]. split; [constructor; auto|].
    replace (8 * S n)%nat with (8 + 8 * n)%nat by lia.
    rewrite !bitrange_app. change (N.of_nat 8) with 8. f_equal.
    + rewrite <- (bitrange_byte_ext b (buf v) (off v + 8 * k) Hbits).
      apply bitrange_ext. intros i Hi. rewrite !getbit_head by lia. reflexivity.
    + rewrite (bitrange_cons b bs _ 0), Hbs. f_equal. lia.
Qed.

Theorem iter_padded_spec v : WF v -> iter_padded v = Ok (vbits v).
Proof.
  intros (Hb & Hw & Hs). unfold iter_padded, raw_bytes. rewrite (bw_small _ Hs).
  set (w := width (vty v)) in *.
  destruct (raw_bytes_from_spec v Hb (N.to_nat (div_ceil8 w)) 0) as (bs & E & Hlen & Hok & Hbits).
  { unfold div_ceil8. destruct (N.eq_dec w 0) as [Hz|Hz].
    - left. rewrite Hz. reflexivity.
    - right. lia. }
  rewrite E. cbn [obind]. f_equal.
  rewrite bits_of_bytes_bitrange, Hlen, Hbits.
  rewrite firstn_bitrange by (unfold div_ceil8; lia).
  unfold vbits. f_equal. lia.
Qed.

(* |iter_padded v| = width, and it is a padded encoding of the denoted element *)
Corollary iter_padded_width v : WF v ->
  exists p, iter_padded v = Ok p /\ length p = N.to_nat (width (vty v)) /\ padded_of (vty v) (absv v) p.
Proof.
  intros H. exists (vbits v). split; [apply iter_padded_spec, H|].
  split; [apply vbits_length|apply vbits_padded_of].
Qed.

(* ------------------------------------------------------------------ CompactBitsIter *)

(* number of loop iterations CompactBitsIter spends on a value *)
Fixpoint cused (t : ty) (s : sval) : nat :=
  if width t =? 0 then 1%nat
  else match t, s with
       | Sum a _, SL x => S (cused a x)
       | Sum _ b, SR x => S (cused b x)
       | Prod a b, SP x y => S (cused a x + cused b y)
       | _, _ => 1%nat
       end.

Lemma cused_le t : forall s, (cused t s <= tnodes t)%nat.
Proof.
  induction t as [|a IHa b IHb|a IHa b IHb]; intros s; cbn [cused tnodes].
  - cbn. lia.
  - destruct (width (Sum a b) =? 0); [lia|].
    destruct s; try lia; [specialize (IHa s)|specialize (IHb s)]; lia.
  - destruct (width (Prod a b) =? 0); [lia|].
    destruct s; try lia. specialize (IHa s1). specialize (IHb s2). lia.
Qed.

Lemma compact_enc_width0 t : forall bits, width t = 0 -> compact_enc (of_padded t bits) = [].
Proof.
  induction t as [|a IHa b IHb|a IHa b IHb]; intros bits H; cbn [width] in H.
  - reflexivity.
  - lia.
  - cbn [of_padded compact_enc]. rewrite IHa, IHb by lia. reflexivity.
Qed.

Lemma compact_run_value : forall t v st acc f, vty v = t -> WF v ->
  compact_run (cused t (absv v) + f) (v :: st) acc
  = compact_run f st (rev (compact_enc (absv v)) ++ acc).
Proof.
  induction t as [|a IHa b IHb|a IHa b IHb]; intros v st acc f E HWF.
  - cbn [cused width N.eqb Nat.add compact_run]. rewrite E. cbn [bw width_sat N.eqb].
    unfold absv. rewrite E. reflexivity.
  - destruct HWF as (Hb & Hw & Hs).
    assert (HWF : WF v) by (repeat split; assumption).
    assert (Hne : width (Sum a b) =? 0 = false) by (apply N.eqb_neq; cbn [width]; lia).
    cbn [cused]. rewrite Hne.
    pose proof (as_left_spec v a b HWF E) as HL. pose proof (as_right_spec v a b HWF E) as HR.
    destruct (getbit (buf v) (off v)).
    + cbv zeta in HR. destruct HR as (ER & HWr & Habs).
      rewrite Habs. cbn [Nat.add compact_run].
      rewrite E at 1. rewrite (bw_small _ ltac:(rewrite E in Hs; exact Hs)), Hne, HL, ER.
      rewrite IHb by (auto). cbn [compact_enc rev]. rewrite <- app_assoc. reflexivity.
    + cbv zeta in HL. destruct HL as (EL & HWl & Habs).
      rewrite Habs. cbn [Nat.add compact_run].
      rewrite E at 1. rewrite (bw_small _ ltac:(rewrite E in Hs; exact Hs)), Hne, EL.
      rewrite IHa by (auto). cbn [compact_enc rev]. rewrite <- app_assoc. reflexivity.
  - destruct HWF as (Hb & Hw & Hs).
    assert (HWF : WF v) by (repeat split; assumption).
    cbn [cused].
    destruct (width (Prod a b) =? 0) eqn:Hz.
    + apply N.eqb_eq in Hz. cbn [Nat.add compact_run].
      rewrite E at 1. rewrite (bw_small _ ltac:(rewrite E in Hs; exact Hs)), Hz. cbn [N.eqb].
      unfold absv. rewrite E, compact_enc_width0 by exact Hz. reflexivity.
    + destruct (as_product_spec v a b HWF E) as (EP & HWl & HWr & Habs). cbv zeta in *.
      rewrite Habs. cbn [Nat.add compact_run].
      rewrite E at 1. rewrite (bw_small _ ltac:(rewrite E in Hs; exact Hs)), Hz.
      destruct (as_left_not_sum v) as [-> ->]; [intros ? ?; rewrite E; discriminate|].
      rewrite EP.
      rewrite <- Nat.add_assoc, IHa by auto. rewrite IHb by auto.
      cbn [compact_enc]. rewrite rev_app_distr, <- app_assoc. reflexivity.
Qed.

(* iter_compact v = compact_enc [[v]] *)
Theorem iter_compact_spec v : WF v -> iter_compact v = Ok (compact_enc (absv v)).
Proof.
  intros H. unfold iter_compact.
  pose proof (cused_le (vty v) (absv v)) as Hle.
  replace (S (tnodes (vty v))) with (cused (vty v) (absv v) + S (tnodes (vty v) - cused (vty v) (absv v)))%nat by lia.
  rewrite compact_run_value by auto. cbn [compact_run]. rewrite app_nil_r, rev_involutive. reflexivity.
Qed.

(* ... = the padded bits with the padding positions deleted *)
Theorem iter_compact_strip v : WF v ->
  exists p, iter_padded v = Ok p /\ iter_compact v = Ok (strip (vty v) p).
Proof.
  intros H. exists (vbits v). split; [apply iter_padded_spec, H|].
  rewrite iter_compact_spec by exact H. f_equal. symmetry.
  apply strip_padded, vbits_padded_of.
Qed.

Theorem compact_len_spec v : WF v ->
  compact_len v = Ok (N.of_nat (length (compact_enc (absv v)))).
Proof. intros H. unfold compact_len. rewrite iter_compact_spec by exact H. reflexivity. Qed.
