#!/bin/bash
# usage: goal.sh <file.v> <line>   -- show the proof state after the given line (debug helper)
f=$1; n=$2
head -n $n "$f" > /tmp/goal_dbg.v
echo "Show." >> /tmp/goal_dbg.v
cd /verif/coq && coqc -Q . RS /tmp/goal_dbg.v 2>&1 | head -${3:-60}
