(* The hypotheses of PruneLoop.prune_full_sound are satisfiable, and the loop does what finding F-C08b is about:
   on the program of RetypeEx.v the FIRST pass leaves the shared node 3 at 2^8 -> 2^8 (the dropped branch is still
   in the inference context), the SECOND pass - which changes no structure - makes the types principal and
   shrinks witness 1 to the unit value; that is the program the loop returns. *)
From RS Require Import Lib.Tac Lib.Outcome Lib.Bits Ty.Ty Core.Prog
  Redeem.Finalize Redeem.PruneProg Redeem.PruneFix Redeem.Retype Redeem.Routes Redeem.RetypeEx
  Infer.Constraints Infer.Infer Redeem.RetypeInfer Redeem.RetypeKeep Redeem.RetypeEnd Redeem.PruneLoop.
Import ListNotations.
Local Open Scope nat_scope.

(* identity classes = node indices, witness stream = the witness bits in table order *)
Definition idx_analyse (p : rprog) (_ : arrows) : outcome N (list nat * list bool) :=
  Ok (seq 0 (length p),
      flat_map (fun n => match n with RWitness c => compact_enc (cv_val c) | _ => []%list end) p).

Example shared_prog_loop :
  exists o E, run sym_hashes ex_jet_sem ex_hash_val shared_prog = Ok (o, E) /\
    let st := prune_full_gen sym_hashes idx_analyse ex_jt shared_prog shared_arrows_old E in
    ls_err st = 0%N /\ length (ls_rounds st) = 3 /\
    (* after the first pass *)
    (let q1 := prune_struct sym_hashes (fun i => i) shared_prog E in
     exists a1, infer_keep ex_jt (keepb shared_prog 13) q1 = Some a1 /\
       a1 3 = Some (word_ty 3, word_ty 3) /\
       nth_error (shrink a1 q1) 1 = Some (RWitness (CV (word_ty 3) w1_val))) /\
    (* what the loop returns *)
    ls_arrows st 3 = Some (One, One) /\
    nth_error (ls_prog st) 1 = Some (RWitness (CV One SU)) /\
    nth_error (ls_prog st) 12 = Some (RAssertL 10 []) /\
    run sym_hashes ex_jet_sem ex_hash_val (ls_prog st) = Ok (SU, E).
Proof.
  destruct (run sym_hashes ex_jet_sem ex_hash_val shared_prog) as [[o E]| | |] eqn:R; try (vm_compute in R; discriminate).
  exists o, E. split; [reflexivity|]. intros st.
  assert (W : rwf shared_prog = true) by (vm_compute; reflexivity).
  assert (T0 : typed_from (jet_ty_of ex_jt) shared_prog shared_arrows_old 13)
    by (apply typed_onb_from with (idx := seq 0 14); vm_compute; reflexivity).
  assert (Hw : words_small shared_prog 13) by (apply words_smallb_ok; vm_compute; reflexivity).
  destruct (prune_full_sound sym_hashes idx_analyse ex_jet_sem ex_hash_val ex_jt ex_jt_typed ex_hash_typed E
              shared_prog shared_arrows_old o W ltac:(discriminate) T0 Hw eq_refl R) as [_ S].
  fold st in S.
  assert (C : ls_err st = 0%N /\ length (ls_rounds st) = 3 /\
     (let q1 := prune_struct sym_hashes (fun i => i) shared_prog E in
      exists a1, infer_keep ex_jt (keepb shared_prog 13) q1 = Some a1 /\
        a1 3 = Some (word_ty 3, word_ty 3) /\
        nth_error (shrink a1 q1) 1 = Some (RWitness (CV (word_ty 3) w1_val))) /\
     ls_arrows st 3 = Some (One, One) /\
     nth_error (ls_prog st) 1 = Some (RWitness (CV One SU)) /\
     nth_error (ls_prog st) 12 = Some (RAssertL 10 [])).
  { clear S. subst st. vm_compute in R. injection R as <- <-.
    split; [vm_compute; reflexivity|]. split; [vm_compute; reflexivity|]. split.
    - intros q1. unfold infer_keep.
      destruct (infer ex_jt None (tr_keep (keepb shared_prog 13) q1)) as [tau| | |] eqn:Ei; try (vm_compute in Ei; discriminate).
      eexists. split; [reflexivity|]. vm_compute in Ei. injection Ei as <-. vm_compute. auto.
    - vm_compute. auto. }
  destruct C as (Z & C1 & C2 & C3 & C4 & C5).
  split; [exact Z|]. split; [exact C1|]. split; [exact C2|]. split; [exact C3|]. split; [exact C4|]. split; [exact C5|].
  exact (proj1 (S Z)).
Qed.
