"""C04 - Type inference is sound, principal and order-independent.

Harness: /verif/harness_infer (command `infer`).  Model: coq/Infer/*.v (Run.v entry points).
Every DAG is constructed in several topological orders, each in a fresh inference context.
The python unifier below is an independent specification oracle (union-find on term graphs,
occurs check at the end, free variables := unit) and `py_check` an independent checker of the
typing rules."""
import os
import re

import proggen as pg
import vplib
from vplib import Case
from props import infer_gen as ig

PROP = "C04"
LEVEL = "proof"
IMPORTS = ["Core.Prog", "Infer.Run", "Infer.Run2", "Infer.RunSlab", "Infer.ErrDisplay"]
CRATE = None  # merged into the main harness crate
MAX_DISPLAY = 2 * 1024 * 1024        # generous bound on the text of a type error
MAX_DISPLAY_LENGTH = 10000           # types/mod.rs (nodes)
MAX_DISPLAY_DEPTH = 64
CAP = 1 << 26                        # the harness stops formatting after 64 MiB
SLOW_MS = 5000
EXTRA = {}                           # case id -> (ms, dlen, fsz)
GROUP = {}                           # group id -> canonical result of the first order
SIDE = {}                            # case id -> {"jets": {(fam, name): (src, tgt)}, "exp": reference result}

U = pg.U


# ------------------------------------------------------------------ python reference unifier (spec oracle)
class TNode:
    __slots__ = ("kind", "a", "b", "parent")

    def __init__(self, kind, a=None, b=None):
        self.kind = kind  # 'var' 'one' 'sum' 'prod'
        self.a = a
        self.b = b
        self.parent = None


def tfind(x):
    while x.parent is not None:
        if x.parent.parent is not None:
            x.parent = x.parent.parent
        x = x.parent
    return x


class Clash(Exception):
    pass


def tunify(x, y):
    work = [(x, y)]
    while work:
        a, b = work.pop()
        a = tfind(a)
        b = tfind(b)
        if a is b:
            continue
        if a.kind == "var":
            a.parent = b
        elif b.kind == "var":
            b.parent = a
        elif a.kind != b.kind:
            raise Clash()
        else:
            a.parent = b
            if a.kind != "one":
                work.append((a.a, b.a))
                work.append((a.b, b.b))


def tground(t, memo):
    """proggen type tuple -> TNode graph (shared by identity of equal subtrees)"""
    if t in memo:
        return memo[t]
    if t[0] == "u":
        n = TNode("one")
    else:
        n = TNode("sum" if t[0] == "s" else "prod", tground(t[1], memo), tground(t[2], memo))
    memo[t] = n
    return n


def tresolve_all(roots):
    """occurs check + ground types (free := unit) of the given nodes; None if a cycle is reachable"""
    done = {}
    state = {}
    for r in roots:
        stack = [(tfind(r), 0)]
        while stack:
            n, ph = stack.pop()
            if id(n) in done:
                continue
            if ph == 0:
                if state.get(id(n)) == 1:
                    return None
                state[id(n)] = 1
                stack.append((n, 1))
                if n.kind in ("sum", "prod"):
                    for ch in (n.b, n.a):
                        c = tfind(ch)
                        if id(c) in done:
                            continue
                        if state.get(id(c)) == 1:
                            return None
                        stack.append((c, 0))
            else:
                if n.kind in ("var", "one"):
                    done[id(n)] = U
                else:
                    ta = done[id(tfind(n.a))]
                    tb = done[id(tfind(n.b))]
                    done[id(n)] = ("s" if n.kind == "sum" else "p", ta, tb)
                state[id(n)] = 2
    return [done[id(tfind(r))] for r in roots]


def shape_ok(prog, jets):
    for i, n in enumerate(prog):
        ch = pg.children(n)
        if any(c >= i for c in ch):
            return False
        k = n[0]
        if k == "case":
            if prog[n[1]][0] == "hid" and prog[n[2]][0] == "hid":
                return False
        elif k == "jet":
            if (n[1], n[2]) not in jets:
                return False
        elif k == "word":
            if n[1] > 31 or len(n[2]) != 2 ** n[1]:
                return False
        else:
            if any(prog[c][0] == "hid" for c in ch):
                return False
    return True


def py_constraints(prog, root, jets):
    """-> ('ok', [None | (src node, tgt node)]) | ('err', class, stage): the term graph after all unifications
    of the constructors and of the program root, before the occurs check"""
    if not shape_ok(prog, jets) or (root is not None and prog[root][0] == "hid"):
        return ("err", 11, 0)
    memo = {}
    var = lambda: TNode("var")
    arr = []
    try:
        for n in prog:
            k = n[0]
            if k == "iden":
                a = var()
                arr.append((a, a))
            elif k == "unit":
                arr.append((var(), TNode("one")))
            elif k == "injl":
                cs, ct = arr[n[1]]
                arr.append((cs, TNode("sum", ct, var())))
            elif k == "injr":
                cs, ct = arr[n[1]]
                arr.append((cs, TNode("sum", var(), ct)))
            elif k == "take":
                cs, ct = arr[n[1]]
                arr.append((TNode("prod", cs, var()), ct))
            elif k == "drop":
                cs, ct = arr[n[1]]
                arr.append((TNode("prod", var(), cs), ct))
            elif k == "comp":
                ls, lt = arr[n[1]]
                rs, rt = arr[n[2]]
                tunify(lt, rs)
                arr.append((ls, rt))
            elif k == "pair":
                ls, lt = arr[n[1]]
                rs, rt = arr[n[2]]
                tunify(ls, rs)
                arr.append((ls, TNode("prod", lt, rt)))
            elif k == "case":
                a, b, c, t = var(), var(), var(), var()
                if arr[n[1]] is not None:
                    ls, lt = arr[n[1]]
                    tunify(ls, TNode("prod", a, c))
                    tunify(t, lt)
                if arr[n[2]] is not None:
                    rs, rt = arr[n[2]]
                    tunify(rs, TNode("prod", b, c))
                    tunify(t, rt)
                arr.append((TNode("prod", TNode("sum", a, b), c), t))
            elif k == "disc":
                ls, lt = arr[n[1]]
                if n[2] is None:
                    c, d = var(), var()
                else:
                    c, d = arr[n[2]]
                a, b = var(), var()
                tunify(ls, TNode("prod", tground(pg.word(8), memo), a))
                tunify(lt, TNode("prod", b, c))
                arr.append((a, TNode("prod", b, d)))
            elif k == "hid":
                arr.append(None)
            elif k in ("fail", "wit"):
                arr.append((var(), var()))
            elif k == "word":
                arr.append((TNode("one"), tground(pg.word(n[1]), memo)))
            elif k == "jet":
                s, t = jets[(n[1], n[2])]
                arr.append((tground(s, memo), tground(t, memo)))
            else:
                raise ValueError(k)
    except Clash:
        return ("err", 20, 0)
    if root is not None:
        try:
            u = TNode("one")
            tunify(arr[root][0], u)
            tunify(arr[root][1], u)
        except Clash:
            return ("err", 20, 1)
    return ("ok", arr)


def py_infer(prog, root, jets):
    """-> ('ok', [None | (src, tgt)]) | ('err', class, stage).  root = index of the program root or None.
    jets: {(fam, name): (src, tgt)}"""
    c = py_constraints(prog, root, jets)
    if c[0] != "ok":
        return c
    arr = c[1]
    flat = []
    for a in arr:
        if a is not None:
            flat += [a[0], a[1]]
    tys = tresolve_all(flat)
    if tys is None:
        return ("err", 22, 2)
    out = []
    pos = 0
    for a in arr:
        if a is None:
            out.append(None)
        else:
            out.append((tys[pos], tys[pos + 1]))
            pos += 2
    return ("ok", out)


def render_result(exp):
    """the canonical numbers the harness prints for a reference result"""
    if exp[0] == "ok":
        out = [0]
        for a in exp[1]:
            if a is None:
                out.append(5)
            else:
                out += [4] + pg.ty_nums(a[0]) + pg.ty_nums(a[1])
        return out
    return [1, exp[1], exp[2]]


def tinc(n):
    """numbers of Type::to_incomplete of a term-graph node: [8] if a cycle is reachable, else the tree with
    free variables as 7 and ground words abbreviated (harness: inc_nums)"""
    # cycle reachable?
    state = {}
    stack = [(tfind(n), 0)]
    while stack:
        x, ph = stack.pop()
        if ph == 1:
            state[id(x)] = 2
            continue
        if state.get(id(x)) == 2:
            continue
        if state.get(id(x)) == 1:
            return [8]
        state[id(x)] = 1
        stack.append((x, 1))
        if x.kind in ("sum", "prod"):
            for ch in (x.b, x.a):
                c = tfind(ch)
                if state.get(id(c)) == 1:
                    return [8]
                if state.get(id(c)) != 2:
                    stack.append((c, 0))
    memo = {}

    def rec(x):
        x = tfind(x)
        if id(x) in memo:
            return memo[id(x)]
        if x.kind == "var":
            r = (None, [7])
        elif x.kind == "one":
            r = (None, [0])
        else:
            wa, la = rec(x.a)
            wb, lb = rec(x.b)
            if x.kind == "sum":
                r = (0, [1, 0, 0]) if la == [0] and lb == [0] else (None, [1] + la + lb)
            elif wa is not None and wa == wb and wa + 1 < 32:
                r = (wa + 1, [3, wa + 1])
            else:
                r = (None, [2] + la + lb)
        memo[id(x)] = r
        return r

    return rec(n)[1]


def py_incs(prog, root, jets):
    c = py_constraints(prog, root, jets)
    if c[0] != "ok":
        return [1, c[1], c[2]]
    out = [0]
    for a in c[1]:
        if a is None:
            out.append(5)
        else:
            out += [4] + tinc(a[0]) + tinc(a[1])
    return out


def py_check(prog, tau, root, jets):
    """independent checker of the typing rules; returns None or a text"""
    if len(tau) != len(prog):
        return "arrow count"
    for i, (n, own) in enumerate(zip(prog, tau)):
        k = n[0]
        if k == "hid":
            if own is not None:
                return "hidden node %d has an arrow" % i
            continue
        if own is None:
            return "node %d has no arrow" % i
        A, B = own
        ch = [tau[c] for c in pg.children(n)]
        ok = True
        if k == "iden":
            ok = A == B
        elif k == "unit":
            ok = B == U
        elif k == "injl":
            ok = B[0] == "s" and ch[0] == (A, B[1])
        elif k == "injr":
            ok = B[0] == "s" and ch[0] == (A, B[2])
        elif k == "take":
            ok = A[0] == "p" and ch[0] == (A[1], B)
        elif k == "drop":
            ok = A[0] == "p" and ch[0] == (A[2], B)
        elif k == "comp":
            ok = ch[0][0] == A and ch[0][1] == ch[1][0] and ch[1][1] == B
        elif k == "pair":
            ok = B[0] == "p" and ch[0] == (A, B[1]) and ch[1] == (A, B[2])
        elif k == "case":
            ok = A[0] == "p" and A[1][0] == "s"
            if ok and ch[0] is not None:
                ok = ch[0] == (pg.P(A[1][1], A[2]), B)
            if ok and ch[1] is not None:
                ok = ch[1] == (pg.P(A[1][2], A[2]), B)
            ok = ok and not (ch[0] is None and ch[1] is None)
        elif k == "disc":
            l = ch[0]
            ok = B[0] == "p" and l[1][0] == "p" and l[0] == pg.P(pg.word(8), A) and l[1][1] == B[1]
            if ok and n[2] is not None:
                ok = ch[1] == (l[1][2], B[2])
        elif k == "word":
            ok = A == U and B == pg.word(n[1])
        elif k == "jet":
            ok = (A, B) == jets[(n[1], n[2])]
        if not ok:
            return "node %d (%s) violates its typing rule: %s -> %s" % (i, k, pg.ty_str(A), pg.ty_str(B))
    if root is not None and tau[root] != (U, U):
        return "program root is not 1 -> 1"
    return None


# ------------------------------------------------------------------ orders
def topo_ok(prog, order):
    pos = {o: k for k, o in enumerate(order)}
    return all(pos[c] < pos[i] for i, n in enumerate(prog) for c in pg.children(n))


def all_topo_orders(prog, limit):
    n = len(prog)
    ch = [set(pg.children(x)) for x in prog]
    out = []

    def rec(done, order):
        if len(out) >= limit:
            return
        if len(order) == n:
            out.append(list(order))
            return
        for i in range(n):
            if i not in done and ch[i] <= done:
                done.add(i)
                order.append(i)
                rec(done, order)
                order.pop()
                done.discard(i)

    rec(set(), [])
    return out


def random_topo(prog, rng):
    n = len(prog)
    ch = [set(pg.children(x)) for x in prog]
    done = set()
    order = []
    while len(order) < n:
        ready = [i for i in range(n) if i not in done and ch[i] <= done]
        # bias towards late nodes so that the order differs from the canonical one
        i = ready[-1 - rng.below(min(len(ready), 3))] if rng.chance(1, 2) else rng.choice(ready)
        done.add(i)
        order.append(i)
    return order


def orders_for(prog, rng, tier):
    n = len(prog)
    ident = list(range(n))
    if not all(c < i for i, x in enumerate(prog) for c in pg.children(x)):
        return [ident]  # malformed: only the canonical order (it is rejected as a shape error)
    lim = 6 if tier == "quick" else 24
    if n <= 6:
        al = all_topo_orders(prog, 720)
        if len(al) > lim:
            al = [al[0]] + rng.shuffle(al[1:])[:lim - 1]
        res = al
    else:
        res = [ident] + [random_topo(prog, rng) for _ in range(3 if tier == "quick" else 5)]
    if ident in res:
        res.remove(ident)
    out = [ident]
    for o in res:
        if o not in out:
            out.append(o)
    return out


# ------------------------------------------------------------------ program families
def pdl_to_prog(s):
    out = []
    for tok in s.split(","):
        f = tok.split(".")
        k = f[0]
        if k in ("iden", "unit"):
            out.append((k,))
        elif k in ("injl", "injr", "take", "drop"):
            out.append((k, int(f[1])))
        elif k in ("comp", "case", "pair"):
            out.append((k, int(f[1]), int(f[2])))
        elif k == "disc":
            out.append((k, int(f[1]), None if f[2] == "-" else int(f[2])))
        elif k in ("hid", "fail"):
            out.append((k, f[1]))
        elif k == "jet":
            out.append((k, f[1], f[2]))
        elif k == "word":
            out.append((k, int(f[1]), [] if f[2] == "-" else [int(c) for c in f[2]]))
        elif k == "wit":
            out.append(("wit", None))
        else:
            raise ValueError(tok)
    return out


HID = "de" * 32


def fam_bomb(n):
    nodes = [("unit",), ("word", 3, [1, 0, 1, 0, 0, 1, 0, 1]), ("pair", 0, 1)]
    for _ in range(n):
        nodes.append(("pair", len(nodes) - 1, len(nodes) - 1))
    b = len(nodes) - 1
    nodes.append(("unit",))
    nodes.append(("case", b + 1, b + 1))
    nodes.append(("comp", b, b + 2))
    return nodes


def fam_deep_pdl(n):
    """the F-C02 family as a table: case (take injl^n iden) (take injl^n (take iden))"""
    nodes = [("iden",)]
    for _ in range(n):
        nodes.append(("injl", len(nodes) - 1))
    nodes.append(("take", len(nodes) - 1))
    l = len(nodes) - 1
    nodes.append(("iden",))
    nodes.append(("take", len(nodes) - 1))
    for _ in range(n):
        nodes.append(("injl", len(nodes) - 1))
    nodes.append(("take", len(nodes) - 1))
    nodes.append(("case", l, len(nodes) - 1))
    return nodes


def fam_shared(base, n, top):
    """n nested `pair x x` over a base term, optionally under a top combinator"""
    nodes = list(base)
    for _ in range(n):
        nodes.append(("pair", len(nodes) - 1, len(nodes) - 1))
    x = len(nodes) - 1
    if top == "take":
        nodes.append(("take", x))
    elif top == "comp_unit":
        nodes.append(("unit",))
        nodes.append(("comp", x, x + 1))
    elif top == "comp_self":
        nodes.append(("comp", x, x))
    elif top == "injl_case":
        nodes.append(("injl", x))
        nodes.append(("iden",))
        nodes.append(("case", x + 2, x + 2))
        nodes.append(("comp", x + 1, x + 3))
    return nodes


OCCURS = [
    # node/construct.rs tests
    "iden,disc.0.0",
    "iden,injr.0,pair.1.0,drop.2,case.3.3,case.4.4,comp.5.5,comp.6.4",
    "wit.-,drop.0,comp.1.1,comp.2.2,comp.3.3,comp.4.4,comp.5.5,case.6.5,drop.7,case.8.7,comp.9.9,case.10.10,comp.11.11,comp.12.12",
    "unit,case.0.0,disc.1.0",
    # regression_286_1 (well typed) and _2 (occurs check)
    "unit,injl.0,injr.1,injr.2,injl.3,unit,injl.5,injr.6,pair.4.7,unit,hid.%s,case.10.9,unit,case.10.12,case.13.10,case.11.14,comp.8.15" % HID,
    "wit.-,iden,drop.1,iden,iden,take.4,case.3.5,case.2.6,comp.0.7,unit,comp.8.9",
    # commit.rs regression_177
    "iden,drop.0,case.1.0",
    # comp of a node with itself through injl / injr / take / pair
    "iden,injl.0,comp.1.1",
    "iden,injr.0,comp.1.1",
    "iden,take.0,comp.1.1",
    "iden,pair.0.0,comp.1.1",
    "iden,injl.0,injr.1,comp.2.2",
    "wit.-,injl.0,comp.1.0",
    "iden,drop.0,pair.0.1",
    "iden,take.0,drop.0,pair.1.2,comp.3.3",
    "iden,disc.0.-",
    "iden,injl.0,disc.1.0",
    "wit.-,disc.0.0",
    "wit.-,wit.-,disc.0.1,comp.2.2",
    "iden,take.0,case.1.1,comp.2.2",
]


def mutate(rng, prog):
    """one random, possibly ill-typed, variant of a program"""
    p = [tuple(n) for n in prog]
    if not p:
        return p
    for _ in range(rng.range(1, 2)):
        i = rng.below(len(p))
        n = p[i]
        k = n[0]
        r = rng.below(8)
        if r < 3 and pg.children(n) and i > 0:
            # swap a child for another earlier node
            j = rng.below(i)
            if k in ("injl", "injr", "take", "drop"):
                p[i] = (k, j)
            elif k in ("comp", "case", "pair"):
                p[i] = (k, j, n[2]) if rng.chance(1, 2) else (k, n[1], j)
            elif k == "disc":
                p[i] = (k, j, n[2]) if rng.chance(1, 2) or n[2] is None else (k, n[1], j)
        elif r < 6:
            # change the combinator
            if k in ("injl", "injr", "take", "drop"):
                p[i] = (rng.choice(["injl", "injr", "take", "drop"]), n[1])
            elif k in ("comp", "case", "pair"):
                p[i] = (rng.choice(["comp", "case", "pair", "disc"]), n[1], n[2])
            elif k == "disc":
                p[i] = ("disc", n[1], None) if n[2] is not None and rng.chance(1, 2) else \
                    (rng.choice(["comp", "pair"]), n[1], n[2] if n[2] is not None else n[1])
            elif k in ("iden", "unit", "wit"):
                p[i] = rng.choice([("iden",), ("unit",), ("wit", None), ("word", 0, [1])])
            elif k == "word":
                m = rng.choice([0, 1, 2, 3])
                p[i] = ("word", m, rng.bits(2 ** m))
        elif r < 7 and k == "word":
            # wrong word size
            if rng.chance(1, 2):
                p[i] = ("word", n[1] + 1, n[2] + n[2])
            else:
                p[i] = ("word", n[1], n[2][:-1])  # malformed
        else:
            # put a new root on top
            top = len(p) - 1
            c = rng.below(5)
            if c == 0:
                p.append(("comp", top, top))
            elif c == 1:
                p.append(("pair", top, rng.below(len(p))))
            elif c == 2:
                p.append(("case", top, top))
            elif c == 3:
                p.append(("disc", top, rng.below(len(p))))
            else:
                p.append(("injl", top))
                p.append(("comp", len(p) - 1, top))
    return p


LEAVES = [("iden",), ("unit",), ("wit", None), ("word", 0, [1])]


def all_tables(n):
    """every node table with n nodes over a small alphabet"""
    def node_choices(k):
        out = list(LEAVES)
        for c in range(k):
            for u in ("injl", "injr", "take", "drop"):
                out.append((u, c))
            out.append(("disc", c, None))
            for d in range(k):
                for b in ("comp", "case", "pair", "disc"):
                    out.append((b, c, d))
        return out

    tabs = [[]]
    for k in range(n):
        tabs = [t + [x] for t in tabs for x in node_choices(k)]
    return tabs


def random_table(rng, n):
    p = []
    for k in range(n):
        r = rng.below(10)
        if k == 0 or r < 2:
            p.append(rng.choice(LEAVES + [("iden",), ("iden",), ("hid", HID)]))
        elif r < 5:
            p.append((rng.choice(["injl", "injr", "take", "drop"]), k - 1 - rng.below(min(k, 3))))
        else:
            a = k - 1 - rng.below(min(k, 3))
            b = rng.below(k)
            kind = rng.choice(["comp", "comp", "case", "pair", "pair", "disc"])
            if kind == "disc" and rng.chance(1, 3):
                p.append(("disc", a, None))
            else:
                p.append((kind, a, b) if rng.chance(1, 2) else (kind, b, a))
    return p


# ------------------------------------------------------------------ case construction
def info_of(binary, workdir):
    return jet_tables(binary, workdir)[1]


def jet_tables(binary, workdir):
    """per family: list of (fam, name, src, tgt) with moderate types, and {(fam,name): (id, src, tgt)}"""
    fams = {}
    info = {}
    for fam in ("c", "e"):
        lst = []
        for idx, name, s, t in pg.jet_list(binary, fam, workdir):
            info[(fam, name)] = (idx, s, t)
            if len(pg.ty_nums(s)) + len(pg.ty_nums(t)) <= 40:
                lst.append((fam, name, s, t))
        fams[fam] = lst
    return fams, info


def prog_coq(p, jet_ids=None):
    """proggen.prog_coq, with the optional child of disconnect forced to nat (the case files open N_scope)"""
    return re.sub(r"\(Some (\d+)\)", r"(Some \1%nat)", pg.prog_coq(p, jet_ids))


def coq_bool(b):
    return "true" if b else "false"


def mk_prog_cases(add, prog, program, rng, tier, info, family, cap=CAP, orders=None, model=True, fmodes=(), incs=0, slab=True):
    """one case per construction order; the first (canonical) order defines the group's result.
    fmodes: finalisation strategies (harness kind progf) additionally run on the first and the last order;
    incs: number of orders on which Type::to_incomplete of every node is observed before finalisation"""
    jets_used = sorted({(n[1], n[2]) for n in prog if n[0] == "jet"})
    jets = {j: (info[j][1], info[j][2]) for j in jets_used if j in info}
    jet_ids = {j: info[j][0] for j in jets_used if j in info}
    jl = "[" + "; ".join("(%d, %d, %s, %s)" % (0 if j[0] == "c" else 1, info[j][0],
                                                  vplib.coq_list(pg.ty_nums(info[j][1])), vplib.coq_list(pg.ty_nums(info[j][2])))
                         for j in jets_used if j in info) + "]"
    pdl = pg.prog_pdl(prog)
    pc = prog_coq(prog, jet_ids)
    gid = "%s|%d|%s" % (family, program, pdl)
    olist = orders if orders is not None else orders_for(prog, rng, tier)
    for k, o in enumerate(olist):
        ident = o == list(range(len(prog)))
        ostr = "-" if ident else ",".join(map(str, o))
        ocoq = "[]" if ident else "[" + "; ".join("%d%%nat" % x for x in o) + "]"
        line = "%d %s %d %s" % (program, ostr, cap, pdl)
        expr = None
        if model:
            expr = ("run_both_x 0%%nat %s %s %s %s" if slab else "run_infer %s %s %s %s") % (coq_bool(program), ocoq, jl, pc)
        meta = {"prog": prog, "program": program, "order": o, "family": family, "gid": gid, "first": k == 0}
        cid = add("prog", line, expr, meta)
        SIDE[cid] = {"jets": jets}
        if fmodes and (k == 0 or k == len(olist) - 1):
            for fm in fmodes:
                cid = add("progf", "%d %s" % (fm, line), expr.replace("run_both_x 0%nat", "run_both_x %d%%nat" % fm) if expr else None,
                          dict(meta, first=False, fmode=fm))
                SIDE[cid] = {"jets": jets}
        if k < incs:
            cid = add("incs", "%d %s %s" % (program, ostr, pdl),
                      "run_both_incs %s %s %s %s" % (coq_bool(program), ocoq, jl, pc) if model else None, dict(meta, first=False))
            SIDE[cid] = {"jets": jets}


def gen_cases(rng, tier, binary=None, workdir=None):
    cases = []
    k = [0]
    quick = tier == "quick"

    def add(kind, line, expr, meta):
        k[0] += 1
        cases.append(Case("c%d" % k[0], kind, line, expr, meta))
        return "c%d" % k[0]

    SIDE.clear()
    if binary is not None:
        fams, info = jet_tables(binary, workdir)
        pg_jets = {fam: [(fam, name, s_, t_) for _i, name, s_, t_ in pg.jet_list(binary, fam, workdir)] for fam in ("c", "e")}
    else:
        fams, info, pg_jets = {"c": [], "e": []}, {}, None

    # 0. corpus (harness lines: `prog <program> <order|-|*> <cap> <pdl>` / `deep v N`)
    d = os.path.join(vplib.VERIF, "corpus", PROP)
    if os.path.isdir(d):
        for fn in sorted(os.listdir(d)):
            if not fn.endswith(".case"):
                continue
            for ln in open(os.path.join(d, fn)):
                t = ln.split()
                if not t or t[0].startswith("#"):
                    continue
                if t[0] == "prog":
                    prog = pdl_to_prog(t[4])
                    # order: `-` canonical only, `*` several topological orders, or an explicit order
                    if t[2] == "-":
                        order = [list(range(len(prog)))]
                    elif t[2] == "*":
                        order = None
                    else:
                        order = [[int(x) for x in t[2].split(",")]]
                    mk_prog_cases(add, prog, int(t[1]), rng, tier, info, "corpus:" + fn, cap=int(t[3]), orders=order)
                elif t[0] == "deep":
                    add("deep", "%s %s" % (t[1], t[2]), None, {"variant": int(t[1]), "n": int(t[2]), "family": "corpus:" + fn})

    # 1. exhaustive small tables
    for n in (1, 2):
        for tab in all_tables(n):
            for program in (0, 1):
                mk_prog_cases(add, tab, program, rng, tier, info, "small%d" % n)
    t3 = all_tables(3)
    pick = t3 if not quick else rng.shuffle(t3)[:150]
    for tab in pick:
        mk_prog_cases(add, tab, rng.below(2), rng, tier, info, "small3")
    if not quick:
        for _ in range(1000):
            mk_prog_cases(add, random_table(rng, 4), rng.below(2), rng, tier, info, "small4")

    # 2. occurs-check shapes and the repository's regression shapes, every order (capped)
    for s in OCCURS:
        prog = pdl_to_prog(s)
        for program in (0, 1):
            mk_prog_cases(add, prog, program, rng, tier, info, "occurs")

    # 3. type-directed well-typed programs, and mutants
    nwt = 110 if quick else 700
    for i in range(nwt):
        r = rng.fork("wt%d" % i)
        depth = r.range(2, 5)
        if r.chance(1, 3):
            a, b = U, U
        else:
            a, b = pg.rand_ty(r, 2), pg.rand_ty(r, 2)
        fam = r.choice(["c", "e"])
        opts = {"hidden": 15, "disconnect": 12, "witness": 15, "fail": 2, "share": 35}
        jl = fams[fam]
        if jl and r.chance(1, 3):
            # a jet in the middle: comp (x : a -> s) (comp jet (y : t -> b))
            j = r.choice(jl)
            bld = pg.Builder(r, opts)
            x = bld.gen(a, j[2], max(1, depth - 2))
            jn = bld.add(("jet", j[0], j[1]))
            y = bld.gen(j[3], b, max(1, depth - 2))
            c1 = bld.add(("comp", x, jn))
            bld.add(("comp", c1, y))
            prog = pg.compact_prog(bld.nodes)
        else:
            prog = pg.gen_program(r, a, b, depth, opts)
        if len(prog) > 60:
            continue
        program = 1 if (a == U and b == U and r.chance(2, 3)) else r.below(2) if r.chance(1, 4) else 0
        mk_prog_cases(add, prog, program, r, tier, info, "welltyped")
        for _m in range(2):
            mp = mutate(r, prog)
            if len(mp) <= 60:
                mk_prog_cases(add, mp, r.below(2), r, tier, info, "mutant")

    # 4. random untyped tables
    for i in range(80 if quick else 1000):
        r = rng.fork("rt%d" % i)
        mk_prog_cases(add, random_table(r, r.range(4, 12)), r.below(2), r, tier, info, "random")

    # 5. deeply shared DAGs
    bases = [[("iden",)], [("unit",)], [("word", 2, [1, 0, 1, 1])], [("wit", None)],
             [("unit",), ("word", 3, [1, 0, 1, 0, 0, 1, 0, 1]), ("pair", 0, 1)], [("iden",), ("injl", 0)]]
    for base in bases:
        for n in ([2, 5, 9] if quick else [1, 2, 3, 5, 8, 10, 12]):
            for top in ("none", "take", "comp_unit", "comp_self", "injl_case"):
                # the model expands types as trees: depth 12 is left to the python oracle
                mk_prog_cases(add, fam_shared(base, n, top), 0, rng, tier, info, "shared", model=n <= 10)
    # impl-only (python oracle): deeper sharing than the model is asked to expand
    for n in (14, 16):
        mk_prog_cases(add, fam_shared(bases[0], n, "comp_self"), 0, rng, tier, info, "shared-deep", model=False,
                      orders=[list(range(n + 2))])

    # 6. the F-C04 family: comp bomb (case unit unit); the model evaluates all of them (it fails before expanding)
    for n in ([3, 10, 16, 19, 22] if quick else [1, 2, 3, 6, 10, 14, 16, 17, 18, 19, 20, 22, 23]):
        p = fam_bomb(n)
        # (the slab model expands the complete types of the error to measure them: 2^(n+3) steps; n <= 19 there)
        mk_prog_cases(add, p, 0, rng, tier, info, "bomb", orders=[list(range(len(p)))], slab=n <= 19)

    # 7. the F-C02 family as tables (small depth: model too) ...
    for n in ([3, 40] if quick else [1, 3, 10, 40, 150]):
        p = fam_deep_pdl(n)
        # (the arrows of depth-150 chains are ~200k numbers: more than coqc can read back in one list)
        mk_prog_cases(add, p, 0, rng, tier, info, "deep-pdl", orders=[list(range(len(p))), random_topo(p, rng)], model=n <= 40)
    # ... and generated in the harness from a parameter (impl only), below and above the thresholds
    for v, n in [(0, 2000), (0, 10000), (1, 20000), (2, 20000), (0, 40000), (2, 200000)] + ([] if quick else [(0, 60000), (1, 200000)]):
        add("deep", "%d %d" % (v, n), None, {"variant": v, "n": n, "family": "deep"})

    # 8. Final's Display: byte / char length of complete types
    tys = [pg.word(i) for i in range(0, 10)] + [pg.opt(pg.word(3)), pg.S(U, U), pg.P(U, U), pg.S(pg.word(2), U),
                                                 pg.S(U, pg.P(pg.word(1), U)), pg.P(pg.S(U, pg.word(5)), pg.S(pg.word(3), pg.word(3)))]
    t = pg.P(U, pg.word(3))
    for _ in range(8):
        tys.append(t)
        t = pg.P(t, t)
    for _ in range(60 if quick else 600):
        tys.append(pg.rand_ty(rng, rng.range(1, 5)))
    for t in tys:
        add("tydisp", pg.ty_pdl(t), "run_tydisp %s" % vplib.coq_list(pg.ty_nums(t)), {"ty": pg.ty_pdl(t)})

    # 9. Display of incomplete (and cyclic) bounds: token counts, impl-only bound check + model
    inc = []
    for n in (3, 8, 14):
        inc.append((fam_shared([("iden",)], n, "none"), n, 1))          # 2^n leaves, all the same variable
    for n in (10, 70, 200):
        p = [("iden",)]
        for _ in range(n):
            p.append(("take", len(p) - 1))
        inc.append((p, n, 0))                                            # depth n source
    inc.append((pdl_to_prog("iden,disc.0.0"), 1, 0))                     # cyclic
    inc.append((pdl_to_prog("iden,injl.0,comp.1.1"), 2, 0))              # cyclic
    for p, node, tgt in inc:
        add("incdisp", "0 %s %d %d" % (pg.prog_pdl(p), node, tgt),
            "run_incdisp %s %d%%nat %s" % (prog_coq(p), node, coq_bool(tgt)), {"prog": p, "node": node, "target": tgt})

    # ---------------- phase 2: the order-dependent corners of bind / unify / occurs check (infer_gen.py)
    FM = (1, 2, 3)
    # 10. hand-written witnesses: one class at >= 3 leaves; complete asymmetric product against A x A
    for sh in ig.SEED_SHAPES:
        prog = pdl_to_prog(sh)
        ol = ig.distinct_orders(prog, 24 if quick else 200)
        if len(ol) > (8 if quick else 40):
            ol = [ol[0]] + rng.shuffle(ol[1:])[:(7 if quick else 39)]
        mk_prog_cases(add, prog, 0, rng, tier, info, "seed-shape", orders=ol, fmodes=FM, incs=2)
    # 11. hubs: one variable class at many leaves, the grounding constraint first / in the middle / last
    sysh = ig.hub_systematic(None)
    if quick:
        sysh = rng.fork("hubsys").shuffle(sysh)[:45]
    for tab, sp in sysh:
        mk_prog_cases(add, tab, 0, rng, tier, info, "hub-sys", orders=ig.spread_orders(tab, sp, rng, 4 if quick else 8),
                      fmodes=(1,), incs=1)
    hub_jets = [j for j in fams["c"] if len(pg.ty_nums(j[2])) + len(pg.ty_nums(j[3])) <= 12]
    for i in range(85 if quick else 2500):
        r = rng.fork("hub%d" % i)
        tab, sp, _desc = ig.hub_program(r, hub_jets)
        mk_prog_cases(add, tab, r.below(2), r, tier, info, "hub", orders=ig.spread_orders(tab, sp, r, 4 if quick else 8),
                      fmodes=(r.choice(FM),) if r.chance(1, 3) else (), incs=1 if r.chance(1, 3) else 0)
    # 12. almost well-typed: complete asymmetric sums / products (all Core and Elements jets with asymmetric
    #     source / target, pairs of words) against incomplete bounds with repeated variables
    for fam in ("c", "e"):
        jl = [j for j in pg_jets[fam]] if pg_jets else []
        al = ig.almost_cases(rng.fork("almost" + fam), jl, tier)
        if quick:
            al = rng.fork("almost-pick" + fam).shuffle(al)[:75]
        for f, tab, sp in al:
            r = rng.fork("alo%d" % len(cases))
            mk_prog_cases(add, tab, 0, r, tier, info, f, orders=ig.spread_orders(tab, sp, r, 3 if quick else 6),
                          fmodes=(1,) if r.chance(1, 4) else ())
    # 13. small DAGs over {iden unit injl injr take drop pair comp case, two words, one asymmetric jet} x all
    #     (+ disconnect without right child) topological orders: a stratified sample with the Coq model here; the exhaustive stream (implementation
    #     against the python oracle) is run by `bulk_enum`
    for n, cnt in ((3, 30 if quick else 530), (4, 70 if quick else 3000), (5, 120 if quick else 6000)):
        seen = set()
        if n == 3 and not quick:
            reps = list(ig.enum_classes(3))
        else:
            reps = []
            r = rng.fork("enum%d" % n)
            for _ in range(cnt * 3):
                t = ig.random_class(r, n)
                tk = ig.tkey(t)
                if tk not in seen:
                    seen.add(tk)
                    reps.append(t)
                if len(reps) >= cnt:
                    break
        for t in reps:
            ol = ig.distinct_orders(t)
            if len(ol) > 6:
                ol = [ol[0]] + rng.shuffle(ol[1:])[:5]
            r = rng.fork("enumo%d" % len(cases))
            mk_prog_cases(add, t, r.below(2), r, tier, info, "enum%d" % n, orders=ol,
                          fmodes=(r.choice(FM),) if r.chance(1, 4) else (), incs=1 if r.chance(1, 4) else 0)
    return cases


# ------------------------------------------------------------------ the property on the implementation
def classify_crash(c, r):
    if c.kind == "deep" and r == "CRASH":
        m = c.meta
        if m["variant"] == 0:
            return ("stack-overflow-unify", "deep %d %d: process aborted (stack overflow in recursive unify/bind)" % (m["variant"], m["n"]))
        if m["variant"] in (1, 2) and m["n"] >= 130000:
            return ("stack-overflow-drop-final", "deep %d %d: process aborted (recursive drop of a deep complete type)" % (m["variant"], m["n"]))
    return ("crash", "implementation crashed or hung (%s) on %s %s" % (r, c.kind, c.line[:200]))


def prop_check(c, r):
    m = c.meta
    if r in ("CRASH", "TIMEOUT") or r is None:
        return classify_crash(c, r)
    ms, dlen, fsz = EXTRA.get(c.cid, (0, 0, 0))
    if r == [9]:
        return ("panic", "panic on %s %s" % (c.kind, c.line[:300]))
    if c.kind == "deep":
        if r != [0]:
            return ("deep-verdict", "deep %s: well-typed family rejected: %s" % (c.line, r))
        if ms > 6 * SLOW_MS:
            return ("slow", "deep %s took %d ms" % (c.line, ms))
        return None
    if c.kind == "tydisp":
        return None  # compared with the model only
    if c.kind == "incdisp":
        if r[0] != 0:
            return ("incdisp", "construction failed")
        toks = sum(r[1:7])
        if toks > 3 * (MAX_DISPLAY_LENGTH + 1) + 1 + 1:
            return ("display-unbounded", "Display of an incomplete type printed %d structural tokens" % toks)
        if dlen > 40 * (MAX_DISPLAY_LENGTH + MAX_DISPLAY_DEPTH):
            return ("display-unbounded", "Display of an incomplete type printed %d bytes" % dlen)
        return None
    prog, program = m["prog"], m["program"]
    root = len(prog) - 1 if program else None
    if c.kind == "incs":
        jets = SIDE.setdefault(c.cid, {"jets": {}})["jets"]
        exp = py_incs(prog, root, jets)
        if r != exp:
            return ("incomplete-view", "Type::to_incomplete before finalisation (order %s): %s, reference %s"
                    % (m["order"], r[:60], exp[:60]))
        return None
    if dlen > MAX_DISPLAY:
        if fsz > MAX_DISPLAY_LENGTH:
            return ("error-display-exponential", "Display of the type error is %s%d bytes (complete types of %d tree nodes embedded)"
                    % (">" if dlen > CAP else "", dlen, fsz))
        return ("display-unbounded", "Display of the type error is %d bytes" % dlen)
    if ms > SLOW_MS:
        return ("slow", "inference + error display took %d ms" % ms)
    side = SIDE.setdefault(c.cid, {"jets": {}})
    jets = side["jets"]
    exp = side.get("exp")
    if exp is None:
        exp = py_infer(prog, root, jets)
        side["exp"] = exp
    if r[0] == 0:
        tau = pg.parse_arrows(r)
        if exp[0] != "ok":
            return ("accepts-ill-typed", "finalised a program whose constraints have no finite solution (reference: class %d stage %d)" % (exp[1], exp[2]))
        bad = py_check(prog, tau, root, jets)
        if bad:
            return ("unsound", bad)
        if tau != exp[1]:
            i = [j for j in range(len(tau)) if tau[j] != exp[1][j]][0]
            return ("not-principal", "node %d: arrow %s differs from the most general solution with free variables := unit %s"
                    % (i, tau[i] and tuple(map(pg.ty_str, tau[i])), exp[1][i] and tuple(map(pg.ty_str, exp[1][i]))))
    elif r[0] == 1:
        if exp[0] == "ok":
            return ("rejects-well-typed", "rejected (class %d stage %d) a program whose constraints have a finite solution" % (r[1], r[2]))
        if [r[1], r[2]] != [exp[1], exp[2]]:
            return ("error-class", "error class/stage %s, reference %s" % (r[1:], list(exp[1:])))
    else:
        return ("format", "unexpected result %s" % r)
    first = GROUP.get(m["gid"])
    if first is not None and first != r:
        return ("order-dependent", "construction order %s%s gives a different result than the canonical order"
                % (m["order"], " (finalisation strategy %d)" % m["fmode"] if "fmode" in m else ""))
    return None


def finding_match(c, r, cls):
    if cls in ("stack-overflow-unify", "error-display-exponential", "stack-overflow-drop-final"):
        for f in vplib.open_findings(PROP):
            if f.get("match", {}).get("kind") == cls:
                return f["id"]
    return None


def nontrivial(c, r):
    m = c.meta
    if c.kind in ("prog", "progf", "incs"):
        prog = m["prog"]
        if len(prog) >= 3 and any(n[0] in ("comp", "pair", "case", "disc") for n in prog):
            return (c.kind, m.get("fmode", 0), m["program"], tuple(m["order"]), pg.prog_pdl(prog))
        return None
    if c.kind == "deep":
        return ("deep", m["variant"], m["n"])
    if c.kind == "tydisp":
        return ("tydisp", m["ty"]) if len(m["ty"]) > 2 else None
    if c.kind == "incdisp":
        return ("incdisp", c.line)
    return None


def split_results(cases, impl):
    """strip `<ms> <dlen> <fsz>` from every implementation result"""
    EXTRA.clear()
    for c in cases:
        r = impl.get(c.cid)
        if isinstance(r, list) and len(r) >= 4 and all(isinstance(x, int) for x in r):
            EXTRA[c.cid] = (r[0], r[1], r[2])
            impl[c.cid] = r[3:]
    GROUP.clear()
    for c in cases:
        if c.kind == "prog" and c.meta.get("first"):
            r = impl.get(c.cid)
            if isinstance(r, list):
                GROUP[c.meta["gid"]] = r


def bulk_enum(rep, binary, tier, info):
    """The exhaustive stream: every single-sink DAG of <= 4 (quick) / <= 5 (thorough) nodes and, in the thorough
    tier, every DAG of <= 4 nodes with any number of sinks, over ig.ENUM_LEAVES + 5 unary (injl injr take drop, disconnect without right child) + 3 binary combinators,
    x EVERY topological construction order x program flag, implementation against the python oracle (the oracle
    runs once per DAG: the expected result does not depend on the order).  Returns (evaluations, failing Cases)."""
    import concurrent.futures
    import subprocess
    wd = os.path.join(rep.workdir(), "bulk")
    os.makedirs(wd, exist_ok=True)
    jets = {(n[1], n[2]): (info[(n[1], n[2])][1], info[(n[1], n[2])][2]) for n in ig.ENUM_LEAVES if n[0] == "jet" and (n[1], n[2]) in info}
    nsh = vplib.NCPU
    files = [open(os.path.join(wd, "bulk_%d.txt" % k), "w") for k in range(nsh)]
    expected = []          # per (class, flag): rendered reference result
    reps = []              # per class: table
    cnt = 0

    def classes():
        for n in range(1, (4 if tier == "quick" else 5) + 1):
            yield from ig.enum_classes(n)
        if tier != "quick":
            for n in range(2, 5):
                for t in ig.enum_classes(n, single_sink=False):
                    if ig.postorder_of(t) is None:
                        yield t

    for t in classes():
        ci = len(reps)
        reps.append(t)
        pdl = pg.prog_pdl(t)
        ol = ig.distinct_orders(t)
        for flag in (0, 1):
            exp = render_result(py_infer(t, len(t) - 1 if flag else None, jets))
            expected.append(" ".join(map(str, exp)))
            for oi, o in enumerate(ol):
                files[cnt % nsh].write("b%d_%d_%d prog %d %s 1000000 %s\n" % (ci, flag, oi, flag, "-" if oi == 0 else ",".join(map(str, o)), pdl))
                cnt += 1
    for f in files:
        f.close()

    def one(k):
        path = os.path.join(wd, "bulk_%d.txt" % k)
        try:
            out = subprocess.run([binary, "infer", path], capture_output=True, text=True, timeout=3000).stdout
        except subprocess.TimeoutExpired:
            return [("TIMEOUT", k)], 0
        bad = []
        seen = 0
        for l in out.split("\n"):
            tk = l.split(" ", 4)
            if len(tk) < 5:
                continue
            seen += 1
            ci, flag, oi = map(int, tk[0][1:].split("_"))
            if tk[4].strip() != expected[2 * ci + flag]:
                bad.append((ci, flag, oi, tk[4]))
        return bad, seen

    bad = []
    seen = 0
    with concurrent.futures.ThreadPoolExecutor(max_workers=nsh) as ex:
        for b, sn in ex.map(one, range(nsh)):
            bad += b
            seen += sn
    fails = []
    if seen != cnt:
        # a shard died (crash / timeout): fall back to the generic runner on the classes of that size to find the case
        raise vplib.Infra("bulk enumeration: %d of %d cases answered (a shard crashed or timed out: %s)" % (seen, cnt, [b for b in bad if b[0] == "TIMEOUT"][:3]))
    for k, (ci, flag, oi, got) in enumerate(sorted(bad)[:200]):
        t = reps[ci]
        o = ig.distinct_orders(t)[oi]
        cid = "bulk%d" % k
        line = "%d %s 1000000 %s" % (flag, "-" if oi == 0 else ",".join(map(str, o)), pg.prog_pdl(t))
        c = Case(cid, "prog", line, None, {"prog": t, "program": flag, "order": o, "family": "enum-bulk", "gid": "bulk|%d|%d" % (ci, flag), "first": oi == 0})
        SIDE[cid] = {"jets": jets}
        fails.append(c)
    return cnt, len(reps), fails


def run(rep, tier, rng):
    import time
    t0 = time.time()
    proof_ok = vplib.proof_stage(rep, "Props/C04.v", extra_targets=["Infer/Run.vo", "Infer/Run2.vo", "Infer/RunSlab.vo", "Infer/ErrDisplay.vo"])
    t1 = time.time()
    rep.coverage["trusted_base"] = vplib.GENERIC_TRUSTED + [
        "reference models coq/Infer/{Constraints,Unify,Infer,Display}.v written by hand from types/{arrow,context,mod,incomplete,final_data}.rs and node/construct.rs",
        "the Rust union-bound (ranks, path halving, mutable slab, eager completion, occurs check with two sets, finalisation order) is modelled in coq/Infer/{UnionFind,Slab}.v; every case is evaluated by BOTH models (Run.run_infer and RunSlab.run_rinfer) and they must agree; the refinement is proved for the union-find layer and (see Props/C04.v) partially for bind/unify",
        "jet source/target types are data taken from the implementation (Jet::source_ty/target_ty via harness `prog jetlist`)",
        "harness crate /verif/harness_infer; python oracle (unifier + rule checker) in tools/props/c04.py",
        "type equality: structural in the model, by TMR in the code",
    ]
    rep.coverage["refuted_lemmas"] = ["C04_display_final_unbounded_refuted", "C04_error_display_unbounded_refuted"]
    binary, out = vplib.harness_build("debug", crate=CRATE)
    if binary is None:
        raise vplib.Infra("harness build failed:\n" + out[-3000:])
    t2 = time.time()
    cases = gen_cases(rng, tier, binary, rep.workdir())
    deep = [c for c in cases if c.kind == "deep"]
    # spread the expensive families evenly over the evaluation batches
    rest = rng.fork("batches").shuffle([c for c in cases if c.kind != "deep"])
    impl, model = vplib.eval_cases(rep, binary, "infer", rest, IMPORTS, tag="c04", batch=min(400, max(100, (len(rest) + 13) // 14)))
    t3 = time.time()
    # cases that may abort the process run in their own subprocesses, the expected crashes last
    impl_d = vplib.run_harness(binary, "infer", ["%s %s %s" % (c.cid, c.kind, c.line) for c in deep],
                               workdir=os.path.join(rep.workdir(), "deep"), timeout=300)
    impl.update(impl_d)
    t4 = time.time()
    rep.coverage["phase_seconds"] = {"proofs": round(t1 - t0, 1), "harness_build": round(t2 - t1, 1),
                                     "deep_cases": round(t4 - t3, 1)}
    t5 = time.time()
    nbulk, nclasses, bfails = bulk_enum(rep, binary, tier, info_of(binary, rep.workdir()))
    if bfails:
        # re-run the failing ones through the generic path so that they are classified and reported like any other case
        bimpl = vplib.run_harness(binary, "infer", ["%s %s %s" % (c.cid, c.kind, c.line) for c in bfails],
                                  workdir=os.path.join(rep.workdir(), "bulkfail"), timeout=300)
        impl.update(bimpl)
        cases = cases + bfails
    t6 = time.time()
    rep.coverage["phase_seconds"]["bulk_enum"] = round(t6 - t5, 1)
    rep.coverage["bulk_enum"] = {"dags": nclasses, "evaluations": nbulk, "failures": len(bfails),
                                 "what": "every DAG x every topological order x program flag, implementation vs python oracle"}
    split_results(cases, impl)
    # the slab model also predicts, for every type error: `fsz` (size of the embedded complete types, compared
    # exactly), the bytes of the message apart from hint and variable names (a lower bound of the harness's
    # `dlen`, and an upper bound with 64 bytes for the hint and 32 per name), and the match predicate of F-C04.
    # The trailing `99 fsz minbytes names pred` is dropped when all of that agrees (otherwise the case is reported
    # as a disagreement between model and implementation)
    fsz_cmp = 0
    for c in cases:
        mv = model.get(c.cid)
        if c.kind in ("prog", "progf") and isinstance(mv, list) and len(mv) >= 5 and mv[-5] == 99 and mv[0] != 777:
            fsz, minb, names, pred = mv[-4:]
            ex = EXTRA.get(c.cid)
            if ex is None:
                continue
            _ms, dlen, ifsz = ex
            cap = int(c.line.split()[-2])
            ok = ifsz == fsz and pred == (1 if fsz > MAX_DISPLAY_LENGTH else 0)
            if ok and dlen <= cap and (minb or dlen):
                ok = minb <= dlen <= minb + 64 + 32 * names
            if ok:
                model[c.cid] = mv[:-5]
                fsz_cmp += 1
    rep.coverage["error_display_compared"] = fsz_cmp
    pfail, mism = vplib.decide(rep, cases, impl, model, prop_check, finding_match, nontrivial,
                               what="correspondence Infer/Run.v vs types::{arrow,context} through ConstructNode")
    rep.coverage["evaluations"] = rep.coverage.get("evaluations", 0) + nbulk
    rep.coverage["search"]["evaluations"] = rep.coverage["search"].get("evaluations", 0) + nbulk
    rep.coverage["distinct_nontrivial"] = rep.coverage.get("distinct_nontrivial", 0) + nbulk
    fams = {}
    verd = {}
    for c in cases:
        f = c.meta.get("family", c.kind).split(":")[0]
        fams[f] = fams.get(f, 0) + 1
        r = impl.get(c.cid)
        if c.kind in ("prog", "progf") and isinstance(r, list) and r:
            key = "ok" if r[0] == 0 else ("err-%s-%s" % (r[1], r[2]) if len(r) >= 3 else str(r))
            verd[key] = verd.get(key, 0) + 1
    rep.coverage["family_histogram"] = fams
    rep.coverage["verdict_histogram"] = verd
    rep.coverage["orders"] = {"groups": len(GROUP), "cases": len([c for c in cases if c.kind in ("prog", "progf", "incs")])}
    rep.coverage["rule"] = ("every node table of <= 2 nodes (sample of 3-node tables in the quick tier, all in thorough) over a 12-combinator "
                            "alphabet x program flag; the repository's occurs-check and issue-286 shapes; type-directed well-typed programs "
                            "(Core/Elements jets as leaves) and 2 mutants each; random untyped tables; deeply shared pair x x chains; the F-C04 "
                            "and F-C02 families; every DAG in all (<= 6 nodes, capped) or random topological construction orders, each in a "
                            "fresh context.  Phase 2: hubs (one variable class at >= 3 leaves of a bound through pair x x / pair (take x) (drop x) / "
                            "case x x / comp x x chains, the grounding word / jet / unit / root constraint constructed first, in the middle or "
                            "last); almost well-typed programs (source / target of every Core and Elements jet with an asymmetric type, and "
                            "pairs of words, against incomplete bounds with repeated variables cut out of the same type: consistent, one "
                            "inconsistent identification, one wrong constant); every single-sink DAG of <= 4 (quick) / 5 (thorough) nodes and "
                            "(thorough) every DAG of <= 4 nodes over 5 leaves + 8 combinators x every topological order x program flag against "
                            "the python oracle, a stratified sample of them also against the Coq model; three more finalisation strategies "
                            "(roots first, target first, node by node) and Type::to_incomplete of every node before finalisation.  "
                            "Distinct = distinct (kind, program flag, order, table); non-trivial = >= 3 nodes with a unifying combinator")
    rep.coverage["samples"] = [{"kind": c.kind, "args": c.line[:300], "impl": (impl.get(c.cid) or [])[:40] if isinstance(impl.get(c.cid), list) else impl.get(c.cid)}
                               for c in cases[::max(1, len(cases) // 6)][:6]]
    hits = rep.coverage["search"]["known_finding_hits"]
    for cls in ("stack-overflow-unify", "error-display-exponential", "stack-overflow-drop-final"):
        if not [f for f in vplib.open_findings(PROP) if f.get("match", {}).get("kind") == cls]:
            rep.notes.append("no open finding lists class %s" % cls)
    if not [f for f in vplib.open_findings(PROP) if f.get("match", {}).get("kind") == "error-display-exponential"]:
        rep.violation("C04_display_final_unbounded_refuted compiled but no open finding lists it", {}, False)
    vplib.finish_proof_verdict(rep, pfail)
    rep.assumptions += ["known findings hit this run: %d (F-C02 stack-overflow-unify, F-C04 error-display-exponential, F-C04b stack-overflow-drop-final)" % hits]


def replay(obj):
    import json
    print(json.dumps({k: v for k, v in obj.items() if k != "case"}, indent=1)[:3000])
    c = obj.get("case")
    if not c:
        return 0
    binary, _ = vplib.harness_build("debug", crate=CRATE)
    case = Case(c["id"], c["kind"], c["harness_args"], c["model_expr"], c.get("meta"))
    rep = vplib.Report(PROP, "quick", 0)
    if case.kind in ("prog", "progf", "incs"):
        fams, info = jet_tables(binary, rep.workdir())
        pos = {"prog": 3, "progf": 4, "incs": 2}[case.kind]
        prog = [tuple(x) if not isinstance(x, tuple) else x for x in pdl_to_prog(case.line.split()[pos])]
        case.meta["prog"] = prog
        SIDE[case.cid] = {"jets": {(n[1], n[2]): (info[(n[1], n[2])][1], info[(n[1], n[2])][2]) for n in prog if n[0] == "jet" and (n[1], n[2]) in info}}
    impl, model = vplib.eval_cases(rep, binary, "infer", [case], IMPORTS, tag="replay")
    split_results([case], impl)
    print("implementation:", str(impl.get(case.cid))[:2000], "extras (ms, display bytes, embedded complete nodes):", EXTRA.get(case.cid))
    print("model         :", str(model.get(case.cid))[:2000])
    print("property      :", prop_check(case, impl.get(case.cid)))
    return 0
