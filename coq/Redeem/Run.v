(* Executable entry points of the correspondence checks of C08 and C12: each maps a case (as generated
   by tools/props/c08.py / c12.py) to a flat list of numbers in the canonical form that the harness
   (harness_redeem/src/redeem.rs) prints, after the projection done by tools/props/redeem_common.py. *)
From RS Require Import Lib.Tac Lib.Outcome Lib.Bits Lib.Sweep Ty.Ty Core.Prog
  Redeem.Finalize Redeem.PruneProg Redeem.PruneFix Redeem.Routes.
Import ListNotations.
Local Open Scope N_scope.

(* ------------------------------------------------------------------ jets used by the generators *)

Definition bit_of (b : bool) : sval := if b then SR SU else SL SU.
Definition word_N (v : sval) : N := val_be (compact_enc v).
Definition N_word (n : nat) (x : N) : sval := word_val n (bits_be (2 ^ n) x).

Definition as_pair (v : sval) : option (sval * sval) :=
  match v with SP a b => Some (a, b) | _ => None end.

(* environment: lock height, tx final?, raw lock time (python computes them from lock_time/sequence) *)
Definition jet_inst (lockh : N) (final : bool) (lt_raw : N) (fam id : N) (v : sval) : option sval :=
  match id with
  | 1 => match v with SR SU => Some SU | _ => None end                       (* verify *)
  | 2 => option_map (fun ab => bit_of (word_N (fst ab) =? word_N (snd ab))) (as_pair v)   (* eq_8 *)
  | 3 => option_map (fun ab => bit_of (word_N (fst ab) <? word_N (snd ab))) (as_pair v)   (* lt_8 *)
  | 4 => Some (bit_of (word_N v =? 0))                                       (* is_zero_8 *)
  | 5 => match v with SL SU => Some (SR SU) | SR SU => Some (SL SU) | _ => None end  (* complement_1 *)
  | 6 => Some (N_word 3 0)                                                   (* low_8 *)
  | 7 => Some (N_word 3 255)                                                 (* high_8 *)
  | 8 => Some (N_word 3 1)                                                   (* one_8 *)
  | 9 => option_map (fun ab => bit_of (word_N (fst ab) =? word_N (snd ab))) (as_pair v)   (* eq_32 *)
  | 10 => option_map (fun ab => bit_of (word_N (fst ab) <? word_N (snd ab))) (as_pair v)  (* lt_32 *)
  | 11 => option_map (fun ab => bit_of (word_N (fst ab) <=? word_N (snd ab))) (as_pair v) (* le_32 *)
  | 12 => Some (bit_of (word_N v =? 0))                                      (* is_zero_32 *)
  | 13 => Some (N_word 5 lockh)                                              (* tx_lock_height *)
  | 14 => if word_N v <=? lockh then Some SU else None                       (* check_lock_height *)
  | 15 => Some (bit_of final)                                                (* tx_is_final *)
  | 16 => Some (N_word 5 lt_raw)                                             (* lock_time *)
  | _ => None
  end.

(* ------------------------------------------------------------------ instantiation of PruneProg *)

(* commitment roots are not part of this correspondence (C09): any functions do *)
Definition triv_hashes : hashes :=
  Hashes [] [] [] (fun x => x) (fun x => x) (fun x => x) (fun x => x) (fun x => x) (fun x => x)
         (fun x y => x ++ y) (fun x y => x ++ y) (fun x y => x ++ y) (fun _ _ => []) (fun _ _ => []).
Definition run_i (js : N -> N -> sval -> option sval) (p : rprog) := run triv_hashes js (fun _ => SU) p.
Definition prune_i (ident : nat -> nat) (p : rprog) (E : list event) := prune_struct triv_hashes ident p E.
Definition taken_i (ident : nat -> nat) := taken ident.

Definition no_jets : N -> N -> sval -> option sval := fun _ _ _ => None.

(* ------------------------------------------------------------------ reachability from the root *)

Fixpoint set_nth (k : nat) (l : list bool) : list bool :=
  match l, k with
  | [], _ => []
  | _ :: t, O => true :: t
  | h :: t, S k' => h :: set_nth k' t
  end.

(* children have smaller indices: one downward sweep marks everything reachable *)
Fixpoint reach_loop (q : rprog) (cnt : nat) (marks : list bool) : list bool :=
  match cnt with
  | O => marks
  | S i =>
      let marks' :=
        if nth i marks false
        then fold_left (fun m c => set_nth c m) (rchildren (nth i q RIden)) marks
        else marks in
      reach_loop q i marks'
  end.

Definition reach_marks (q : rprog) : list bool :=
  reach_loop q (length q) (set_nth (length q - 1) (repeat false (length q))).

(* ------------------------------------------------------------------ printing *)

Definition bits_N (l : list bool) : list N := map b2n l.

Definition ferr_code (e : ferr) : N :=
  match e with
  | FType => 41
  | FDisconnect => 43
  | FExec c => 42
  | FShape => 11
  | FWitBits => 30
  | DEndOfStream => 1
  | DTrailing => 2
  | DPadding => 3
  end.

Definition eerr_code (e : eerr) : N :=
  match e with EFail _ => 11 | EPruned _ => 12 | EJet => 14 end.

Definition exec_code (r : outcome eerr (sval * list event)) : N :=
  match r with
  | Ok _ => 0
  | Err e => eerr_code e
  | Panic _ => 9
  | OutOfFuel => 8
  end.

Fixpoint witness_items (i : nat) (p : rprog) : list (list N) :=
  match p with
  | [] => []
  | RWitness c :: tl =>
      let b := compact_enc (cv_val c) in
      (N.of_nat i :: N.of_nat (length b) :: bits_N b) :: witness_items (S i) tl
  | _ :: tl => witness_items (S i) tl
  end.

Fixpoint kept_witness_idx (i : nat) (q : rprog) (marks : list bool) : list N :=
  match q, marks with
  | RWitness _ :: tl, true :: mt => N.of_nat i :: kept_witness_idx (S i) tl mt
  | _ :: tl, _ :: mt => kept_witness_idx (S i) tl mt
  | _, _ => []
  end.

(* `0 <alltyped> <selfdec> <exec> <principal> <k> (<idx> <nbits> <bits>)*k | 1 <err> | 9` *)
Definition show_unpruned (js : N -> N -> sval -> option sval) (r : outcome ferr rprog) : list N :=
  match r with
  | Ok p =>
      let items := witness_items 0 p in
      [0; 1; 1; exec_code (run_i js p); 1; N.of_nat (length items)] ++ concat items
  | Err e => [1; ferr_code e]
  | Panic _ => [9]
  | OutOfFuel => [8]
  end.

(* pruned routes, projected: `0 <alltyped> <selfdec> <exec> <principal> <k> <idx>*k | 1 <err> | 9` *)
Definition show_pruned (js : N -> N -> sval -> option sval) (ids : list (nat -> nat)) (r : outcome ferr rprog) : list N :=
  match r with
  | Ok p =>
      match run_i js p with
      | Ok (_, E) =>
          let q := prune_rounds triv_hashes ids p E in
          let ks := kept_witness_idx 0 q (reach_marks q) in
          [0; 1; 1; 0; 1; N.of_nat (length ks)] ++ ks
      | Err _ => [1; 42]
      | Panic _ => [9]
      | OutOfFuel => [8]
      end
  | Err e => [1; ferr_code e]
  | Panic _ => [9]
  | OutOfFuel => [8]
  end.

(* ------------------------------------------------------------------ C12 *)

(* the witness map of the human-readable route: name of node i = i, value = the candidate *)
Fixpoint wmap_of (i : nat) (tp : typed_prog) : wmap :=
  match tp with
  | [] => []
  | (NWitness w, Some ar) :: tl =>
      match cval_of_spec w (snd ar) with
      | Ok (Some c) => (N.of_nat i, c) :: wmap_of (S i) tl
      | _ => wmap_of (S i) tl
      end
  | _ :: tl => wmap_of (S i) tl
  end.

Fixpoint targets_of (tp : typed_prog) (order : list nat) : list ty :=
  match order with
  | [] => []
  | i :: tl => match target_of tp i with Some t => t :: targets_of tp tl | None => One :: targets_of tp tl end
  end.

Fixpoint decoded_items (order : list nat) (cs : list cval) : list (list N) :=
  match order, cs with
  | i :: ot, c :: ct =>
      let b := compact_enc (cv_val c) in
      (N.of_nat i :: N.of_nat (length b) :: bits_N b) :: decoded_items ot ct
  | _, _ => []
  end.

Definition N_bits (l : list N) : list bool := map (fun x => negb (x =? 0)) l.

(* stream = the substituted witness bits before padding to whole bytes *)
Definition run_c12 (tp : typed_prog) (order : list nat) (stream : list N) (idents : list nat)
    (rounds : list (list nat)) : list N :=
  let m := wmap_of 0 tp in
  let names := fun i => N.of_nat i in
  let ident := map (fun ids i => nth i ids i) rounds in
  [100] ++ show_unpruned no_jets (route_construct true tp) ++
  [101] ++ show_pruned no_jets ident (route_construct true tp) ++
  [102] ++ show_unpruned no_jets (route_named true names m tp) ++
  [103] ++ show_pruned no_jets ident (route_named true names m tp) ++
  [104] ++ (N.of_nat (length order) :: map N.of_nat order) ++
  match route_decode (targets_of tp order) (pad_to_byte (N_bits stream)) with
  | Ok cs =>
      let items := decoded_items order cs in
      [0; 1; 1; N.of_nat (length items)] ++ concat items
  | Err e => [1; ferr_code e]
  | Panic _ => [9]
  | OutOfFuel => [8]
  end ++ [105; N.of_nat (length idents)] ++ map N.of_nat idents.

(* the route before the fix: `<all witnesses typed> <finalised>` *)
Definition all_typed_b (tp : typed_prog) (p : rprog) : bool :=
  forallb (fun x => x)
    (map (fun ie => match snd ie with
                    | RWitness c => match target_of tp (fst ie) with Some t => wit_ok c t | None => false end
                    | _ => true
                    end) (combine (seq 0 (length p)) p)).

Definition run_c12old (fixed : bool) (tp : typed_prog) : list N :=
  match route_construct fixed tp with
  | Ok p => [b2n (all_typed_b tp p); 1]
  | Err _ => [1; 0]
  | _ => [0; 9]
  end.

(* ------------------------------------------------------------------ C08 *)

Definition is_hole (n : rnode) : bool := match n with RHole _ => true | _ => false end.

Fixpoint struct_codes (p q : rprog) (marks : list bool) : list N :=
  match p, q, marks with
  | n :: pt, n' :: qt, m :: mt =>
      (if is_hole n then 5
       else if negb m then 0
       else match n, n' with
            | RCase _ _, RAssertL _ _ => 2
            | RCase _ _, RAssertR _ _ => 3
            | _, _ => 1
            end) :: struct_codes pt qt mt
  | _, _, _ => []
  end.

Fixpoint trace_items (ident : nat -> nat) (E : list event) (i : nat) (p : rprog) : list (list N) :=
  match p with
  | [] => []
  | n :: tl =>
      match n with
      | RCase _ _ | RAssertL _ _ | RAssertR _ _ =>
          [N.of_nat i; b2n (taken ident E i false); b2n (taken ident E i true)] :: trace_items ident E (S i) tl
      | _ => trace_items ident E (S i) tl
      end
  end.

Definition ident_of (ids : list nat) : nat -> nat := fun i => nth i ids i.

Definition codes_eqb (a b : list N) : bool := Sweep.list_beq N.eqb a b.

(* `1 <code>` | `2 <exec>` |
   `0 50 <n> <codes after one pass> 55 <n> <codes after all rounds> 51 <k> (<idx> <l> <r>)*k 57 <stable>`
   rounds = identity classes of the program every round of RedeemNode::prune starts from *)
Definition run_c08 (lockh final lt_raw : N) (tp : typed_prog) (rounds : list (list nat)) : list N :=
  let js := jet_inst lockh (negb (final =? 0)) lt_raw in
  let ids := map ident_of rounds in
  let ident := match ids with id :: _ => id | [] => fun i => i end in
  match route_construct true tp with
  | Err e => [1; ferr_code e]
  | Panic _ => [1; 9]
  | OutOfFuel => [1; 8]
  | Ok p =>
      match run_i js p with
      | Err e => [2; eerr_code e]
      | Panic _ => [2; 9]
      | OutOfFuel => [2; 8]
      | Ok (_, E) =>
          let q1 := prune_i ident p E in
          let qf := prune_rounds triv_hashes ids p E in
          let qb := prune_rounds triv_hashes (removelast ids) p E in
          let tr := trace_items ident E 0 p in
          let cf := struct_codes p qf (reach_marks qf) in
          [0; 50; N.of_nat (length p)] ++ struct_codes p q1 (reach_marks q1) ++
          [55; N.of_nat (length p)] ++ cf ++
          [51; N.of_nat (length tr)] ++ concat tr ++
          [57; b2n (codes_eqb cf (struct_codes p qb (reach_marks qb)))]
      end
  end.
