"""C18 - DAG iteration visits every node once, children first, with true indices."""
import glob
import os
import sys

import vplib
from vplib import Case, coq_list

PROP = "C18"
LEVEL = "proof"
IMPORTS = ["Dag.Run", "Dag.RunConvert"]
CRATE = None  # merged into the main harness crate
COMMAND = "dag"
sys.setrecursionlimit(100000)
LAST_SKIPPED = 0

# A DAG is a list of nodes (), (c,), (l, r) with children at smaller positions; root = any position.
# keys: list of None | int (sharing id per node).


# ------------------------------------------------------------ python reference (the specification)
class TooBig(Exception):
    pass


def ref_post(dag, root, keys, cap=None, swap=False):
    """Recursive specification of post-order iteration with a sharing tracker.
    Returns (items, n_visits); item = (node, index, left|None, right|None).
    swap=True: children are visited right to left (the rtl variant, indices reported for the
    true left/right children)."""
    seen = {}
    out = []
    visits = [0]

    def look(c):
        k = keys[c]
        return seen.get(k) if k is not None else None

    def visit(n):
        visits[0] += 1
        if cap is not None and visits[0] > cap:
            raise TooBig()
        # a node whose class was yielded since its parent looked it up is not expanded again
        s = look(n)
        if s is not None:
            return s
        ch = dag[n]
        order = list(range(len(ch)))
        if swap:
            order.reverse()
        # both children are looked up before any of them is visited
        pre = {i: look(ch[i]) for i in order}
        idx = {}
        for i in order:
            idx[i] = pre[i] if pre[i] is not None else visit(ch[i])
        k = keys[n]
        if k is not None and k in seen:
            return seen[k]
        me = len(out)
        if k is not None:
            seen[k] = me
        out.append((n, me, idx.get(0), idx.get(1)))
        return me

    visit(root)
    return out, visits[0]


def ref_pre(dag, root, keys):
    """Recursive pre-order: a node whose class was seen is skipped together with its subtree."""
    seen = set()
    out = []
    pops = [0]

    def go(n):
        pops[0] += 1
        k = keys[n]
        if k is not None:
            if k in seen:
                return
            seen.add(k)
        out.append(n)
        for c in dag[n]:
            go(c)

    go(root)
    return out, pops[0]


def ref_vpre(dag, root, keys, md):
    """Recursive specification of the verbose pre-order.
    item = (node, parent|None, index, depth, n_children_yielded, complete)"""
    seen = set()
    out = []
    pops = [0]
    index = [0]

    def go(n, depth, parent):
        pops[0] += 1
        k = keys[n]
        if k is not None:
            if k in seen:
                return
            seen.add(k)
        me = index[0]
        index[0] += 1
        ch = dag[n]
        out.append((n, parent, me, depth, 0, len(ch) == 0))
        for i, c in enumerate(ch):
            if md is None or depth < md:
                go(c, depth + 1, n)
            pops[0] += 1
            out.append((n, parent, me, depth, i + 1, i + 1 == len(ch)))

    go(root, 0, None)
    return out, pops[0]


def reachable(dag, root):
    r = set()
    stack = [root]
    while stack:
        n = stack.pop()
        if n in r:
            continue
        r.add(n)
        stack.extend(dag[n])
    return r


def tsizes(dag):
    """size of the tree expansion below each node"""
    t = []
    for ch in dag:
        t.append(1 + sum(t[c] for c in ch))
    return t


def mirror(dag):
    return [tuple(reversed(ch)) for ch in dag]


def congruent(dag, root, keys):
    """nodes with the same sharing id have the same arity and pairwise children that are the same
    node or carry the same sharing id (what a structural hash guarantees)"""
    reach = sorted(reachable(dag, root))
    by = {}
    for n in reach:
        if keys[n] is not None:
            by.setdefault(keys[n], []).append(n)
    for ns in by.values():
        a = ns[0]
        for b in ns[1:]:
            if len(dag[a]) != len(dag[b]):
                return False
            for x, y in zip(dag[a], dag[b]):
                if x != y and (keys[x] is None or keys[x] != keys[y]):
                    return False
    return True


def key_acyclic(dag, root, keys):
    """no reachable node carries the sharing id of one of its own proper descendants
    (true of every hash of the structure below a node)"""
    below = []      # keys occurring strictly below each node
    for ch in dag:
        b = set()
        for c in ch:
            b |= below[c]
            if keys[c] is not None:
                b.add(keys[c])
        below.append(b)
    return all(keys[n] is None or keys[n] not in below[n] for n in reachable(dag, root))


def structural_keys(dag):
    """maximal congruent sharing: hash-consing classes"""
    ids = {}
    ks = []
    for ch in dag:
        sig = tuple(ks[c] for c in ch)
        ks.append(ids.setdefault(sig, len(ids)))
    return ks


# ------------------------------------------------------------ case construction
def dag_str(dag):
    return ",".join(":".join([str(len(ch))] + [str(c) for c in ch]) for ch in dag)


def dag_flat(dag):
    out = []
    for ch in dag:
        out.append(len(ch))
        out.extend(ch)
    return out


def keys_str(keys):
    return ",".join("x" if k is None else str(k) for k in keys)


def parse_dag(s):
    return [tuple(int(x) for x in t.split(":")[1:]) for t in s.split(",")]


def parse_keys(s, n):
    if s == "-":
        return [None] * n
    return [None if x == "x" else int(x) for x in s.split(",")]


def eff_keys(n, mode, keys):
    if mode == 0:
        return [None] * n
    if mode == 1:
        return list(range(n))
    return list(keys)


def fuel_for(dag, root, keys, md, cap):
    _, v1 = ref_post(dag, root, keys, cap)
    _, v2 = ref_post(dag, root, list(range(len(dag))), cap)
    _, v3 = ref_post(dag, root, keys, cap, swap=True)
    _, p1 = ref_pre(dag, root, keys)
    _, p2 = ref_vpre(dag, root, keys, md)
    return max(2 * v1, 2 * v2, 2 * v3, p1, p2) + 3


DIGEST_FUEL = 120   # cases needing more fuel are compared through a digest (length, polynomial hash)
DIGEST_MOD = 2305843009213693951


def digest(r):
    h = 0
    for x in r:
        h = (h * 1000003 + x + 1) % DIGEST_MOD
    return [len(r), h]


def run_expr(dag, root, keys, md, fuel, dig=False):
    return "run_dag%s %s %d %s %d %d" % ("_digest" if dig else "", coq_list(dag_flat(dag)), root,
                                       coq_list([0 if k is None else k + 1 for k in keys]),
                                       0 if md is None else md + 1, fuel)


def mk_dag_case(cid, dag, root, mode, keys, md, cap, model=True):
    """None when the iteration would be larger than `cap` visits."""
    n = len(dag)
    ek = eff_keys(n, mode, keys)
    try:
        fuel = fuel_for(dag, root, ek, md, cap)
    except TooBig:
        return None
    line = "%d %s %d %s %s" % (root, dag_str(dag), mode, keys_str(keys) if mode == 2 else "-",
                               "-" if md is None else md)
    dig = fuel > DIGEST_FUEL
    expr = run_expr(dag, root, ek, md, fuel, dig) if model else None
    return Case(cid, "dag", line, expr, {"dag": dag, "root": root, "mode": mode, "keys": ek, "md": md, "digest": dig})


def mk_prog_case(cid, dag, root, md, cap, model=True, shared_only=False):
    """the table as a real CommitNode program; shared_only: MaxSharing and InternalSharing only
    (tables whose tree expansion is astronomically large)"""
    n = len(dag)
    sk = structural_keys(dag)
    ks = (sk, list(range(n))) if shared_only else (sk, list(range(n)), [None] * n)
    try:
        fs = [fuel_for(dag, root, k, md, cap) for k in ks]
    except TooBig:
        return None
    line = "%d %s %s" % (root, dag_str(dag), "-" if md is None else md)
    expr = None
    dig = max(fs) > DIGEST_FUEL
    if model:
        expr = " ++ ".join("(%s)" % run_expr(dag, root, k, md, f) for k, f in zip(ks, fs))
        if dig:
            expr = "digest (%s)" % expr
    return Case(cid, "progs" if shared_only else "prog", line, expr,
                {"dag": dag, "root": root, "md": md, "skeys": sk, "digest": dig})


def case_from_line(cid, kind, line, cap=20000):
    t = line.split()
    if kind == "dag":
        dag = parse_dag(t[1])
        return mk_dag_case(cid, dag, int(t[0]), int(t[2]), parse_keys(t[3], len(dag)),
                           None if t[4] == "-" else int(t[4]), cap)
    if kind in ("prog", "progs"):
        return mk_prog_case(cid, parse_dag(t[1]), int(t[0]), None if t[2] == "-" else int(t[2]), cap,
                            shared_only=(kind == "progs"))
    if kind == "conv":
        tab = parse_ctab(t[1])
        return mk_conv_case(cid, tab, int(t[0]), int(t[2]), parse_keys(t[3], len(tab)),
                            [0] * len(tab) if t[4] == "-" else [int(ch) for ch in t[4]], int(t[5]), cap)
    if kind == "convp":
        return mk_convp_case(cid, parse_dag(t[1]), int(t[0]), cap)
    if kind == "arc":
        tab = parse_ctab(t[1])
        return mk_arc_case(cid, tab, int(t[0]), int(t[2]), parse_keys(t[3], len(tab)),
                           None if t[4] == "-" else int(t[4]), t[5], cap)
    if kind == "proga":
        return mk_proga_case(cid, parse_dag(t[1]), int(t[0]), None if t[2] == "-" else int(t[2]), cap)
    raise ValueError(kind)



# ------------------------------------------------------------ Node::convert (kinds conv / convp)
# A combinator table is a list of (k, a, b, pay): k = combinator 0..15 in the order of `Inner`
# (iden unit injl injr take drop comp case assertl assertr pair disconnect witness fail jet word);
# a, b child positions (disconnect: b = right + 1 | 0); pay = position whose CMR is the hidden CMR
# of an assertion / fail entropy / jet number / word / witness value.
K_NUL = (0, 1, 12, 13, 14, 15)
K_UN = (2, 3, 4, 5, 8, 9)
K_BIN = (6, 7, 10)


def ctab_dag(tab):
    """the DAG view of a combinator table (as_dag_node)"""
    out = []
    for (k, a, b, pay) in tab:
        if k in K_NUL:
            out.append(())
        elif k in K_UN:
            out.append((a,))
        elif k in K_BIN:
            out.append((a, b))
        else:
            out.append((a, b - 1) if b else (a,))
    return out


def cmr_classes(tab, only=None):
    """per node the smallest position with the same CMR (CMR = hash of the committed structure:
    an assertion hashes like the case it came from, disconnect commits to its left child only,
    witness values are not committed)"""
    ids = {}
    cls = []
    for pos, (k, a, b, pay) in enumerate(tab):
        if k in (0, 1, 12):
            sig = (k,)
        elif k in (2, 3, 4, 5, 11):
            sig = (k, cls[a])
        elif k in (6, 10):
            sig = (k, cls[a], cls[b])
        elif k == 7:
            sig = ("case", cls[a], cls[b])
        elif k == 8:
            sig = ("case", cls[a], cls[pay])
        elif k == 9:
            sig = ("case", cls[pay], cls[a])
        else:
            sig = (k, pay)
        cls.append(ids.setdefault(sig, pos))
    if only is not None:    # representatives among the given positions only
        m = {}
        for pos in sorted(only):
            m.setdefault(cls[pos], pos)
        cls = [m.get(x, x) for x in cls]
    return cls


def ctab_str(tab):
    return ",".join("%d:%d:%d:%d" % e for e in tab)


def parse_ctab(s):
    return [tuple(int(x) for x in e.split(":")) for e in s.split(",")]


def ref_convert(tab, root, keys, hides, failat, only=None):
    """Specification of Node::convert with the harness's instrumented converter, written from
    the documentation of the Converter trait on top of the recursive post-order reference:
    returns the canonical result list."""
    dag = ctab_dag(tab)
    cls = cmr_classes(tab, only)
    items, _ = ref_post(dag, root, keys)
    log = []
    rows = []
    calls = 0

    def enc(o):
        return 0 if o is None else o + 1

    def err(code):
        out = [1, code, len(log)]
        for e in log:
            out.extend(e)
        return out + [calls]

    for (n, ix, li, ri) in items:
        k, a, b, pay = tab[n]
        base = [ix, n, enc(li), enc(ri)]
        log.append([0] + base + [0, 0])
        wd = xd = 0
        if k == 12:
            log.append([1] + base + [0, 0])
            calls += 1
            if calls == failat:
                return err(1)
            wd = pay + 7 + 1
        if k == 11:
            log.append([2] + base + [enc(ri), 0])
            calls += 1
            if calls == failat:
                return err(2)
            xd = enc(ri) + 1
        kind, k1, k2, py = k, 0, 0, 0
        if k in K_UN or k == 11:
            k1 = li + 1
        elif k in K_BIN:
            k1, k2 = li + 1, ri + 1
        if k in (8, 9):
            py = cls[pay] + 1
        elif k in (13, 14, 15):
            py = pay + 1
        if k == 7:
            log.append([3] + base + [li + 1, ri + 1])
            calls += 1
            if calls == failat:
                return err(3)
            h = hides[n]
            if h == 1:      # hide left: AssertR(cmr of the converted left child, right)
                kind, k1, k2, py = 9, ri + 1, 0, rows[li][4] + 1
            elif h == 2:    # hide right: AssertL(left, cmr of the converted right child)
                kind, k1, k2, py = 8, li + 1, 0, rows[ri][4] + 1
        log.append([4] + base + [k1, k2])
        calls += 1
        if calls == failat:
            return err(4)
        rows.append([kind, k1, k2, py, cls[n], xd, wd, ix])
    out = [0, len(log)]
    for e in log:
        out.extend(e)
    out.append(len(rows))
    for r in rows:
        out.extend(r)
    return out + [calls]


def split_conv(r, nsec):
    """split harness output of conv/convp into sections and strip the pointer flags:
    returns (flat list without flags, flags) or None"""
    out, flags, pos = [], [], 0
    try:
        for _ in range(nsec):
            st = r[pos]
            if st == 9:
                out.append(9)
                pos += 1
            elif st == 1:
                ln = 3 + 7 * r[pos + 2] + 1
                out.extend(r[pos:pos + ln])
                pos += ln
            elif st == 0:
                nl = r[pos + 1]
                nr = r[pos + 2 + 7 * nl]
                ln = 2 + 7 * nl + 1 + 8 * nr + 1
                out.extend(r[pos:pos + ln])
                flags.append(r[pos + ln])
                pos += ln + 1
            else:
                return None
        if pos != len(r):
            return None
    except IndexError:
        return None
    return out, flags


def conv_sections(r, nsec):
    """parse a flag-free result into sections: ('ok', events, rows, calls) | ('err', code, events, calls) | ('panic',)"""
    secs, pos = [], 0
    try:
        for _ in range(nsec):
            st = r[pos]
            if st == 9:
                secs.append(("panic",))
                pos += 1
            elif st == 1:
                nl = r[pos + 2]
                ev = [tuple(r[pos + 3 + 7 * i: pos + 10 + 7 * i]) for i in range(nl)]
                secs.append(("err", r[pos + 1], ev, r[pos + 3 + 7 * nl]))
                pos += 4 + 7 * nl
            elif st == 0:
                nl = r[pos + 1]
                ev = [tuple(r[pos + 2 + 7 * i: pos + 9 + 7 * i]) for i in range(nl)]
                q = pos + 2 + 7 * nl
                nr = r[q]
                rows = [tuple(r[q + 1 + 8 * i: q + 9 + 8 * i]) for i in range(nr)]
                secs.append(("ok", ev, rows, r[q + 1 + 8 * nr]))
                pos = q + 2 + 8 * nr
            else:
                return None
        if pos != len(r):
            return None
    except IndexError:
        return None
    return secs


def check_convert(tab, root, keys, hides, failat, sec, flag, tag, only=None):
    """The statement about Node::convert, on one result section of the implementation."""
    dag = ctab_dag(tab)
    if sec[0] == "panic":
        return ("convert-panic", "%sconvert panicked" % tag)
    if sec[0] == "ok":
        _, ev, rows, calls = sec
        if flag != 1:
            return ("convert-shared", "%sArc::ptr_eq on the converted child pointers disagrees with the conversion "
                    "index of the nodes (a shared child is not shared in the result, or the result is not the last "
                    "converted node)" % tag)
        visits = [e for e in ev if e[0] == 0]
        # each yielded class is converted once: one row per visit, in order
        if len(rows) != len(visits) or any(rw[7] != i for i, rw in enumerate(rows)):
            return ("convert-once", "%s%d items visited, %d nodes converted (indices %s)"
                    % (tag, len(visits), len(rows), [rw[7] for rw in rows]))
        seen = {}
        for e in visits:
            kk = keys[e[2]]
            if kk is not None:
                if kk in seen:
                    return ("convert-once", "%ssharing class %d converted twice (items %d and %d)" % (tag, kk, seen[kk], e[1]))
                seen[kk] = e[1]
        # children before parents; shared children shared: a child pointer is the converted node of the child's class
        for i, rw in enumerate(rows):
            n = visits[i][2]
            for kid in (rw[1], rw[2]):
                if kid and not (kid - 1 < i):
                    return ("convert-children-first", "%sconverted node %d refers to converted node %d" % (tag, i, kid - 1))
            k = tab[n][0]
            src = list(dag[n])
            if k == 11:
                src = src[:1]
            got = [x - 1 for x in (rw[1], rw[2]) if x]
            if k == 7 and rw[0] == 9:
                src = src[1:]
            elif k == 7 and rw[0] == 8:
                src = src[:1]
            if len(got) != len(src):
                return ("convert-child-class", "%sconverted node %d has %d child pointers, its source node %d has %d"
                        % (tag, i, len(got), n, len(src)))
            for c, j in zip(src, got):
                tn = visits[j][2]
                okc = (keys[tn] == keys[c]) if keys[c] is not None else (tn == c)
                if not okc:
                    return ("convert-child-class", "%sconverted node %d (source %d): child pointer %d was converted from "
                            "node %d, which is not the class of child %d" % (tag, i, n, j, tn, c))
        # hooks in post-order
        idxs = [e[1] for e in ev]
        if idxs != sorted(idxs) or sorted(set(idxs)) != list(range(len(visits))):
            return ("convert-hook-order", "%shook calls are not grouped by item in iteration order: %s" % (tag, idxs))
    want = ref_convert(tab, root, keys, hides, failat, only)
    got = flatten_sec(sec)
    if got != want:
        j = next((i for i in range(min(len(got), len(want))) if got[i] != want[i]), min(len(got), len(want)))
        return ("convert-spec", "%sconvert differs from its specification at output position %d: got %s.. expected %s.."
                % (tag, j, got[j:j + 8], want[j:j + 8]))
    return None


def flatten_sec(sec):
    if sec[0] == "panic":
        return [9]
    if sec[0] == "err":
        out = [1, sec[1], len(sec[2])]
        for e in sec[2]:
            out.extend(e)
        return out + [sec[3]]
    out = [0, len(sec[1])]
    for e in sec[1]:
        out.extend(e)
    out.append(len(sec[2]))
    for rw in sec[2]:
        out.extend(rw)
    return out + [sec[3]]


def conv_expr(tab, root, keys, hides, failat, fuel, only=None):
    cls = cmr_classes(tab, only)
    flat = []
    for pos, (k, a, b, pay) in enumerate(tab):
        flat.extend([k, a, b, cls[pay] if k in (8, 9) else pay, cls[pos]])
    return "run_conv %s %d %s %s %d %d" % (coq_list(flat), root,
                                          coq_list([0 if k is None else k + 1 for k in keys]),
                                          coq_list(hides), failat, fuel)


def mk_conv_case(cid, tab, root, mode, keys, hides, failat, cap, model=True):
    n = len(tab)
    dag = ctab_dag(tab)
    ek = eff_keys(n, mode, keys)
    try:
        _, v = ref_post(dag, root, ek, cap)
    except TooBig:
        return None
    fuel = 2 * v + 3
    line = "%d %s %d %s %s %d" % (root, ctab_str(tab), mode, keys_str(keys) if mode == 2 else "-",
                                  "".join(str(h) for h in hides), failat)
    expr = conv_expr(tab, root, ek, hides, failat, fuel) if model and fuel <= 400 else None
    return Case(cid, "conv", line, expr, {"dag": dag, "root": root, "mode": mode, "keys": ek, "md": None,
                                          "tab": tab, "hides": hides, "failat": failat})


def mk_convp_case(cid, dag, root, cap, model=True):
    n = len(dag)
    tab = [((1, 0, 0, 0) if len(ch) == 0 else (2, ch[0], 0, 0) if len(ch) == 1 else (10, ch[0], ch[1], 0)) for ch in dag]
    ks = (structural_keys(dag), list(range(n)), [None] * n)
    try:
        fs = [2 * ref_post(dag, root, k, cap)[1] + 3 for k in ks]
    except TooBig:
        return None
    expr = None
    if model and max(fs) <= 400:
        expr = " ++ ".join("(%s)" % conv_expr(tab, root, k, [0] * n, 0, f, reachable(dag, root)) for k, f in zip(ks, fs))
    return Case(cid, "convp", "%d %s" % (root, dag_str(dag)), expr,
                {"dag": dag, "root": root, "md": None, "tab": tab, "skeys": ks[0]})


def adapt_marker(rng, tab, marker):
    """disconnect data per marker: a = Arc<Node> (right child required), n / s = none, o = either"""
    out = []
    for pos, (k, a, b, pay) in enumerate(tab):
        if k == 11:
            if marker == "a" and b == 0:
                b = rng.below(pos) + 1
            elif marker in ("n", "s"):
                b = 0
        out.append((k, a, b, pay))
    return out


def mk_arc_case(cid, tab, root, mode, keys, md, marker, cap, model=True):
    """the combinator table iterated by &Node and by Arc<Node> by value"""
    n = len(tab)
    dag = ctab_dag(tab)
    ek = eff_keys(n, mode, keys)
    try:
        fuel = fuel_for(dag, root, ek, md, cap)
    except TooBig:
        return None
    line = "%d %s %d %s %s %s" % (root, ctab_str(tab), mode, keys_str(keys) if mode == 2 else "-",
                                  "-" if md is None else md, marker)
    dig = 2 * fuel > DIGEST_FUEL
    expr = None
    if model:
        cls = cmr_classes(tab)
        flat = []
        for pos, (k, a, b, pay) in enumerate(tab):
            flat.extend([k, a, b, cls[pay] if k in (8, 9) else pay, cls[pos]])
        # the model derives the DAG view from the combinator table itself (Convert.as_dag)
        expr = "run_arc %s %d %s %d %d" % (coq_list(flat), root, coq_list([0 if k is None else k + 1 for k in ek]),
                                          0 if md is None else md + 1, fuel)
        if dig:
            expr = "digest (%s)" % expr
    return Case(cid, "arc", line, expr, {"dag": dag, "root": root, "mode": mode, "keys": ek, "md": md,
                                         "tab": tab, "marker": marker, "digest": dig})


def mk_proga_case(cid, dag, root, md, cap, model=True):
    n = len(dag)
    sk = structural_keys(dag)
    ptr = list(range(n))
    ks = (sk, ptr, [None] * n, ptr, ptr)
    try:
        fs = [fuel_for(dag, root, k, md, cap) for k in ks]
    except TooBig:
        return None
    dig = sum(fs) > DIGEST_FUEL
    expr = None
    if model:
        expr = " ++ ".join("(%s)" % run_expr(dag, root, k, md, f) for k, f in zip(ks, fs))
        if dig:
            expr = "digest (%s)" % expr
    return Case(cid, "proga", "%d %s %s" % (root, dag_str(dag), "-" if md is None else md), expr,
                {"dag": dag, "root": root, "md": md, "skeys": sk, "digest": dig})


def random_ctab(rng, n, style):
    dag = random_dag(rng, n, style)
    tab = []
    for pos, ch in enumerate(dag):
        if len(ch) == 0:
            k = rng.choice((0, 1, 1, 12, 12, 12, 13, 14, 15))
            tab.append((k, 0, 0, rng.below(4) if k >= 12 else 0))
        elif len(ch) == 1:
            k = rng.choice((2, 3, 4, 5, 8, 9, 11, 11))
            tab.append((k, ch[0], 0, rng.below(pos) if k in (8, 9) else 0))
        else:
            k = rng.choice((6, 7, 7, 7, 10, 11, 11))
            tab.append((k, ch[0], ch[1] + 1 if k == 11 else ch[1], 0))
    return tab


def gen_conv_cases(rng, tier, cid, add, cap):
    quick = tier == "quick"
    # fixed shapes: diamond of a case, repeated child, child-and-grandchild, disconnect with shared right child
    fixed = [
        [(1, 0, 0, 0), (2, 0, 0, 0), (3, 0, 0, 0), (7, 1, 2, 0)],
        [(12, 0, 0, 3), (7, 0, 0, 0)],
        [(1, 0, 0, 0), (2, 0, 0, 0), (7, 1, 0, 0), (7, 2, 1, 0)],
        [(1, 0, 0, 0), (12, 0, 0, 1), (11, 0, 2, 0), (11, 1, 0, 0), (6, 2, 3, 0), (10, 4, 1, 0)],
        [(1, 0, 0, 0), (1, 0, 0, 0), (2, 0, 0, 0), (2, 1, 0, 0), (7, 2, 3, 0), (8, 4, 0, 2), (9, 5, 0, 3)],
    ]
    for tab in fixed:
        n = len(tab)
        dag = ctab_dag(tab)
        for mode, keys in ((0, None), (1, None), (2, structural_keys(dag)), (2, cmr_classes(tab))):
            for hv in (0, 1, 2):
                add(mk_conv_case(cid(), tab, n - 1, mode, keys, [hv] * n, 0, cap))
            for fa in range(1, 2 * n + 2):
                add(mk_conv_case(cid(), tab, n - 1, mode, keys, [rng.below(3) for _ in range(n)], fa, cap))
    nrand = 260 if quick else 4000
    for i in range(nrand):
        n = rng.range(1, 9) if i % 4 else rng.range(9, 22 if quick else 60)
        tab = random_ctab(rng, n, rng.below(5))
        dag = ctab_dag(tab)
        root = n - 1 if rng.chance(5, 6) else rng.below(n)
        hides = [rng.choice((0, 0, 1, 2)) for _ in range(n)]
        for mode in (0, 1, 2, 2):
            keys = None
            if mode == 2:
                keys = cmr_classes(tab) if rng.chance(1, 3) else random_keys(rng, dag, rng.below(5))
            failat = 0 if rng.chance(2, 3) else rng.range(1, 2 * n + 1)
            add(mk_conv_case(cid(), tab, root, mode, keys, hides, failat, cap, model=(not quick) or i % 3 == 0 or n <= 4))
    for i in range(40 if quick else 400):
        n = rng.range(2, 14)
        dag = random_dag(rng, n, rng.below(5))
        add(mk_convp_case(cid(), dag, n - 1 if rng.chance(5, 6) else rng.below(n), cap, model=(i % 2 == 0)))
    # the iterators over `&Node` and over `Arc<Node>` by value (impl DagLike for Arc<Node>, disconnect_dag_arc /
    # disconnect_dag_ref of every Disconnectable): every combinator, disconnect with and without right child
    asym = [  # left and right subtrees of different shape under every binary combinator and under disconnect
        [(1, 0, 0, 0), (2, 0, 0, 0), (3, 1, 0, 0), (k, 1, 2, 0)] for k in (6, 7, 10)
    ] + [[(1, 0, 0, 0), (2, 0, 0, 0), (3, 1, 0, 0), (11, 1, 3, 0)],
         [(1, 0, 0, 0), (12, 0, 0, 2), (11, 0, 2, 0), (11, 2, 1, 0), (10, 3, 2, 0)]]
    for tab in asym:
        n = len(tab)
        for marker in ("o", "a") if any(e[0] == 11 for e in tab) else ("o", "a", "n", "s"):
            for mode, keys in ((0, None), (1, None), (2, structural_keys(ctab_dag(tab)))):
                add(mk_arc_case(cid(), tab, n - 1, mode, keys, rng.choice([None, 1, 2]), marker, cap))
    for i in range(70 if quick else 1500):
        n = rng.range(2, 12) if i % 5 else rng.range(12, 24 if quick else 60)
        base = random_ctab(rng, n, rng.below(5))
        marker = "oans"[i % 4]
        tab = adapt_marker(rng, base, marker)
        dag = ctab_dag(tab)
        root = n - 1 if rng.chance(5, 6) else rng.below(n)
        md = md_pick_conv(rng)
        for mode in (0, 1, 2):
            keys = None
            if mode == 2:
                keys = cmr_classes(tab) if rng.chance(1, 3) else random_keys(rng, dag, rng.below(5))
            add(mk_arc_case(cid(), tab, root, mode, keys, md, marker, cap, model=(not quick) or i % 2 == 0 or n <= 5))
    for i in range(30 if quick else 300):
        n = rng.range(2, 12)
        dag = random_dag(rng, n, rng.below(5))
        add(mk_proga_case(cid(), dag, n - 1 if rng.chance(5, 6) else rng.below(n), md_pick_conv(rng), cap, model=(i % 2 == 0)))


def md_pick_conv(rng):
    return rng.choice([None, None, None, 0, 1, 2, 3])


# ------------------------------------------------------------ generators
def all_shapes(n):
    """every table with n nodes: every arity and every choice of smaller child positions"""
    if n == 0:
        yield []
        return
    for pre in all_shapes(n - 1):
        i = n - 1
        yield pre + [()]
        for a in range(i):
            yield pre + [(a,)]
        for a in range(i):
            for b in range(i):
                yield pre + [(a, b)]


def all_keyings(n):
    """every assignment of `no key` or a block of a set partition (restricted growth strings)"""
    def go(i, cur, nblocks):
        if i == n:
            yield list(cur)
            return
        for k in [None] + list(range(nblocks + 1)):
            cur.append(k)
            yield from go(i + 1, cur, nblocks + (1 if k == nblocks else 0))
            cur.pop()
    yield from go(0, [], 0)


def random_keys(rng, dag, style):
    n = len(dag)
    if style == 0:      # random partition with missing keys (not congruent in general)
        nb = rng.range(1, max(1, n))
        return [None if rng.chance(1, 5) else rng.below(nb) for _ in range(n)]
    if style == 1:      # structural (maximal congruent) sharing
        return structural_keys(dag)
    if style == 2:      # structural classes, some classes without id, some classes split
        sk = structural_keys(dag)
        drop = set(k for k in set(sk) if rng.chance(1, 4))
        ks = []
        for i, k in enumerate(sk):
            ks.append(None if k in drop else k)
        return ks
    if style == 3:      # pointer sharing with a few merged pairs
        ks = list(range(n))
        for _ in range(rng.range(1, 3)):
            a, b = rng.below(n), rng.below(n)
            ks[a] = ks[b]
        return ks
    # a refinement of structural sharing (congruent but not maximal): split leaves only
    sk = structural_keys(dag)
    return [k if dag[i] else (k if rng.chance(1, 2) else 10000 + i) for i, k in enumerate(sk)]


def random_dag(rng, n, style):
    """styles: 0 mixed, 1 diamonds (children from the last few nodes), 2 unary chains with joins,
    3 repeated children / child-and-grandchild, 4 tree-like (little sharing)"""
    dag = [()]
    used = set()
    for i in range(1, n):
        r = rng.below(100)
        recent = lambda w: max(0, i - 1 - rng.below(min(i, w)))
        if style == 1:
            if r < 8:
                ch = ()
            elif r < 25:
                ch = (recent(3),)
            else:
                ch = (recent(3), recent(3))
        elif style == 2:
            if r < 3:
                ch = ()
            elif r < 85:
                ch = (i - 1,)
            else:
                ch = (i - 1, rng.below(i))
        elif style == 3:
            if r < 10:
                ch = ()
            elif r < 25:
                ch = (recent(2),)
            elif r < 50:
                a = recent(2)
                ch = (a, a)
            else:
                a = i - 1
                g = dag[a][rng.below(len(dag[a]))] if dag[a] else recent(4)
                ch = (a, g) if rng.chance(1, 2) else (g, a)
        elif style == 4:
            unused = [j for j in range(i) if j not in used]
            pick = lambda: (unused.pop(rng.below(len(unused))) if unused and not rng.chance(1, 12) else rng.below(i))
            if r < 35 or len(unused) == 0 and r < 60:
                ch = ()
            elif r < 55:
                ch = (pick(),)
            else:
                ch = (pick(), pick())
        else:
            if r < 20:
                ch = ()
            elif r < 45:
                ch = (rng.below(i),)
            else:
                ch = (rng.below(i), recent(5))
        used.update(ch)
        dag.append(tuple(ch))
    return dag


def gen_cases(rng, tier):
    cases = []
    k = [0]
    skipped = [0]
    quick = tier == "quick"
    cap = 800 if quick else 4000

    def add(c):
        if c is None:
            skipped[0] += 1
        else:
            cases.append(c)

    def cid():
        k[0] += 1
        return "c%d" % k[0]

    def md_pick():
        return rng.choice([None, None, None, 0, 1, 2, 3])

    # 0. corpus
    for path in sorted(glob.glob(os.path.join(vplib.VERIF, "corpus", PROP, "*.case"))):
        for ln in open(path):
            ln = ln.strip()
            if not ln or ln.startswith("#"):
                continue
            kind, rest = ln.split(None, 1)
            add(case_from_line(cid(), kind, rest))

    # 1. exhaustive shapes (root = last node; unreachable nodes allowed).  Every case runs on the
    # implementation and through prop_check; in the quick tier the Coq model is evaluated on all
    # cases with <= 3 nodes and on a pseudo-random sixth of the rest (thorough: on all up to 5 nodes,
    # a twelfth of the 6-node tables).
    nmax = 5 if quick else 6

    def mdl(n):
        return (not quick) and n <= 5 or n <= 3 or rng.chance(1, 6 if n <= 5 else 12)

    for n in range(1, nmax + 1):
        for dag in all_shapes(n):
            root = n - 1
            add(mk_dag_case(cid(), dag, root, 0, None, md_pick(), cap, mdl(n)))
            add(mk_dag_case(cid(), dag, root, 1, None, md_pick(), cap, mdl(n)))
            if n <= 4:
                for keys in all_keyings(n):
                    add(mk_dag_case(cid(), dag, root, 2, keys, md_pick(), cap, mdl(n)))
                if n <= 3 or rng.chance(1, 4):
                    add(mk_prog_case(cid(), dag, root, md_pick(), cap, mdl(n)))
            else:
                reps = 2 if n == 5 else 1
                for _ in range(reps):
                    add(mk_dag_case(cid(), dag, root, 2, random_keys(rng, dag, rng.below(5)), md_pick(), cap, mdl(n)))
                if n == 5 and rng.chance(1, 16):
                    add(mk_prog_case(cid(), dag, root, md_pick(), cap, mdl(n)))

    # 2. random larger DAGs
    nrand = 160 if quick else 2000
    nlim = 60 if quick else 400
    for i in range(nrand):
        n = rng.range(6, 24) if i % 3 else rng.range(24, nlim)
        style = rng.below(5)
        dag = random_dag(rng, n, style)
        root = n - 1 if rng.chance(5, 6) else rng.below(n)
        md = md_pick() if rng.chance(1, 2) else rng.choice([None, 4, 7, 12])
        add(mk_dag_case(cid(), dag, root, 1, None, md, cap))
        add(mk_dag_case(cid(), dag, root, 0, None, md, cap))
        for st in rng.shuffle(range(5))[:3]:
            add(mk_dag_case(cid(), dag, root, 2, random_keys(rng, dag, st), md, cap))
        if n <= 16 and rng.chance(1, 3):
            add(mk_prog_case(cid(), dag, root, md, cap))

    # 3. deep tables with an astronomically large tree expansion (chains of repeated children,
    # ladders of diamonds) under the sharing trackers only: an iterator or tracker that expands
    # shared nodes again produces the same items but does not terminate here
    for depth in ((30, 45) if quick else (30, 45, 64, 90)):
        chain = [()] + [(i, i) for i in range(depth)]
        ladder = [(), (0,)] + [(i + 1, i) for i in range(depth - 1)]
        mixed = [()] + [((i, i) if i % 3 else (i,)) for i in range(depth)]
        for dag in (chain, ladder, mixed):
            root = len(dag) - 1
            add(mk_prog_case(cid(), dag, root, rng.choice([None, 3, 7]), cap, shared_only=True))
            add(mk_dag_case(cid(), dag, root, 1, None, rng.choice([None, 3, 7]), cap))
            add(mk_dag_case(cid(), dag, root, 2, structural_keys(dag), rng.choice([None, 3]), cap))
    # 4. Node::convert driven by the iterator (instrumented converter)
    gen_conv_cases(rng, tier, cid, add, cap)
    global LAST_SKIPPED
    LAST_SKIPPED = skipped[0]
    return cases


# ------------------------------------------------------------ the property, tested directly on the implementation
def parse_sections(r, widths):
    """split a flat result into sections; returns list of (status, items) or None if malformed"""
    out = []
    pos = 0
    for w in widths:
        if pos >= len(r):
            return None
        st = r[pos]
        pos += 1
        if st != 0:
            out.append((st, None))
            continue
        if w == 0:      # boolean
            out.append((0, r[pos]))
            pos += 1
            continue
        ln = r[pos]
        pos += 1
        items = [tuple(r[pos + w * i: pos + w * (i + 1)]) for i in range(ln)]
        pos += w * ln
        out.append((0, items))
    return out, pos


def dec(o):
    return None if o == 0 else o - 1


def check_post(dag, root, keys, items, what, is_cong, rtl=False):
    """The statement of C18 for one post-order sequence (`rtl`: the right-to-left variant)."""
    n_items = len(items)
    its = [(nd, ix, dec(l), dec(r)) for (nd, ix, l, r) in items]
    # consecutive numbering
    for pos, it in enumerate(its):
        if it[1] != pos:
            return ("index", "%s: item %d carries index %d" % (what, pos, it[1]))
    reach = reachable(dag, root)
    # each sharing class exactly once
    seen = {}
    for pos, it in enumerate(its):
        if it[0] not in reach:
            return ("unreachable", "%s: yields node %d which is not reachable from the root" % (what, it[0]))
        kk = keys[it[0]]
        if kk is not None:
            if kk in seen:
                return ("twice", "%s: sharing class %d yielded twice (items %d and %d)" % (what, kk, seen[kk], pos))
            seen[kk] = pos
    # children first, true child indices
    pointed = {}
    for pos, it in enumerate(its):
        ch = dag[it[0]]
        for side, got in ((0, it[2]), (1, it[3])):
            if side >= len(ch):
                if got is not None:
                    return ("child-index", "%s: item %d (node %d) reports a %s child index but has no such child"
                            % (what, pos, it[0], "left" if side == 0 else "right"))
                continue
            c = ch[side]
            if got is None:
                return ("child-index", "%s: item %d (node %d) has no %s index for its child %d"
                        % (what, pos, it[0], "left" if side == 0 else "right", c))
            if not (0 <= got < pos):
                return ("children-first", "%s: item %d (node %d): %s child index %d is not an earlier item"
                        % (what, pos, it[0], "left" if side == 0 else "right", got))
            tgt = its[got][0]
            if keys[c] is not None:
                if keys[tgt] != keys[c]:
                    return ("child-index", "%s: item %d (node %d): %s index %d is node %d, not the class of child %d"
                            % (what, pos, it[0], "left" if side == 0 else "right", got, tgt, c))
            else:
                if tgt != c:
                    return ("child-index", "%s: item %d (node %d): %s index %d is node %d, not child %d"
                            % (what, pos, it[0], "left" if side == 0 else "right", got, tgt, c))
                if got in pointed:
                    return ("keyless-occurrence", "%s: unshared occurrence %d of node %d is the child of two items"
                            % (what, got, c))
                pointed[got] = pos
    # no orphans: every item but the last (the root) is the child of a later item
    if key_acyclic(dag, root, keys):
        if not its or its[-1][0] != root:
            return ("root-last", "%s: the last item is not the root" % what)
        refd = set()
        for it in its:
            refd.update(x for x in (it[2], it[3]) if x is not None)
        for pos in range(n_items - 1):
            if pos not in refd:
                return ("orphan-items", "%s: item %d (node %d) is yielded but no yielded item refers to it"
                        % (what, pos, its[pos][0]))
    # the root's class is yielded; with congruent keys every reachable class is
    nodes = set(it[0] for it in its)
    need = reach if is_cong else {root}
    for x in need:
        if keys[x] is not None:
            if keys[x] not in seen:
                return ("missing", "%s: sharing class %d of reachable node %d is never yielded" % (what, keys[x], x))
        elif x not in nodes:
            return ("missing", "%s: reachable node %d (no sharing id) is never yielded" % (what, x))
    # order: exactly the recursive left-to-right (right-to-left) traversal
    ref, _ = ref_post(dag, root, keys, swap=rtl)
    if its != ref:
        j = next((i for i in range(min(len(ref), n_items)) if its[i] != ref[i]), min(len(ref), n_items))
        return ("order", "%s: differs from the recursive %s post-order at item %d: got %s expected %s"
                % (what, "right-to-left" if rtl else "left-to-right", j,
                   its[j] if j < n_items else None, ref[j] if j < len(ref) else None))
    return None


def check_keyed(dag, root, keys, md, secs, tag, is_cong):
    names = ("post_order_iter", "rtl_post_order_iter", "pre_order_iter", "verbose_pre_order_iter", "is_shared_as")
    for (st, _), nm in zip(secs, names):
        if st != 0:
            return ("panic", "%s%s panicked" % (tag, nm))
    post, rtl, pre, vpre, isa = [s[1] for s in secs]
    e = check_post(dag, root, keys, post, tag + "post_order_iter", is_cong)
    if e:
        return e
    # the right-to-left variant is the mirror image
    e = check_post(dag, root, keys, rtl, tag + "rtl_post_order_iter", is_cong, rtl=True)
    if e:
        return ("rtl-" + e[0], e[1])
    mref, _ = ref_post(mirror(dag), root, keys)
    munsw = [(nd, ix, (r if len(dag[nd]) == 2 else l), (l if len(dag[nd]) == 2 else r)) for (nd, ix, l, r) in mref]
    if [(nd, ix, dec(l), dec(r)) for (nd, ix, l, r) in rtl] != munsw:
        return ("rtl-mirror", "%srtl_post_order_iter is not the post-order of the mirrored DAG with child indices swapped back" % tag)
    # pre-order: same set, parent first
    pre = [p[0] for p in pre]
    if not pre or pre[0] != root:
        return ("pre-root", "%spre_order_iter does not start with the root" % tag)
    seenk = set()
    for pos, nd in enumerate(pre):
        if keys[nd] is not None:
            if keys[nd] in seenk:
                return ("pre-twice", "%spre_order_iter yields sharing class %d twice" % (tag, keys[nd]))
            seenk.add(keys[nd])
        if pos > 0 and not any(nd in dag[p] for p in pre[:pos]):
            return ("pre-parent", "%spre_order_iter yields node %d before any parent" % (tag, nd))
    # same set: for keys that never give a node the id of its own descendant (every structural
    # hash, pointer sharing, no sharing) pre-order yields exactly the nodes of the post-order
    if key_acyclic(dag, root, keys) and sorted(pre) != sorted(it[0] for it in post):
        return ("pre-set", "%spre_order_iter yields nodes %s, post-order yields %s"
                % (tag, sorted(pre), sorted(it[0] for it in post)))
    rpre, _ = ref_pre(dag, root, keys)
    if pre != rpre:
        return ("pre-order", "%spre_order_iter: got %s expected %s" % (tag, pre, rpre))
    # verbose pre-order
    vp = [(nd, dec(pa), ix, dp, ncy, bool(co)) for (nd, pa, ix, dp, ncy, co) in vpre]
    rv, _ = ref_vpre(dag, root, keys, md)
    if vp != rv:
        j = next((i for i in range(min(len(rv), len(vp))) if vp[i] != rv[i]), min(len(rv), len(vp)))
        return ("verbose", "%sverbose_pre_order_iter differs from its recursive specification at item %d: got %s expected %s"
                % (tag, j, vp[j] if j < len(vp) else None, rv[j] if j < len(rv) else None))
    if md is not None and any(v[3] > md for v in vp):
        return ("verbose-depth", "%sverbose_pre_order_iter yields an item deeper than max_depth" % tag)
    if md is None and [v[0] for v in vp if v[4] == 0] != pre:
        return ("verbose-first", "%sfirst yields of verbose_pre_order_iter are not the pre-order" % tag)
    # is_shared_as
    ptr, _ = ref_post(dag, root, list(range(len(dag))))
    a = [it[0] for it in ptr]
    b = [it[0] for it in post]
    m = min(len(a), len(b))
    if b and b[-1] == root:
        want = a == b          # the DAG's pointer structure is the requested sharing
    else:
        want = a[:m] == b[:m]  # (keys that give a node the id of one of its own descendants)
    if bool(isa) != want:
        return ("is_shared_as", "%sis_shared_as returned %s; pointer sequence %s, requested sharing yields %s"
                % (tag, bool(isa), a, b))
    if all(keys[x] is not None for x in reachable(dag, root)) and b and b[-1] == root:
        inj = len(set(keys[x] for x in reachable(dag, root))) == len(reachable(dag, root))
        if bool(isa) != inj:
            return ("is_shared_as", "%sis_shared_as returned %s but keys are %sinjective on the reachable nodes"
                    % (tag, bool(isa), "" if inj else "not "))
    return None


WIDTHS = (4, 4, 1, 6, 0)


def prop_check(c, r):
    m = c.meta
    if r in ("CRASH", "TIMEOUT") or r is None:
        return ("crash", "implementation crashed or hung on %s %s" % (c.kind, c.line))
    if not isinstance(r, list) or any(not isinstance(x, int) for x in r):
        return ("malformed", "unparsable harness output")
    dag, root, md = m["dag"], m["root"], m["md"]
    n = len(dag)
    if c.kind in ("conv", "convp"):
        nsec = 1 if c.kind == "conv" else 3
        if r and r[0] == 6:
            return ("convert", "finalize_types changed the pointer structure (%d vs %d nodes)" % (r[2], r[1]))
        secs = conv_sections(r, nsec)
        flags = m.get("flags")
        if secs is None or flags is None:
            return ("malformed", "unparsable harness output")
        fl = list(flags)
        if c.kind == "conv":
            return check_convert(m["tab"], root, m["keys"], m["hides"], m["failat"], secs[0],
                                 fl.pop(0) if secs[0][0] == "ok" else None, "")
        for (tag, keys), sec in zip((("MaxSharing: ", m["skeys"]), ("InternalSharing: ", list(range(n))),
                                     ("NoSharing: ", [None] * n)), secs):
            e = check_convert(m["tab"], root, keys, [0] * n, 0, sec, fl.pop(0) if sec[0] == "ok" else None, tag,
                              reachable(dag, root))
            if e:
                return e
        return None
    if c.kind == "arc":
        if r == [9]:
            return ("panic", "building the DAG panicked")
        keys = m["keys"]
        pos = 0
        for tag in ("by &Node: ", "by Arc<Node>: "):
            p = parse_sections(r[pos:], WIDTHS)
            if p is None:
                return ("malformed", "unparsable harness output")
            pos += p[1]
            e = check_keyed(dag, root, keys, md, p[0], tag, congruent(dag, root, keys))
            if e:
                return ("arc-" + e[0] if tag.startswith("by Arc") else e[0], e[1])
        if pos != len(r):
            return ("malformed", "unparsable harness output")
        return None
    if c.kind == "proga":
        if r == [9]:
            return ("panic", "building the program panicked")
        if r and r[0] == 6:
            return ("convert", "finalize_types changed the pointer structure (%d vs %d nodes)" % (r[2], r[1]))
        pos = 0
        ptr = list(range(n))
        for tag, keys in (("Arc<CommitNode> MaxSharing: ", m["skeys"]), ("Arc<CommitNode> InternalSharing: ", ptr),
                          ("Arc<CommitNode> NoSharing: ", [None] * n), ("&ConstructNode InternalSharing: ", ptr),
                          ("Arc<ConstructNode> InternalSharing: ", ptr)):
            p = parse_sections(r[pos:], WIDTHS)
            if p is None:
                return ("malformed", "unparsable harness output")
            pos += p[1]
            e = check_keyed(dag, root, keys, md, p[0], tag, True)
            if e:
                return ("arc-" + e[0], e[1])
        if pos != len(r):
            return ("malformed", "unparsable harness output")
        return None
    if c.kind == "dag":
        p = parse_sections(r, WIDTHS)
        if p is None or p[1] != len(r):
            return ("malformed", "unparsable harness output")
        keys = m["keys"]
        return check_keyed(dag, root, keys, md, p[0], "", congruent(dag, root, keys))
    if c.kind in ("prog", "progs"):
        if r == [9]:
            return ("panic", "building the program panicked")
        if r and r[0] == 6:
            return ("convert", "finalize_types changed the pointer structure (%d vs %d nodes)" % (r[2], r[1]))
        pos = 0
        trackers = [("MaxSharing: ", m["skeys"]), ("InternalSharing: ", list(range(n)))]
        if c.kind == "prog":
            trackers.append(("NoSharing: ", [None] * n))
        for tag, keys in trackers:
            p = parse_sections(r[pos:], WIDTHS)
            if p is None:
                return ("malformed", "unparsable harness output")
            pos += p[1]
            e = check_keyed(dag, root, keys, md, p[0], tag, True)
            if e:
                return e
        if pos != len(r):
            return ("malformed", "unparsable harness output")
    return None


def nontrivial(c, r):
    """shape x tracker with at least one node reachable by two paths"""
    m = c.meta
    dag, root = m["dag"], m["root"]
    if tsizes(dag)[root] > len(reachable(dag, root)):
        return (c.kind, dag_str(dag), root, m.get("mode"), tuple(m.get("keys") or ()), m["md"])
    return None


def run(rep, tier, rng):
    vplib.proof_stage(rep, "Props/C18.v", extra_targets=["Dag/Run.vo"], translators=())
    rep.coverage["trusted_base"] = vplib.GENERIC_TRUSTED + [
        "model Dag/DagModel.v written by hand from src/dag.rs (PostOrderIter::next, SwapChildren/unswap, PreOrderIter, "
        "VerbosePreOrderIter, is_shared_as, trackers as key function + finite map)",
        "pointer identity (Arc / PointerId) is modelled as the position in a node table with children at smaller positions",
        "HashMap is modelled as an association list (only get / insert-if-vacant are used)",
        "is_shared_as: the model collects both iterators before zipping (equal to the alternating zip because neither panics)",
        "Rust harness crate /verif/harness_dag (table-backed DagLike, KeyedSharing tracker, real CommitNode programs for MaxSharing)",
        "model Dag/Convert.v written by hand from src/node/mod.rs Node::convert, src/node/convert.rs and src/node/inner.rs: the converter "
        "is an abstract state-passing record; a converted node's pointer identity is its position in `converted`; hooks that receive "
        "`&Arc<Node<M>>` get the vector and positions; CMRs / entropy / jets / words are numbers (only copied)",
        "Node::convert is exercised on DAGs of harness-defined markers built with Node::from_parts (no typing; sharing id = harness key "
        "through Marker::compute_sharing_id, so MaxSharing<Src> is the library's tracker) and on real CommitNode programs; CMR columns are "
        "compared as 'smallest source position with the same CMR' against a python structural-hash reference (gap: a SHA-256 collision)",
        "pointer sharing of the result is observed with Arc::ptr_eq on every child pointer handed to a hook or found in the result",
        "kinds arc / proga: the same DAG is iterated through `impl DagLike for &Node` and `impl DagLike for Arc<Node>` (by value) for four "
        "harness markers whose disconnect data are Option<Arc<Node>>, Arc<Node>, NoDisconnect and Arc<str> (every Disconnectable impl: "
        "disconnect_dag_ref / disconnect_dag_arc); both must equal the model's iteration of the table (children in the order left, right)",
    ]
    binary, out = vplib.harness_build("debug", crate=CRATE)
    if binary is None:
        raise vplib.Infra("harness build failed:\n" + out[-3000:])
    cases = gen_cases(rng, tier)
    skipped = LAST_SKIPPED
    # spread the expensive (large) cases over all model batches: round-robin order
    cases = [c for k in range(vplib.NCPU) for c in cases[k::vplib.NCPU]]
    nmodel = len([c for c in cases if c.expr is not None])
    impl, model = vplib.eval_cases(rep, binary, COMMAND, cases, IMPORTS, tag="c18",
                                   batch=max(250, min(1000, (nmodel + 15) // 16)), harness_timeout=150)
    for c in cases:     # convert cases: split the pointer-equality flags off the harness output
        if c.kind in ("conv", "convp") and isinstance(impl.get(c.cid), list):
            sp = split_conv(impl[c.cid], 1 if c.kind == "conv" else 3)
            if sp is not None:
                impl[c.cid], c.meta["flags"] = sp
    for c in cases:     # digest cases: the model printed (length, hash) of its flat result
        if c.meta.get("digest") and c.cid in model and isinstance(impl.get(c.cid), list):
            if digest(impl[c.cid]) == model[c.cid]:
                model[c.cid] = impl[c.cid]
    pfail, mism = vplib.decide(rep, cases, impl, model, prop_check, None, nontrivial,
                               what="correspondence Dag/Run.v vs src/dag.rs")
    sizes = {}
    for c in cases:
        n = len(c.meta["dag"])
        b = "n<=4" if n <= 4 else "n=5" if n == 5 else "n=6" if n == 6 else "n<=24" if n <= 24 else "n<=60" if n <= 60 else "n>60"
        sizes[b] = sizes.get(b, 0) + 1
    rep.coverage["size_histogram"] = sizes
    rep.coverage["skipped_too_large"] = skipped
    rep.coverage["rule"] = ("all node tables with <= %d nodes (every arity, every choice of smaller child positions, root = last "
                            "node) x {NoSharing, InternalSharing, every keying incl. missing keys for <= 4 nodes, random keyings "
                            "beyond}; random tables up to %d nodes (diamonds, repeated children, child-and-grandchild, unary "
                            "chains, tree-like) x 5 trackers; real CommitNode programs through MaxSharing; Node::convert with an instrumented Converter "
                            "(hook log, child pointers, Arc::ptr_eq) on random tables over all 16 combinators x {NoSharing, InternalSharing, "
                            "MaxSharing with structural / CMR / arbitrary ids} x hide decisions x an error injected at every hook position, and "
                            "on CommitNode programs; the five iterators by `&Node` and by `Arc<Node>` by value over tables with every combinator incl. "
                            "disconnect with / without right child for every Disconnectable impl, and over Arc<CommitNode> / ConstructNode programs.  "
                            "Distinct non-trivial = "
                            "distinct (table, root, tracker, max_depth) with at least one node reachable by two paths"
                            % (5 if tier == "quick" else 6, 60 if tier == "quick" else 400))
    rep.coverage["samples"] = [{"kind": c.kind, "args": c.line, "impl": impl.get(c.cid)}
                               for c in cases[::max(1, len(cases) // 5)][:6]]
    rep.assumptions += [
        "convert theorems: swf (children at smaller positions), root inside the table, fuel >= 2 * tree size + 1; the tree-level structure "
        "theorem assumes sound sharing ids (same id => same un-shared tree; shown for pointer identity and no sharing)",
        "all theorems assume wfc children (children at smaller table positions = acyclic graph)",
        "root-last / no-orphans / pre-order = post-order nodes / is_shared_as_iff assume key_acyclic (no node carries the "
        "sharing id of its own proper descendant: true of NoSharing, InternalSharing and any hash of the structure below a "
        "node); C18_no_orphans_needs_acyclic and C18_is_shared_as_needs_acyclic show the hypothesis cannot be dropped",
        "coverage of every reachable class assumes key_congruent (equal ids => same arity, children equal or with equal "
        "ids); C18_coverage_needs_congruence shows it cannot be dropped (by design since /repo 7ce2109)",
        "prop_check applies the same conditions to harness-supplied key arrays (python key_acyclic / congruent)",
    ]
    vplib.finish_proof_verdict(rep, pfail)


def replay(obj):
    import json
    print(json.dumps(obj, indent=1))
    c = obj.get("case")
    if not c:
        return 0
    binary, _ = vplib.harness_build("debug", crate=CRATE)
    case = case_from_line(c["id"], c["kind"], c["harness_args"])
    rep = vplib.Report(PROP, "quick", 0)
    impl, model = vplib.eval_cases(rep, binary, COMMAND, [case], IMPORTS, tag="replay")
    if case.kind in ("conv", "convp") and isinstance(impl.get(case.cid), list):
        sp = split_conv(impl[case.cid], 1 if case.kind == "conv" else 3)
        if sp is not None:
            impl[case.cid], case.meta["flags"] = sp
    print("implementation:", impl.get(case.cid))
    print("model         :", model.get(case.cid))
    print("property      :", prop_check(case, impl.get(case.cid)))
    return 0
