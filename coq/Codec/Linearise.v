(* C01 / C02 - post-order traversal of a node table with a sharing tracker, and what the encoder and the
   decoder do with it.
     src/dag.rs                    PostOrderIter::next (as of /repo 7ce2109: an item whose key was recorded since
                                   it was pushed is not expanded), SharingTracker::{record, seen_before},
                                   InternalSharing (key = address), MaxSharing / EncodeSharing (key = identity hash,
                                   hidden nodes by CMR, None = never shared)
     src/bit_encoding/encode.rs    encode_program: the yielded items become nodes whose children are the yielded
                                   indices of the children
     src/node/mod.rs               encode_with_witness: witness values of the yielded witness nodes, in order
   The traversal is written by structural recursion on fuel (children sit at smaller positions, so fuel =
   position + 1 suffices); it is the recursive reading of the explicit-stack iterator:
     visit n = if key n was recorded: its index, nothing yielded
               else visit the children left to right, then `record`: if the key has been recorded meanwhile
               (only possible when a descendant carries the same key) nothing is yielded, else yield.
   Coq/Dag (C18) owns the explicit-stack model; Codec/Run.v evaluates both on every correspondence case. *)
From RS Require Import Lib.Tac Lib.Outcome Lib.Bits Lib.ListExtra Codec.NodeCodec.
Import ListNotations.
Local Open Scope N_scope.

Section Trav.
Variable jet : Type.
Notation dnode := (dnode jet).

Definition dchildren (d : dnode) : list N :=
  match d with
  | DInjL i | DInjR i | DTake i | DDrop i | DDisconnect1 i => [i]
  | DComp i j | DCase i j | DPair i j | DDisconnect i j => [i; j]
  | _ => []
  end.

Definition node_at (ns : list dnode) (n : N) : dnode := nth (N.to_nat n) ns DUnit.

(* tracker: recorded keys with their indices, newest first *)
Definition tmap := list (N * N).
Fixpoint tm_get (m : tmap) (k : N) : option N :=
  match m with
  | [] => None
  | (k', i) :: r => if k' =? k then Some i else tm_get r k
  end.

Definition seen (key : N -> option N) (m : tmap) (n : N) : option N :=
  match key n with Some k => tm_get m k | None => None end.

(* yielded item: node position and the yielded indices of its children *)
Record tstate := mk_ts { ts_map : tmap; ts_out : list (N * list N); ts_next : N }.
Definition ts_init : tstate := mk_ts [] [] 0.

(* the children of one node, left to right, each with the visitor [v] *)
Fixpoint go_list (v : N -> tstate -> N * tstate) (cs : list N) (s : tstate) : list N * tstate :=
  match cs with
  | [] => ([], s)
  | c :: r => let '(i, s') := v c s in
              let '(is_, s'') := go_list v r s' in (i :: is_, s'')
  end.

Section Visit.
Variable children : N -> list N.
Variable key : N -> option N.

Fixpoint visit (fuel : nat) (n : N) (s : tstate) : N * tstate :=
  match fuel with
  | O => (0, s)
  | S f =>
      match seen key (ts_map s) n with
      | Some i => (i, s)
      | None =>
          let '(cis, s1) := go_list (visit f) (children n) s in
          match seen key (ts_map s1) n with
          | Some i => (i, s1)
          | None =>
              let idx := ts_next s1 in
              (idx, mk_ts (match key n with Some k => (k, idx) :: ts_map s1 | None => ts_map s1 end)
                          ((n, cis) :: ts_out s1) (idx + 1))
          end
      end
  end.

(* the whole iterator from a root: yielded items in order *)
Definition traverse (root : N) : list (N * list N) :=
  rev (ts_out (snd (visit (S (N.to_nat root)) root ts_init))).
End Visit.

(* ------------------------------------------------------------------ encoder *)
(* the node written for a yielded item: the node with its children replaced by their yielded indices *)
Definition relabel (d : dnode) (cis : list N) : dnode :=
  match d, cis with
  | DInjL _, [i] => DInjL i
  | DInjR _, [i] => DInjR i
  | DTake _, [i] => DTake i
  | DDrop _, [i] => DDrop i
  | DDisconnect1 _, [i] => DDisconnect1 i
  | DComp _ _, [i; j] => DComp i j
  | DCase _ _, [i; j] => DCase i j
  | DPair _ _, [i; j] => DPair i j
  | DDisconnect _ _, [i; j] => DDisconnect i j
  | _, _ => d
  end.

(* encode_program's node list for the DAG that the table [ns] describes (root = last entry) under the
   sharing ids [key] *)
Definition linearise (ns : list dnode) (key : N -> option N) : list dnode :=
  map (fun it => relabel (node_at ns (fst it)) (snd it))
      (traverse (fun n => dchildren (node_at ns n)) key (N.of_nat (length ns) - 1)).

(* the positions yielded, in order *)
Definition order_of (ns : list dnode) (key : N -> option N) : list N :=
  map fst (traverse (fun n => dchildren (node_at ns n)) key (N.of_nat (length ns) - 1)).

Definition key_ptr : N -> option N := fun n => Some n.      (* InternalSharing *)
Definition key_list (l : list (option N)) : N -> option N := fun n => nth (N.to_nat n) l None.

End Trav.

Arguments dchildren {jet} d.
Arguments node_at {jet} ns n.
Arguments relabel {jet} d cis.
Arguments linearise {jet} ns key.
Arguments order_of {jet} ns key.
