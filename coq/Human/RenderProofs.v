(* C17 - facts about the renderer model: the post-order walk by object visits exactly the
   nodes reachable from the root, children first, each once; hence every operand of a
   rendered line is the name of exactly one rendered line, provided distinct node objects
   carry distinct names (`render_defined`).  The renderer before the fix does not have this
   property (`render_old_refuted`). *)
From RS Require Import Lib.Tac Lib.Outcome Human.Namer Human.Render.
Import ListNotations.
Local Open Scope N_scope.

(* ------------------------------------------------------------------ well-formed tables *)
Definition child (d : ndag) (a c : nat) : Prop :=
  nn_l (nget d a) = Some c \/ nn_r (nget d a) = Some c.

Lemma wf_from_nth : forall d k i, wf_from k d = true -> (i < length d)%nat ->
  node_wf (k + i) (nth i d dummy_nn) = true.
Proof.
  induction d as [|n r IH]; intros k i H Hi; [cbn in Hi; lia|].
  cbn in H. apply andb_true_iff in H. destruct H as [H1 H2].
  destruct i as [|i]; cbn [nth].
  - rewrite Nat.add_0_r. exact H1.
  - replace (k + S i)%nat with (S k + i)%nat by lia. apply IH; [exact H2 | cbn in Hi; lia].
Qed.

Lemma wf_node d i : wf_ndag d = true -> (i < length d)%nat -> node_wf i (nget d i) = true.
Proof.
  unfold wf_ndag. intros H Hi. apply andb_true_iff in H. destruct H as [_ H].
  apply (wf_from_nth d 0 i H Hi).
Qed.

Lemma nget_out d i : (length d <= i)%nat -> nget d i = dummy_nn.
Proof. intros H. unfold nget. apply nth_overflow. exact H. Qed.

Lemma opt_lt_spec o i c : opt_lt o i = true -> o = Some c -> (c < i)%nat.
Proof. intros H ->. cbn in H. apply Nat.ltb_lt. exact H. Qed.

Lemma wf_child d a c : wf_ndag d = true -> child d a c -> (c < a)%nat /\ (a < length d)%nat.
Proof.
  intros H Hc. destruct (Nat.lt_ge_cases a (length d)) as [Ha|Ha].
  - pose proof (wf_node d a H Ha) as W. unfold node_wf in W.
    repeat (apply andb_true_iff in W; destruct W as [W ?]).
    destruct Hc as [Hc|Hc]; split; try exact Ha.
    + exact (opt_lt_spec _ _ _ W Hc).
    + exact (opt_lt_spec _ _ _ H2 Hc).
  - unfold child in Hc. rewrite (nget_out d a Ha) in Hc. destruct Hc as [Hc|Hc]; discriminate Hc.
Qed.

Lemma NoDup_app_intro {A} (l1 l2 : list A) :
  NoDup l1 -> NoDup l2 -> (forall a, In a l1 -> In a l2 -> False) -> NoDup (l1 ++ l2).
Proof.
  induction l1 as [|x r IH]; intros H1 H2 Hd; [exact H2|].
  inversion H1 as [|? ? Hx Hr]; subst. cbn. constructor.
  - intros Hin. apply in_app_or in Hin. destruct Hin as [Hin|Hin]; [contradiction|].
    apply (Hd x); [left; reflexivity | exact Hin].
  - apply IH; [exact Hr | exact H2 |]. intros a Ha. apply Hd. right. exact Ha.
Qed.

(* ------------------------------------------------------------------ the walk *)
Definition po_opt (f : nat) (d : ndag) (o : option nat) (seen : list nat) : list nat :=
  match o with Some c => po f d c seen | None => seen end.

Lemma po_unfold f d i seen :
  po (S f) d i seen =
  if mem_nat i seen then seen
  else i :: po_opt f d (nn_r (nget d i)) (po_opt f d (nn_l (nget d i)) seen).
Proof. reflexivity. Qed.

(* what a visit adds: `new` (newest first) *)
Record po_post (d : ndag) (i : nat) (seen new : list nat) : Prop := mk_post {
  pp_in : In i (new ++ seen);
  pp_fresh : forall a, In a new -> ~ In a seen;
  pp_nodup : NoDup new;
  pp_closed : forall a c, In a new -> child d a c -> In c (new ++ seen);
  pp_parent : forall a, In a new -> a = i \/ exists p, In p new /\ child d p a;
  pp_below : forall a, In a new -> (a <= i)%nat }.

Lemma po_spec d : wf_ndag d = true -> forall fuel i seen, (i < fuel)%nat ->
  exists new, po fuel d i seen = new ++ seen /\ po_post d i seen new.
Proof.
  intros W. induction fuel as [|f IH]; intros i seen Hi; [lia|].
  rewrite po_unfold. destruct (mem_nat i seen) eqn:Em.
  - exists []. split; [reflexivity|]. apply mem_nat_In in Em.
    constructor; [exact Em | intros a [] | constructor | intros a c [] | intros a [] | intros a []].
  - assert (Hni : ~ In i seen) by (intros H; apply mem_nat_In in H; congruence).
    (* the optional-child version of the induction hypothesis *)
    assert (IHo : forall o s, (forall c, o = Some c -> (c < f)%nat) ->
              exists new, po_opt f d o s = new ++ s /\
                (forall c, o = Some c -> po_post d c s new) /\ (o = None -> new = [])).
    { intros [c|] s Hc; cbn [po_opt].
      - destruct (IH c s (Hc c eq_refl)) as [new [E P]]. exists new. split; [exact E|].
        split; [intros c' Hc'; injection Hc' as <-; exact P | discriminate].
      - exists []. split; [reflexivity|]. split; [discriminate | reflexivity]. }
    set (n := nget d i).
    assert (Hl : forall c, nn_l n = Some c -> (c < f)%nat).
    { intros c Hc. assert (child d i c) by (left; exact Hc). apply (wf_child d i c W) in H. lia. }
    assert (Hr : forall c, nn_r n = Some c -> (c < f)%nat).
    { intros c Hc. assert (child d i c) by (right; exact Hc). apply (wf_child d i c W) in H. lia. }
    destruct (IHo (nn_l n) seen Hl) as [n1 [E1 [P1 N1]]].
    rewrite E1.
    destruct (IHo (nn_r n) (n1 ++ seen) Hr) as [n2 [E2 [P2 N2]]].
    rewrite E2.
    exists (i :: n2 ++ n1). split; [cbn; rewrite <- app_assoc; reflexivity|].
    (* every node added below i is smaller than i *)
    assert (B1 : forall a, In a n1 -> (a < i)%nat).
    { intros a Ha. destruct (nn_l n) as [c|] eqn:El; [|rewrite (N1 eq_refl) in Ha; inversion Ha].
      pose proof (pp_below _ _ _ _ (P1 c eq_refl) a Ha).
      assert (child d i c) by (left; exact El). apply (wf_child d i c W) in H0. lia. }
    assert (B2 : forall a, In a n2 -> (a < i)%nat).
    { intros a Ha. destruct (nn_r n) as [c|] eqn:Er; [|rewrite (N2 eq_refl) in Ha; inversion Ha].
      pose proof (pp_below _ _ _ _ (P2 c eq_refl) a Ha).
      assert (child d i c) by (right; exact Er). apply (wf_child d i c W) in H0. lia. }
    assert (F1 : forall a, In a n1 -> ~ In a seen).
    { intros a Ha. destruct (nn_l n) as [c|] eqn:El; [|rewrite (N1 eq_refl) in Ha; inversion Ha].
      exact (pp_fresh _ _ _ _ (P1 c eq_refl) a Ha). }
    assert (F2 : forall a, In a n2 -> ~ In a (n1 ++ seen)).
    { intros a Ha. destruct (nn_r n) as [c|] eqn:Er; [|rewrite (N2 eq_refl) in Ha; inversion Ha].
      exact (pp_fresh _ _ _ _ (P2 c eq_refl) a Ha). }
    assert (D1 : NoDup n1).
    { destruct (nn_l n) as [c|] eqn:El; [exact (pp_nodup _ _ _ _ (P1 c eq_refl)) | rewrite (N1 eq_refl); constructor]. }
    assert (D2 : NoDup n2).
    { destruct (nn_r n) as [c|] eqn:Er; [exact (pp_nodup _ _ _ _ (P2 c eq_refl)) | rewrite (N2 eq_refl); constructor]. }
    constructor.
    + left. reflexivity.
    + intros a [<-|Ha]; [exact Hni|]. apply in_app_or in Ha. destruct Ha as [Ha|Ha].
      * intros Hs. apply (F2 a Ha). apply in_or_app. right. exact Hs.
      * exact (F1 a Ha).
    + constructor.
      * intros Hin. apply in_app_or in Hin. destruct Hin as [H|H]; [apply B2 in H | apply B1 in H]; lia.
      * apply NoDup_app_intro; [exact D2 | exact D1 |].
        intros a Ha2 Ha1. apply (F2 a Ha2). apply in_or_app. left. exact Ha1.
    + intros a c [<-|Ha] Hc.
      * (* children of i itself *)
        right. destruct Hc as [Hc|Hc].
        -- fold n in Hc. pose proof (pp_in _ _ _ _ (P1 c Hc)) as Hin.
           apply in_app_or in Hin. rewrite <- app_assoc. apply in_or_app. right. apply in_or_app. exact Hin.
        -- fold n in Hc. pose proof (pp_in _ _ _ _ (P2 c Hc)) as Hin.
           rewrite <- app_assoc. exact Hin.
      * right. rewrite <- app_assoc. apply in_app_or in Ha. destruct Ha as [Ha|Ha].
        -- destruct (nn_r n) as [c'|] eqn:Er; [|rewrite (N2 eq_refl) in Ha; inversion Ha].
           exact (pp_closed _ _ _ _ (P2 c' eq_refl) a c Ha Hc).
        -- destruct (nn_l n) as [c'|] eqn:El; [|rewrite (N1 eq_refl) in Ha; inversion Ha].
           pose proof (pp_closed _ _ _ _ (P1 c' eq_refl) a c Ha Hc) as Hin.
           apply in_or_app. right. exact Hin.
    + intros a [<-|Ha]; [left; reflexivity|]. right. apply in_app_or in Ha. destruct Ha as [Ha|Ha].
      * destruct (nn_r n) as [c'|] eqn:Er; [|rewrite (N2 eq_refl) in Ha; inversion Ha].
        destruct (pp_parent _ _ _ _ (P2 c' eq_refl) a Ha) as [->|[p [Hp Hc]]].
        -- exists i. split; [left; reflexivity | right; exact Er].
        -- exists p. split; [right; apply in_or_app; left; exact Hp | exact Hc].
      * destruct (nn_l n) as [c'|] eqn:El; [|rewrite (N1 eq_refl) in Ha; inversion Ha].
        destruct (pp_parent _ _ _ _ (P1 c' eq_refl) a Ha) as [->|[p [Hp Hc]]].
        -- exists i. split; [left; reflexivity | left; exact El].
        -- exists p. split; [right; apply in_or_app; right; exact Hp | exact Hc].
    + intros a [<-|Ha]; [lia|]. apply in_app_or in Ha. destruct Ha as [Ha|Ha]; [apply B2 in Ha | apply B1 in Ha]; lia.
Qed.

(* ------------------------------------------------------------------ post_order *)
Record po_facts (d : ndag) (l : list nat) : Prop := mk_pof {
  pf_root : In (root_of d) l;
  pf_nodup : NoDup l;
  pf_closed : forall a c, In a l -> child d a c -> In c l;
  pf_parent : forall a, In a l -> a = root_of d \/ exists p, In p l /\ child d p a;
  pf_range : forall a, In a l -> (a < length d)%nat }.

Lemma post_order_facts d : wf_ndag d = true -> po_facts d (post_order d).
Proof.
  intros W. unfold post_order.
  assert (Hlen : (0 < length d)%nat).
  { unfold wf_ndag in W. apply andb_true_iff in W. destruct W as [W _].
    destruct (length d); [discriminate W | lia]. }
  destruct (po_spec d W (S (length d)) (root_of d) []) as [new [E P]].
  { unfold root_of. lia. }
  rewrite E, app_nil_r. destruct P as [Pin Pf Pn Pc Pp Pb]. rewrite app_nil_r in *.
  constructor.
  - apply -> in_rev. exact Pin.
  - apply NoDup_rev. exact Pn.
  - intros a c Ha Hc. apply in_rev in Ha. apply -> in_rev. exact (Pc a c Ha Hc).
  - intros a Ha. apply in_rev in Ha. destruct (Pp a Ha) as [->|[p [Hp Hc]]]; [left; reflexivity|].
    right. exists p. split; [apply -> in_rev; exact Hp | exact Hc].
  - intros a Ha. apply in_rev in Ha. specialize (Pb a Ha). unfold root_of in Pb. lia.
Qed.

(* ------------------------------------------------------------------ sections only reorder *)
Lemma count_name_app n l1 l2 : count_name n (l1 ++ l2) = (count_name n l1 + count_name n l2)%nat.
Proof. unfold count_name. rewrite filter_app, app_length. reflexivity. Qed.

Lemma line_class l : (is_wit_line l = true /\ is_const_line l = false /\ is_prog_line l = false) \/
                     (is_wit_line l = false /\ is_const_line l = true /\ is_prog_line l = false) \/
                     (is_wit_line l = false /\ is_const_line l = false /\ is_prog_line l = true).
Proof.
  unfold is_prog_line, is_wit_line, is_const_line. destruct (dl_kind l); cbn; tauto.
Qed.

Lemma count_sections n ls :
  count_name n (map dl_name (sections ls)) = count_name n (map dl_name ls).
Proof.
  unfold sections. rewrite !map_app, !count_name_app.
  induction ls as [|x r IH]; [reflexivity|].
  cbn [filter]. destruct (line_class x) as [[-> [-> ->]]|[[-> [-> ->]]|[-> [-> ->]]]];
    cbn [map]; unfold count_name in *; cbn [filter]; destruct (name_eqb n (dl_name x)); cbn [length]; lia.
Qed.

Lemma in_sections l ls : In l (sections ls) <-> In l ls.
Proof.
  unfold sections. rewrite !in_app_iff, !filter_In.
  destruct (line_class l) as [[-> [-> ->]]|[[-> [-> ->]]|[-> [-> ->]]]]; intuition congruence.
Qed.

Lemma count_name_nodup n l : NoDup l -> In n l -> count_name n l = 1%nat.
Proof.
  unfold count_name. induction l as [|x r IH]; intros Hd Hin; [inversion Hin|].
  inversion Hd as [|? ? Hx Hr]; subst. cbn [filter]. destruct Hin as [->|Hin].
  - rewrite name_eqb_refl. cbn [length].
    assert (E : filter (name_eqb n) r = []).
    { clear IH Hd Hr. induction r as [|y r IH]; [reflexivity|]. cbn [filter].
      destruct (name_eqb n y) eqn:Ey.
      - apply name_eqb_eq in Ey. subst. exfalso. apply Hx. left. reflexivity.
      - apply IH. intros H. apply Hx. right. exact H. }
    rewrite E. reflexivity.
  - destruct (name_eqb n x) eqn:Ex.
    + apply name_eqb_eq in Ex. subst. contradiction.
    + apply IH; assumption.
Qed.

(* ------------------------------------------------------------------ render_defined *)
Lemma map_name_lines d l : map dl_name (map (line_of d) l) = map (nname d) l.
Proof. rewrite map_map. reflexivity. Qed.

Theorem render_defined d :
  wf_ndag d = true -> NoDup (map (nname d) (post_order d)) -> all_defined (render d).
Proof.
  intros W Hn l a Hl Ha. unfold render in *. rewrite count_sections.
  apply (proj1 (in_sections _ _)) in Hl. unfold lines_of_root in *.
  apply in_map_iff in Hl. destruct Hl as [i [<- Hi]].
  rewrite map_name_lines. apply count_name_nodup; [exact Hn|].
  pose proof (post_order_facts d W) as F.
  unfold dl_refs, line_of in Ha. cbn [dl_l dl_r] in Ha.
  apply in_app_or in Ha. destruct Ha as [Ha|Ha].
  - destruct (nn_l (nget d i)) as [c|] eqn:El; cbn in Ha; [|inversion Ha].
    destruct Ha as [<-|[]]. apply in_map. apply (pf_closed _ _ F i c Hi). left. exact El.
  - destruct (nn_r (nget d i)) as [c|] eqn:Er; cbn in Ha; [|inversion Ha].
    destruct Ha as [<-|[]]. apply in_map. apply (pf_closed _ _ F i c Hi). right. exact Er.
Qed.

(* the names defined by the rendering are the names of the visited nodes *)
Lemma render_names_perm d n :
  count_name n (map dl_name (render d)) = count_name n (map (nname d) (post_order d)).
Proof. unfold render, lines_of_root. rewrite count_sections, map_name_lines. reflexivity. Qed.

(* ------------------------------------------------------------------ the renderer before the fix *)
(* `main := comp (pair unit unit) unit` as the parser builds it: the two `unit` nodes are two
   objects (ut1, ut2) with one identity hash.  The old renderer prints one line for them but the
   pair still refers to both names. *)
Definition old_witness : ndag :=
  [ mk_nn KUnit [] None None (NGen PUt 1) None;
    mk_nn KUnit [] None None (NGen PUt 2) None;
    mk_nn KPair [] (Some 0%nat) (Some 1%nat) (NGen PPr 3) None;
    mk_nn KUnit [] None None (NGen PUt 4) None;
    mk_nn KComp [] (Some 2%nat) (Some 3%nat) NMain None ].
(* identity hash classes: the units at 0 and 1 have source and target 1 -> 1, the unit at 3 has
   source 1 * 1 *)
Definition old_witness_ihr : list (option N) := [Some 1; Some 1; Some 2; Some 3; Some 4].

Theorem render_old_refuted :
  exists d ihr, wf_ndag d = true /\ NoDup (map (nname d) (post_order d)) /\
    ~ all_defined (render_old d ihr) /\
    (exists l, In l (render_old d ihr) /\ In (NGen PUt 2) (dl_refs l) /\
               count_name (NGen PUt 2) (map dl_name (render_old d ihr)) = 0%nat).
Proof.
  exists old_witness, old_witness_ihr. split; [reflexivity|]. split.
  - vm_compute. repeat constructor; cbn; intuition discriminate.
  - split.
    + intros H. apply all_definedb_spec in H. vm_compute in H. discriminate H.
    + exists (mk_dl (NGen PPr 3) KPair [] (Some (NGen PUt 1)) (Some (NGen PUt 2)) None).
      split; [vm_compute; tauto|]. split; [cbn; tauto | reflexivity].
Qed.

(* the same DAG under the current renderer *)
Example render_new_witness : all_definedb (render old_witness) = true.
Proof. reflexivity. Qed.
