"""C03 - Validity, Merkle roots and cost agree with libsimplicity  (level: other).

Differential check Rust (RedeemNode::decode + cmr/amr/ihr/bounds().cost) vs the vendored C
(decodeMallocDag, mallocTypeInference, fillWitnessData, verifyNoDuplicateIdentityHashes,
computeAnnotatedMerkleRoot, analyseBounds -- called stage by stage, and once more through
simplicity_sys::tests::run_program(.., TestUpTo::CheckOneOne)) vs, for the cost clause, the Coq
reference Cdiff/CostRef.v evaluated on the typed node table of the decoded program."""
import os

import proggen as pg
import vplib
from vplib import Case
from props import cdiff_common as cc

PROP = "C03"
LEVEL = "other"
IMPORTS = ["Cdiff.Run", "Ty.Ty", "Core.Prog"]
CELLS_MAX = cc.LIMITS["CELLS_MAX"]

STATS = {}


def bump(k, n=1):
    STATS[k] = STATS.get(k, 0) + n


# ------------------------------------------------------------------ generators
def mutate(rng, prog, wit, others):
    """one mutation of a valid (program, witness) byte pair"""
    prog = list(prog)
    wit = list(wit)
    kind = rng.below(12)
    tgt = prog if (not wit or rng.below(4) != 0) else wit
    name = "p" if tgt is prog else "w"
    if kind < 4 and tgt:
        for _ in range(rng.choice([1, 1, 1, 2, 3])):
            j = rng.below(len(tgt) * 8)
            tgt[j // 8] ^= 0x80 >> (j % 8)
        return prog, wit, "flip-" + name
    if kind < 6 and tgt:
        del tgt[rng.below(len(tgt)):]
        if tgt and rng.below(2):
            tgt[-1] &= (0xFF << rng.below(8)) & 0xFF
        return prog, wit, "truncate-" + name
    if kind < 8:
        ext = rng.bytes(rng.range(1, 3)) if rng.below(2) else [0] * rng.range(1, 2)
        tgt.extend(ext)
        return prog, wit, "extend-" + name
    if kind < 10 and tgt:
        a = rng.below(len(tgt))
        b = min(len(tgt), a + rng.range(1, 4))
        if others and rng.below(2):
            src = rng.choice(others)
            src = src[0] if src[0] else [0]
            s0 = rng.below(len(src))
            tgt[a:b] = src[s0:s0 + (b - a)]
        else:
            tgt[a:b] = rng.bytes(b - a)
        return prog, wit, "splice-" + name
    if kind == 10 and tgt:
        # set trailing padding bits / last byte
        tgt[-1] |= 1 << rng.below(3)
        return prog, wit, "padding-" + name
    # swap: witness of another program
    if others:
        o = rng.choice(others)
        return prog, list(o[1]), "other-witness"
    return prog, wit + [0], "extend-w"


def natural_bits(n):
    if n == 1:
        return [0]
    ln = n.bit_length() - 1
    return [1] + natural_bits(ln) + [(n >> i) & 1 for i in range(ln - 1, -1, -1)]


def pack(bits):
    out = []
    for i in range(0, len(bits), 8):
        ch = bits[i:i + 8] + [0] * (8 - len(bits[i:i + 8]))
        v = 0
        for b in ch:
            v = 2 * v + b
        out.append(v)
    return out


def random_strings(rng, n):
    """random byte strings, most of them with a plausible length prefix so that decoding gets somewhere"""
    out = []
    for _ in range(n):
        r = rng.below(10)
        if r < 3:
            prog = rng.bytes(rng.below(12))
        else:
            ln = rng.range(1, 6)
            bits = natural_bits(ln)
            # node codes: mostly non-jet combinators with small back references
            for i in range(ln):
                k = rng.below(12)
                if k < 3:
                    bits += [0, 1, 0, 0, rng.below(2), rng.below(2)]  # iden / unit / fail.. / disconnect1
                    if bits[-2:] == [1, 0]:
                        bits += rng.bits(rng.choice([0, 512]))
                    if bits[-2:] == [1, 1]:
                        bits += natural_bits(rng.range(1, max(1, i)))
                elif k < 6:
                    bits += [0, 0, 1] + rng.bits(2) + natural_bits(rng.range(1, max(1, i)))
                elif k < 9:
                    bits += [0, 0, 0] + rng.bits(2) + natural_bits(rng.range(1, max(1, i))) + natural_bits(rng.range(1, max(1, i)))
                elif k == 9:
                    bits += [0, 1, 1, 1]  # witness
                elif k == 10:
                    d = rng.range(1, 4)
                    bits += [1, 0] + natural_bits(d) + rng.bits(2 ** (d - 1))
                else:
                    bits += [1, 1] + rng.bits(rng.range(3, 12))
            if rng.below(3) == 0:
                bits += rng.bits(rng.below(9))
            prog = pack(bits)
        wit = rng.bytes(rng.choice([0, 0, 0, 1, 2, 5]))
        out.append((prog, wit))
    return out


# ------------------------------------------------------------------ the property on one result
def prop_check(c, r):
    if r in ("CRASH", "TIMEOUT") or r is None:
        return ("crash", "harness process died or hung (C assertion / abort?) on %s %s" % (c.kind, c.line[:200]))
    if r == [9]:
        return ("harness-panic", "panic outside the guarded sections on %s %s" % (c.kind, c.line[:200]))
    d = c.meta.get("parsed")
    if d is None:
        try:
            d = cc.parse_c03(r, c.kind == "pdl")
        except (AssertionError, IndexError) as e:
            return ("unparsable", "harness output not understood: %s" % (e,))
        c.meta["parsed"] = d
    if "build_error" in d:
        bump("build_error_%s" % d["build_error"])
        return None
    what = "program %s witness %s" % (cc.hexs(d["prog"]) if "prog" in d else c.meta.get("prog_hex"),
                                      cc.hexs(d["wit"]) if "wit" in d else c.meta.get("wit_hex"))
    rc, ccl = d["r_class"], d["c_class"]
    bump("matrix r=%s c=%s" % (cc.DECODE_CLASS.get(rc, rc), cc.DECODE_CLASS.get(ccl, ccl)))
    if rc == 13:
        return ("rust-panic", "RedeemNode::decode panicked on " + what)
    # the library's own entry point must tell the same story as the staged pipeline
    rp_ok = d["rp_status"] == 0
    if d["rp_status"] == 9:
        return ("run_program-panic", "simplicity_sys::tests::run_program panicked on " + what)
    if rp_ok != (ccl == 0):
        return ("c-pipeline-mismatch", "run_program(CheckOneOne) %s but the staged C pipeline %s on %s"
                % ("accepts" if rp_ok else "rejects (-%d)" % d["rp_raw"], "accepts" if ccl == 0 else "rejects (-%d)" % d["c_raw"], what))
    if rp_ok and (d["rp_cmr"], d["rp_amr"], d["rp_ihr"], d["rp_cost"]) != (d["c_cmr"], d["c_amr"], d["c_ihr"], d["c_cost"]):
        return ("c-pipeline-mismatch", "run_program and the staged C pipeline report different roots/cost on " + what)
    # documented limits: a witness wider than CELLS_MAX is refused by C before anything else
    if ccl == 11:
        bump("outside_limits_c_resource")
        return None
    # the designed exception
    if ccl == 5:
        bump("fail_node_excluded")
        if rc == 0 and d["r_nfail"] == 0:
            return ("fail-code-without-fail-node", "C reports FAIL_CODE but the program Rust decoded has no fail node: " + what)
        return None
    if rc == 0 and d["r_nfail"] > 0 and ccl == 0:
        return ("fail-accepted-by-c", "Rust decoded a fail node, C accepted: " + what)
    if (rc == 0) != (ccl == 0):
        if rc == 0:
            return ("verdict-rust-accepts", "Rust accepts, C rejects with -%d (%s, stage %d): %s"
                    % (d["c_raw"], cc.DECODE_CLASS.get(ccl), d["c_stage"], what))
        return ("verdict-rust-rejects", "C accepts, Rust rejects with class %s/%d: %s" % (cc.DECODE_CLASS.get(rc), d["r_detail"], what))
    if rc != 0:
        if rc != ccl:
            bump("both_reject_different_class")
        return None
    # both accept
    bump("both_accept")
    for nm in ("cmr", "amr", "ihr"):
        if d["r_" + nm] != d["c_" + nm]:
            return (nm, "%s differs: Rust %s, C %s on %s" % (nm.upper(), cc.hexs(d["r_" + nm]), cc.hexs(d["c_" + nm]), what))
    if d["c_cells"] > CELLS_MAX:
        bump("accepted_beyond_CELLS_MAX")
        if d["r_cost"] != d["c_cost"]:
            bump("cost_differs_beyond_CELLS_MAX")
    elif d["r_cost"] != d["c_cost"]:
        return ("cost", "cost bound differs: Rust %d, C %d (cells %d) on %s" % (d["r_cost"], d["c_cost"], d["c_cells"], what))
    if "built_cmr" in d:
        if (d["built_cmr"], d["built_amr"], d["built_ihr"], d["built_cost"]) != (d["r_cmr"], d["r_amr"], d["r_ihr"], d["r_cost"]):
            return ("encode-decode-roots", "roots/cost of the program as built differ from those after encode+decode: " + what)
    return None


def finding_match(c, r, cls):
    for f in vplib.open_findings(PROP):
        if f.get("match", {}).get("kind") == cls:
            return f["id"]
    return None


def nontrivial(c, r):
    d = c.meta.get("parsed")
    if d is None and isinstance(r, list) and r != [9]:
        try:
            d = cc.parse_c03(r, c.kind == "pdl")
            c.meta["parsed"] = d
        except (AssertionError, IndexError):
            return None
    if not d or "build_error" in d:
        return None
    p = tuple(d["prog"]) if "prog" in d else tuple(c.meta.get("prog", ()))
    w = tuple(d["wit"]) if "wit" in d else tuple(c.meta.get("wit", ()))
    if len(p) < 2:
        return None
    return (p, w)


# ------------------------------------------------------------------ run
def bytes_case(cid, prog, wit, meta):
    m = {"prog": list(prog), "wit": list(wit), "prog_hex": cc.hexs(prog), "wit_hex": cc.hexs(wit)}
    m.update(meta)
    return Case(cid, "bytes", "%s %s" % (cc.hexs(prog), cc.hexs(wit)), None, m)


def corpus_cases():
    out = []
    d = os.path.join(vplib.VERIF, "corpus", PROP)
    if os.path.isdir(d):
        for fn in sorted(os.listdir(d)):
            if fn.endswith(".case"):
                for k, line in enumerate(open(os.path.join(d, fn))):
                    t = line.split()
                    if not t or t[0].startswith("#"):
                        continue
                    if t[0] == "bytes":
                        out.append(bytes_case("k%s_%d" % (fn[:-5], k), vplib_unhex(t[1]), vplib_unhex(t[2]), {"origin": "corpus"}))
                    else:
                        out.append(Case("k%s_%d" % (fn[:-5], k), "pdl", " ".join(t[1:]), None, {"origin": "corpus"}))
    return out


def vplib_unhex(s):
    return [] if s == "-" else [int(s[i:i + 2], 16) for i in range(0, len(s), 2)]


def cost_cases(cases):
    """cases accepted by both sides with a printable table -> (case for Coq, expected numbers)"""
    out = []
    for c in cases:
        d = c.meta.get("parsed")
        if not d or d.get("r_class") != 0 or d.get("c_class") != 0:
            continue
        if d["c_cells"] > CELLS_MAX:
            continue
        rows = cc.parse_table(d["table"])
        if rows is None:
            bump("cost_ref_skipped_type_too_large")
            continue
        if cc.table_type_size(rows) > 60000:
            bump("cost_ref_skipped_type_too_large")
            continue
        jl, tp = cc.table_coq(rows)
        out.append((Case(c.cid, "cost", c.line, "run_cost %s %s" % (jl, tp), {"of": c.cid}),
                    [0, d["r_cost"], d["c_cost"], d["c_cost"]]))
    return out


def run(rep, tier, rng):
    import time
    STATS.clear()
    T = {}
    t0 = time.time()

    def lap(name):
        nonlocal t0
        T[name] = round(time.time() - t0, 1)
        t0 = time.time()
    rep.coverage["explanation"] = (
        "Level 'other': differential comparison, not a proof about the implementations.  Compared on every generated "
        "input: accept/reject of RedeemNode::decode (Rust) vs the libsimplicity pipeline decodeMallocDag -> "
        "closeBitstream -> mallocTypeInference -> 1->1 check -> fillWitnessData -> closeBitstream -> "
        "verifyNoDuplicateIdentityHashes (C, staged, and again through simplicity_sys::tests::run_program up to "
        "CheckOneOne), and, when both accept, CMR, AMR, IHR (bit-identical) and the static cost bound "
        "(RedeemNode::bounds().cost vs analyseBounds).  Inputs C refuses for a documented libsimplicity limit "
        "(witness wider than CELLS_MAX) and programs on which C reports FAIL_CODE are excluded from the verdict "
        "comparison as the property says; costs are compared only when C's cell bound is within CELLS_MAX (beyond "
        "it Rust's Cost::of_type truncates where C saturates: theorem C03_rust_c_differ_wide).  The Coq contribution "
        "is an executable reference of the cost bound (Cdiff/CostRef.v: ideal, C-shaped and Rust-shaped formulas) with "
        "theorems about that reference only (independence of witness values, monotonicity, saturation = clipping of "
        "the ideal value, Rust-shaped = C-shaped below 2^32-bit widths); it is evaluated with vm_compute on the typed "
        "node table of every accepted program and compared with both implementations (3-way).  No theorem mentions "
        "the C code.  Roots are compared Rust vs C only (no Coq reference of SHA-256 in this family).  "
        + cc.CLASS_MAPPING_TEXT)
    vplib.proof_stage(rep, "Props/C03.v", extra_targets=["Cdiff/Run.vo"], translators=())
    rep.coverage["trusted_base"] = vplib.GENERIC_TRUSTED + [
        "vendored libsimplicity compiled by simplicity-sys's build.rs (the reference the property names) and its Rust FFI bindings (simplicity-sys/src/tests/ffi.rs)",
        "harness_cdiff: staged port of simplicity_sys::tests::run_program (cross-checked against run_program on every case)",
        "models Cdiff/CostRef.v, CostRustC.v, VerdictRef.v written by hand from analysis.rs, eval.c, errorCodes.h",
    ]
    lap("proof_stage_s")
    lim, lerr = cc.read_limits()
    if lerr:
        rep.violation("libsimplicity limits changed: " + lerr, {"limits": lim}, False)
    binary, out = vplib.harness_build("debug", crate=cc.CRATE)
    if binary is None:
        raise vplib.Infra("harness build failed:\n" + out[-3000:])
    lap("harness_build_s")
    wd = rep.workdir()
    quick = tier == "quick"

    # phase 1: generated programs, unpruned and pruned
    progs, gstats = cc.typed_programs(rng.fork("gen"), binary, wd, 350 if quick else 6000, [1, 2, 2, 3, 3, 4])
    cases = corpus_cases()
    k = 0
    for p, _ar, _st in progs:
        pdl = pg.prog_pdl(p)
        feats = cc.prog_features(p)
        cases.append(Case("u%d" % k, "pdl", "0 " + pdl, None, {"features": feats, "pruned": 0}))
        if feats["fail"] == 0:
            cases.append(Case("q%d" % k, "pdl", "1 " + pdl, None, {"features": feats, "pruned": 1}))
        k += 1
    impl = vplib.run_harness(binary, "c03", ["%s %s %s" % (c.cid, c.kind, c.line) for c in cases], workdir=wd, timeout=600)
    pf1, _ = vplib.decide(rep, cases, impl, {}, prop_check, finding_match, nontrivial, what="Rust vs libsimplicity on generated programs")

    lap("generated_programs_s")
    # phase 2: mutations of the valid encodings, and random strings
    valid = []
    seen = set()
    for c in cases:
        d = c.meta.get("parsed")
        if d and "prog" in d and d.get("r_class") == 0:
            key = (tuple(d["prog"]), tuple(d["wit"]))
            if key not in seen:
                seen.add(key)
                valid.append((d["prog"], d["wit"]))
    r2 = rng.fork("mut")
    cases2 = []
    nmut = 4 if quick else 12
    for i, (p, w) in enumerate(valid):
        if len(p) > 400:
            continue
        for j in range(nmut):
            mp, mw, how = mutate(r2, p, w, valid)
            if r2.below(5) == 0:
                mp, mw, how2 = mutate(r2, mp, mw, valid)
                how += "+" + how2
            cases2.append(bytes_case("m%d_%d" % (i, j), mp, mw, {"origin": how}))
    # structural mutations of the node tables, encoded by the independent python encoder
    codes = cc.jet_codes(binary, wd)
    r3 = rng.fork("table")
    ntab = 6 if quick else 14
    for i, (p, ar, _st) in enumerate(progs):
        if len(p) > 150:
            continue
        canon = cc.canon_table(p, ar)
        if i % 4 == 0:
            pb, wb = cc.encode_table(p, codes)
            cases2.append(bytes_case("tr%d" % i, pb, wb, {"origin": "table:as-generated"}))
        if i % 7 == 0:
            pb, wb = cc.encode_table(canon, codes)
            cases2.append(bytes_case("tc%d" % i, pb, wb, {"origin": "table:canonical"}))
        for j in range(ntab):
            q, how = cc.mutate_table(r3, canon)
            if how == "none":
                continue
            if r3.below(6) == 0:
                q, how2 = cc.mutate_table(r3, q)
                how += "&" + how2
            pb, wb = cc.encode_table(q, codes)
            cases2.append(bytes_case("t%d_%d" % (i, j), pb, wb, {"origin": "table:" + how}))
    for i, (p, w) in enumerate(random_strings(r2, 600 if quick else 20000)):
        cases2.append(bytes_case("r%d" % i, p, w, {"origin": "random"}))
    impl2 = vplib.run_harness(binary, "c03", ["%s %s %s" % (c.cid, c.kind, c.line) for c in cases2], workdir=wd, timeout=600)
    pf2, _ = vplib.decide(rep, cases2, impl2, {}, prop_check, finding_match, nontrivial, what="Rust vs libsimplicity on mutated and random byte strings")
    for c in cases2:
        bump("origin " + c.meta.get("origin", "?").split("+")[0].split("&")[0])

    lap("mutated_strings_s")
    # phase 3: the cost clause three ways (Coq reference vs Rust vs C) and the class tables
    cc_cases = cost_cases(cases + cases2)
    # spread the selection over all phases (generated, pruned, mutated)
    cap = 320 if quick else 6000
    if len(cc_cases) > cap:
        stride = len(cc_cases) / float(cap)
        cc_cases = [cc_cases[int(i * stride)] for i in range(cap)]
    ccs = [x[0] for x in cc_cases]
    expected = dict((x[0].cid, x[1]) for x in cc_cases)
    ccs.append(Case("classes", "classes", "60", "run_classes 60", {}))
    timpl = vplib.run_harness(binary, "c06", ["classes classes 60"], workdir=wd)
    expected["classes"] = timpl.get("classes")
    vals, logs = vplib.coq_eval(IMPORTS, [c.expr for c in ccs], workdir=wd, tag="c03cost", batch=80)
    if any(logs):
        raise vplib.Infra("model evaluation failed in Coq:\n" + [l for l in logs if l][0][-3000:])
    model = dict((c.cid, v) for c, v in zip(ccs, vals))
    ev0 = rep.coverage.get("evaluations", 0)
    ci0 = rep.coverage["correspondence"]["cases_impl"]
    nviol = len(rep.violations)
    vplib.decide(rep, ccs, expected, model, None, None, None, what="cost reference Cdiff/CostRef.v vs Rust and C cost bounds (and class tables)")
    if (pf1 or pf2) and len(rep.violations) > nviol:
        # a concrete failing input was already reported above; do not add a second, input-less line for the same cause
        rep.notes.append("cost reference also disagrees with the implementation: " + rep.violations[-1][2])
        del rep.violations[nviol:]
    rep.coverage["evaluations"] = ev0
    rep.coverage["correspondence"]["cases_impl"] = ci0
    rep.coverage["cost_three_way_cases"] = len(cc_cases)
    lap("cost_reference_s")
    rep.coverage["timing"] = T

    import re
    used = set()
    feat = {}
    for c in cases:
        if c.kind != "pdl":
            continue
        used.update(re.findall(r"jet\.e\.(\w+)", c.line))
        for fk, fv in c.meta.get("features", {}).items():
            if fv and fk != "nodes":
                feat["programs_with_" + fk] = feat.get("programs_with_" + fk, 0) + 1
    rep.coverage["distinct_jets_in_generated_programs"] = len(used)
    rep.coverage["feature_histogram"] = feat
    rep.coverage["generator"] = gstats
    rep.coverage["statistics"] = dict(sorted(STATS.items()))
    rep.coverage["limits"] = lim
    rep.coverage["notes_on_the_code"] = cc.CODE_NOTES
    rep.coverage["rule"] = (
        "inputs: (i) encodings (program bytes, witness bytes) of generated well-typed 1->1 Elements programs (jets of I/O "
        "width <= 600 bits as leaves, witnesses filled at the inferred types, hidden branches/assertions, disconnect, words, "
        "DAG sharing), each unpruned and pruned with the dummy environment; (ii) mutations of those encodings (bit flips, "
        "truncation, extension, splice, padding bits, foreign witness) and random strings with plausible structure.  "
        "distinct = distinct (program bytes, witness bytes) pair; non-trivial = program of at least 2 bytes that the harness "
        "could process")
    alls = cases + cases2
    step = max(1, len(alls) // 5)
    rep.coverage["samples"] = [
        {"kind": c.kind, "origin": c.meta.get("origin", "generated"), "args": c.line[:300],
         "rust_class": (c.meta.get("parsed") or {}).get("r_class"), "c_class": (c.meta.get("parsed") or {}).get("c_class"),
         "c_raw_err": (c.meta.get("parsed") or {}).get("c_raw"), "rust_cost": (c.meta.get("parsed") or {}).get("r_cost"),
         "c_cost": (c.meta.get("parsed") or {}).get("c_cost")}
        for c in alls[::step][:6]]
    vplib.finish_proof_verdict(rep, pf1 or pf2)
    rep.assumptions += [
        "FAIL_CODE verdicts of C are excluded from the accept/reject comparison (the property's designed exception); hits: %d" % STATS.get("fail_node_excluded", 0),
        "inputs refused by C for a resource limit (EXEC_MEMORY in fillWitnessData, MALLOC) are outside the property; hits: %d" % STATS.get("outside_limits_c_resource", 0),
        "cost bounds are compared only when C's cell bound <= CELLS_MAX; accepted beyond: %d, of which with different cost: %d"
        % (STATS.get("accepted_beyond_CELLS_MAX", 0), STATS.get("cost_differs_beyond_CELLS_MAX", 0)),
    ]


def replay(obj):
    import json
    print(json.dumps({k: v for k, v in obj.items() if k != "case"}, indent=1)[:3000])
    c = obj.get("case")
    if not c:
        return 0
    binary, _ = vplib.harness_build("debug", crate=cc.CRATE)
    case = Case(c["id"], c["kind"], c["harness_args"], None, {})
    wd = os.path.join(vplib.WORK, PROP)
    os.makedirs(wd, exist_ok=True)
    if case.kind in ("bytes", "pdl"):
        impl = vplib.run_harness(binary, "c03", ["%s %s %s" % (case.cid, case.kind, case.line)], workdir=wd)
        r = impl.get(case.cid)
        print("case          :", case.kind, case.line)
        chk = prop_check(case, r)
        d = case.meta.get("parsed") or {}
        print("rust          : class %s detail %s cost %s" % (d.get("r_class"), d.get("r_detail"), d.get("r_cost")))
        print("C             : class %s raw -%s stage %s cost %s cells %s" % (d.get("c_class"), d.get("c_raw"), d.get("c_stage"), d.get("c_cost"), d.get("c_cells")))
        for nm in ("cmr", "amr", "ihr"):
            print("%s rust / C  : %s / %s" % (nm, cc.hexs(d.get("r_" + nm) or []), cc.hexs(d.get("c_" + nm) or [])))
        print("property      :", chk)
    else:
        print("model-only case:", case.kind, case.line[:500])
    return 0
