(* C16 - the hypotheses of the theorems are satisfiable, the executable instance used by the
   correspondence check satisfies them, and the premise about the sentinel cost is needed. *)
From RS Require Import Lib.Tac Lib.Outcome Policy.PolicyAst Policy.Sort Policy.Compile Policy.Satisfy
  Policy.Sem Policy.Cost Policy.Run.
Import ListNotations.
Local Open Scope N_scope.

(* the environment / satisfier pair built by Run.v is truthful whenever the lock-time answers
   do not exceed what the environment grants (this is what tools/props/c16.py generates) *)
Lemma mk_truthful lock_time sequence after_max older_max keys pres :
  after_max <= lock_height lock_time sequence -> older_max <= lock_distance sequence ->
  truthful (mk_env lock_time sequence) (mk_sat after_max older_max keys pres).
Proof.
  intros Ha Ho. constructor; cbn [mk_env mk_sat s_sig s_pre s_after s_older e_verify e_sha e_lock_height e_lock_distance].
  - intros k _. apply N.eqb_refl.
  - reflexivity.
  - intros n Hn. apply N.leb_le in Hn. lia.
  - intros n Hn. apply N.leb_le in Hn. lia.
Qed.

Definition ex_policy : policy := Thresh 2 [Key 7; Or (Sha256 9) (After 5); And (Older 3) (Key 8)].
Definition ex_sat : satisfier := mk_sat 11 4 [7] [9].
Definition ex_env : envo := mk_env 11 4.

Example ex_wf : wf ex_policy.
Proof. apply wfb_wf. vm_compute. reflexivity. Qed.

Example ex_truthful : truthful ex_env ex_sat.
Proof. apply mk_truthful; vm_compute; discriminate. Qed.

Ltac child_cost :=
  let a := fresh "a" in let E := fresh "E" in
  intros a E; vm_compute in E; first [discriminate E | injection E as <-; eexists; split; [vm_compute; reflexivity|vm_compute; reflexivity]].

Example ex_cost_ok : cost_ok free_hf (fin_cost (H := fh)) CONSENSUS_MAX ex_sat ex_policy.
Proof.
  cbn [cost_ok ex_policy].
  split; [split; [exact I|child_cost]|].
  split; [split; [|child_cost]|].
  - split; [exact I|]. split; [exact I|].
    intros a b E1 E2. vm_compute in E1, E2. injection E1 as <-. injection E2 as <-.
    split; vm_compute; discriminate.
  - split; [|exact I]. split; [split; exact I|child_cost].
Qed.

Example ex_holds : holds ex_sat ex_policy = true.
Proof. vm_compute. reflexivity. Qed.

(* the satisfier returns a program, and by computation it has the policy's root and runs *)
Example ex_satisfy :
  exists prog, satisfy free_hf fh_eq ex_env (fin_cost (H := fh)) CONSENSUS_MAX ex_sat ex_policy = Ok prog /\
               policy_cmr free_hf ex_policy = Ok (cmr free_hf prog) /\
               eval ex_env prog VUnit = Some VUnit.
Proof. eexists. split; [vm_compute; reflexivity|]. split; vm_compute; reflexivity. Qed.

(* with fewer answers the same policy is false and satisfaction is refused *)
Example ex_unsat :
  holds (mk_sat 4 4 [7] [9]) (Thresh 3 [Key 7; Or (Sha256 9) (After 5); And (Older 3) (Key 8)]) = false /\
  satisfy free_hf fh_eq ex_env (fin_cost (H := fh)) CONSENSUS_MAX (mk_sat 4 4 [7] [9])
          (Thresh 3 [Key 7; Or (Sha256 9) (After 5); And (Older 3) (Key 8)]) = Err Unsatisfiable.
Proof. split; vm_compute; reflexivity. Qed.

(* the threshold arm gives unsatisfiable children the cost CONSENSUS_MAX and sorts stably by
   cost: a satisfiable child that costs as much is not preferred, so without the premise the
   equivalence fails *)
Lemma sentinel_premise_needed :
  exists (fc : node fh -> option N) (s : satisfier) (p : policy),
    wf p /\ holds s p = true /\
    exists h, satisfy_internal free_hf fc CONSENSUS_MAX s p = Ok (inr h).
Proof.
  exists (fun _ => Some CONSENSUS_MAX), (mk_sat 0 0 [] []), (Thresh 1 [Unsat 0; Trivial]).
  split; [apply wfb_wf; vm_compute; reflexivity|]. split; [vm_compute; reflexivity|].
  eexists. vm_compute. reflexivity.
Qed.

(* shared case nodes: two equal threshold children, one selected - the tracker is keyed by the
   node identity, so pruning keeps both as `case` (observed on the implementation as well:
   harness line `sat 3 #1:2 H1 H1 0 0 0 0 0 2`) *)
Example ex_shared_case :
  run_sat (Thresh 1 [Sha256 104; Sha256 104]) 0 0 0 0 [] [104] =
  [1; 1; 1; 1; 16100; 4; 1; 1; 3; 104; 1; 0; 3; 104; 58;
   15; 32; 1; 12; 1; 10; 15; 32; 0; 5; 15; 256; 104; 14; 4; 12; 10; 14; 5; 6; 14; 6; 6; 10; 14; 8; 6; 14; 7; 6;
   15; 32; 1; 6; 5; 7; 6;
   12; 1; 10; 15; 32; 0; 5; 15; 256; 104; 14; 4; 12; 10; 14; 5; 6; 14; 6; 6; 10; 14; 8; 6; 14; 7; 6;
   15; 32; 1; 6; 5; 7; 6; 10; 14; 10; 6; 0; 5; 6; 10; 14; 9; 6; 14; 7; 6].
Proof. vm_compute. reflexivity. Qed.
