(* C02 - re-encoding when some nodes have no sharing id (commitment time: a node that contains a witness or
   disconnect node has no identity hash and is never shared; the encoder's tracker returns None for it and
   yields it again for every reference).
   THEOREM traverse_partial: if the ids that exist distinguish the nodes, and every node without id is
   referenced by at most one node and only once there, the traversal under these ids is the traversal under
   pointer identity; hence (reencode_partial_ids) a table that the decoder's second pass accepts is re-encoded
   as itself - the statement Props/C02.v kept as C02_reencode_partial_ids_statement.

   Proof: simulation of `visit ch key` by `visit ch key_ptr` with the invariant that every yielded node without
   id has a parent that is yielded or still being expanded (list A); a node without id is then never visited a
   second time, because its only parent is neither yielded nor above itself. *)
From RS Require Import Lib.Tac Lib.Outcome Lib.Bits Lib.ListExtra Lib.Sweep Bits.Natural Bits.BitIter
  Codec.NodeCodec Codec.Linearise Codec.Decode Codec.Structure.
Import ListNotations.
Local Open Scope N_scope.

Lemma idx_in_app_none new out q : ~ In q (map fst new) -> idx_in (new ++ out) q = idx_in out q.
Proof.
  induction new as [|[p cs] r IH]; intros H; [reflexivity|]. cbn [app idx_in].
  destruct (N.eqb_spec p q) as [->|Hne]; [exfalso; apply H; left; reflexivity|].
  apply IH. intros Hin. apply H. right. exact Hin.
Qed.

Lemma idx_in_some_mono new out q i : idx_in out q = Some i -> idx_in (new ++ out) q <> None.
Proof.
  intros H. induction new as [|[p cs] r IH]; cbn [app idx_in]; [congruence|].
  destruct (p =? q); [discriminate|exact IH].
Qed.

Section Partial.
Variable ch : N -> list N.
Variable key : N -> option N.
Variable bound : N.
Hypothesis ch_wf : forall n c, In c (ch n) -> c < n.
Hypothesis ch_arity : forall n, (length (ch n) <= 2)%nat.
Hypothesis key_inj : forall p q k, p < bound -> q < bound -> key p = Some k -> key q = Some k -> p = q.
Hypothesis uniq_parent : forall c q1 q2, c < bound -> key c = None -> In c (ch q1) -> In c (ch q2) -> q1 = q2.
Hypothesis uniq_slot : forall n a b, ch n = [a; b] -> (key a = None \/ key b = None) -> a <> b.

Notation inv_p := (inv ch (fun p => p) bound).

Definition inv_k (s : tstate) : Prop :=
  forall p k, p < bound -> key p = Some k -> tm_get (ts_map s) k = idx_in (ts_out s) p.

(* every yielded node without id (other than [x]) has a parent that is yielded or in A *)
Definition just (A : list N) (out : list (N * list N)) (x : option N) : Prop :=
  forall c, c < bound -> key c = None -> Some c <> x -> idx_in out c <> None ->
  exists q, In c (ch q) /\ (idx_in out q <> None \/ In q A).

Lemma just_weaken A A' out x : (forall q, In q A -> In q A') -> just A out x -> just A' out x.
Proof.
  intros Hsub J c Hc Hk Hx Hy. destruct (J c Hc Hk Hx Hy) as (q & Hq & [H|H]); exists q; split; auto.
Qed.

Lemma ptr_total : forall p, p < bound -> key_ptr p = Some ((fun p => p) p).
Proof. reflexivity. Qed.
Lemma ptr_inj : forall p q : N, p < bound -> q < bound -> (fun p => p) p = (fun p => p) q -> p = q.
Proof. auto. Qed.

Lemma seen_k s n : inv_k s -> n < bound ->
  seen key (ts_map s) n = match key n with Some _ => idx_in (ts_out s) n | None => None end.
Proof. intros I Hn. unfold seen. destruct (key n) as [k|] eqn:E; [apply I; assumption|reflexivity]. Qed.

Lemma seen_p s n : inv_p s -> n < bound -> seen key_ptr (ts_map s) n = idx_in (ts_out s) n.
Proof. intros I Hn. apply (seen_key ch key_ptr (fun p => p) bound ptr_total s n I Hn). Qed.

Definition sim_post (A : list N) (n : N) (rk rp : N * tstate) : Prop :=
  fst rk = fst rp /\ same (snd rk) (snd rp) /\ inv_k (snd rk) /\ just A (ts_out (snd rp)) (Some n).

Definition sim_at (f : nat) : Prop :=
  forall n, n < N.of_nat f -> n < bound -> forall A sk sp,
  inv_k sk -> inv_p sp -> same sk sp -> just A (ts_out sp) None ->
  (forall q, In q A -> idx_in (ts_out sp) q = None /\ n < q) ->
  (key n = None -> idx_in (ts_out sp) n = None) ->
  sim_post A n (visit ch key f n sk) (visit ch key_ptr f n sp).

(* the state after the node itself is yielded *)
Lemma yield_post A n cis sk sp :
  n < bound -> inv_k sk -> inv_p sp -> same sk sp ->
  idx_in (ts_out sp) n = None ->
  (forall c, c < bound -> key c = None -> c <> n -> idx_in (ts_out sp) c <> None ->
     exists q, In c (ch q) /\ (idx_in (ts_out sp) q <> None \/ q = n \/ In q A)) ->
  sim_post A n
    (ts_next sk, mk_ts (match key n with Some k => (k, ts_next sk) :: ts_map sk | None => ts_map sk end)
                       ((n, cis) :: ts_out sk) (ts_next sk + 1))
    (ts_next sp, mk_ts ((n, ts_next sp) :: ts_map sp) ((n, cis) :: ts_out sp) (ts_next sp + 1)).
Proof.
  intros Hn Ik Ip [So Sn] Hun J. unfold sim_post. cbn [fst snd ts_out ts_map ts_next].
  split; [exact Sn|]. split; [split; cbn [ts_out ts_next]; congruence|]. split.
  - (* inv_k *)
    intros p k Hp Hk. cbn [ts_map ts_out idx_in].
    destruct Ip as (N1 & _).
    destruct (N.eqb_spec n p) as [->|Hne].
    + rewrite Hk. cbn [tm_get]. rewrite N.eqb_refl. rewrite Sn, N1, So. reflexivity.
    + destruct (key n) as [kn|] eqn:En.
      * cbn [tm_get]. destruct (N.eqb_spec kn k) as [->|Hk2]; [exfalso; apply Hne; apply (key_inj n p k); assumption|].
        apply Ik; assumption.
      * apply Ik; assumption.
  - intros c Hc Hkc Hx Hy. cbn [idx_in] in Hy.
    assert (Hcn : c <> n) by congruence.
    destruct (N.eqb_spec n c) as [->|_]; [congruence|].
    destruct (J c Hc Hkc Hcn Hy) as (q & Hq & [H|[E|H]]); exists q; split; auto.
    + left. cbn [idx_in]. destruct (n =? q); [discriminate|exact H].
    + left. cbn [idx_in]. subst q. rewrite N.eqb_refl. discriminate.
Qed.

Lemma sim_all : forall f, sim_at f.
Proof.
  induction f as [|f IH]; intros n Hf Hb A sk sp Ik Ip Ss Jj HA Hnk; [lia|].
  cbn [visit]. rewrite (seen_k sk n Ik Hb), (seen_p sp n Ip Hb).
  destruct Ss as [So Sn].
  (* the two `seen` tests agree *)
  assert (Hseen : match key n with Some _ => idx_in (ts_out sk) n | None => None end = idx_in (ts_out sp) n).
  { destruct (key n) as [k|] eqn:E; [rewrite So; reflexivity|symmetry; apply Hnk; reflexivity]. }
  rewrite Hseen. destruct (idx_in (ts_out sp) n) as [i|] eqn:E0.
  { unfold sim_post. cbn [fst snd]. split; [reflexivity|]. split; [split; assumption|]. split; [exact Ik|].
    intros c Hc Hk Hx Hy. apply (Jj c Hc Hk ltac:(discriminate) Hy). }
  (* facts about the pointer side from Codec/Structure.v *)
  assert (Vp : forall c, c < n -> vspec ch (fun p => p) bound (visit ch key_ptr f) c).
  { intros c Hc. apply (visit_spec ch key_ptr (fun p => p) bound ch_wf ptr_total ptr_inj). lia. }
  (* a fresh node without id among the children of n has not been yielded *)
  assert (Hfresh : forall c out, In c (ch n) -> key c = None -> idx_in out n = None -> just A out None ->
            (forall q, In q A -> idx_in out q = None) -> idx_in out c = None).
  { intros c out Hc Hk Hn0 J HAo. destruct (idx_in out c) as [j|] eqn:Ec; [exfalso|reflexivity].
    pose proof (ch_wf n c Hc) as Lc.
    destruct (J c ltac:(lia) Hk ltac:(discriminate) ltac:(congruence)) as (q & Hq & [H|H]).
    - rewrite (uniq_parent c q n ltac:(lia) Hk Hq Hc) in H. congruence.
    - rewrite (uniq_parent c q n ltac:(lia) Hk Hq Hc) in H. destruct (HA n H) as [_ X]. lia. }
  pose proof (ch_arity n) as Har.
  destruct (ch n) as [|a [|b [|c r]]] eqn:Ech; cbn [length] in Har; try lia; cbn [go_list].
  - (* no children *)
    rewrite (seen_k sk n Ik Hb), (seen_p sp n Ip Hb), Hseen, E0.
    apply (yield_post A n [] sk sp Hb Ik Ip (conj So Sn) E0).
    intros c Hc Hk Hcn Hy. destruct (Jj c Hc Hk ltac:(discriminate) Hy) as (q & Hq & [H|H]); exists q; auto.
  - (* one child *)
    assert (Ha : In a (ch n)) by (rewrite Ech; left; reflexivity). pose proof (ch_wf n a Ha) as La.
    assert (HAa : forall q, In q A -> idx_in (ts_out sp) q = None /\ a < q).
    { intros q Hq. destruct (HA q Hq). split; [assumption|lia]. }
    assert (Hna : key a = None -> idx_in (ts_out sp) a = None).
    { intros Hk. apply (Hfresh a (ts_out sp) (or_introl eq_refl) Hk E0 Jj). intros q Hq. apply (HA q Hq). }
    destruct (IH a ltac:(lia) ltac:(lia) A sk sp Ik Ip (conj So Sn) Jj HAa Hna) as (F1 & [So1 Sn1] & Ik1 & J1).
    destruct (Vp a La sp Ip ltac:(lia)) as (Ip1 & X1 & [[new1 [En1 Bn1]] M1]).
    destruct (visit ch key f a sk) as [ia sk1]. destruct (visit ch key_ptr f a sp) as [ja sp1]. cbn [fst snd] in *.
    subst ja.
    assert (E1 : idx_in (ts_out sp1) n = None).
    { rewrite En1, idx_in_app_none; [exact E0|]. intros Hin. specialize (Bn1 n Hin). lia. }
    rewrite (seen_k sk1 n Ik1 Hb), (seen_p sp1 n Ip1 Hb).
    replace (match key n with Some _ => idx_in (ts_out sk1) n | None => None end) with (@None N)
      by (destruct (key n); [rewrite So1, E1|]; reflexivity).
    rewrite E1.
    apply (yield_post A n [ia] sk1 sp1 Hb Ik1 Ip1 (conj So1 Sn1) E1).
    intros c Hc Hk Hcn Hy. destruct (N.eq_dec c a) as [->|Hca].
    + exists n. split; [exact Ha|right; left; reflexivity].
    + destruct (J1 c Hc Hk ltac:(congruence) Hy) as (q & Hq & [H|H]); exists q; auto.
  - (* two children *)
    assert (Ha : In a (ch n)) by (rewrite Ech; left; reflexivity). pose proof (ch_wf n a Ha) as La.
    assert (Hbn : In b (ch n)) by (rewrite Ech; right; left; reflexivity). pose proof (ch_wf n b Hbn) as Lb.
    assert (HAa : forall q, In q A -> idx_in (ts_out sp) q = None /\ a < q).
    { intros q Hq. destruct (HA q Hq). split; [assumption|lia]. }
    assert (Hna : key a = None -> idx_in (ts_out sp) a = None).
    { intros Hk. apply (Hfresh a (ts_out sp) (or_introl eq_refl) Hk E0 Jj). intros q Hq. apply (HA q Hq). }
    destruct (IH a ltac:(lia) ltac:(lia) A sk sp Ik Ip (conj So Sn) Jj HAa Hna) as (F1 & [So1 Sn1] & Ik1 & J1).
    destruct (Vp a La sp Ip ltac:(lia)) as (Ip1 & X1 & [[new1 [En1 Bn1]] M1]).
    destruct (visit ch key f a sk) as [ia sk1]. destruct (visit ch key_ptr f a sp) as [ja sp1]. cbn [fst snd] in *.
    subst ja.
    assert (E1 : idx_in (ts_out sp1) n = None).
    { rewrite En1, idx_in_app_none; [exact E0|]. intros Hin. specialize (Bn1 n Hin). lia. }
    assert (HA1 : forall q, In q A -> idx_in (ts_out sp1) q = None).
    { intros q Hq. destruct (HA q Hq) as [H0 Hl]. rewrite En1, idx_in_app_none; [exact H0|].
      intros Hin. specialize (Bn1 q Hin). lia. }
    (* the second child: ancestors n :: A *)
    assert (Jb : just (n :: A) (ts_out sp1) None).
    { intros c Hc Hk _ Hy. destruct (N.eq_dec c a) as [->|Hca].
      - exists n. split; [exact Ha|right; left; reflexivity].
      - destruct (J1 c Hc Hk ltac:(congruence) Hy) as (q & Hq & [H|H]); exists q; split; auto. right. right. exact H. }
    assert (HAb : forall q, In q (n :: A) -> idx_in (ts_out sp1) q = None /\ b < q).
    { intros q [<-|Hq]; [split; [exact E1|lia]|]. split; [apply HA1, Hq|]. destruct (HA q Hq). lia. }
    assert (Hnb : key b = None -> idx_in (ts_out sp1) b = None).
    { intros Hk. destruct (idx_in (ts_out sp1) b) as [j|] eqn:Eb; [exfalso|reflexivity].
      assert (Hab : a <> b) by (apply (uniq_slot n a b Ech); right; exact Hk).
      destruct (J1 b ltac:(lia) Hk ltac:(congruence) ltac:(congruence)) as (q & Hq & [H|H]).
      - rewrite (uniq_parent b q n ltac:(lia) Hk Hq Hbn) in H. congruence.
      - rewrite (uniq_parent b q n ltac:(lia) Hk Hq Hbn) in H. destruct (HA n H) as [_ X]. lia. }
    destruct (IH b ltac:(lia) ltac:(lia) (n :: A) sk1 sp1 Ik1 Ip1 (conj So1 Sn1) Jb HAb Hnb) as (F2 & [So2 Sn2] & Ik2 & J2).
    destruct (Vp b Lb sp1 Ip1 ltac:(lia)) as (Ip2 & X2 & [[new2 [En2 Bn2]] M2]).
    destruct (visit ch key f b sk1) as [ib sk2]. destruct (visit ch key_ptr f b sp1) as [jb sp2]. cbn [fst snd] in *.
    subst jb.
    assert (E2 : idx_in (ts_out sp2) n = None).
    { rewrite En2, idx_in_app_none; [exact E1|]. intros Hin. specialize (Bn2 n Hin). lia. }
    rewrite (seen_k sk2 n Ik2 Hb), (seen_p sp2 n Ip2 Hb).
    replace (match key n with Some _ => idx_in (ts_out sk2) n | None => None end) with (@None N)
      by (destruct (key n); [rewrite So2, E2|]; reflexivity).
    rewrite E2.
    apply (yield_post A n [ia; ib] sk2 sp2 Hb Ik2 Ip2 (conj So2 Sn2) E2).
    intros c Hc Hk Hcn Hy. destruct (N.eq_dec c b) as [->|Hcb].
    + exists n. split; [exact Hbn|right; left; reflexivity].
    + destruct (J2 c Hc Hk ltac:(congruence) Hy) as (q & Hq & [H|[E|H]]); exists q; auto.
Qed.

Lemma inv_k_init : inv_k ts_init.
Proof. intros p k _ _. reflexivity. Qed.

Theorem traverse_partial root : root < bound -> traverse ch key root = traverse ch key_ptr root.
Proof.
  intros Hb. unfold traverse.
  destruct (sim_all (S (N.to_nat root)) root ltac:(lia) Hb [] ts_init ts_init inv_k_init
              (inv_init ch (fun p => p) bound) (conj eq_refl eq_refl)) as (_ & [So _] & _).
  - intros c _ _ _ Hy. cbn in Hy. congruence.
  - intros q [].
  - reflexivity.
  - rewrite So. reflexivity.
Qed.

End Partial.
