(* C01 - Codec/GeneralHidden.v for tables over jets = positions in J::ALL with the hypotheses as boolean tests
   (finite sweeps over the table), and an example with an assertion that occurs twice. *)
From RS Require Import Lib.Tac Lib.Outcome Lib.Bits Lib.ListExtra Lib.Sweep Bits.Natural Bits.BitIter.
From RS Require Import Dag.DagModel Dag.PostOrderSpec Dag.PostOrderProps Dag.VisitFacts Dag.Acyclic.
From RS Require Import Codec.NodeCodec Codec.JetTab Codec.Linearise Codec.Decode Codec.Structure Codec.DagBridge
  Codec.PostOrderCanon Codec.General Codec.GeneralInst Codec.GeneralHidden Codec.Run Codec.Rules.
Import ListNotations.
Local Open Scope N_scope.

Definition hidn (ns : list dn) (p : N) : bool := hid N (node_at ns p).
Definition is_case (d : dn) : bool := match d with DCase _ _ => true | _ => false end.

Definition hidden_okb (ns : list dn) (keys : list (option N)) : bool :=
  let len := length ns in
  let key := key_list keys in
  Nat.eqb (length keys) len &&
  forallb (fun n => forallb (fun c => negb (hidn ns c) || is_case (node_at ns n)) (dchildren (node_at ns n))) (upto len) &&
  forallb (fun n => match node_at ns n with DCase i j => negb (hidn ns i && hidn ns j) | _ => true end) (upto len) &&
  negb (hidn ns (N.of_nat len - 1)) &&
  forallb (fun p => forallb (fun q =>
    match key p, key q with
    | Some a, Some b => if a =? b then Bool.eqb (hidn ns p) (hidn ns q) else true
    | _, _ => true
    end) (upto len)) (upto len) &&
  forallb (fun p => forallb (fun q =>
    match node_at ns p, node_at ns q with
    | DHidden h, DHidden h' =>
        if cmr_eqb h h' then match key p, key q with Some a, Some b => a =? b | _, _ => false end else true
    | _, _ => true
    end) (upto len)) (upto len).

Lemma node_at_big (ns : list dn) n : N.of_nat (length ns) <= n -> node_at ns n = DUnit.
Proof. intros H. unfold node_at. apply nth_overflow. unfold dn in *. lia. Qed.

Lemma key_list_big (keys : list (option N)) n : N.of_nat (length keys) <= n -> key_list keys n = None.
Proof. intros H. unfold key_list. apply nth_overflow. lia. Qed.

Lemma cmr_eqb_refl h : cmr_eqb h h = true.
Proof. unfold cmr_eqb. induction h as [|a h IH]; cbn; [reflexivity|]. rewrite N.eqb_refl. exact IH. Qed.

Theorem encode_decode_structure_hidden :
  forall (ns : list dn) (keys : list (option N)),
  wf_nodes N (fun _ => true) 0 ns -> ns <> [] -> keys_acyclic ns keys = true -> hidden_okb ns keys = true ->
  let lin := linearise ns (key_list keys) in
  dec_struct lin = Ok tt /\ linearise lin key_ptr = lin.
Proof.
  intros ns keys Hwf Hne Hac Hok lin.
  pose proof (keys_acyclic_sound ns keys Hwf Hac) as Hac'.
  unfold hidden_okb in Hok. cbv zeta in Hok.
  repeat (apply andb_true_iff in Hok; destruct Hok as [Hok ?]).
  apply Nat.eqb_eq in Hok.
  rename H into Hkeyb, H0 into Hclsb, H1 into Hrootb, H2 into Hbothb, H3 into Hparb.
  assert (Hpar : forall n c, In c (tch N ns n) -> hid N (node_at ns c) = true -> exists i j, node_at ns n = DCase i j).
  { intros n c Hc Hh. destruct (N.lt_ge_cases n (N.of_nat (length ns))) as [L|L].
    - pose proof (sweep1 _ _ Hparb n L) as X. cbv beta in X. rewrite forallb_forall in X. specialize (X c Hc).
      unfold hidn in X. rewrite Hh in X. cbn in X. destruct (node_at ns n); try discriminate X. eauto.
    - unfold tch in Hc. rewrite (node_at_big ns n L) in Hc. destruct Hc. }
  assert (Hboth : forall n i j, node_at ns n = DCase i j -> hid N (node_at ns i) && hid N (node_at ns j) = false).
  { intros n i j E. destruct (N.lt_ge_cases n (N.of_nat (length ns))) as [L|L].
    - pose proof (sweep1 _ _ Hbothb n L) as X. cbv beta in X. rewrite E in X. unfold hidn in X.
      apply negb_true_iff in X. exact X.
    - rewrite (node_at_big ns n L) in E. discriminate. }
  assert (Hroot : hid N (node_at ns (N.of_nat (length ns) - 1)) = false).
  { apply negb_true_iff in Hrootb. exact Hrootb. }
  assert (Hcls : forall p q k, key_list keys p = Some k -> key_list keys q = Some k ->
            hid N (node_at ns p) = hid N (node_at ns q)).
  { intros p q k Kp Kq.
    assert (Lp : p < N.of_nat (length ns)).
    { destruct (N.lt_ge_cases p (N.of_nat (length ns))) as [L|L]; [exact L|]. rewrite key_list_big in Kp by lia. discriminate. }
    assert (Lq : q < N.of_nat (length ns)).
    { destruct (N.lt_ge_cases q (N.of_nat (length ns))) as [L|L]; [exact L|]. rewrite key_list_big in Kq by lia. discriminate. }
    pose proof (sweep2 _ _ _ Hclsb p q Lp Lq) as X. cbv beta in X. rewrite Kp, Kq, N.eqb_refl in X.
    apply eqb_prop in X. exact X. }
  assert (Hkey : forall p q h, p < N.of_nat (length ns) -> q < N.of_nat (length ns) ->
            node_at ns p = DHidden h -> node_at ns q = DHidden h ->
            exists k, key_list keys p = Some k /\ key_list keys q = Some k).
  { intros p q h Lp Lq Ep Eq.
    pose proof (sweep2 _ _ _ Hkeyb p q Lp Lq) as X. cbv beta in X. rewrite Ep, Eq, cmr_eqb_refl in X.
    destruct (key_list keys p) as [a|]; [|discriminate X]. destruct (key_list keys q) as [b|]; [|discriminate X].
    apply N.eqb_eq in X. subst b. eauto. }
  split.
  - apply (lin_accepted_hidden N (fun _ => true) ns (key_list keys) Hwf Hne Hac' Hpar Hboth Hroot Hcls Hkey).
  - apply (lin_fixed_hidden N (fun _ => true) ns (key_list keys) Hwf Hne Hac' Hpar Hboth Hroot Hcls Hkey).
Qed.

(* non-vacuity: the same assertion (case with a hidden right branch) occurs twice as separate nodes; the ids
   identify the duplicates (hidden nodes by CMR); the written list has one copy and is accepted *)
Definition ex_hidden_ns : list dn :=
  [DUnit; DHidden H0; DCase 0 1; DUnit; DHidden H0; DCase 3 4; DPair 2 5; DUnit; DComp 6 7].
Definition ex_hidden_keys : list (option N) :=
  [Some 0; Some 1; Some 2; Some 0; Some 1; Some 2; Some 3; Some 0; Some 4].

Example ex_hidden_premises :
  wf_nodesb N (fun _ => true) 0 ex_hidden_ns = true /\ keys_acyclic ex_hidden_ns ex_hidden_keys = true /\
  hidden_okb ex_hidden_ns ex_hidden_keys = true /\
  linearise ex_hidden_ns (key_list ex_hidden_keys) = [DUnit; DHidden H0; DCase 0 1; DPair 2 2; DComp 3 0].
Proof. vm_compute. auto. Qed.
