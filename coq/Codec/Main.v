(* C01 / C02 - the layers put together: whatever the decoder accepts (node loop + second pass), re-encoded
   under any sharing ids that distinguish its nodes, is the input - as bits, and as bytes once the stream
   closed cleanly (fewer than 8 unread bits, all zero: Bits/BitIter.v bi_close_iff). *)
From RS Require Import Lib.Tac Lib.Outcome Lib.Bits Lib.ListExtra Lib.Sweep Bits.Natural Bits.BitIter Bits.BitWriter
  Codec.NodeCodec Codec.ProgCodec Codec.Linearise Codec.Decode Codec.Structure.
Import ListNotations.
Local Open Scope N_scope.

Lemma app_inj_len {A} (a : list A) : forall b c d, length a = length c -> a ++ b = c ++ d -> a = c /\ b = d.
Proof.
  induction a as [|x a IH]; intros b [|y c] d Hl E; cbn in Hl; try discriminate.
  - auto.
  - cbn [app] in E. injection E as -> E. destruct (IH b c d ltac:(lia) E) as [-> ->]. auto.
Qed.

Lemma bits_of_bytes_inj a : forall b, bytes_ok a -> bytes_ok b -> bits_of_bytes a = bits_of_bytes b -> a = b.
Proof.
  induction a as [|x a IH]; intros [|y b] Ha Hb E.
  - reflexivity.
  - apply (f_equal (@length bool)) in E. rewrite !bits_of_bytes_length in E. cbn in E. lia.
  - apply (f_equal (@length bool)) in E. rewrite !bits_of_bytes_length in E. cbn in E. lia.
  - inversion Ha as [|? ? Hx Ha']; subst. inversion Hb as [|? ? Hy Hb']; subst.
    cbn [bits_of_bytes flat_map] in E. fold (bits_of_bytes a) in E. fold (bits_of_bytes b) in E.
    unfold bits_of_byte in E.
    assert (E8 : bits_be 8 x = bits_be 8 y /\ bits_of_bytes a = bits_of_bytes b).
    { apply app_inj_len; [rewrite !bits_be_length; reflexivity|exact E]. }
    destruct E8 as [E8 Er]. f_equal; [|apply IH; assumption].
    apply (f_equal val_be) in E8. rewrite !val_be_bits_be in E8.
    rewrite !N.mod_small in E8 by assumption. exact E8.
Qed.

Section Jets.
Variable jet : Type.
Variable jet_okb : jet -> bool.
Variable jet_enc : jet -> list bool.
Variable jet_dec : list bool -> outcome dec_err (jet * list bool).
Hypothesis jet_dec_enc : forall j r, jet_okb j = true -> jet_dec (jet_enc j ++ r) = Ok (j, r).
Hypothesis jet_enc_dec : forall l j r, jet_dec l = Ok (j, r) -> l = jet_enc j ++ r /\ jet_okb j = true.
Hypothesis jet_dec_total : forall l, match jet_dec l with Panic _ | OutOfFuel => False | _ => True end.

(* decode ok => encode (decode b) = b, on the bit level *)
Theorem reencode_bits b ns r (key : N -> option N) (kf : N -> N) :
  dec_prog jet jet_dec b = Ok (ns, r) ->
  dec_struct ns = Ok tt ->
  (forall p, p < N.of_nat (length ns) -> key p = Some (kf p)) ->
  (forall p q, p < N.of_nat (length ns) -> q < N.of_nat (length ns) -> kf p = kf q -> p = q) ->
  enc_prog jet jet_enc (linearise ns key) ++ r = b.
Proof.
  intros Hd Hs Hk Hinj.
  destruct (syntax_canon jet jet_okb jet_enc jet_dec jet_dec_enc jet_enc_dec jet_dec_total b ns r Hd) as [-> (_ & _ & Hwf)].
  rewrite (reencode_id jet jet_okb ns key kf Hwf Hk Hinj Hs). reflexivity.
Qed.

(* ... and on the byte level: the writer's output for the re-encoded program is the input byte string *)
Theorem reencode_bytes bytes ns r (key : N -> option N) (kf : N -> N) :
  bytes_ok bytes ->
  dec_prog jet jet_dec (bits_of_bytes bytes) = Ok (ns, r) ->
  dec_struct ns = Ok tt ->
  (forall p, p < N.of_nat (length ns) -> key p = Some (kf p)) ->
  (forall p q, p < N.of_nat (length ns) -> q < N.of_nat (length ns) -> kf p = kf q -> p = q) ->
  (length r < 8)%nat -> Forall (fun b => b = false) r ->          (* what bits.close() checks *)
  bw_out (bw_flush_all (bw_write_bits bw_new (enc_prog jet jet_enc (linearise ns key)))) = bytes.
Proof.
  intros Hb Hd Hs Hk Hinj Hr8 Hr0.
  pose proof (reencode_bits _ ns r key kf Hd Hs Hk Hinj) as E.
  set (l := enc_prog jet jet_enc (linearise ns key)) in *.
  destruct (writer_reader l) as (pad & Hpad & Hout & _ & Hrem & Hlen). cbv zeta in *.
  set (out := bw_out (bw_flush_all (bw_write_bits bw_new l))) in *.
  rewrite bi_remaining_of_bytes in Hrem.
  apply bits_of_bytes_inj; [exact Hout|exact Hb|].
  rewrite Hrem, <- E. f_equal.
  (* both paddings are zero runs of the same length *)
  assert (Hrz : r = repeat false (length r)).
  { clear - Hr0. induction Hr0 as [|x r Hx _ IH]; [reflexivity|]. cbn [length repeat]. subst x. f_equal. exact IH. }
  rewrite Hrz. f_equal.
  pose proof (f_equal (@length bool) E) as EL. rewrite app_length, bits_of_bytes_length in EL.
  (* |l| + pad and |l| + |r| are both multiples of 8 below |l| + 8 *)
  lia.
Qed.

(* a program already in canonical form with distinguishable nodes is written as itself and read back *)
Theorem canonical_roundtrip ns r (key : N -> option N) (kf : N -> N) :
  wf_prog jet jet_okb ns -> dec_struct ns = Ok tt ->
  (forall p, p < N.of_nat (length ns) -> key p = Some (kf p)) ->
  (forall p q, p < N.of_nat (length ns) -> q < N.of_nat (length ns) -> kf p = kf q -> p = q) ->
  dec_prog jet jet_dec (enc_prog jet jet_enc (linearise ns key) ++ r) = Ok (ns, r).
Proof.
  intros Hwf Hs Hk Hi.
  rewrite (reencode_id jet jet_okb ns key kf (proj2 (proj2 Hwf)) Hk Hi Hs).
  exact (syntax_rt jet jet_okb jet_enc jet_dec jet_dec_enc jet_enc_dec jet_dec_total ns r Hwf).
Qed.

End Jets.
