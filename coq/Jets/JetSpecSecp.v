(* Specifications of the secp256k1 point jets of Core (affine points GE = FE * FE, Jacobian points
   GEJ = GE * FE), as functions on typed values, registered on top of Jets/JetSpecSha.v.
     src/jet/init/core.rs                                          names, table order, types
     simplicity-sys/depend/simplicity/jets-secp256k1.c             the jets (read_fe / write_fe reduce every coordinate)
     simplicity-sys/depend/simplicity/secp256k1/group_impl.h       gej_double_var, gej_add_var, gej_add_ge_var,
                                                                   gej_add_zinv_var, gej_rescale, ge_set_xo_var, ...
     simplicity-sys/depend/simplicity/secp256k1/ecmult_impl.h      secp256k1_ecmult (Strauss, wNAF, endomorphism)
     simplicity-sys/depend/simplicity/secp256k1/generator_impl.h   shallue_van_de_woestijne, generator_generate
   The C jets are not modelled limb by limb: a field element is its canonical representative
   (every jet normalises on output), but a Jacobian point is the exact triple (x, y, z) the
   formulas of libsecp256k1 produce, since that triple is what the jet returns.  libsecp256k1
   keeps an infinity flag beside the coordinates; in every function used here the flag is set
   exactly when z = 0 (read_gej sets it that way, every formula preserves it), so the model tests z.

   Field arithmetic: numbers below p, products reduced by folding the high half (2^256 = 2^32 + 977
   modulo p), which keeps one multiplication at a fraction of a millisecond under vm_compute;
   [red_spec] shows it is the remainder modulo p. *)
From Coq Require Import String.
From RS Require Import Lib.Tac Lib.Outcome Lib.Bits Ty.Ty Core.Prog Core.Term Core.Typing Core.Sem
  Jets.JetSpec Jets.JetSpecSha.
From RS Require Merkle.Sha256.
Import ListNotations.
Local Open Scope N_scope.

(* ------------------------------------------------------------------ the field *)
Definition P256 : N := 115792089237316195423570985008687907853269984665640564039457584007913129639936.  (* 2^256 *)
Definition M256 : N := 115792089237316195423570985008687907853269984665640564039457584007913129639935.  (* 2^256 - 1 *)
Definition FE_C : N := 4294968273.                                                                      (* 2^256 - p *)

Definition csub (x : N) : N := if FE_P <=? x then x - FE_P else x.
(* one folding step: x = hi * 2^256 + lo  |->  lo + hi * (2^256 - p) *)
Definition fold1 (x : N) : N := N.land x M256 + FE_C * N.shiftr x 256.
Definition red (x : N) : N := csub (fold1 (fold1 x)).

Definition fmul (a b : N) : N := red (a * b).
Definition fsqr (a : N) : N := red (a * a).
Definition fadd (a b : N) : N := csub (a + b).
Definition fneg (a : N) : N := if a =? 0 then 0 else FE_P - a.
Definition fsub (a b : N) : N := fadd a (fneg b).
Definition fhalf (a : N) : N := if N.odd a then (a + FE_P) / 2 else a / 2.
Definition fcube (a : N) : N := fmul (fsqr a) a.

(* a^e by repeated squaring over the binary digits of e *)
Definition fpow (a e : N) : N :=
  match e with
  | N0 => 1
  | Npos q =>
      (fix go (q : positive) : N :=
         match q with
         | xH => a
         | xO r => fsqr (go r)
         | xI r => fmul (fsqr (go r)) a
         end) q
  end.
Definition finv (a : N) : N := fpow a (FE_P - 2).            (* 0 |-> 0, as secp256k1_fe_inv_var *)
(* secp256k1_fe_sqrt_var: the candidate a^((p+1)/4) and whether its square is a *)
Definition fsqrt (a : N) : N * bool := let r := fpow a ((FE_P + 1) / 4) in (r, fsqr r =? a).

(* ------------------------------------------------------------------ points *)
Record gej := mkGej { gx : N; gy : N; gz : N }.
Definition ge := (N * N)%type.
Definition is_inf (a : gej) : bool := gz a =? 0.
Definition gej_inf : gej := mkGej 0 0 0.                     (* secp256k1_gej_set_infinity *)
Definition gej_of_ge (b : ge) : gej := mkGej (fst b) (snd b) 1.
Definition ge_neg (b : ge) : ge := (fst b, fneg (snd b)).
Definition gej_neg (a : gej) : gej := mkGej (gx a) (fneg (gy a)) (gz a).

(* secp256k1_gej_double_var; the second component is rzr *)
Definition gej_dbl (a : gej) : gej * N :=
  if is_inf a then (gej_inf, 1)
  else
    let l := fhalf (fmul 3 (fsqr (gx a))) in
    let s := fsqr (gy a) in
    let t := fneg (fmul s (gx a)) in
    let x3 := fadd (fsqr l) (fadd t t) in
    (mkGej x3 (fneg (fadd (fmul l (fadd x3 t)) (fsqr s))) (fmul (gz a) (gy a)), gy a).

(* the common tail of the three addition formulas *)
Definition add_tail (u1 s1 h i rz : N) : gej :=
  let h2 := fneg (fsqr h) in
  let h3 := fmul h2 h in
  let t := fmul u1 h2 in
  let x3 := fadd (fadd (fsqr i) h3) (fadd t t) in
  mkGej x3 (fadd (fmul (fadd t x3) i) (fmul h3 s1)) rz.

(* secp256k1_gej_add_var (rzr = NULL) *)
Definition gej_add (a b : gej) : gej :=
  if is_inf a then b
  else if is_inf b then a
  else
    let z22 := fsqr (gz b) in
    let z12 := fsqr (gz a) in
    let u1 := fmul (gx a) z22 in
    let u2 := fmul (gx b) z12 in
    let s1 := fmul (fmul (gy a) z22) (gz b) in
    let s2 := fmul (fmul (gy b) z12) (gz a) in
    let h := fsub u2 u1 in
    let i := fsub s1 s2 in
    if h =? 0 then (if i =? 0 then fst (gej_dbl a) else gej_inf)
    else add_tail u1 s1 h i (fmul (gz a) (fmul h (gz b))).

(* secp256k1_gej_add_ge_var (zs = 1) and secp256k1_gej_add_zinv_var (zs = bzinv): the z of a is
   multiplied by zs for x and y, not for the resulting z.  The second component is rzr
   (gej_ge_add_ex clears it beforehand, and the branch for a = infinity leaves it cleared). *)
Definition gej_add_ge_z (zs : N) (a : gej) (b : ge) : gej * N :=
  if is_inf a then
    let s2 := fsqr zs in (mkGej (fmul (fst b) s2) (fmul (snd b) (fmul s2 zs)) 1, 0)
  else
    let az := fmul (gz a) zs in
    let z12 := fsqr az in
    let u2 := fmul (fst b) z12 in
    let s2 := fmul (fmul (snd b) z12) az in
    let h := fsub u2 (gx a) in
    let i := fsub (gy a) s2 in
    if h =? 0 then (if i =? 0 then gej_dbl a else (gej_inf, 0))
    else (add_tail (gx a) (gy a) h i (fmul (gz a) h), h).
Definition gej_add_ge (a : gej) (b : ge) : gej * N := gej_add_ge_z 1 a b.

(* rustsimplicity_gej_is_valid_var (no test of z) and secp256k1_ge_is_valid_var *)
Definition gej_on_curve (a : gej) : bool :=
  fsqr (gy a) =? fadd (fcube (gx a)) (fmul 7 (fsqr (fcube (gz a)))).
Definition ge_on_curve (b : ge) : bool := fsqr (snd b) =? fadd (fcube (fst b)) 7.

(* secp256k1_gej_eq_var / secp256k1_gej_eq_ge_var: (-a) + b is the point at infinity *)
Definition gej_equiv (a b : gej) : bool := is_inf (gej_add (gej_neg a) b).
Definition gej_ge_equiv (a : gej) (b : ge) : bool := is_inf (fst (gej_add_ge (gej_neg a) b)).

(* secp256k1_ge_set_gej_var on a point with z <> 0 *)
Definition gej_affine (a : gej) : ge :=
  let zi := finv (gz a) in
  let zi2 := fsqr zi in
  (fmul (gx a) zi2, fmul (gy a) (fmul zi zi2)).

Definition gej_rescale (a : gej) (s : N) : gej :=
  let ss := fsqr s in mkGej (fmul (gx a) ss) (fmul (fmul (gy a) ss) s) (fmul (gz a) s).

(* secp256k1_ge_set_xo_var *)
Definition lift_x (x : N) (odd : bool) : option ge :=
  let '(y, ok) := fsqrt (fadd (fcube x) 7) in
  if ok then Some (x, if Bool.eqb (N.odd y) odd then y else fneg y) else None.

(* ------------------------------------------------------------------ secp256k1_ecmult *)
Definition G_X : N := 55066263022277343669578718895168534326250603453777594175500187360389116729240.
Definition G_Y : N := 32670510020758816978083085130507043184471273380659243275938904335757337482424.
(* 2^128 * G (the first entry of secp256k1_pre_g_128; [g128_ok] below) *)
Definition G128_X : N := 64865771952738249789114440545196421582918768733599534045195125031385885360346.
Definition G128_Y : N := 46211216742671250426576585530459394900178019437443360579906162037052661563266.

Definition SPLIT_G1 : N := 21949224512762693861512883645436906316123769664773102907882521278123970637873.
Definition SPLIT_G2 : N := 103246583619904461035481197785446227098457807945486720222659797044629401272177.
Definition MINUS_B1 : N := 303414439467246543595250775667605759171.
Definition MINUS_B2 : N := 115792089237316195423570985008687907852773061305525697825976578096156627785260.

(* secp256k1_scalar_mul_shift_var (shift = 384): the product shifted, rounded to nearest *)
Definition mul_shift_384 (a b : N) : N :=
  let m := a * b in N.shiftr m 384 + (if N.testbit m 383 then 1 else 0).

(* secp256k1_scalar_split_lambda: k = r1 + r2 * lambda (mod n) *)
Definition split_lambda (k : N) : N * N :=
  let c1 := (mul_shift_384 k SPLIT_G1 * MINUS_B1) mod SC_N in
  let c2 := (mul_shift_384 k SPLIT_G2 * MINUS_B2) mod SC_N in
  let r2 := (c1 + c2) mod SC_N in
  let r1 := ((SC_N - (r2 * SC_LAMBDA) mod SC_N) + k) mod SC_N in
  (r1, r2).

(* secp256k1_ecmult_wnaf with len = 129: the digits, least significant first *)
Fixpoint wnaf_go (fuel : nat) (w : N) (sign : Z) (s bit carry : N) : list Z :=
  match fuel with
  | O => []
  | S f =>
      if 129 <=? bit then []
      else if N.eqb (if N.testbit s bit then 1 else 0) carry then 0%Z :: wnaf_go f w sign s (bit + 1) carry
      else
        let now := N.min w (129 - bit) in
        let word := N.land (N.shiftr s bit) (2 ^ now - 1) + carry in
        let carry' := N.land (N.shiftr word (w - 1)) 1 in
        let digit := (sign * (Z.of_N word - Z.of_N (carry' * 2 ^ w)))%Z in
        digit :: repeat 0%Z (N.to_nat (now - 1)) ++ wnaf_go f w sign s (bit + now) carry'
  end.
Definition wnaf (w s : N) : list Z :=
  if N.testbit s 255 then wnaf_go 130 w (-1) (SC_N - s) 0 0 else wnaf_go 130 w 1 s 0 0.

(* secp256k1_ecmult_odd_multiples_table (n = 8): the entries with their z ratios, and the z they share *)
Fixpoint odd_steps (n : nat) (ai : gej) (d : ge) : list (ge * N) * gej :=
  match n with
  | O => ([], ai)
  | S k =>
      let '(ai', zr) := gej_add_ge ai d in
      let '(l, last) := odd_steps k ai' d in
      (((gx ai', gy ai'), zr) :: l, last)
  end.

(* secp256k1_ge_table_set_globalz: every entry is scaled by the product of the z ratios of the entries
   after it; the second component is that product including the entry's own ratio *)
Fixpoint globalz (l : list (ge * N)) : list ge * N :=
  match l with
  | [] => ([], 1)
  | (q, zr) :: r =>
      let '(r', zs) := globalz r in
      let zs2 := fsqr zs in
      ((fmul (fst q) zs2, fmul (snd q) (fmul zs2 zs)) :: r', fmul zs zr)
  end.

Definition odd_table (a : gej) : list ge * N :=
  let d := fst (gej_dbl a) in
  let dz := gz d in
  let dz2 := fsqr dz in
  let q0 := (fmul (gx a) dz2, fmul (gy a) (fmul dz2 dz)) in
  let '(l, last) := odd_steps 7 (mkGej (fst q0) (snd q0) (gz a)) (gx d, gy d) in
  (fst (globalz ((q0, dz) :: l)), fmul (gz last) dz).

(* the table entry of a signed odd digit *)
Definition tbl_get (xs ys : list N) (n : Z) : ge :=
  let k := Z.to_nat ((Z.abs n - 1) / 2) in
  (nth k xs 0, if (0 <? n)%Z then nth k ys 0 else fneg (nth k ys 0)).

(* |n| * base for the precomputed tables of G and 2^128 G, in Jacobian coordinates; normalised below *)
Fixpoint pmul (q : positive) (b : ge) : gej :=
  match q with
  | xH => gej_of_ge b
  | xO r => fst (gej_dbl (pmul r b))
  | xI r => fst (gej_add_ge (fst (gej_dbl (pmul r b))) b)
  end.
Definition g_entry (b : ge) (n : Z) : option gej :=
  match n with
  | Z0 => None
  | Zpos q => Some (pmul q b)
  | Zneg q => Some (gej_neg (pmul q b))
  end.

(* inverses of all elements of a list of nonzero field elements with one exponentiation:
   [binv zs pre] = (pre^-1, [z^-1 | z in zs]) *)
Fixpoint binv (zs : list N) (pre : N) : N * list N :=
  match zs with
  | [] => (finv pre, [])
  | z :: r => let '(iv, out) := binv r (fmul pre z) in (fmul iv z, fmul iv pre :: out)
  end.
Fixpoint with_inverses (l : list (option gej)) (invs : list N) : list (option ge) :=
  match l with
  | [] => []
  | None :: r => None :: with_inverses r invs
  | Some a :: r =>
      match invs with
      | zi :: invs' => let zi2 := fsqr zi in Some (fmul (gx a) zi2, fmul (gy a) (fmul zi zi2)) :: with_inverses r invs'
      | [] => None :: with_inverses r []
      end
  end.
Definition normalise_all (l : list (option gej)) : list (option ge) :=
  with_inverses l (snd (binv (flat_map (fun o => match o with Some a => [gz a] | None => [] end) l) 1)).

(* one iteration of the main loop of secp256k1_ecmult_strauss_wnaf, digits from the most significant *)
Fixpoint strauss (xs ys lam_xs : list N) (zg : N) (l : list ((Z * Z) * (option ge * option ge))) (r : gej) : gej :=
  match l with
  | [] => r
  | ((n1, nl), (g1, g128)) :: rest =>
      let r := fst (gej_dbl r) in
      let r := if (n1 =? 0)%Z then r else fst (gej_add_ge r (tbl_get xs ys n1)) in
      let r := if (nl =? 0)%Z then r else fst (gej_add_ge r (tbl_get lam_xs ys nl)) in
      let r := match g1 with Some q => fst (gej_add_ge_z zg r q) | None => r end in
      let r := match g128 with Some q => fst (gej_add_ge_z zg r q) | None => r end in
      strauss xs ys lam_xs zg rest r
  end.

(* secp256k1_ecmult: na * a + ng * G (na, ng reduced scalars) *)
Definition ecmult (a : gej) (na ng : N) : gej :=
  let skip := (na =? 0) || is_inf a in
  let '(tbl, zg) := if skip then ([], 1) else odd_table a in
  let '(k1, kl) := if skip then (0, 0) else split_lambda na in
  let xs := map fst tbl in
  let ys := map snd tbl in
  let lam_xs := map (fun x => fmul x FE_BETA) xs in
  let w1 := wnaf 5 k1 in
  let wl := wnaf 5 kl in
  let g1 := map (g_entry (G_X, G_Y)) (wnaf 15 (N.land ng (2 ^ 128 - 1))) in
  let g128 := map (g_entry (G128_X, G128_Y)) (wnaf 15 (N.shiftr ng 128)) in
  let gs := normalise_all (g1 ++ g128) in
  let digits := combine (combine w1 wl) (combine (firstn 129 gs) (skipn 129 gs)) in
  let r := strauss xs ys lam_xs zg (rev digits) gej_inf in
  if is_inf r then r else mkGej (gx r) (gy r) (fmul (gz r) zg).

(* linear_verify_1 / point_verify_1 after the checks of a and b: na * a + ng * G - b is the point at infinity *)
Definition verify_sum (a : ge) (na ng : N) (b : ge) : bool :=
  is_inf (fst (gej_add_ge (ecmult (gej_of_ge a) na ng) (ge_neg b))).

(* ------------------------------------------------------------------ shallue_van_de_woestijne, hash_to_curve *)
Definition SWU_NEGC : N := 111189151296659785738170805967605665488771904429376448443557023963485213164509.
Definition SWU_D : N := 60197513588986302554485582024885075108884032450952339817679072026166228089408.

Definition swu (t : N) : ge :=
  let t2 := fsqr t in
  let wd := fadd t2 8 in
  let x3d := fneg (fmul 3 t2) in
  let jinv := finv (fmul wd x3d) in
  let x1 := fadd (fmul (fmul (fmul SWU_NEGC t2) x3d) jinv) SWU_D in
  let x2 := fneg (fadd x1 1) in
  let x3 := fadd (fmul (fcube wd) jinv) 1 in
  let '(y1, q1) := fsqrt (fadd (fcube x1) 7) in
  let '(y2, q2) := fsqrt (fadd (fcube x2) 7) in
  let '(y3, _) := fsqrt (fadd (fcube x3) 7) in
  let '(x, y) := if q1 then (x1, y1) else if q2 then (x2, y2) else (x3, y3) in
  (x, if N.odd t then fneg y else y).

Definition ascii (s : string) : list N := string_bytes s.

(* secp256k1_generator_generate (no blinding); None: a hash is not below p *)
Definition hash_to_curve (key : list N) : option ge :=
  let t1 := val_be (bits_of_bytes (Sha256.sha256 (ascii "1st generation: " ++ key))) in
  let t2 := val_be (bits_of_bytes (Sha256.sha256 (ascii "2nd generation: " ++ key))) in
  if (t1 <? FE_P) && (t2 <? FE_P) then
    let r := fst (gej_add_ge (gej_of_ge (swu t1)) (swu t2)) in
    Some (if is_inf r then (0, 0) else gej_affine r)
  else None.

(* ------------------------------------------------------------------ values *)
Definition Fe : ty := word_ty 8.
Definition Ge : ty := word_ty 9.
Definition Gej : ty := Prod Ge Fe.
Definition Point : ty := Prod Bit Fe.            (* parity of y, x *)

Definition rd_fe (v : sval) : N := csub (word_num 8 v).
Definition rd_sc (v : sval) : N := (word_num 8 v) mod SC_N.
Definition wr_fe (x : N) : sval := num_word 8 x.
Definition rd_ge (v : sval) : ge := match v with SP x y => (rd_fe x, rd_fe y) | _ => (0, 0) end.
Definition wr_ge (b : ge) : sval := SP (wr_fe (fst b)) (wr_fe (snd b)).
Definition rd_gej (v : sval) : gej :=
  match v with SP xy z => let b := rd_ge xy in mkGej (fst b) (snd b) (rd_fe z) | _ => gej_inf end.
Definition wr_gej (a : gej) : sval := SP (wr_ge (gx a, gy a)) (wr_fe (gz a)).
Definition wr_bit (b : bool) : sval := if b then SR SU else SL SU.
Definition rd_bit (v : sval) : bool := match v with SR _ => true | _ => false end.
Definition wr_opt (o : option sval) : sval := match o with Some v => SR v | None => SL SU end.
Definition rd_point (v : sval) : option ge := match v with SP b x => lift_x (rd_fe x) (rd_bit b) | _ => None end.
Definition must (b : bool) : option sval := if b then Some SU else None.

Definition g1 (id : N) (nm : string) (s t : ty) (f : sval -> sval) : gspec := mkG id nm s t (fun a => Some (f a)).
Definition g2 (id : N) (nm : string) (s1 s2 t : ty) (f : sval -> sval -> sval) : gspec :=
  mkG id nm (Prod s1 s2) t (fun a => match a with SP x y => Some (f x y) | _ => None end).

Definition ec_table : list gspec :=
  [ g2 25 "decompress" Bit Fe (option_ty Ge)
       (fun b x => wr_opt (option_map wr_ge (lift_x (rd_fe x) (rd_bit b))));
    g1 115 "ge_is_on_curve" Ge Bit (fun a => wr_bit (ge_on_curve (rd_ge a)));
    g1 116 "ge_negate" Ge Ge (fun a => wr_ge (ge_neg (rd_ge a)));
    g2 117 "gej_add" Gej Gej Gej (fun a b => wr_gej (gej_add (rd_gej a) (rd_gej b)));
    g1 118 "gej_double" Gej Gej (fun a => wr_gej (fst (gej_dbl (rd_gej a))));
    g2 119 "gej_equiv" Gej Gej Bit (fun a b => wr_bit (gej_equiv (rd_gej a) (rd_gej b)));
    g2 120 "gej_ge_add" Gej Ge Gej (fun a b => wr_gej (fst (gej_add_ge (rd_gej a) (rd_ge b))));
    g2 121 "gej_ge_add_ex" Gej Ge (Prod Fe Gej)
       (fun a b => let '(r, rzr) := gej_add_ge (rd_gej a) (rd_ge b) in SP (wr_fe rzr) (wr_gej r));
    g2 122 "gej_ge_equiv" Gej Ge Bit (fun a b => wr_bit (gej_ge_equiv (rd_gej a) (rd_ge b)));
    g1 123 "gej_infinity" One Gej (fun _ => wr_gej gej_inf);
    g1 124 "gej_is_infinity" Gej Bit (fun a => wr_bit (is_inf (rd_gej a)));
    g1 125 "gej_is_on_curve" Gej Bit (fun a => wr_bit (gej_on_curve (rd_gej a)));
    g1 126 "gej_negate" Gej Gej (fun a => wr_gej (gej_neg (rd_gej a)));
    g1 127 "gej_normalize" Gej (option_ty Ge)
       (fun a => let p := rd_gej a in wr_opt (if is_inf p then None else Some (wr_ge (gej_affine p))));
    g2 128 "gej_rescale" Gej Fe Gej (fun a c => wr_gej (gej_rescale (rd_gej a) (rd_fe c)));
    g2 129 "gej_x_equiv" Fe Gej Bit
       (fun x a => let p := rd_gej a in wr_bit (negb (is_inf p) && (fmul (fsqr (gz p)) (rd_fe x) =? gx p)));
    g1 130 "gej_y_is_odd" Gej Bit
       (fun a => let p := rd_gej a in wr_bit (negb (is_inf p) && N.odd (snd (gej_affine p))));
    g1 131 "generate" Fe Gej (fun k => wr_gej (ecmult gej_inf 0 (rd_sc k)));
    mkG 132 "hash_to_curve" Fe Ge (fun k => option_map wr_ge (hash_to_curve (word_bytes 8 k)));
    mkG 214 "linear_combination_1" (Prod (Prod Fe Gej) Fe) Gej
        (fun v => match v with
                  | SP (SP na a) ng =>
                      let p := rd_gej a in
                      if gej_on_curve p then Some (wr_gej (ecmult p (rd_sc na) (rd_sc ng))) else None
                  | _ => None
                  end);
    mkG 215 "linear_verify_1" (Prod (Prod (Prod Fe Ge) Fe) Ge) One
        (fun v => match v with
                  | SP (SP (SP na a) ng) b =>
                      let p := rd_ge a in
                      let q := rd_ge b in
                      must (ge_on_curve p && ge_on_curve q && verify_sum p (rd_sc na) (rd_sc ng) q)
                  | _ => None
                  end);
    mkG 265 "point_verify_1" (Prod (Prod (Prod Fe Point) Fe) Point) One
        (fun v => match v with
                  | SP (SP (SP na a) ng) b =>
                      match rd_point a, rd_point b with
                      | Some p, Some q => must (verify_sum p (rd_sc na) (rd_sc ng) q)
                      | _, _ => None
                      end
                  | _ => None
                  end);
    mkG 330 "scale" (Prod Fe Gej) Gej
        (fun v => match v with
                  | SP na a =>
                      let p := rd_gej a in
                      if gej_on_curve p then Some (wr_gej (ecmult p (rd_sc na) 0)) else None
                  | _ => None
                  end);
    g1 355 "swu" Fe Ge (fun t => wr_ge (swu (rd_fe t))) ].
