(* cmr_collision for the SHA-256 instance: equal roots => equal up to hiding, or an explicit
   SHA-256 compression collision.  No idealising premise.  Uses decidable equality of
   primitive integers (Uint63.eqb_spec), hence the standard-library axioms eqb_correct /
   eqb_refl of Uint63.v appear under Print Assumptions. *)
From Coq Require Import Uint63.
From RS Require Import Lib.Tac Lib.Outcome Core.Prog Merkle.Sha256 Merkle.Tagged Merkle.Cmr
  Merkle.CmrStructure Merkle.CmrCollision Merkle.Real Merkle.RealSpec Generated.Ivs.
Import ListNotations.
Local Open Scope N_scope.

Lemma int_eq_dec (a b : int) : {a = b} + {a <> b}.
Proof.
  destruct (Uint63.eqb a b) eqn:E.
  - left. apply Uint63.eqb_spec. exact E.
  - right. intros ->. rewrite Uint63.eqb_refl in E. discriminate.
Qed.

Lemma rH_eq_dec (a b : rH) : {a = b} + {a <> b}.
Proof. unfold rH, state in *. repeat decide equality; apply int_eq_dec. Qed.

Definition iv0_fresh_ok : bool :=
  forallb (fun t => negb (bytes_eqb (bytes_of_state sha_iv0) (bytes_of_state (r_iv t)))) cmr_tags.

Lemma real_iv0_fresh : forall t, In t cmr_tags -> sha_iv0 <> r_iv t.
Proof.
  intros t Ht E.
  assert (C : iv0_fresh_ok = true) by (vm_compute; reflexivity).
  unfold iv0_fresh_ok in C. rewrite forallb_forall in C. specialize (C t Ht).
  rewrite <- E, bytes_eqb_refl in C. discriminate.
Qed.

Theorem real_cmr_collision : forall s1 s2, cwf rH s1 -> cwf rH s2 -> r_cmr_spec s1 = r_cmr_spec s2 ->
  heq rH r_compress r_iv r_zero r_of_weight r_jet_cmr s1 s2 \/ collision rH r_compress.
Proof.
  apply (cmr_collision rH r_compress r_iv r_zero r_of_weight r_jet_cmr sha_iv0 r_tag_block
           rH_eq_dec real_iv_unfold real_iv0_fresh).
  intros a b Ha Hb. apply real_iv_inj; apply in_or_app; left; assumption.
Qed.
