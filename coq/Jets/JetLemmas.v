(* C14: lemmas that turn the boolean checkers of Jets/JetTable.v into the quantified statements of
   Props/C14.v.  Nothing here depends on the generated tables. *)
From RS Require Import Lib.Tac Lib.Outcome Lib.Bits Lib.Sweep Ty.Ty Bits.Natural Jets.TypeName Jets.JetTable.
From Coq Require Import String Ascii.
Import ListNotations.
Local Open Scope N_scope.

(* ------------------------------------------------------------------ decode *)

Lemma decode_app t : forall l i rest r,
  decode t l = Ok (i, rest) -> decode t (l ++ r) = Ok (i, rest ++ r).
Proof.
  induction t as [|k|f IHf t' IHt]; intros l i rest r H; cbn [decode] in *.
  - discriminate.
  - injection H as <- <-. reflexivity.
  - destruct l as [|[|] l']; [discriminate| |]; cbn [app]; auto.
Qed.

Lemma roundtrip_lift fam j : roundtrip_ok fam j = true ->
  jet_encode j = Ok (jet_code j) /\
  forall r, decode (f_tree fam) (jet_code j ++ r) = Ok (j_idx j, r).
Proof.
  unfold roundtrip_ok. intros H. apply andb_true_iff in H. destruct H as [Hl H].
  split.
  - unfold jet_encode. replace (64 <? j_len j) with false; [reflexivity|].
    symmetry. apply N.ltb_ge. apply N.leb_le. exact Hl.
  - intros r. destruct (decode (f_tree fam) (jet_code j)) as [[i rest]| | |] eqn:E; try discriminate.
    destruct rest; [|discriminate]. apply N.eqb_eq in H. subst i.
    apply (decode_app _ _ _ _ r) in E. exact E.
Qed.

Lemma decode_leaves t : forall b i r,
  decode t b = Ok (i, r) -> exists p, In (p, i) (tree_leaves t) /\ b = p ++ r.
Proof.
  induction t as [|k|f IHf t' IHt]; intros b i r H; cbn [decode tree_leaves] in *.
  - discriminate.
  - injection H as <- <-. exists []. split; [left; reflexivity|reflexivity].
  - destruct b as [|[|] b']; [discriminate| |].
    + destruct (IHt _ _ _ H) as (p & Hin & ->). exists (true :: p). split; [|reflexivity].
      apply in_or_app. right. apply in_map_iff. exists (p, i). split; [reflexivity|exact Hin].
    + destruct (IHf _ _ _ H) as (p & Hin & ->). exists (false :: p). split; [|reflexivity].
      apply in_or_app. left. apply in_map_iff. exists (p, i). split; [reflexivity|exact Hin].
Qed.

Lemma bits_eqb_eq a b : bits_eqb a b = true -> a = b.
Proof. apply list_beq_bool. Qed.

(* the decoder accepts nothing but the codes of the table *)
Lemma decode_complete fam :
  forallb (leaf_ok fam) (tree_leaves (f_tree fam)) = true ->
  forall b i r, decode (f_tree fam) b = Ok (i, r) ->
  exists j, row_at fam i = Some j /\ j_idx j = i /\ b = jet_code j ++ r.
Proof.
  intros H b i r Hd. destruct (decode_leaves _ _ _ _ Hd) as (p & Hin & ->).
  rewrite forallb_forall in H. specialize (H _ Hin). unfold leaf_ok in H. cbn [fst snd] in H.
  destruct (row_at fam i) as [j|]; [|discriminate]. apply andb_true_iff in H. destruct H as [H1 H2].
  apply N.eqb_eq in H1. apply bits_eqb_eq in H2. exists j. rewrite H2. auto.
Qed.

(* ------------------------------------------------------------------ prefixes *)

Lemma is_prefix_spec a : forall b, is_prefix a b = true <-> exists r, b = a ++ r.
Proof.
  induction a as [|x a IH]; intros b; cbn [is_prefix].
  - split; [intros _; exists b; reflexivity|reflexivity].
  - destruct b as [|y b]; [split; [discriminate|intros [r Hr]; discriminate]|].
    rewrite andb_true_iff, IH. split.
    + intros [Hxy [r ->]]. apply eqb_prop in Hxy. subst. exists r. reflexivity.
    + intros [r Hr]. cbn in Hr. injection Hr as -> ->. split; [apply eqb_reflx|exists r; reflexivity].
Qed.

Lemma prefix_free_lift fam :
  forallb (prefix_free_ok fam) (f_rows fam) = true ->
  forall j k, In j (f_rows fam) -> In k (f_rows fam) -> j_idx j <> j_idx k ->
  forall r, jet_code k <> jet_code j ++ r.
Proof.
  intros H j k Hj Hk Hne r Heq. rewrite forallb_forall in H. specialize (H j Hj).
  unfold prefix_free_ok in H. rewrite forallb_forall in H. specialize (H k Hk).
  apply orb_true_iff in H. destruct H as [H|H]; [apply N.eqb_eq in H; contradiction|].
  apply negb_true_iff in H. assert (is_prefix (jet_code j) (jet_code k) = true) as Hp
    by (apply is_prefix_spec; exists r; exact Heq). congruence.
Qed.

(* ------------------------------------------------------------------ names *)

Lemma names_lift fam :
  forallb (name_ok fam) (f_rows fam) = true ->
  (forall j, In j (f_rows fam) -> parse fam (j_name j) = Ok (j_idx j)) /\
  (forall j k, In j (f_rows fam) -> In k (f_rows fam) -> j_name j = j_name k -> j_idx j = j_idx k).
Proof.
  intros H. rewrite forallb_forall in H. split.
  - intros j Hj. specialize (H j Hj). unfold name_ok in H. apply andb_true_iff in H. destruct H as [H _].
    destruct (parse fam (j_name j)) as [i| | |]; try discriminate. apply N.eqb_eq in H. subst. reflexivity.
  - intros j k Hj Hk Hn. specialize (H j Hj). unfold name_ok in H. apply andb_true_iff in H. destruct H as [_ H].
    rewrite forallb_forall in H. specialize (H k Hk). apply orb_true_iff in H. destruct H as [H|H].
    + apply N.eqb_eq in H. exact H.
    + apply negb_true_iff in H. rewrite Hn, String.eqb_refl in H. discriminate.
Qed.

Lemma assoc_str_in {A} s (l : list (string * A)) v : assoc_str s l = Some v -> In (s, v) l.
Proof.
  induction l as [|[k w] r IH]; cbn [assoc_str]; [discriminate|].
  destruct (String.eqb k s) eqn:E.
  - intros H. injection H as ->. apply String.eqb_eq in E. subst. left. reflexivity.
  - intros H. right. apply IH, H.
Qed.

(* every name accepted by FromStr is the Display name of the jet it returns *)
Lemma fromstr_lift fam :
  forallb (fromstr_ok fam) (f_fromstr fam) = true ->
  forall s i, parse fam s = Ok i -> exists j, row_at fam i = Some j /\ j_idx j = i /\ j_name j = s.
Proof.
  intros H s i Hp. unfold parse in Hp. destruct (assoc_str s (f_fromstr fam)) as [v|] eqn:E; [|discriminate].
  injection Hp as ->. apply assoc_str_in in E. rewrite forallb_forall in H. specialize (H _ E).
  unfold fromstr_ok in H. cbn [fst snd] in H. destruct (row_at fam i) as [j|]; [|discriminate].
  apply andb_true_iff in H. destruct H as [H1 H2]. apply N.eqb_eq in H1. apply String.eqb_eq in H2.
  exists j. auto.
Qed.

(* ------------------------------------------------------------------ type names *)

Definition tn_good (s : string) : Prop :=
  exists t, tn_to_final s = Ok t /\ tn_to_bit_width s = Ok (width t).

Lemma tn_ok_lift s : tn_ok s = true -> tn_good s.
Proof.
  unfold tn_ok, tn_good. destruct (tn_to_final s) as [t| | |]; try discriminate.
  destruct (tn_to_bit_width s) as [w| | |]; try discriminate.
  intros H. apply N.eqb_eq in H. subst. exists t. auto.
Qed.

Lemma types_lift j : types_ok j = true -> tn_good (j_src j) /\ tn_good (j_tgt j).
Proof.
  unfold types_ok. intros H. apply andb_true_iff in H. destruct H. split; apply tn_ok_lift; assumption.
Qed.

(* ------------------------------------------------------------------ C decoder *)

Lemma c_read_nat_app l n rest r :
  c_read_nat l = Ok (n, rest) -> c_read_nat (l ++ r) = Ok (n, rest ++ r).
Proof.
  unfold c_read_nat. destruct (read_nat (2 ^ 31 - 1) None l) as [[m q]|e| |] eqn:E; try discriminate.
  - intros H. injection H as -> ->.
    pose proof (read_nat_range _ _ _ _ _ E) as Hr.
    apply encode_read in E. destruct E as (-> & H1 & H2 & _).
    rewrite <- app_assoc. rewrite read_encode; [reflexivity|exact H1|exact Hr|exact H2|exact I].
  - destruct e; discriminate.
Qed.

Lemma c_decode_app : forall t l i rest r,
  c_decode t l = Ok (i, rest) -> c_decode t (l ++ r) = Ok (i, rest ++ r).
Proof.
  fix IH 1. intros [k|cases] l i rest r H.
  - cbn [c_decode] in *. injection H as <- <-. reflexivity.
  - cbn [c_decode] in *.
    destruct (c_read_nat l) as [[n q]| | |] eqn:E; try discriminate.
    rewrite (c_read_nat_app _ _ _ r E).
    revert H. induction cases as [|[k sub] cs IHcs]; [discriminate|].
    destruct (k =? n); [apply IH|apply IHcs].
Qed.

Lemma c_decode_prim_app ct l i rest r :
  c_decode_prim ct l = Ok (i, rest) -> c_decode_prim ct (l ++ r) = Ok (i, rest ++ r).
Proof.
  unfold c_decode_prim. destruct l as [|[|] l']; [discriminate| |]; cbn [app]; apply c_decode_app.
Qed.

(* ------------------------------------------------------------------ Rust table = C table *)

Definition rust_c_agree (ct : ctables) (j : jet_row) : Prop :=
  exists c, In c (ct_rows ct) /\ lower (cj_enum c) = j_name j /\
    j_cmr j = flat_map word_bytes (cj_cmr c) /\ List.length (j_cmr j) = 32%nat /\
    (exists t, tn_to_final (j_src j) = Ok t /\ c_type ct (cj_src c) = Some t) /\
    (exists t, tn_to_final (j_tgt j) = Ok t /\ c_type ct (cj_tgt c) = Some t) /\
    j_cost j = cj_cost c /\
    forall r, c_decode_prim ct (jet_code j ++ r) = Ok (cj_idx c, r).

Lemma ty_opt_eqb_lift a b : ty_opt_eqb a b = true -> exists t, a = Ok t /\ b = Some t.
Proof.
  unfold ty_opt_eqb. destruct a as [x| | |]; try discriminate. destruct b as [y|]; [|discriminate].
  intros H. apply ty_eqb_eq in H. subst. exists y. auto.
Qed.

Lemma rust_c_lift ct j : rust_c_ok ct j = true -> rust_c_agree ct j.
Proof.
  unfold rust_c_ok, rust_c_agree, c_row_of. intros H.
  destruct (find _ (ct_rows ct)) as [c|] eqn:Ef; [|discriminate].
  apply find_some in Ef. destruct Ef as [Hin Hname]. apply String.eqb_eq in Hname.
  repeat (apply andb_true_iff in H; destruct H as [H ?]).
  exists c. repeat split; auto.
  - apply list_beq_N. assumption.
  - match goal with h : (N.of_nat _ =? 32) = true |- _ => apply N.eqb_eq in h; lia end.
  - apply ty_opt_eqb_lift. assumption.
  - apply ty_opt_eqb_lift. assumption.
  - apply N.eqb_eq. assumption.
  - intros r. match goal with h : match c_decode_prim _ _ with _ => _ end = true |- _ => rename h into Hd end.
    destruct (c_decode_prim ct (jet_code j)) as [[i rest]| | |] eqn:E; try discriminate.
    destruct rest; [|discriminate]. apply N.eqb_eq in Hd. subst i.
    apply (c_decode_prim_app _ _ _ _ r) in E. exact E.
Qed.

Definition core_elements_agree (elems : family) (j : jet_row) : Prop :=
  exists e, In e (f_rows elems) /\ j_name e = j_name j /\ j_src e = j_src j /\ j_tgt e = j_tgt j /\
            jet_code e = false :: jet_code j.

Lemma core_elements_lift elems j : core_elements_ok elems j = true -> core_elements_agree elems j.
Proof.
  unfold core_elements_ok, core_elements_agree, row_of. intros H.
  destruct (find _ (f_rows elems)) as [e|] eqn:Ef; [|discriminate].
  apply find_some in Ef. destruct Ef as [Hin Hname]. apply String.eqb_eq in Hname.
  repeat (apply andb_true_iff in H; destruct H as [H ?]).
  exists e. repeat split; auto.
  - apply String.eqb_eq. assumption.
  - apply String.eqb_eq. assumption.
  - apply bits_eqb_eq. assumption.
Qed.

(* ------------------------------------------------------------------ FFI *)

Definition compatible (ft : ffitables) (r c : ftype) : Prop := ft_compat ft r c = true.

Lemma forallb2_Forall2 {A B} (f : A -> B -> bool) l1 : forall l2,
  forallb2 f l1 l2 = true -> Forall2 (fun a b => f a b = true) l1 l2.
Proof.
  induction l1 as [|a r IH]; intros [|b r2] H; cbn in H; try discriminate; [constructor|].
  apply andb_true_iff in H. destruct H. constructor; auto.
Qed.

Lemma params_lift ft it : params_ok ft it = true ->
  List.length (fi_rparams it) = List.length (fi_cparams it) /\
  Forall2 (compatible ft) (fi_rparams it) (fi_cparams it).
Proof.
  unfold params_ok. intros H. apply andb_true_iff in H. destruct H as [H1 H2].
  apply N.eqb_eq in H1. split; [lia|]. apply forallb2_Forall2 in H2. exact H2.
Qed.

Lemma mem_str_in s l : mem_str s l = true -> In s l.
Proof.
  unfold mem_str. intros H. apply existsb_exists in H. destruct H as (x & Hin & He).
  apply String.eqb_eq in He. subst. exact Hin.
Qed.

Lemma ret_lift ft tol it : ret_ok ft tol it = true ->
  compatible ft (fi_rret it) (fi_cret it) \/ In (fi_link it) tol.
Proof.
  unfold ret_ok. intros H. apply orb_true_iff in H. destruct H; [left; assumption|right; apply mem_str_in; assumption].
Qed.

(* Rust jet j is bound, by its own name x = j_name j, through
   jets_wrapper::w -> extern fn e (link name rustsimplicity_0_7_c_x) -> WRAP_(x) -> rustsimplicity_0_7_x *)
Definition chain (ft : ffitables) (j : jet_row) : Prop :=
  exists e env it, In (j_cptr j, e, env) (ft_wrappers ft) /\ In it (ft_items ft) /\
    fi_kind it = FkFn /\ fi_rust it = e /\ fi_link it = (prefix_c ++ j_name j)%string /\
    In (j_name j) (ft_wraps ft) /\ In (j_name j) (ft_inner ft).

Lemma chain_lift ft j : chain_ok ft j = true -> chain ft j.
Proof.
  unfold chain_ok, chain. intros H.
  destruct (find _ (ft_wrappers ft)) as [[[w e] env]|] eqn:Ew; [|discriminate].
  apply find_some in Ew. destruct Ew as [Hw Hwn]. cbn [fst] in Hwn. apply String.eqb_eq in Hwn. subst w.
  destruct (find _ (ft_items ft)) as [it|] eqn:Ei; [|discriminate].
  apply find_some in Ei. destruct Ei as [Hi Hk].
  destruct (fi_kind it) eqn:Ek; try discriminate. apply String.eqb_eq in Hk.
  repeat (apply andb_true_iff in H; destruct H as [H ?]).
  exists e, env, it. repeat split; auto.
  - apply String.eqb_eq. assumption.
  - apply mem_str_in. assumption.
  - apply mem_str_in. assumption.
Qed.

Definition c_fn_agree (ct : ctables) (j : jet_row) : Prop :=
  exists c, In c (ct_rows ct) /\ lower (cj_enum c) = j_name j /\ cj_fn c = (prefix_j ++ j_name j)%string.

Lemma c_fn_lift ct j : c_fn_ok ct j = true -> c_fn_agree ct j.
Proof.
  unfold c_fn_ok, c_fn_agree, c_row_of. intros H.
  destruct (find _ (ct_rows ct)) as [c|] eqn:Ef; [|discriminate].
  apply find_some in Ef. destruct Ef as [Hin Hname]. apply String.eqb_eq in Hname.
  apply String.eqb_eq in H. exists c. auto.
Qed.

(* index bookkeeping *)
Lemma idx_lift fam : idx_ok fam = true ->
  map j_idx (f_rows fam) = upto (List.length (f_rows fam)) /\
  f_all fam = upto (List.length (f_rows fam)) /\
  f_all_len fam = N.of_nat (List.length (f_rows fam)).
Proof.
  unfold idx_ok. intros H. repeat (apply andb_true_iff in H; destruct H as [H ?]).
  repeat split; [apply list_beq_N; assumption|apply list_beq_N; assumption|apply N.eqb_eq; assumption].
Qed.
