(* C18 - non-vacuity: the hypotheses of the theorems are satisfiable, and the statements say
   something on concrete DAGs (diamond, node reachable as child and grandchild, repeated
   child); counterexamples showing that the hypotheses `key_acyclic` / `key_congruent`
   cannot be dropped. *)
From RS Require Import Lib.Tac Lib.Outcome Dag.DagModel Dag.PostOrderSpec Dag.PostOrderProps
  Dag.VisitFacts Dag.Variants Dag.PreOrder Dag.Acyclic Dag.Coverage Dag.Shared Dag.VerbosePre.
Import ListNotations.
Local Open Scope N_scope.

(* ------------------------------------------------------------------ well-formed tables *)
Lemma wfb_from_ok : forall d k, wfb_from k d = true -> forall i, node_ok (k + i) (nth i d Nul).
Proof.
  induction d as [|dn r IH]; intros k H i.
  - destruct i; exact I.
  - cbn [wfb_from] in H. apply andb_true_iff in H. destruct H as [H1 H2]. destruct i as [|i].
    + rewrite Nat.add_0_r. cbn [nth]. destruct dn; cbn in *; [exact I|apply Nat.ltb_lt; exact H1|].
      apply andb_true_iff in H1. destruct H1 as [Ha Hb]. split; apply Nat.ltb_lt; assumption.
    + cbn [nth]. replace (k + S i)%nat with (S k + i)%nat by lia. apply IH. exact H2.
Qed.

Lemma wfb_wf d : wfb d = true -> wf d.
Proof. intros H n. apply (wfb_from_ok d 0 H n). Qed.

(* ------------------------------------------------------------------ finite checkers for keys *)
Section Checkers.
Variable d : dag.
Variable keys : list (option N).
Let ch := node_at d.
Let key := key_list keys.
Hypothesis Hwf : wf d.

(* every node reachable from n (n included) *)
Fixpoint descs (h : nat) (n : nat) : list nat :=
  match h with
  | O => [n]
  | S h' =>
      n :: match ch n with
           | Nul => []
           | Un c => descs h' c
           | Bin a b => descs h' a ++ descs h' b
           end
  end.

Lemma reach_descs : forall h n x, (n < h)%nat -> reach ch n x -> In x (descs h n).
Proof.
  induction h as [|h IH]; intros n x Hn Hr; [lia|].
  cbn [descs]. inversion Hr as [|n0 c x0 Hc Hcx]; subst; [left; reflexivity|]. right.
  pose proof (is_child_lt ch Hwf _ _ Hc) as Hlt.
  destruct Hc as [Hc|Hc]; destruct (ch n) as [|c0|a b]; cbn in Hc; try discriminate; injection Hc as <-.
  - apply IH; [lia|exact Hcx].
  - apply in_or_app. left. apply IH; [lia|exact Hcx].
  - apply in_or_app. right. apply IH; [lia|exact Hcx].
Qed.

Definition opt_neq (a b : option N) : bool :=
  match a, b with Some x, Some y => negb (x =? y) | _, _ => true end.

Definition kids (n : nat) : list nat :=
  match ch n with Nul => [] | Un c => [c] | Bin a b => [a; b] end.

Definition acyclicb : bool :=
  forallb (fun n => forallb (fun c => forallb (fun x => opt_neq (key n) (key x)) (descs (S c) c)) (kids n))
          (seq 0 (length d)).

Lemma node_beyond n : (length d <= n)%nat -> ch n = Nul.
Proof. intros H. unfold ch, node_at. apply nth_overflow. exact H. Qed.

Lemma acyclicb_sound : acyclicb = true -> key_acyclic ch key.
Proof.
  intros H n c x k Hc Hx Hkn Hkx. unfold acyclicb in H. rewrite forallb_forall in H.
  destruct (Nat.lt_ge_cases n (length d)) as [Hlt|Hge].
  - specialize (H n ltac:(apply in_seq; lia)). rewrite forallb_forall in H.
    assert (Hin : In c (kids n)).
    { unfold kids. destruct Hc as [Hc|Hc]; destruct (ch n); cbn in Hc; try discriminate; injection Hc as <-;
        cbn; auto. }
    specialize (H c Hin). rewrite forallb_forall in H.
    specialize (H x (reach_descs (S c) c x ltac:(lia) Hx)).
    rewrite Hkn, Hkx in H. cbn in H. rewrite N.eqb_refl in H. discriminate.
  - unfold is_child in Hc. rewrite (node_beyond n Hge) in Hc. destruct Hc as [Hc|Hc]; discriminate.
Qed.

Definition ceqb (x y : nat) : bool :=
  Nat.eqb x y || match key x, key y with Some a, Some b => a =? b | _, _ => false end.

Definition shape_congb (a b : nat) : bool :=
  match ch a, ch b with
  | Nul, Nul => true
  | Un x, Un y => ceqb x y
  | Bin x1 x2, Bin y1 y2 => ceqb x1 y1 && ceqb x2 y2
  | _, _ => false
  end.

Definition congruentb : bool :=
  forallb (fun a => forallb (fun b => opt_neq (key a) (key b) || shape_congb a b) (seq 0 (length keys)))
          (seq 0 (length keys)).

Lemma ceqb_sound x y : ceqb x y = true -> ceq key x y.
Proof.
  unfold ceqb, ceq. intros H. apply orb_true_iff in H. destruct H as [H|H].
  - left. apply Nat.eqb_eq. exact H.
  - right. destruct (key x) as [a|], (key y) as [b|]; try discriminate.
    apply N.eqb_eq in H. subst. eauto.
Qed.

Lemma key_beyond n : (length keys <= n)%nat -> key n = None.
Proof. intros H. unfold key, key_list. apply nth_overflow. exact H. Qed.

Lemma congruentb_sound : congruentb = true -> key_congruent ch key.
Proof.
  intros H a b k Ha Hb. unfold congruentb in H. rewrite forallb_forall in H.
  assert (La : (a < length keys)%nat).
  { destruct (Nat.lt_ge_cases a (length keys)) as [L|L]; [exact L|]. rewrite (key_beyond a L) in Ha. discriminate. }
  assert (Lb : (b < length keys)%nat).
  { destruct (Nat.lt_ge_cases b (length keys)) as [L|L]; [exact L|]. rewrite (key_beyond b L) in Hb. discriminate. }
  specialize (H a ltac:(apply in_seq; lia)). rewrite forallb_forall in H.
  specialize (H b ltac:(apply in_seq; lia)). rewrite Ha, Hb in H. cbn [opt_neq] in H.
  rewrite N.eqb_refl in H. cbn in H.
  unfold shape_congb, shape_cong in *. destruct (ch a), (ch b); try discriminate; try exact I.
  - apply ceqb_sound. exact H.
  - apply andb_true_iff in H. destruct H as [H1 H2]. split; apply ceqb_sound; assumption.
Qed.

End Checkers.

(* ------------------------------------------------------------------ concrete DAGs *)
(* diamond: 3 = Bin 1 2, 1 = Un 0, 2 = Un 0 *)
Definition diamond : dag := [Nul; Un 0; Un 0; Bin 1 2].
(* node 0 is the right child and a grandchild (through the left child) of the root *)
Definition child_grandchild : dag := [Nul; Un 0; Bin 1 0].
(* the same child twice *)
Definition repeated_child : dag := [Nul; Bin 0 0].

Example diamond_wf : wf diamond. Proof. apply wfb_wf. reflexivity. Qed.
Example child_grandchild_wf : wf child_grandchild. Proof. apply wfb_wf. reflexivity. Qed.
Example repeated_child_wf : wf repeated_child. Proof. apply wfb_wf. reflexivity. Qed.

(* identity-hash sharing on the diamond: the two unary nodes carry the same id *)
Definition diamond_hash : list (option N) := [Some 0; Some 1; Some 1; Some 2].

Example diamond_hash_acyclic : key_acyclic (node_at diamond) (key_list diamond_hash).
Proof. apply (acyclicb_sound diamond diamond_hash diamond_wf). reflexivity. Qed.
Example diamond_hash_congruent : key_congruent (node_at diamond) (key_list diamond_hash).
Proof. apply congruentb_sound. reflexivity. Qed.

(* what the iterator yields on the diamond under the three policies (iterator = spec, by
   computation; the general statement is po_refines) *)
Example diamond_nosharing :
  po_run (node_at diamond) key_none (po_fuel (node_at diamond) 3) (po_init 3) =
  Ok [mk_item 0 0 None None; mk_item 1 1 (Some 0) None; mk_item 0 2 None None;
      mk_item 2 3 (Some 2) None; mk_item 3 4 (Some 1) (Some 3)].
Proof. reflexivity. Qed.

Example diamond_pointer :
  po_run (node_at diamond) key_ptr (po_fuel (node_at diamond) 3) (po_init 3) =
  Ok [mk_item 0 0 None None; mk_item 1 1 (Some 0) None; mk_item 2 2 (Some 0) None;
      mk_item 3 3 (Some 1) (Some 2)].
Proof. reflexivity. Qed.

Example diamond_hash_sharing :
  po_run (node_at diamond) (key_list diamond_hash) (po_fuel (node_at diamond) 3) (po_init 3) =
  Ok [mk_item 0 0 None None; mk_item 1 1 (Some 0) None; mk_item 3 2 (Some 1) (Some 1)].
Proof. reflexivity. Qed.

Example diamond_rtl_pointer :
  rtl_run (node_at diamond) key_ptr (po_fuel (swapped (node_at diamond)) 3) 3 =
  Ok [mk_item 0 0 None None; mk_item 2 1 (Some 0) None; mk_item 1 2 (Some 0) None;
      mk_item 3 3 (Some 2) (Some 1)].
Proof. reflexivity. Qed.

Example diamond_pre_pointer :
  pre_run (node_at diamond) key_ptr (pre_fuel (node_at diamond) 3) (pre_init 3) = Ok [3; 1; 0; 2]%nat.
Proof. reflexivity. Qed.

Example diamond_is_shared_as :
  is_shared_as (node_at diamond) key_ptr (po_fuel (node_at diamond) 3) 3 = Ok true /\
  is_shared_as (node_at diamond) key_none (po_fuel (node_at diamond) 3) 3 = Ok false /\
  is_shared_as (node_at diamond) (key_list diamond_hash) (po_fuel (node_at diamond) 3) 3 = Ok false.
Proof. repeat split; reflexivity. Qed.

(* the right child is recorded while the left one is being visited *)
Example child_grandchild_pointer :
  po_run (node_at child_grandchild) key_ptr (po_fuel (node_at child_grandchild) 2) (po_init 2) =
  Ok [mk_item 0 0 None None; mk_item 1 1 (Some 0) None; mk_item 2 2 (Some 1) (Some 0)].
Proof. reflexivity. Qed.

Example child_grandchild_rtl :
  rtl_run (node_at child_grandchild) key_ptr (po_fuel (swapped (node_at child_grandchild)) 2) 2 =
  Ok [mk_item 0 0 None None; mk_item 1 1 (Some 0) None; mk_item 2 2 (Some 1) (Some 0)].
Proof. reflexivity. Qed.

Example repeated_child_pointer :
  po_run (node_at repeated_child) key_ptr (po_fuel (node_at repeated_child) 1) (po_init 1) =
  Ok [mk_item 0 0 None None; mk_item 1 1 (Some 0) (Some 0)].
Proof. reflexivity. Qed.

Example repeated_child_nosharing :
  po_run (node_at repeated_child) key_none (po_fuel (node_at repeated_child) 1) (po_init 1) =
  Ok [mk_item 0 0 None None; mk_item 0 1 None None; mk_item 1 2 (Some 0) (Some 1)].
Proof. reflexivity. Qed.

Example diamond_verbose_depth1 :
  map (fun v => (N.of_nat (v_node v), v_depth v, v_ncy v))
      (vp_spec (node_at diamond) key_ptr (Some 1) 3) =
  [(3, 0, 0); (1, 1, 0); (1, 1, 1); (3, 0, 1); (2, 1, 0); (2, 1, 1); (3, 0, 2)].
Proof. reflexivity. Qed.

(* ------------------------------------------------------------------ the hypotheses are needed *)
(* twins: nodes 2 and 3 carry the same id but have children with different ids (not congruent).
   The second twin is not expanded (commit 7ce2109), so node 1 - reachable only through it - is
   not yielded: coverage of all reachable classes needs congruence. *)
Definition twins : dag := [Nul; Nul; Un 0; Un 1; Bin 2 3].
Definition twins_keys : list (option N) := [Some 0; Some 1; Some 2; Some 2; Some 3].

Example twins_no_orphan :
  po_spec (node_at twins) (key_list twins_keys) 4 =
  [mk_item 0 0 None None; mk_item 2 1 (Some 0) None; mk_item 4 2 (Some 1) (Some 1)].
Proof. reflexivity. Qed.

Example coverage_needs_congruence :
  reach (node_at twins) 4 1 /\
  ~ exists it, In it (po_spec (node_at twins) (key_list twins_keys) 4) /\
               same_class (key_list twins_keys) 1 (it_node it).
Proof.
  split.
  - eapply reach_step; [right; reflexivity|]. eapply reach_step; [left; reflexivity|]. apply reach_refl.
  - rewrite twins_no_orphan. intros (it & Hin & Hc). unfold same_class in Hc. cbn in Hc.
    destruct Hin as [<-|[<-|[<-|[]]]]; cbn in Hc; discriminate.
Qed.

(* a key that gives a node the id of its own descendant (impossible for a hash): the node is
   visited, its children are yielded, then it is skipped: item 0 is unreferenced, the root is
   not the last item, and is_shared_as accepts although the sequences differ. *)
Definition cyc : dag := [Nul; Nul; Bin 0 1; Un 2].
Definition cyc_keys : list (option N) := [Some 0; Some 1; Some 1; Some 2].

Example no_orphans_needs_acyclic :
  po_spec (node_at cyc) (key_list cyc_keys) 3 =
  [mk_item 0 0 None None; mk_item 1 1 None None; mk_item 3 2 (Some 1) None].
Proof. reflexivity. Qed.

Definition cyc2 : dag := [Nul; Un 0].
Example is_shared_as_needs_acyclic :
  is_shared_as (node_at cyc2) (key_list [Some 0; Some 0]) (po_fuel (node_at cyc2) 1) 1 = Ok true /\
  map it_node (po_spec (node_at cyc2) (key_list [Some 0; Some 0]) 1) <>
  map it_node (po_spec (node_at cyc2) key_ptr 1).
Proof. split; [reflexivity|discriminate]. Qed.
