(* C03 - the Rust cost formulas (analysis.rs) agree with the C ones (eval.c) exactly as long
   as every type width they mention fits 32 bits; beyond that the truncating cast
   `Cost::of_type(w) = w as u32` separates them.  Theorems about the models of CostRef.v only. *)
From RS Require Import Lib.Tac Lib.Outcome Ty.Ty Core.Prog Cdiff.CostRef.
Import ListNotations.
Local Open Scope N_scope.

(* 4. Rust = C as long as every width fits 32 bits (and disconnect's B is the difference the
      Rust code computes); the truncating cast separates them beyond that *)
Definition small (n : cnode) : Prop :=
  match n with
  | CIden w | CComp _ _ w | CWord w | CWitness w => w < two32
  | CDisc _ _ w1 w2 w3 w4 => w1 < two32 /\ w2 < two32 /\ w3 <= w2 /\ w4 = w2 - w3
  | _ => True
  end.

Lemma of_type_small w : w < two32 -> of_type w = w /\ sat32 w = w.
Proof.
  unfold of_type, wusize, sat32, usize_max, two32, u32_max. intros H.
  rewrite N.min_l by lia. split; [apply N.mod_small; exact H|lia].
Qed.

Definition cap (x : N) : N := N.min x u32_max.

Lemma cap_le x : cap x <= u32_max.
Proof. unfold cap; lia. Qed.
Lemma cap_id x : x <= u32_max -> cap x = x.
Proof. unfold cap; lia. Qed.
Lemma cap_add_l a b : cap (cap a + b) = cap (a + b).
Proof. unfold cap; lia. Qed.
Lemma cap_add_r a b : cap (a + cap b) = cap (a + b).
Proof. unfold cap; lia. Qed.
Lemma badd_cap x y : x <= u32_max -> y <= u32_max -> badd x y = cap (x + y).
Proof. apply badd_min. Qed.
Lemma sadd_cap x y : sadd x y = cap (x + y).
Proof. reflexivity. Qed.

Lemma sadd_cap_l x y : sadd (cap x) y = cap (x + y).
Proof. unfold sadd, cap; lia. Qed.
Lemma badd_cap_r x y : x <= u32_max -> badd x (cap y) = cap (x + y).
Proof. intros H. rewrite badd_cap by (try apply cap_le; exact H). unfold cap; lia. Qed.

Ltac side32 :=
  first [ apply badd_le | apply cap_le | apply sat32_le | assumption
        | match goal with H : forall i, nth_cost _ i <= _ |- _ => apply H end
        | unfold two32, u32_max, overhead in *; lia ].

Lemma wusize_small w : w < two32 -> wusize w = w.
Proof. intros H. unfold wusize, usize_max, two32 in *. lia. Qed.

Lemma rust_disc_unfold tbl l r w1 w2 w3 w4 : (wusize w2 <? wusize w3) = false ->
  rust_node tbl (CDisc l r w1 w2 w3 w4) =
  Ok (sadd (sadd (sadd (sadd (sadd (sadd overhead (of_type w1)) (of_type w1)) (of_type w2))
                 ((wusize w2 - wusize w3) mod two32)) (nth_cost tbl l)) (nth_cost tbl r)).
Proof. intros L. cbn [rust_node]. rewrite L. reflexivity. Qed.

Section RustC.
  Variable tbl : list N.
  Hypothesis Ht : Forall (fun x => x <= u32_max) tbl.

  Let Hn : forall i, nth_cost tbl i <= u32_max := fun i => nth_cost_le tbl i u32_max Ht.
  Let O : overhead <= u32_max.
  Proof. unfold overhead, u32_max; lia. Qed.

  Lemma rc_width1 (f : N -> cnode) w :
    w < two32 ->
    (forall t x, rust_node t (f x) = Ok (sadd overhead (of_type x))) ->
    (forall t x, c_node t (f x) = badd overhead (sat32 x)) ->
    rust_node tbl (f w) = Ok (c_node tbl (f w)).
  Proof.
    intros Hs Hr Hc. rewrite Hr, Hc. destruct (of_type_small _ Hs) as [-> ->].
    rewrite badd_cap by side32. reflexivity.
  Qed.

  Lemma rc_unary c : rust_node tbl (CUnary c) = Ok (c_node tbl (CUnary c)).
  Proof. cbn [rust_node c_node]. rewrite badd_cap by side32. reflexivity. Qed.

  Lemma rc_case l r : rust_node tbl (CCase l r) = Ok (c_node tbl (CCase l r)).
  Proof.
    cbn [rust_node c_node]. pose proof (Hn l); pose proof (Hn r).
    rewrite badd_cap by (try apply N.max_lub; side32). reflexivity.
  Qed.

  Lemma rc_pair l r : rust_node tbl (CPair l r) = Ok (c_node tbl (CPair l r)).
  Proof.
    cbn [rust_node c_node]. pose proof (Hn l) as Hl; pose proof (Hn r) as Hr.
    revert Hl Hr. generalize (nth_cost tbl l), (nth_cost tbl r). intros cl cr Hl Hr.
    rewrite (sadd_cap overhead). repeat rewrite sadd_cap_l.
    rewrite (badd_cap cl cr) by side32. repeat (rewrite badd_cap_r by side32).
    f_equal. f_equal. lia.
  Qed.

  Lemma rc_comp l r wb : wb < two32 -> rust_node tbl (CComp l r wb) = Ok (c_node tbl (CComp l r wb)).
  Proof.
    intros Hs. cbn [rust_node c_node]. destruct (of_type_small _ Hs) as [-> ->].
    pose proof (Hn l) as Hl; pose proof (Hn r) as Hr.
    revert Hl Hr. generalize (nth_cost tbl l), (nth_cost tbl r). intros cl cr Hl Hr.
    rewrite (sadd_cap overhead). repeat rewrite sadd_cap_l.
    rewrite (badd_cap cl cr) by side32. repeat (rewrite badd_cap_r by side32).
    f_equal. f_equal. lia.
  Qed.

  Lemma rc_disc l r w1 w2 w3 w4 : w1 < two32 -> w2 < two32 -> w3 <= w2 -> w4 = w2 - w3 ->
    rust_node tbl (CDisc l r w1 w2 w3 w4) = Ok (c_node tbl (CDisc l r w1 w2 w3 w4)).
  Proof.
    intros H1 H2 H3 H4.
    assert (H3' : w3 < two32) by lia.
    assert (H4' : w4 < two32) by lia.
    rewrite rust_disc_unfold by (rewrite !wusize_small by assumption; apply N.ltb_ge; exact H3).
    rewrite !wusize_small by assumption.
    destruct (of_type_small _ H1) as [-> E1]. destruct (of_type_small _ H2) as [-> E2].
    destruct (of_type_small _ H4') as [_ E4].
    rewrite N.mod_small by lia. rewrite <- H4.
    cbn [c_node]. rewrite E1, E2, E4.
    pose proof (Hn l) as Hl; pose proof (Hn r) as Hr.
    revert Hl Hr. generalize (nth_cost tbl l), (nth_cost tbl r). intros cl cr Hl Hr.
    rewrite (sadd_cap overhead). repeat rewrite sadd_cap_l.
    rewrite (badd_cap cl cr) by side32. repeat (rewrite badd_cap_r by side32).
    f_equal. f_equal. lia.
  Qed.

  Lemma rc_jet c : rust_node tbl (CJet c) = Ok (c_node tbl (CJet c)).
  Proof. cbn [rust_node c_node]. rewrite badd_cap by side32. reflexivity. Qed.
End RustC.

Lemma rust_node_c tbl n : small n -> Forall (fun x => x <= u32_max) tbl ->
  rust_node tbl n = Ok (c_node tbl n).
Proof.
  intros Hs Ht. destruct n; cbn [small] in Hs.
  - apply rc_width1 with (f := CIden); try assumption; reflexivity.
  - reflexivity.
  - apply rc_unary; assumption.
  - apply rc_comp; assumption.
  - apply rc_case; assumption.
  - apply rc_pair; assumption.
  - destruct Hs as (H1 & H2 & H3 & H4). apply rc_disc; assumption.
  - reflexivity.
  - reflexivity.
  - apply rc_jet; assumption.
  - apply rc_width1 with (f := CWord); try assumption; reflexivity.
  - apply rc_width1 with (f := CWitness); try assumption; reflexivity.
Qed.

Lemma c_node_le tbl n : Forall (fun x => x <= u32_max) tbl -> c_node tbl n <= u32_max.
Proof.
  intros Ht. destruct n; cbn [c_node]; try apply badd_le; unfold overhead, u32_max; lia.
Qed.

Lemma run_tbl_rust_c ns : forall acc, Forall small ns -> Forall (fun x => x <= u32_max) acc ->
  run_tbl_o rust_node acc ns = Ok (run_tbl c_node acc ns).
Proof.
  induction ns as [|n r IH]; intros acc Hs Ha; cbn [run_tbl_o run_tbl]; [reflexivity|].
  inversion Hs; subst. rewrite rust_node_c by assumption. apply IH; [assumption|].
  apply Forall_app; split; [exact Ha|]. constructor; [|constructor]. apply c_node_le, Ha.
Qed.

Theorem rust_cost_eq_c ns : Forall small ns -> rust_cost ns = Ok (c_cost ns).
Proof.
  intros H. unfold rust_cost, rust_table, c_cost, c_table.
  rewrite run_tbl_rust_c by (try assumption; constructor). reflexivity.
Qed.

(* beyond 32-bit widths the two formulas differ: an identity on a type of 2^32 bits costs
   100 in the Rust formula (the cast wraps to 0) and 2^32-1 in the C formula *)
Theorem rust_c_differ_wide :
  width (word_ty 32) = two32 /\
  rust_cost [CIden two32] = Ok 100 /\ c_cost [CIden two32] = u32_max.
Proof.
  split; [rewrite width_word; reflexivity|]. split; vm_compute; reflexivity.
Qed.

(* for case nodes the two readings of the Rust code coincide: max with a hidden (0) child is
   from_child of the other one *)
Lemma rust_case_assert tbl l r : nth_cost tbl r = 0 ->
  rust_node tbl (CCase l r) = rust_node tbl (CUnary l).
Proof. intros H. cbn [rust_node]. rewrite H, N.max_0_r. reflexivity. Qed.

(* non-vacuity: a small table on which all three agree *)
Example cost_example :
  let ns := [CUnit; CWitness 32; CComp 0 1 0; CJet 150; CPair 2 3; CHidden; CCase 4 5] in
  Forall small ns /\ ideal_cost ns = 782 /\ c_cost ns = 782 /\ rust_cost ns = Ok 782.
Proof.
  cbn zeta. split; [repeat constructor; unfold two32; lia|]. split; [|split]; vm_compute; reflexivity.
Qed.
