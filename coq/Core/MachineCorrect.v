(* C05/C07 main lemma: the Bit Machine model computes the big-step semantics, for arbitrary
   memory contents, arbitrary next_frame_start, arbitrary lower frames and arbitrary remaining
   call stack; on the way it touches only the cells of the active write window and the fresh
   cells [nfs, nfs + cells t), never exceeds depth + frames t frames, never panics. *)
From RS Require Import Lib.Tac Lib.Outcome Lib.Bits Ty.Ty Core.Prog Core.Term Core.Typing Core.Sem
  Core.Bounds Core.Limits Core.Machine Core.MachineLemmas.
Import ListNotations.
Local Open Scope N_scope.

Definition cur (fs : list frame) : N := match fs with f :: _ => fcur f | [] => 0 end.

(* the active frame of a stack has [w] cells from its cursor, inside the frame, below [nf];
   an empty stack is only possible for w = 0 *)
Definition top_ok (fs : list frame) (w nf : N) : Prop :=
  match fs with
  | [] => w = 0
  | f :: _ => fstart f <= fcur f /\ fcur f + w <= fstart f + flen f /\ fstart f + flen f <= nf
  end.

Definition tops_disj (r w : list frame) : Prop :=
  match r, w with
  | rf :: _, wf :: _ => fstart rf + flen rf <= fstart wf \/ fstart wf + flen wf <= fstart rf
  | _, _ => True
  end.

Lemma rcur_cur st : rcur st = cur (rd st). Proof. reflexivity. Qed.
Lemma wcur_cur st : wcur st = cur (wr st). Proof. reflexivity. Qed.

Lemma adv_top_0 fs : adv_top fs 0 = fs.
Proof. destruct fs; [reflexivity|]. cbn [adv_top]. rewrite fadv_0. reflexivity. Qed.

Lemma adv_top_add fs a b : adv_top (adv_top fs a) b = adv_top fs (a + b).
Proof. destruct fs; [reflexivity|]. cbn [adv_top]. rewrite fadv_fadv. reflexivity. Qed.

Lemma adv_top_length fs n : length (adv_top fs n) = length fs.
Proof. destruct fs; reflexivity. Qed.

Lemma cur_adv_top fs n w nf : top_ok fs w nf -> n <= w -> cur (adv_top fs n) = cur fs + n.
Proof. destruct fs; cbn; intros; lia. Qed.

Lemma top_ok_adv fs n w nf : top_ok fs (n + w) nf -> top_ok (adv_top fs n) w nf.
Proof. destruct fs as [|f r]; cbn; intros; lia. Qed.

Lemma top_ok_weaken fs w w' nf nf' : top_ok fs w nf -> w' <= w -> nf <= nf' -> top_ok fs w' nf'.
Proof. destruct fs as [|f r]; cbn; intros; lia. Qed.

Lemma tops_disj_adv_l r w n : tops_disj r w -> tops_disj (adv_top r n) w.
Proof. destruct r, w; cbn; auto. Qed.

Lemma tops_disj_adv_r r w n : tops_disj r w -> tops_disj r (adv_top w n).
Proof. destruct r, w; cbn; auto. Qed.

Lemma windows_disj r w wr_ ww nf : top_ok r wr_ nf -> top_ok w ww nf -> tops_disj r w ->
  forall j, cur r <= j < cur r + wr_ -> ~ (cur w <= j < cur w + ww).
Proof. destruct r, w; cbn; intros; lia. Qed.

Lemma window_below fs w nf : top_ok fs w nf -> forall j, cur fs <= j < cur fs + w -> j < nf.
Proof. destruct fs; cbn; intros; lia. Qed.

  (* ---------------------------------------------------------------- uniform operation lemmas *)
  Lemma wc_ok fs w nf st1 : top_ok fs w nf -> nf <= msize (mem st1) ->
    window_check st1 (hd_error fs) = Ok tt.
  Proof.
    destruct fs as [|f r]; cbn [hd_error top_ok]; intros H Hn; [reflexivity|].
    apply window_check_ok; lia.
  Qed.

  Lemma write_bits_tops st bits nf : top_ok (wr st) (N.of_nat (length bits)) nf -> nf <= msize (mem st) ->
    exists st', write_bits st bits = Ok st' /\
      nfs st' = nfs st /\ rd st' = rd st /\ wr st' = adv_top (wr st) (N.of_nat (length bits)) /\
      hwc st' = hwc st /\ hwf st' = hwf st /\ length (mem st') = length (mem st) /\
      mslice (mem st') (wcur st) (length bits) = bits /\
      (forall j, ~ (wcur st <= j < wcur st + N.of_nat (length bits)) -> mbit (mem st') j = mbit (mem st) j).
  Proof.
    intros Ht Hn. unfold wcur. destruct (wr st) as [|f ws] eqn:Ew; cbn [top_ok] in Ht.
    - destruct bits; [|cbn in Ht; lia]. exists st. cbn. repeat split; auto.
    - destruct (write_bits_ok bits st f ws Ew) as (st' & E & P); [lia|]. exists st'. split; [exact E|]. exact P.
  Qed.

  Lemma copy_tops st n nf : top_ok (rd st) n nf -> top_ok (wr st) n nf -> tops_disj (rd st) (wr st) ->
    nf <= msize (mem st) ->
    exists st', copy st n = Ok st' /\
      nfs st' = nfs st /\ rd st' = rd st /\ wr st' = adv_top (wr st) n /\
      hwc st' = hwc st /\ hwf st' = hwf st /\ length (mem st') = length (mem st) /\
      (forall j, j < n -> mbit (mem st') (wcur st + j) = mbit (mem st) (rcur st + j)) /\
      (forall j, ~ (wcur st <= j < wcur st + n) -> mbit (mem st') j = mbit (mem st) j).
  Proof.
    intros Hr Hw Hd Hn. destruct (N.eq_dec n 0) as [->|Hn0].
    - exists st. rewrite copy_0, adv_top_0. repeat split; auto. intros j Hj; lia.
    - unfold wcur, rcur. destruct (rd st) as [|rf rs] eqn:Er; cbn [top_ok] in Hr; [lia|].
      destruct (wr st) as [|f ws] eqn:Ew; cbn [top_ok] in Hw; [lia|]. cbn [tops_disj] in Hd.
      destruct (copy_ok st n rf rs f ws Er Ew) as (st' & E & P); try lia.
      exists st'. split; [exact E|]. rewrite Er in P. exact P.
  Qed.

  Lemma skip_tops st n w nf : top_ok (wr st) w nf -> n <= w ->
    exists st', skip st n = Ok st' /\ mem st' = mem st /\ nfs st' = nfs st /\ rd st' = rd st /\
      wr st' = adv_top (wr st) n /\ hwc st' = hwc st /\ hwf st' = hwf st.
  Proof.
    intros Ht Hn. destruct (wr st) as [|f ws] eqn:Ew; cbn [top_ok] in Ht.
    - assert (n = 0) by lia. subst n. exists st. rewrite skip_0. cbn. rewrite Ew. repeat split; auto.
    - destruct (skip_ok st f ws n Ew) as (st' & E & P). exists st'. split; [exact E|]. exact P.
  Qed.

  Lemma fwd_tops st n w nf : top_ok (rd st) w nf -> n <= w ->
    exists st', fwd st n = Ok st' /\ mem st' = mem st /\ nfs st' = nfs st /\ wr st' = wr st /\
      rd st' = adv_top (rd st) n /\ hwc st' = hwc st /\ hwf st' = hwf st.
  Proof.
    intros Ht Hn. destruct (rd st) as [|f rs] eqn:Er; cbn [top_ok] in Ht.
    - assert (n = 0) by lia. subst n. exists st. rewrite fwd_0. cbn. rewrite Er. repeat split; auto.
    - destruct (fwd_ok st f rs n Er) as (st' & E & P). exists st'. split; [exact E|]. exact P.
  Qed.

  (* undo a forward move of the read cursor *)
  Lemma back_tops prof st fs n w nf : rd st = adv_top fs n -> top_ok fs w nf -> n <= w ->
    exists st', back prof st n = Ok st' /\ mem st' = mem st /\ nfs st' = nfs st /\ wr st' = wr st /\
      rd st' = fs /\ hwc st' = hwc st /\ hwf st' = hwf st.
  Proof.
    intros Er Ht Hn. destruct fs as [|f rs]; cbn [top_ok adv_top] in *.
    - assert (n = 0) by lia. subst n. exists st. rewrite back_0. repeat split; auto.
    - destruct (back_ok prof st (fadv f n) rs n Er) as (st' & E & P); [cbn; lia|].
      exists st'. split; [exact E|]. destruct P as (P1 & P2 & P3 & P4 & P5 & P6). repeat split; auto.
      rewrite P4. cbn [fadv fcur fstart flen]. destruct f as [c s l]. cbn. f_equal. f_equal. lia.
  Qed.

Lemma write_bit_tops st b w nf : top_ok (wr st) w nf -> 1 <= w -> nf <= msize (mem st) ->
  exists st', write_bit st b = Ok st' /\
    nfs st' = nfs st /\ rd st' = rd st /\ wr st' = adv_top (wr st) 1 /\
    hwc st' = hwc st /\ hwf st' = hwf st /\ length (mem st') = length (mem st) /\
    mbit (mem st') (wcur st) = b /\
    (forall j, j <> wcur st -> mbit (mem st') j = mbit (mem st) j).
Proof.
  intros Ht Hw Hn. unfold wcur. destruct (wr st) as [|f ws] eqn:Ew; cbn [top_ok] in Ht; [lia|].
  rewrite (write_bit_ok st f ws b Ew) by lia. eexists. split; [reflexivity|].
  cbn [nfs rd wr hwc hwf mem set_mem_wr adv_top]. rewrite upd_length.
  repeat split; auto.
  - rewrite mbit_upd by lia. rewrite N.eqb_refl. reflexivity.
  - intros j Hj. rewrite mbit_upd by lia. destruct (N.eqb_spec j (fcur f)); [contradiction|reflexivity].
Qed.

Lemma set_rd_same st : set_rd st (rd st) = st.
Proof. destruct st; reflexivity. Qed.

Lemma read_bits_tops st w nf : top_ok (rd st) w nf -> nf <= msize (mem st) ->
  read_bits (N.to_nat w) st = Ok (mslice (mem st) (rcur st) (N.to_nat w), set_rd st (adv_top (rd st) w)).
Proof.
  intros Ht Hn. unfold rcur. destruct (rd st) as [|f rs] eqn:Er; cbn [top_ok] in Ht.
  - subst w. cbn [N.to_nat read_bits mslice adv_top]. rewrite <- Er, set_rd_same. reflexivity.
  - rewrite (read_bits_ok _ st f rs Er) by lia. rewrite N2Nat.id. reflexivity.
Qed.

Lemma active_read_ok st w nf : top_ok (rd st) w nf -> w <= active_read_bit_width st.
Proof. unfold active_read_bit_width. destruct (rd st); cbn; intros; lia. Qed.

Lemma active_write_ok st w nf : top_ok (wr st) w nf -> w <= active_write_bit_width st.
Proof. unfold active_write_bit_width. destruct (wr st); cbn; intros; lia. Qed.

Lemma depth_eq st st' : length (rd st') = length (rd st) -> length (wr st') = length (wr st) ->
  depth st' = depth st.
Proof. unfold depth. intros -> ->. reflexivity. Qed.

Lemma pad_l_eq B C : width (Sum B C) <= usize_max -> pad_l B C = pad_left B C.
Proof. cbn [width]. intros H. unfold pad_l, pad_left. rewrite !bw_eq by lia. reflexivity. Qed.

Lemma pad_r_eq B C : width (Sum B C) <= usize_max -> pad_r B C = pad_right B C.
Proof. cbn [width]. intros H. unfold pad_r, pad_right. rewrite !bw_eq by lia. reflexivity. Qed.


Lemma rcur_eq st st' : rd st' = rd st -> rcur st' = rcur st.
Proof. unfold rcur. intros ->. reflexivity. Qed.

Lemma wcur_eq st st' : wr st' = wr st -> wcur st' = wcur st.
Proof. unfold wcur. intros ->. reflexivity. Qed.

Lemma wcur_adv st st' n w nf : wr st' = adv_top (wr st) n -> top_ok (wr st) w nf -> n <= w ->
  wcur st' = wcur st + n.
Proof. unfold wcur. intros ->. apply cur_adv_top. Qed.

Lemma rcur_adv st st' n w nf : rd st' = adv_top (rd st) n -> top_ok (rd st) w nf -> n <= w ->
  rcur st' = rcur st + n.
Proof. unfold rcur. intros ->. apply cur_adv_top. Qed.

Lemma rw_disj st wA wB nf : top_ok (rd st) wA nf -> top_ok (wr st) wB nf -> tops_disj (rd st) (wr st) ->
  forall j, rcur st <= j < rcur st + wA -> ~ (wcur st <= j < wcur st + wB).
Proof. apply windows_disj. Qed.

Lemma wcur_below st w nf : top_ok (wr st) w nf -> forall j, wcur st <= j < wcur st + w -> j < nf.
Proof. apply window_below. Qed.

Lemma rcur_below st w nf : top_ok (rd st) w nf -> forall j, rcur st <= j < rcur st + w -> j < nf.
Proof. apply window_below. Qed.

Lemma nwf_ok prof cap st len : nfs st + len <= msize (mem st) -> depth st < cap ->
  exists st', new_write_frame prof cap st len = Ok st' /\ mem st' = mem st /\ nfs st' = nfs st + len /\
    rd st' = rd st /\ wr st' = mkF (nfs st) (nfs st) len :: wr st /\
    hwc st' = N.max (hwc st) (nfs st + len) /\ hwf st' = N.max (hwf st) (depth st + 1).
Proof.
  intros H1 H2. rewrite new_write_frame_ok by assumption. eexists. split; [reflexivity|].
  cbn [mem nfs rd wr hwc hwf]. repeat split; reflexivity.
Qed.

Lemma move_ok st f ws : wr st = f :: ws ->
  exists st', move_write_frame_to_read st = Ok st' /\ mem st' = mem st /\ nfs st' = nfs st /\
    rd st' = mkF (fstart f) (fstart f) (flen f) :: rd st /\ wr st' = ws /\
    hwc st' = hwc st /\ hwf st' = hwf st.
Proof.
  intros Hw. unfold move_write_frame_to_read. rewrite Hw. eexists. split; [reflexivity|].
  cbn [mem nfs rd wr hwc hwf]. repeat split; reflexivity.
Qed.

Lemma drop_ok prof st f rs : rd st = f :: rs -> flen f <= nfs st -> nfs st - flen f = fstart f ->
  exists st', drop_read_frame prof st = Ok st' /\ mem st' = mem st /\ nfs st' = fstart f /\
    rd st' = rs /\ wr st' = wr st /\ hwc st' = hwc st /\ hwf st' = hwf st.
Proof.
  intros Hr H1 H2. unfold drop_read_frame. rewrite Hr. rewrite (usub_ok prof) by exact H1. cbn [obind].
  rewrite H2, N.eqb_refl. eexists. split; [reflexivity|]. cbn [mem nfs rd wr hwc hwf]. repeat split; reflexivity.
Qed.

Section Correct.
  Variable prof : profile.
  Variable cap : N.
  Variable jet_sem : N -> sval -> option sval.

  Notation step := (step prof cap jet_sem).
  Notation action := (action prof cap jet_sem).
  Notation mstar := (mstar prof cap jet_sem).
  Notation mfail := (mfail prof cap jet_sem).
  Notation eval := (eval jet_sem).

  (* ---------------------------------------------------------------- statement *)
  Record pre (st : mstate) (A B : ty) (t : term) : Prop := mkPre {
    p_rd : top_ok (rd st) (width A) (nfs st);
    p_wr : top_ok (wr st) (width B) (nfs st);
    p_disj : tops_disj (rd st) (wr st);
    p_cells : nfs st + cells t <= msize (mem st);
    p_frames : depth st + frames t <= cap
  }.

  Definition hw_ok (st st' : mstate) (t : term) : Prop :=
    hwc st <= hwc st' /\ hwc st' <= N.max (hwc st) (nfs st + cells t) /\
    hwf st <= hwf st' /\ hwf st' <= N.max (hwf st) (depth st + frames t).

  Record post (st st' : mstate) (B : ty) (t : term) (b : sval) : Prop := mkPost {
    q_len : length (mem st') = length (mem st);
    q_nfs : nfs st' = nfs st;
    q_rd : rd st' = rd st;
    q_wr : wr st' = adv_top (wr st) (width B);
    q_enc : enc_at (mem st') (wcur st) B b;
    q_same : forall j, ~ (wcur st <= j < wcur st + width B) -> ~ (nfs st <= j < nfs st + cells t) ->
                       mbit (mem st') j = mbit (mem st) j;
    q_hw : hw_ok st st' t
  }.

  Definition err_of (e : sem_error) : exec_error :=
    match e with
    | Pruned c => ReachedPrunedBranch c
    | FailNode f => ReachedFailNode f
    | JetFailed => EJetFailed
    end.

  Definition correct (t : term) (A B : ty) : Prop :=
    forall a st k, pre st A B t -> enc_at (mem st) (rcur st) A a ->
      match eval t a with
      | ROk b => exists st' n, (n <= steps t)%nat /\ mstar n (st, CGoto t :: k) (st', k) /\
                               post st st' B t b
      | RErr e => exists st' n, (n <= steps t)%nat /\ mfail n (st, CGoto t :: k) (err_of e, st') /\
                                hw_ok st st' t
      | RStuck => False
      end.

  Lemma hw_ok_refl st t : hw_ok st st t.
  Proof. unfold hw_ok. lia. Qed.

  (* one iteration of the main loop, from the result of the node's action *)
  Lemma step_goto st t k st1 push o :
    action st t = Ok (st1, push, o) ->
    window_check st1 (hd_error (rd st)) = Ok tt ->
    (o = Success -> window_check st1 (hd_error (wr st)) = Ok tt) ->
    o <> NJetFailed ->
    step st (CGoto t :: k) = Ok (st1, push ++ k).
  Proof.
    intros Ha Hw1 Hw2 Hj. cbn [Machine.step]. unfold exec_node. rewrite Ha. cbn [obind]. rewrite Hw1. cbn [obind].
    destruct o; try congruence.
    - reflexivity.
    - rewrite (Hw2 eq_refl). reflexivity.
  Qed.

  (* ---------------------------------------------------------------- leaves *)
  Lemma correct_unit A : correct (Unit (A, One)) A One.
  Proof.
    intros a st k [Prd Pwr Pd Pc Pf] Ha. cbn [eval].
    exists st, 1%nat. split; [cbn; lia|]. split.
    - apply mstar_one. change k with ([] ++ k) at 2.
      eapply step_goto; [reflexivity| | |discriminate].
      + eapply wc_ok; [exact Prd|]. cbn [cells] in Pc. lia.
      + intros _. eapply wc_ok; [exact Pwr|]. cbn [cells] in Pc. lia.
    - constructor; auto.
      + cbn [width]. rewrite adv_top_0. reflexivity.
      + exact I.
      + apply hw_ok_refl.
  Qed.

  Lemma correct_iden A : width A <= usize_max -> correct (Iden (A, A)) A A.
  Proof.
    intros Hs a st k [Prd Pwr Pd Pc Pf] Ha. cbn [eval]. cbn [cells] in Pc.
    destruct (copy_tops st (width A) (nfs st) Prd Pwr Pd ltac:(lia))
      as (st' & E & Hn & Hr & Hw & Hc & Hf & Hl & Hcp & Ho).
    exists st', 1%nat. split; [cbn; lia|]. split.
    - apply mstar_one. change k with ([] ++ k) at 2.
      eapply step_goto.
      + cbn [Machine.action fst]. rewrite bw_eq by exact Hs. rewrite E. reflexivity.
      + eapply wc_ok; [exact Prd|]. unfold msize in *. rewrite Hl. lia.
      + intros _. eapply wc_ok; [exact Pwr|]. unfold msize in *. rewrite Hl. lia.
      + discriminate.
    - constructor; auto.
      + eapply enc_at_move; [|exact Ha]. exact Hcp.
      + unfold hw_ok. rewrite Hc, Hf. lia.
  Qed.
  Lemma correct_witness A B bits : length bits = N.to_nat (width B) -> correct (Witness (A, B) bits) A B.
  Proof.
    intros Hlen a st k [Prd Pwr Pd Pc Pf] Ha. cbn [eval snd]. cbn [cells snd] in Pc.
    assert (Hl' : N.of_nat (length bits) = width B) by lia.
    destruct (write_bits_tops st bits (nfs st)) as (st' & E & Hn & Hr & Hw & Hc & Hf & Hl & Hs & Ho);
      [rewrite Hl'; exact Pwr|lia|].
    rewrite Hl' in *.
    exists st', 1%nat. split; [cbn; lia|]. split.
    - apply mstar_one. change k with ([] ++ k) at 2.
      eapply step_goto.
      + cbn [Machine.action]. rewrite E. reflexivity.
      + eapply wc_ok; [exact Prd|]. unfold msize in *. rewrite Hl. lia.
      + intros _. eapply wc_ok; [exact Pwr|]. unfold msize in *. rewrite Hl. lia.
      + discriminate.
    - constructor; auto.
      + eapply padded_of_enc_at; [apply of_padded_total; exact Hlen|exact Hs].
      + unfold hw_ok. rewrite Hc, Hf. lia.
  Qed.

  Lemma correct_word n bits : length bits = N.to_nat (width (word_ty n)) ->
    correct (Word (One, word_ty n) n bits) One (word_ty n).
  Proof.
    intros Hlen a st k [Prd Pwr Pd Pc Pf] Ha. cbn [eval snd]. cbn [cells snd] in Pc.
    assert (Hl' : N.of_nat (length bits) = width (word_ty n)) by lia.
    destruct (write_bits_tops st bits (nfs st)) as (st' & E & Hn & Hr & Hw & Hc & Hf & Hl & Hs & Ho);
      [rewrite Hl'; exact Pwr|lia|].
    rewrite Hl' in *.
    exists st', 1%nat. split; [cbn; lia|]. split.
    - apply mstar_one. change k with ([] ++ k) at 2.
      eapply step_goto.
      + cbn [Machine.action]. rewrite E. reflexivity.
      + eapply wc_ok; [exact Prd|]. unfold msize in *. rewrite Hl. lia.
      + discriminate.
      + discriminate.
    - constructor; auto.
      + eapply padded_of_enc_at; [apply of_padded_total; exact Hlen|exact Hs].
      + unfold hw_ok. rewrite Hc, Hf. lia.
  Qed.

  Lemma correct_fail A B e : correct (Fail (A, B) e) A B.
  Proof.
    intros a st k P Ha. cbn [eval]. exists st, 1%nat. split; [cbn; lia|]. split.
    - apply mfail_now. reflexivity.
    - apply hw_ok_refl.
  Qed.

  Lemma correct_jet (jet_ty : N -> option arrow) A B j :
    jets_typed jet_ty jet_sem -> jet_ty j = Some (A, B) ->
    width A <= usize_max -> width B <= usize_max -> correct (Jet (A, B) j) A B.
  Proof.
    intros Hjets Hty HsA HsB a st k [Prd Pwr Pd Pc Pf] Ha. cbn [eval]. cbn [cells] in Pc.
    pose proof (enc_at_has_ty _ _ _ _ Ha) as HtyA.
    assert (Hm : nfs st <= msize (mem st)) by lia.
    (* reading the input and moving the cursor back *)
    pose proof (read_bits_tops st (width A) (nfs st) Prd Hm) as Er.
    set (st1 := set_rd st (adv_top (rd st) (width A))) in Er.
    destruct (back_tops prof st1 (rd st) (width A) (width A) (nfs st) eq_refl Prd ltac:(lia))
      as (st2 & Eb & Hm2 & Hn2 & Hw2 & Hr2 & Hc2 & Hf2).
    assert (Hact : exec_jet prof jet_sem st (A, B) j =
              match jet_sem j a with
              | None => Ok (st2, NJetFailed)
              | Some b => if negb (bw B <=? active_write_bit_width st2) then Panic 3
                          else obind (write_bits st2 (padded_enc B b)) (fun st3 => Ok (st3, Success))
              end).
    { unfold exec_jet. cbn [fst snd]. rewrite !bw_eq by assumption.
      destruct (N.leb_spec (width A) (active_read_bit_width st)) as [_|Hlt];
        [|pose proof (active_read_ok _ _ _ Prd); lia].
      cbn [negb]. rewrite Er. cbn [obind]. rewrite Eb. cbn [obind].
      rewrite (enc_at_of_padded _ _ _ _ Ha). reflexivity. }
    change (mem st1) with (mem st) in Hm2. change (nfs st1) with (nfs st) in Hn2.
    change (wr st1) with (wr st) in Hw2. change (hwc st1) with (hwc st) in Hc2.
    change (hwf st1) with (hwf st) in Hf2.
    destruct (jet_sem j a) as [b|] eqn:Ej.
    - pose proof (Hjets _ _ _ _ _ Hty HtyA Ej) as HtyB.
      pose proof (padded_enc_length _ _ HtyB) as Hlen.
      assert (Hl' : N.of_nat (length (padded_enc B b)) = width B) by lia.
      assert (Pwr2 : top_ok (wr st2) (width B) (nfs st2)) by (rewrite Hw2, Hn2; exact Pwr).
      destruct (write_bits_tops st2 (padded_enc B b) (nfs st2))
        as (st' & E & Hn & Hr & Hw & Hc & Hf & Hl & Hs & Ho);
        [rewrite Hl'; exact Pwr2|rewrite Hn2, Hm2; exact Hm|].
      rewrite Hl' in *.
      assert (Ewc : wcur st2 = wcur st) by (unfold wcur; rewrite Hw2; reflexivity).
      exists st', 1%nat. split; [cbn; lia|]. split.
      + apply mstar_one. change k with ([] ++ k) at 2.
        eapply step_goto.
        * cbn [Machine.action]. rewrite Hact. rewrite bw_eq by assumption.
          destruct (N.leb_spec (width B) (active_write_bit_width st2)) as [_|Hlt];
            [|pose proof (active_write_ok _ _ _ Pwr2); lia].
          cbn [negb]. rewrite E. reflexivity.
        * eapply wc_ok; [exact Prd|]. unfold msize in *. rewrite Hl, Hm2. lia.
        * intros _. eapply wc_ok; [exact Pwr|]. unfold msize in *. rewrite Hl, Hm2. lia.
        * discriminate.
      + constructor.
        * rewrite Hl, Hm2. reflexivity.
        * congruence.
        * congruence.
        * rewrite Hw, Hw2. reflexivity.
        * rewrite <- Ewc. eapply padded_of_enc_at; [apply padded_enc_padded_of; exact HtyB|exact Hs].
        * intros i H1 H2. rewrite Ho by (rewrite Ewc; exact H1). rewrite Hm2. reflexivity.
        * unfold hw_ok. rewrite Hc, Hf, Hc2, Hf2. lia.
    - exists st2, 1%nat. split; [cbn; lia|]. split.
      + apply mfail_now. cbn [Machine.step]. unfold exec_node. cbn [Machine.action]. rewrite Hact.
        cbn [obind]. rewrite (wc_ok (rd st) (width A) (nfs st) st2 Prd) by (rewrite Hm2; exact Hm).
        reflexivity.
      + unfold hw_ok. rewrite Hc2, Hf2. lia.
  Qed.
  (* ---------------------------------------------------------------- injections *)
  Lemma correct_injl A B C t : width (Sum B C) <= usize_max ->
    correct t A B -> correct (InjL (A, Sum B C) t) A (Sum B C).
  Proof.
    intros Hs IH a st k [Prd Pwr Pd Pc Pf] Ha. cbn [eval]. cbn [cells frames] in Pc, Pf.
    assert (Hm : nfs st <= msize (mem st)) by lia.
    pose proof Pwr as Pwr0. cbn [width] in Pwr.
    destruct (write_bit_tops st false _ _ Pwr ltac:(lia) Hm)
      as (st1 & E1 & Hn1 & Hr1 & Hw1 & Hc1 & Hf1 & Hl1 & Hb1 & Ho1).
    assert (Pwr1 : top_ok (wr st1) (N.max (width B) (width C)) (nfs st1)).
    { rewrite Hw1, Hn1. apply top_ok_adv. exact Pwr. }
    destruct (skip_tops st1 (pad_left B C) _ _ Pwr1 ltac:(unfold pad_left; lia))
      as (st2 & E2 & Hm2 & Hn2 & Hr2 & Hw2 & Hc2 & Hf2).
    assert (Hstep : step st (CGoto (InjL (A, Sum B C) t) :: k) = Ok (st2, CGoto t :: k)).
    { change (CGoto t :: k) with ([CGoto t] ++ k). eapply step_goto.
      - cbn [Machine.action snd]. rewrite E1. cbn [obind]. rewrite pad_l_eq by exact Hs. rewrite E2. reflexivity.
      - eapply wc_ok; [exact Prd|]. unfold msize in *. rewrite Hm2, Hl1. lia.
      - discriminate.
      - discriminate. }
    assert (Ew2 : wr st2 = adv_top (wr st) (1 + pad_left B C)) by (rewrite Hw2, Hw1; apply adv_top_add).
    assert (Ecur2 : wcur st2 = wcur st + (1 + pad_left B C)).
    { eapply wcur_adv; [exact Ew2|exact Pwr|]. unfold pad_left. lia. }
    assert (P2 : pre st2 A B t).
    { constructor.
      - rewrite Hr2, Hr1, Hn2, Hn1. exact Prd.
      - rewrite Ew2, Hn2, Hn1. apply top_ok_adv. eapply top_ok_weaken; [exact Pwr| |lia]. unfold pad_left. lia.
      - rewrite Hr2, Hr1, Ew2. apply tops_disj_adv_r. exact Pd.
      - rewrite Hn2, Hn1, Hm2. unfold msize in *. rewrite Hl1. exact Pc.
      - rewrite (depth_eq st st2) by (rewrite ?Hr2, ?Hr1, ?Ew2, ?adv_top_length; reflexivity). exact Pf. }
    assert (Ha2 : enc_at (mem st2) (rcur st2) A a).
    { rewrite (rcur_eq st st2) by congruence. rewrite Hm2. eapply enc_at_ext; [|exact Ha].
      intros j Hj. apply Ho1. intros ->. eapply (rw_disj _ _ _ _ Prd Pwr Pd); [exact Hj|]. lia. }
    specialize (IH a st2 k P2 Ha2). destruct (eval t a) as [b|e|]; cbn [rbind].
    - destruct IH as (st' & n & Hle & Hstar & Q). destruct Q as [Ql Qn Qr Qw Qe Qs Qh].
      exists st', (S n). split; [cbn [steps]; lia|]. split; [econstructor; eassumption|].
      constructor.
      + rewrite Ql, Hm2. exact Hl1.
      + congruence.
      + congruence.
      + rewrite Qw, Ew2, adv_top_add. f_equal. cbn [width]. unfold pad_left. lia.
      + cbn [enc_at]. split.
        * rewrite Qs; [rewrite Hm2; exact Hb1| |].
          -- rewrite Ecur2. lia.
          -- pose proof (wcur_below _ _ _ Pwr (wcur st)). rewrite Hn2, Hn1. lia.
        * rewrite Ecur2 in Qe. rewrite N.add_assoc in Qe. exact Qe.
      + intros j H1 H2. cbn [width cells] in H1, H2. rewrite Qs.
        * rewrite Hm2. apply Ho1. lia.
        * rewrite Ecur2. unfold pad_left. lia.
        * rewrite Hn2, Hn1. exact H2.
      + unfold hw_ok in *. rewrite Hc2, Hc1, Hf2, Hf1, Hn2, Hn1 in Qh.
        rewrite (depth_eq st st2) in Qh by (rewrite ?Hr2, ?Hr1, ?Ew2, ?adv_top_length; reflexivity).
        exact Qh.
    - destruct IH as (st' & n & Hle & Hfail & Qh).
      exists st', (S n). split; [cbn [steps]; lia|]. split; [eapply mfail_step; eassumption|].
      unfold hw_ok in *. rewrite Hc2, Hc1, Hf2, Hf1, Hn2, Hn1 in Qh.
      rewrite (depth_eq st st2) in Qh by (rewrite ?Hr2, ?Hr1, ?Ew2, ?adv_top_length; reflexivity).
      exact Qh.
    - exact IH.
  Qed.

  Lemma correct_injr A B C t : width (Sum B C) <= usize_max ->
    correct t A C -> correct (InjR (A, Sum B C) t) A (Sum B C).
  Proof.
    intros Hs IH a st k [Prd Pwr Pd Pc Pf] Ha. cbn [eval]. cbn [cells frames] in Pc, Pf.
    assert (Hm : nfs st <= msize (mem st)) by lia.
    pose proof Pwr as Pwr0. cbn [width] in Pwr.
    destruct (write_bit_tops st true _ _ Pwr ltac:(lia) Hm)
      as (st1 & E1 & Hn1 & Hr1 & Hw1 & Hc1 & Hf1 & Hl1 & Hb1 & Ho1).
    assert (Pwr1 : top_ok (wr st1) (N.max (width B) (width C)) (nfs st1)).
    { rewrite Hw1, Hn1. apply top_ok_adv. exact Pwr. }
    destruct (skip_tops st1 (pad_right B C) _ _ Pwr1 ltac:(unfold pad_right; lia))
      as (st2 & E2 & Hm2 & Hn2 & Hr2 & Hw2 & Hc2 & Hf2).
    assert (Hstep : step st (CGoto (InjR (A, Sum B C) t) :: k) = Ok (st2, CGoto t :: k)).
    { change (CGoto t :: k) with ([CGoto t] ++ k). eapply step_goto.
      - cbn [Machine.action snd]. rewrite E1. cbn [obind]. rewrite pad_r_eq by exact Hs. rewrite E2. reflexivity.
      - eapply wc_ok; [exact Prd|]. unfold msize in *. rewrite Hm2, Hl1. lia.
      - discriminate.
      - discriminate. }
    assert (Ew2 : wr st2 = adv_top (wr st) (1 + pad_right B C)) by (rewrite Hw2, Hw1; apply adv_top_add).
    assert (Ecur2 : wcur st2 = wcur st + (1 + pad_right B C)).
    { eapply wcur_adv; [exact Ew2|exact Pwr|]. unfold pad_right. lia. }
    assert (P2 : pre st2 A C t).
    { constructor.
      - rewrite Hr2, Hr1, Hn2, Hn1. exact Prd.
      - rewrite Ew2, Hn2, Hn1. apply top_ok_adv. eapply top_ok_weaken; [exact Pwr| |lia]. unfold pad_right. lia.
      - rewrite Hr2, Hr1, Ew2. apply tops_disj_adv_r. exact Pd.
      - rewrite Hn2, Hn1, Hm2. unfold msize in *. rewrite Hl1. exact Pc.
      - rewrite (depth_eq st st2) by (rewrite ?Hr2, ?Hr1, ?Ew2, ?adv_top_length; reflexivity). exact Pf. }
    assert (Ha2 : enc_at (mem st2) (rcur st2) A a).
    { rewrite (rcur_eq st st2) by congruence. rewrite Hm2. eapply enc_at_ext; [|exact Ha].
      intros j Hj. apply Ho1. intros ->. eapply (rw_disj _ _ _ _ Prd Pwr Pd); [exact Hj|]. lia. }
    specialize (IH a st2 k P2 Ha2). destruct (eval t a) as [b|e|]; cbn [rbind].
    - destruct IH as (st' & n & Hle & Hstar & Q). destruct Q as [Ql Qn Qr Qw Qe Qs Qh].
      exists st', (S n). split; [cbn [steps]; lia|]. split; [econstructor; eassumption|].
      constructor.
      + rewrite Ql, Hm2. exact Hl1.
      + congruence.
      + congruence.
      + rewrite Qw, Ew2, adv_top_add. f_equal. cbn [width]. unfold pad_right. lia.
      + cbn [enc_at]. split.
        * rewrite Qs; [rewrite Hm2; exact Hb1| |].
          -- rewrite Ecur2. lia.
          -- pose proof (wcur_below _ _ _ Pwr (wcur st)). rewrite Hn2, Hn1. lia.
        * rewrite Ecur2 in Qe. rewrite N.add_assoc in Qe. exact Qe.
      + intros j H1 H2. cbn [width cells] in H1, H2. rewrite Qs.
        * rewrite Hm2. apply Ho1. lia.
        * rewrite Ecur2. unfold pad_right. lia.
        * rewrite Hn2, Hn1. exact H2.
      + unfold hw_ok in *. rewrite Hc2, Hc1, Hf2, Hf1, Hn2, Hn1 in Qh.
        rewrite (depth_eq st st2) in Qh by (rewrite ?Hr2, ?Hr1, ?Ew2, ?adv_top_length; reflexivity).
        exact Qh.
    - destruct IH as (st' & n & Hle & Hfail & Qh).
      exists st', (S n). split; [cbn [steps]; lia|]. split; [eapply mfail_step; eassumption|].
      unfold hw_ok in *. rewrite Hc2, Hc1, Hf2, Hf1, Hn2, Hn1 in Qh.
      rewrite (depth_eq st st2) in Qh by (rewrite ?Hr2, ?Hr1, ?Ew2, ?adv_top_length; reflexivity).
      exact Qh.
    - exact IH.
  Qed.
  (* ---------------------------------------------------------------- take *)
  Lemma correct_take A B C t : correct t A C -> correct (Take (Prod A B, C) t) (Prod A B) C.
  Proof.
    intros IH a st k [Prd Pwr Pd Pc Pf] Ha. cbn [cells frames] in Pc, Pf.
    destruct a as [| | |x y]; cbn [enc_at] in Ha; try contradiction. destruct Ha as [Hx Hy]. cbn [eval].
    assert (Hstep : step st (CGoto (Take (Prod A B, C) t) :: k) = Ok (st, CGoto t :: k)).
    { change (CGoto t :: k) with ([CGoto t] ++ k). eapply step_goto.
      - reflexivity.
      - eapply wc_ok; [exact Prd|]. lia.
      - discriminate.
      - discriminate. }
    assert (P1 : pre st A C t).
    { constructor; auto. eapply top_ok_weaken; [exact Prd|cbn [width]; lia|lia]. }
    specialize (IH x st k P1 Hx). destruct (eval t x) as [b|e|].
    - destruct IH as (st' & n & Hle & Hstar & Q). destruct Q as [Ql Qn Qr Qw Qe Qs Qh].
      exists st', (S n). split; [cbn [steps]; lia|]. split; [econstructor; eassumption|].
      constructor; auto.
    - destruct IH as (st' & n & Hle & Hfail & Qh).
      exists st', (S n). split; [cbn [steps]; lia|]. split; [eapply mfail_step; eassumption|exact Qh].
    - exact IH.
  Qed.

  (* ---------------------------------------------------------------- fwd n; child; back n *)
  Lemma shift_run T t' A A' B n a' st k :
    correct t' A' B ->
    cells t' <= cells T -> frames t' <= frames T -> (S (S (steps t')) <= steps T)%nat ->
    pre st A B T ->
    n + width A' <= width A ->
    enc_at (mem st) (rcur st + n) A' a' ->
    (forall st1, fwd st n = Ok st1 -> step st (CGoto T :: k) = Ok (st1, CGoto t' :: CBack n :: k)) ->
    match eval t' a' with
    | ROk b => exists st' m, (m <= steps T)%nat /\ mstar m (st, CGoto T :: k) (st', k) /\ post st st' B T b
    | RErr e => exists st' m, (m <= steps T)%nat /\ mfail m (st, CGoto T :: k) (err_of e, st') /\ hw_ok st st' T
    | RStuck => False
    end.
  Proof.
    intros IH Hcl Hfr Hst [Prd Pwr Pd Pc Pf] Hw Ha Hstep.
    destruct (fwd_tops st n (width A) (nfs st) Prd ltac:(lia)) as (st1 & E1 & Hm1 & Hn1 & Hw1 & Hr1 & Hc1 & Hf1).
    specialize (Hstep st1 E1).
    assert (Hd1 : depth st1 = depth st) by (apply depth_eq; rewrite ?Hr1, ?Hw1, ?adv_top_length; reflexivity).
    assert (P1 : pre st1 A' B t').
    { constructor.
      - rewrite Hr1, Hn1. apply top_ok_adv. eapply top_ok_weaken; [exact Prd|lia|lia].
      - rewrite Hw1, Hn1. exact Pwr.
      - rewrite Hr1, Hw1. apply tops_disj_adv_l. exact Pd.
      - rewrite Hn1, Hm1. lia.
      - rewrite Hd1. lia. }
    assert (Ha1 : enc_at (mem st1) (rcur st1) A' a').
    { rewrite Hm1. rewrite (rcur_adv st st1 n (width A) (nfs st)) by (auto; lia). exact Ha. }
    specialize (IH a' st1 (CBack n :: k) P1 Ha1). destruct (eval t' a') as [b|e|].
    - destruct IH as (st2 & m & Hle & Hstar & Q). destruct Q as [Ql Qn Qr Qw Qe Qs Qh].
      destruct (back_tops prof st2 (rd st) n (width A) (nfs st)) as (st3 & E3 & Hm3 & Hn3 & Hw3 & Hr3 & Hc3 & Hf3);
        [rewrite Qr; exact Hr1|exact Prd|lia|].
      exists st3, (S (m + 1)). split; [lia|]. split.
      + econstructor; [exact Hstep|]. eapply mstar_trans; [exact Hstar|].
        apply mstar_one. cbn [Machine.step]. rewrite E3. reflexivity.
      + constructor.
        * rewrite Hm3, Ql, Hm1. reflexivity.
        * congruence.
        * exact Hr3.
        * rewrite Hw3, Qw, Hw1. reflexivity.
        * rewrite Hm3. rewrite (wcur_eq st st1 Hw1) in Qe. exact Qe.
        * intros j H1 H2. rewrite Hm3, Qs, Hm1; [reflexivity| |].
          -- rewrite (wcur_eq st st1 Hw1). exact H1.
          -- rewrite Hn1. lia.
        * unfold hw_ok in *. rewrite Hc3, Hf3. rewrite Hc1, Hf1, Hn1, Hd1 in Qh. lia.
    - destruct IH as (st2 & m & Hle & Hfail & Qh).
      exists st2, (S m). split; [lia|]. split; [eapply mfail_step; eassumption|].
      unfold hw_ok in *. rewrite Hc1, Hf1, Hn1, Hd1 in Qh. lia.
    - exact IH.
  Qed.
  (* ---------------------------------------------------------------- drop *)
  Lemma correct_drop A B C t : width (Prod A B) <= usize_max ->
    correct t B C -> correct (Drop (Prod A B, C) t) (Prod A B) C.
  Proof.
    intros Hs IH a st k P Ha.
    destruct a as [| | |x y]; cbn [enc_at] in Ha; try contradiction. destruct Ha as [Hx Hy]. cbn [eval].
    eapply (shift_run (Drop (Prod A B, C) t) t (Prod A B) B C (width A)); try eassumption;
      cbn [cells frames steps width]; try lia.
    intros st1 E1. change (CGoto t :: CBack (width A) :: k) with ([CGoto t; CBack (width A)] ++ k).
    destruct P as [Prd Pwr Pd Pc Pf]. cbn [cells] in Pc. cbn [width] in Hs.
    eapply step_goto.
    - cbn [Machine.action fst]. rewrite bw_eq by lia. rewrite E1. reflexivity.
    - eapply wc_ok; [exact Prd|].
      destruct (fwd_tops st (width A) _ _ Prd ltac:(cbn [width]; lia)) as (st1' & E1' & Hm1 & _).
      rewrite E1 in E1'. injection E1' as <-. rewrite Hm1. lia.
    - discriminate.
    - discriminate.
  Qed.

  (* ---------------------------------------------------------------- case, assertl, assertr *)
  (* the choice bit and the step taken by the three kinds of case node *)
  Lemma case_read st A B C D T x : pre st (Prod (Sum A B) C) D T -> cells T >= 0 ->
    enc_at (mem st) (rcur st) (Prod (Sum A B) C) x ->
    exists f rs, rd st = f :: rs /\ fcur f = rcur st /\ fcur f < msize (mem st).
  Proof.
    intros [Prd Pwr Pd Pc Pf] _ Ha. unfold rcur in *. destruct (rd st) as [|f rs]; cbn [top_ok width] in Prd; [lia|].
    exists f, rs. repeat split. lia.
  Qed.

  Lemma wc_after_fwd st st1 n w : top_ok (rd st) w (nfs st) -> nfs st <= msize (mem st) -> n <= w ->
    fwd st n = Ok st1 -> window_check st1 (hd_error (rd st)) = Ok tt.
  Proof.
    intros Prd Hm Hn E1. eapply wc_ok; [exact Prd|].
    destruct (fwd_tops st n _ _ Prd Hn) as (st1' & E1' & Hm1 & _).
    rewrite E1 in E1'. injection E1' as <-. rewrite Hm1. exact Hm.
  Qed.

  Lemma correct_case A B C D s t : width (Prod (Sum A B) C) <= usize_max ->
    correct s (Prod A C) D -> correct t (Prod B C) D ->
    correct (Case (Prod (Sum A B) C, D) s t) (Prod (Sum A B) C) D.
  Proof.
    intros Hs IHs IHt a st k P Ha.
    destruct (case_read _ _ _ _ _ _ _ P ltac:(lia) Ha) as (f & rs & Er & Ef & Hf).
    assert (Hsab : width (Sum A B) <= usize_max) by (cbn [width] in *; lia).
    destruct a as [| | |[| x | y |] c]; cbn [enc_at] in Ha; try tauto; destruct Ha as [[Hbit Hx] Hc]; cbn [eval].
    - (* left *)
      eapply (shift_run (Case (Prod (Sum A B) C, D) s t) s (Prod (Sum A B) C) (Prod A C) D (1 + pad_left A B));
        try eassumption; cbn [cells frames steps width]; try (unfold pad_left; lia).
      + cbn [enc_at]. rewrite N.add_assoc. split; [exact Hx|].
        replace (rcur st + 1 + pad_left A B + width A) with (rcur st + width (Sum A B))
          by (cbn [width]; unfold pad_left; lia). exact Hc.
      + intros st1 E1.
        change (CGoto s :: CBack (1 + pad_left A B) :: k) with ([CGoto s; CBack (1 + pad_left A B)] ++ k).
        destruct P as [Prd Pwr Pd Pc Pf]. eapply step_goto.
        * cbn [Machine.action fst]. rewrite Er. destruct (N.ltb_spec (fcur f) (msize (mem st))); [|lia].
          cbn [negb]. rewrite Ef, Hbit. rewrite pad_l_eq by exact Hsab. rewrite E1. reflexivity.
        * eapply wc_after_fwd; [exact Prd| | |exact E1]; [lia|cbn [width]; unfold pad_left; lia].
        * discriminate.
        * discriminate.
    - (* right *)
      eapply (shift_run (Case (Prod (Sum A B) C, D) s t) t (Prod (Sum A B) C) (Prod B C) D (1 + pad_right A B));
        try eassumption; cbn [cells frames steps width]; try (unfold pad_right; lia).
      + cbn [enc_at]. rewrite N.add_assoc. split; [exact Hx|].
        replace (rcur st + 1 + pad_right A B + width B) with (rcur st + width (Sum A B))
          by (cbn [width]; unfold pad_right; lia). exact Hc.
      + intros st1 E1.
        change (CGoto t :: CBack (1 + pad_right A B) :: k) with ([CGoto t; CBack (1 + pad_right A B)] ++ k).
        destruct P as [Prd Pwr Pd Pc Pf]. eapply step_goto.
        * cbn [Machine.action fst]. rewrite Er. destruct (N.ltb_spec (fcur f) (msize (mem st))); [|lia].
          cbn [negb]. rewrite Ef, Hbit. rewrite pad_r_eq by exact Hsab. rewrite E1. reflexivity.
        * eapply wc_after_fwd; [exact Prd| | |exact E1]; [lia|cbn [width]; unfold pad_right; lia].
        * discriminate.
        * discriminate.
  Qed.

  Lemma correct_assertl A B C D s h : width (Prod (Sum A B) C) <= usize_max ->
    correct s (Prod A C) D ->
    correct (AssertL (Prod (Sum A B) C, D) s h) (Prod (Sum A B) C) D.
  Proof.
    intros Hs IHs a st k P Ha.
    destruct (case_read _ _ _ _ _ _ _ P ltac:(lia) Ha) as (f & rs & Er & Ef & Hf).
    assert (Hsab : width (Sum A B) <= usize_max) by (cbn [width] in *; lia).
    destruct a as [| | |[| x | y |] c]; cbn [enc_at] in Ha; try tauto; destruct Ha as [[Hbit Hx] Hc]; cbn [eval].
    - (* left *)
      eapply (shift_run (AssertL (Prod (Sum A B) C, D) s h) s (Prod (Sum A B) C) (Prod A C) D (1 + pad_left A B));
        try eassumption; cbn [cells frames steps width]; try (unfold pad_left; lia).
      + cbn [enc_at]. rewrite N.add_assoc. split; [exact Hx|].
        replace (rcur st + 1 + pad_left A B + width A) with (rcur st + width (Sum A B))
          by (cbn [width]; unfold pad_left; lia). exact Hc.
      + intros st1 E1.
        change (CGoto s :: CBack (1 + pad_left A B) :: k) with ([CGoto s; CBack (1 + pad_left A B)] ++ k).
        destruct P as [Prd Pwr Pd Pc Pf]. eapply step_goto.
        * cbn [Machine.action fst]. rewrite Er. destruct (N.ltb_spec (fcur f) (msize (mem st))); [|lia].
          cbn [negb]. rewrite Ef, Hbit. rewrite pad_l_eq by exact Hsab. rewrite E1. reflexivity.
        * eapply wc_after_fwd; [exact Prd| | |exact E1]; [lia|cbn [width]; unfold pad_left; lia].
        * discriminate.
        * discriminate.
    - (* right: the hidden side *)
      exists st, 1%nat. split; [cbn [steps]; lia|]. split; [|apply hw_ok_refl].
      apply mfail_now. cbn [Machine.step]. unfold exec_node. cbn [Machine.action fst]. rewrite Er.
      destruct (N.ltb_spec (fcur f) (msize (mem st))); [|lia]. cbn [negb]. rewrite Ef, Hbit. reflexivity.
  Qed.

  Lemma correct_assertr A B C D h t : width (Prod (Sum A B) C) <= usize_max ->
    correct t (Prod B C) D ->
    correct (AssertR (Prod (Sum A B) C, D) h t) (Prod (Sum A B) C) D.
  Proof.
    intros Hs IHt a st k P Ha.
    destruct (case_read _ _ _ _ _ _ _ P ltac:(lia) Ha) as (f & rs & Er & Ef & Hf).
    assert (Hsab : width (Sum A B) <= usize_max) by (cbn [width] in *; lia).
    destruct a as [| | |[| x | y |] c]; cbn [enc_at] in Ha; try tauto; destruct Ha as [[Hbit Hx] Hc]; cbn [eval].
    - (* left: the hidden side *)
      exists st, 1%nat. split; [cbn [steps]; lia|]. split; [|apply hw_ok_refl].
      apply mfail_now. cbn [Machine.step]. unfold exec_node. cbn [Machine.action fst]. rewrite Er.
      destruct (N.ltb_spec (fcur f) (msize (mem st))); [|lia]. cbn [negb]. rewrite Ef, Hbit. reflexivity.
    - (* right *)
      eapply (shift_run (AssertR (Prod (Sum A B) C, D) h t) t (Prod (Sum A B) C) (Prod B C) D (1 + pad_right A B));
        try eassumption; cbn [cells frames steps width]; try (unfold pad_right; lia).
      + cbn [enc_at]. rewrite N.add_assoc. split; [exact Hx|].
        replace (rcur st + 1 + pad_right A B + width B) with (rcur st + width (Sum A B))
          by (cbn [width]; unfold pad_right; lia). exact Hc.
      + intros st1 E1.
        change (CGoto t :: CBack (1 + pad_right A B) :: k) with ([CGoto t; CBack (1 + pad_right A B)] ++ k).
        destruct P as [Prd Pwr Pd Pc Pf]. eapply step_goto.
        * cbn [Machine.action fst]. rewrite Er. destruct (N.ltb_spec (fcur f) (msize (mem st))); [|lia].
          cbn [negb]. rewrite Ef, Hbit. rewrite pad_r_eq by exact Hsab. rewrite E1. reflexivity.
        * eapply wc_after_fwd; [exact Prd| | |exact E1]; [lia|cbn [width]; unfold pad_right; lia].
        * discriminate.
        * discriminate.
  Qed.
  (* ---------------------------------------------------------------- pair *)
  Lemma correct_pair A B C s t : correct s A B -> correct t A C ->
    correct (Pair (A, Prod B C) s t) A (Prod B C).
  Proof.
    intros IHs IHt a st k [Prd Pwr Pd Pc Pf] Ha. cbn [eval]. cbn [cells frames] in Pc, Pf. cbn [width] in Pwr.
    assert (Hm : nfs st <= msize (mem st)) by lia.
    assert (Hstep : step st (CGoto (Pair (A, Prod B C) s t) :: k) = Ok (st, CGoto s :: CGoto t :: k)).
    { change (CGoto s :: CGoto t :: k) with ([CGoto s; CGoto t] ++ k). eapply step_goto.
      - reflexivity.
      - eapply wc_ok; [exact Prd|exact Hm].
      - discriminate.
      - discriminate. }
    assert (P1 : pre st A B s).
    { constructor; auto; try lia. eapply top_ok_weaken; [exact Pwr|lia|lia]. }
    specialize (IHs a st (CGoto t :: k) P1 Ha). destruct (eval s a) as [b|e|]; cbn [rbind].
    - destruct IHs as (st1 & n1 & Hle1 & Hstar1 & Q1). destruct Q1 as [Ql1 Qn1 Qr1 Qw1 Qe1 Qs1 Qh1].
      assert (Ecur1 : wcur st1 = wcur st + width B) by (eapply wcur_adv; [exact Qw1|exact Pwr|lia]).
      assert (Hd1 : depth st1 = depth st) by (apply depth_eq; rewrite ?Qr1, ?Qw1, ?adv_top_length; reflexivity).
      assert (P2 : pre st1 A C t).
      { constructor.
        - rewrite Qr1, Qn1. exact Prd.
        - rewrite Qw1, Qn1. apply top_ok_adv. exact Pwr.
        - rewrite Qr1, Qw1. apply tops_disj_adv_r. exact Pd.
        - rewrite Qn1. unfold msize in *. rewrite Ql1. lia.
        - rewrite Hd1. lia. }
      assert (Ha1 : enc_at (mem st1) (rcur st1) A a).
      { rewrite (rcur_eq st st1 Qr1). eapply enc_at_ext; [|exact Ha]. intros j Hj. apply Qs1.
        - pose proof (rw_disj _ _ _ _ Prd Pwr Pd j Hj). lia.
        - pose proof (rcur_below _ _ _ Prd j Hj). lia. }
      specialize (IHt a st1 k P2 Ha1). destruct (eval t a) as [c|e|]; cbn [rbind].
      + destruct IHt as (st2 & n2 & Hle2 & Hstar2 & Q2). destruct Q2 as [Ql2 Qn2 Qr2 Qw2 Qe2 Qs2 Qh2].
        exists st2, (S (n1 + n2)). split; [cbn [steps]; lia|]. split.
        * econstructor; [exact Hstep|]. eapply mstar_trans; eassumption.
        * constructor.
          -- congruence.
          -- congruence.
          -- congruence.
          -- rewrite Qw2, Qw1, adv_top_add. reflexivity.
          -- cbn [enc_at]. split.
             ++ eapply enc_at_ext; [|exact Qe1]. intros j Hj. apply Qs2.
                ** rewrite Ecur1. lia.
                ** pose proof (wcur_below _ _ _ Pwr j). rewrite Qn1. lia.
             ++ rewrite Ecur1 in Qe2. exact Qe2.
          -- intros j H1 H2. cbn [width cells] in H1, H2. rewrite Qs2, Qs1; [reflexivity| | | |]; try lia.
          -- unfold hw_ok in *. cbn [cells frames]. rewrite Qn1, Hd1 in Qh2. lia.
      + destruct IHt as (st2 & n2 & Hle2 & Hfail2 & Qh2).
        exists st2, (S (n1 + n2)). split; [cbn [steps]; lia|]. split.
        * eapply mfail_step; [exact Hstep|]. eapply mstar_mfail; eassumption.
        * unfold hw_ok in *. cbn [cells frames]. rewrite Qn1, Hd1 in Qh2. lia.
      + exact IHt.
    - destruct IHs as (st1 & n1 & Hle1 & Hfail1 & Qh1).
      exists st1, (S n1). split; [cbn [steps]; lia|]. split; [eapply mfail_step; eassumption|].
      unfold hw_ok in *. cbn [cells frames]. lia.
    - exact IHs.
  Qed.

  (* ---------------------------------------------------------------- comp *)
  Lemma correct_comp A B C s t : width B <= usize_max -> arrow_of s = (A, B) ->
    correct s A B -> correct t B C -> correct (Comp (A, C) s t) A C.
  Proof.
    intros Hs Hars IHs IHt a st k [Prd Pwr Pd Pc Pf] Ha. cbn [eval].
    cbn [cells frames] in Pc, Pf. unfold tgt in Pc. rewrite Hars in Pc. cbn [snd] in Pc.
    destruct (nwf_ok prof cap st (width B) ltac:(lia) ltac:(lia))
      as (st1 & E1 & Hm1 & Hn1 & Hr1 & Hw1 & Hc1 & Hf1).
    set (K1 := CMove :: CGoto t :: CDropRead :: k).
    assert (Hstep : step st (CGoto (Comp (A, C) s t) :: k) = Ok (st1, CGoto s :: K1)).
    { change (CGoto s :: K1) with ([CGoto s; CMove; CGoto t; CDropRead] ++ k). eapply step_goto.
      - cbn [Machine.action]. unfold tgt. rewrite Hars. cbn [snd]. rewrite bw_eq by exact Hs. rewrite E1. reflexivity.
      - eapply wc_ok; [exact Prd|]. rewrite Hm1. lia.
      - discriminate.
      - discriminate. }
    assert (Hd1 : depth st1 = depth st + 1) by (unfold depth; rewrite Hr1, Hw1; cbn [length]; lia).
    assert (P1 : pre st1 A B s).
    { constructor.
      - rewrite Hr1, Hn1. eapply top_ok_weaken; [exact Prd|lia|lia].
      - rewrite Hw1, Hn1. cbn [top_ok fcur fstart flen]. lia.
      - rewrite Hr1, Hw1. destruct (rd st) as [|rf rs]; cbn [tops_disj top_ok fstart flen] in *; [exact I|lia].
      - rewrite Hn1, Hm1. lia.
      - rewrite Hd1. lia. }
    assert (Ha1 : enc_at (mem st1) (rcur st1) A a) by (rewrite (rcur_eq st st1 Hr1), Hm1; exact Ha).
    specialize (IHs a st1 K1 P1 Ha1). destruct (eval s a) as [b|e|]; cbn [rbind].
    - destruct IHs as (st2 & n1 & Hle1 & Hstar1 & Q1). destruct Q1 as [Ql2 Qn2 Qr2 Qw2 Qe2 Qs2 Qh2].
      rewrite Hw1 in Qw2. cbn [adv_top] in Qw2.
      assert (Ewc1 : wcur st1 = nfs st) by (unfold wcur; rewrite Hw1; reflexivity).
      rewrite Ewc1 in *.
      destruct (move_ok st2 _ _ Qw2) as (st3 & E3 & Hm3 & Hn3 & Hr3 & Hw3 & Hc3 & Hf3).
      cbn [fadv fstart flen] in Hr3.
      assert (Hstep3 : step st2 K1 = Ok (st3, CGoto t :: CDropRead :: k))
        by (unfold K1; cbn [Machine.step]; rewrite E3; reflexivity).
      assert (Hd3 : depth st3 = depth st + 1).
      { unfold depth. rewrite Hr3, Hw3, Qr2, Hr1. cbn [length]. lia. }
      assert (P3 : pre st3 B C t).
      { constructor.
        - rewrite Hr3, Hn3, Qn2, Hn1. cbn [top_ok fcur fstart flen]. lia.
        - rewrite Hw3, Hn3, Qn2, Hn1. eapply top_ok_weaken; [exact Pwr|lia|lia].
        - rewrite Hr3, Hw3. destruct (wr st) as [|wf ws]; cbn [tops_disj top_ok fstart flen] in *; [exact I|lia].
        - rewrite Hn3, Qn2, Hn1, Hm3. unfold msize in *. rewrite Ql2, Hm1. lia.
        - rewrite Hd3. lia. }
      assert (Ha3 : enc_at (mem st3) (rcur st3) B b).
      { unfold rcur. rewrite Hr3, Hm3. cbn [fcur]. exact Qe2. }
      specialize (IHt b st3 (CDropRead :: k) P3 Ha3). destruct (eval t b) as [c|e|].
      + destruct IHt as (st4 & n2 & Hle2 & Hstar2 & Q2). destruct Q2 as [Ql4 Qn4 Qr4 Qw4 Qe4 Qs4 Qh4].
        destruct (drop_ok prof st4 (mkF (nfs st) (nfs st) (width B)) (rd st)) as (st5 & E5 & Hm5 & Hn5 & Hr5 & Hw5 & Hc5 & Hf5).
        { rewrite Qr4, Hr3, Qr2, Hr1. reflexivity. }
        { cbn [flen]. rewrite Qn4, Hn3, Qn2, Hn1. lia. }
        { cbn [flen fstart]. rewrite Qn4, Hn3, Qn2, Hn1. lia. }
        cbn [fstart] in Hn5.
        exists st5, (S (n1 + (1 + (n2 + 1)))). split; [cbn [steps]; lia|]. split.
        * econstructor; [exact Hstep|]. eapply mstar_trans; [exact Hstar1|].
          econstructor; [exact Hstep3|]. eapply mstar_trans; [exact Hstar2|].
          apply mstar_one. cbn [Machine.step]. rewrite E5. reflexivity.
        * assert (Ewc3 : wcur st3 = wcur st) by (apply wcur_eq; exact Hw3).
          constructor.
          -- rewrite Hm5, Ql4, Hm3, Ql2, Hm1. reflexivity.
          -- exact Hn5.
          -- exact Hr5.
          -- rewrite Hw5, Qw4, Hw3. reflexivity.
          -- rewrite Hm5. rewrite Ewc3 in Qe4. exact Qe4.
          -- intros j H1 H2. cbn [cells] in H2. unfold tgt in H2. rewrite Hars in H2. cbn [snd] in H2.
             rewrite Hm5, Qs4, Hm3, Qs2, Hm1; [reflexivity| | | |].
             ++ lia.
             ++ rewrite Hn1. lia.
             ++ rewrite Ewc3. exact H1.
             ++ rewrite Hn3, Qn2, Hn1. lia.
          -- unfold hw_ok in *. cbn [cells frames]. unfold tgt. rewrite Hars. cbn [snd].
             rewrite Hc5, Hf5. rewrite Hc3, Hf3, Hn3, Qn2, Hn1, Hd3 in Qh4. rewrite Hc1, Hf1, Hn1, Hd1 in Qh2. lia.
      + destruct IHt as (st4 & n2 & Hle2 & Hfail2 & Qh4).
        exists st4, (S (n1 + (1 + n2))). split; [cbn [steps]; lia|]. split.
        * eapply mfail_step; [exact Hstep|]. eapply mstar_mfail; [exact Hstar1|].
          eapply mfail_step; [exact Hstep3|]. exact Hfail2.
        * unfold hw_ok in *. cbn [cells frames]. unfold tgt. rewrite Hars. cbn [snd].
          rewrite Hc3, Hf3, Hn3, Qn2, Hn1, Hd3 in Qh4. rewrite Hc1, Hf1, Hn1, Hd1 in Qh2. lia.
      + exact IHt.
    - destruct IHs as (st2 & n1 & Hle1 & Hfail1 & Qh2).
      exists st2, (S n1). split; [cbn [steps]; lia|]. split; [eapply mfail_step; eassumption|].
      unfold hw_ok in *. cbn [cells frames]. unfold tgt. rewrite Hars. cbn [snd].
      rewrite Hc1, Hf1, Hn1, Hd1 in Qh2. lia.
    - exact IHs.
  Qed.
End Correct.
