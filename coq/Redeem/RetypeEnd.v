(* C08 end to end: run, prune (any number of rounds), re-infer the types of the retained structure with
   the reference inference of C04, shrink the witnesses, run again.
     RetypeInfer.retype_le      the re-inferred arrows exist, are principal and lie below the originals
     Retype.retype_commutes     evaluation commutes with Value::prune
     PruneProg / PruneFix       pruning keeps roots and behaviour
   Every premise is spelled out and shown satisfiable on the program of finding F-C08 (a node shared
   between a kept and a dropped branch). *)
From RS Require Import Lib.Tac Lib.Outcome Lib.Bits Ty.Ty Core.Prog
  Redeem.Finalize Redeem.PruneProg Redeem.PruneFix Redeem.Retype Redeem.Routes Redeem.RetypeEx
  Infer.Constraints Infer.Unify Infer.Infer Infer.Principal Infer.Theorems Redeem.RetypeInfer.
Import ListNotations.
Local Open Scope nat_scope.

(* ------------------------------------------------------------------ the rounds of pruning, lifted *)

Section Rounds.
Variable HS : hashes.
Variable jet_sem : N -> N -> sval -> option sval.
Variable hash_val : list N -> sval.

Lemma prune_struct_length ident p T : length (prune_struct HS ident p T) = length p.
Proof. unfold prune_struct. apply prune_from_length. Qed.

Lemma prune_rounds_length ids : forall p T, length (prune_rounds HS ids p T) = length p.
Proof.
  induction ids as [|id tl IH]; intros p T; cbn [prune_rounds fold_left]; [reflexivity|].
  fold (prune_rounds HS tl (prune_struct HS id p T) T). rewrite IH. apply prune_struct_length.
Qed.

Lemma prune_rounds_cmrs ids : forall p T, rwf p = true -> cmrs HS (prune_rounds HS ids p T) = cmrs HS p.
Proof.
  induction ids as [|id tl IH]; intros p T H; cbn [prune_rounds fold_left]; [reflexivity|].
  fold (prune_rounds HS tl (prune_struct HS id p T) T).
  rewrite IH by (apply prune_struct_rwf; exact H). apply prune_cmrs. exact H.
Qed.

Lemma prune_rounds_typed jet_ty ids : forall p T ar root,
  typed_from jet_ty p ar root -> typed_from jet_ty (prune_rounds HS ids p T) ar root.
Proof.
  induction ids as [|id tl IH]; intros p T ar root H; cbn [prune_rounds fold_left]; [exact H|].
  fold (prune_rounds HS tl (prune_struct HS id p T) T). apply IH. apply prune_typed. exact H.
Qed.

Lemma reach_prune_rounds ids : forall p T root j, reach (prune_rounds HS ids p T) root j -> reach p root j.
Proof.
  induction ids as [|id tl IH]; intros p T root j H; cbn [prune_rounds fold_left] in H; [exact H|].
  fold (prune_rounds HS tl (prune_struct HS id p T) T) in H. apply IH in H. eapply reach_prune. exact H.
Qed.

Lemma prune_struct_word ident p T i n bits :
  nth_error (prune_struct HS ident p T) i = Some (RWord n bits) -> nth_error p i = Some (RWord n bits).
Proof.
  rewrite prune_nth. destruct (nth_error p i) as [n0|]; [|discriminate]. cbn [option_map].
  destruct n0; cbn [pnode]; try (intros H; exact H).
  destruct (taken ident T i false), (taken ident T i true); discriminate.
Qed.

Lemma prune_rounds_word ids : forall p T i n bits,
  nth_error (prune_rounds HS ids p T) i = Some (RWord n bits) -> nth_error p i = Some (RWord n bits).
Proof.
  induction ids as [|id tl IH]; intros p T i n bits H; cbn [prune_rounds fold_left] in H; [exact H|].
  fold (prune_rounds HS tl (prune_struct HS id p T) T) in H. apply IH in H. eapply prune_struct_word. exact H.
Qed.

Lemma prune_rounds_words_small ids p T root : words_small p root -> words_small (prune_rounds HS ids p T) root.
Proof.
  intros H i n bits R E. eapply H; [eapply reach_prune_rounds; exact R|eapply prune_rounds_word; exact E].
Qed.

Lemma prune_rounds_eval_gen ids : forall p T, rwf p = true -> forall fuel i v o E,
  eval jet_sem hash_val fuel p (cmrs HS p) i v = Ok (o, E) -> incl E T ->
  eval jet_sem hash_val fuel (prune_rounds HS ids p T) (cmrs HS p) i v = Ok (o, E).
Proof.
  induction ids as [|id tl IH]; intros p T W fuel i v o E H Hin; cbn [prune_rounds fold_left]; [exact H|].
  fold (prune_rounds HS tl (prune_struct HS id p T) T).
  rewrite <- (prune_cmrs HS id p T W). apply IH; [apply prune_struct_rwf; exact W| |exact Hin].
  rewrite (prune_cmrs HS id p T W). apply prune_eval_gen; assumption.
Qed.

End Rounds.

Lemma ty_le_one a : ty_le a One = true -> a = One.
Proof. destruct a; cbn; congruence. Qed.

(* ------------------------------------------------------------------ the end-to-end theorems *)

Section End.
Variable HS : hashes.
Variable jet_sem : N -> N -> sval -> option sval.
Variable hash_val : list N -> sval.
Variable jt : jet_table.
Hypothesis jet_typed : forall f j s t v o, jet_ty_of jt f j = Some (s, t) ->
  has_ty v s = true -> jet_sem f j v = Some o -> has_ty o t = true.
Hypothesis hash_typed : forall h, has_ty (hash_val h) (word_ty 8) = true.

Notation jty := (jet_ty_of jt).

(* Any node as entry point, any input: if the typed table evaluates node [root] on [v] to [o] with
   trace [E], then after pruning (any number of rounds, any identity classes per round, any tracker
   content covering the trace), re-typing the retained structure by reference inference and shrinking
   the witnesses with Value::prune, the same node evaluates the shrunk input to the shrunk output
   with the same trace; all commitment roots are unchanged. *)
Theorem prune_retype_eval ids p ar root fuel v o E s t T :
  rwf p = true -> root < length p ->
  typed_from jty p ar root -> words_small p root ->
  ar root = Some (s, t) -> has_ty v s = true ->
  eval jet_sem hash_val fuel p (cmrs HS p) root v = Ok (o, E) -> incl E T ->
  let q := prune_rounds HS ids p T in
  exists ar' s' t' v' o',
    infer_arrows jt false q root = Some ar' /\
    arrows_le q root ar' ar /\
    typed_from jty (shrink ar' q) ar' root /\
    ar' root = Some (s', t') /\ ty_le s' s = true /\ ty_le t' t = true /\
    sprune v s' = Some v' /\ sprune o t' = Some o' /\
    eval jet_sem hash_val fuel (shrink ar' q) (cmrs HS p) root v' = Ok (o', E) /\
    cmrs HS (shrink ar' q) = cmrs HS p.
Proof.
  intros W Hr Ht Hw Ha Hv H Hin q.
  assert (Wq : rwf q = true) by (apply prune_rounds_rwf; exact W).
  assert (Lq : root < length q) by (unfold q; rewrite prune_rounds_length; exact Hr).
  assert (Tq : typed_from jty q ar root) by (apply prune_rounds_typed; exact Ht).
  assert (Hwq : words_small q root) by (apply prune_rounds_words_small; exact Hw).
  destruct (retype_le jt q ar root false Wq Lq Tq Hwq ltac:(discriminate)) as (ar' & I & T' & Le & _ & _).
  assert (Hq : eval jet_sem hash_val fuel q (cmrs HS p) root v = Ok (o, E))
    by (apply prune_rounds_eval_gen; assumption).
  (* the root of the re-typed table has an arrow *)
  destruct (nth_error q root) as [nr|] eqn:En; [|apply nth_error_None in En; lia].
  assert (En' : nth_error (shrink ar' q) root = Some (shrink_node ar' root nr)) by (rewrite shrink_nth, En; reflexivity).
  pose proof (T' _ _ (reach_refl _ _) En') as Okr. unfold node_okb in Okr.
  destruct (ar' root) as [[s' t']|] eqn:Ar'; [|discriminate].
  destruct (Le root s t s' t' (reach_refl _ _) Ha Ar') as [Ls Lt].
  destruct (sprune_typed _ _ _ Hv Ls) as (v' & Sv & _).
  destruct (retype_commutes jet_sem hash_val jty jet_typed hash_typed q ar ar' root (cmrs HS p) Tq T'
              fuel root v o E s t s' t' v' (reach_refl _ _) Ha Ar' Hv Sv Hq) as (o' & Eo & So).
  exists ar', s', t', v', o'.
  split; [exact I|]. split; [exact Le|]. split; [exact T'|]. split; [exact Ar'|].
  split; [exact Ls|]. split; [exact Lt|]. split; [exact Sv|]. split; [exact So|]. split; [exact Eo|].
  rewrite cmrs_shrink. apply prune_rounds_cmrs. exact W.
Qed.

(* Programs (1 -> 1, run from the last node on the unit value): the pruned program, re-typed by reference
   inference WITH the root constraint, its witnesses shrunk, runs to the unit value with the same trace
   and has the same commitment root. *)
Theorem prune_retype_run ids p ar o E :
  let root := length p - 1 in
  rwf p = true -> p <> []%list ->
  typed_from jty p ar root -> words_small p root -> ar root = Some (One, One) ->
  run HS jet_sem hash_val p = Ok (o, E) ->
  let q := prune_rounds HS ids p E in
  exists ar',
    infer_arrows jt true q root = Some ar' /\
    arrows_le q root ar' ar /\
    typed_from jty (shrink ar' q) ar' root /\
    ar' root = Some (One, One) /\
    run HS jet_sem hash_val (shrink ar' q) = Ok (SU, E) /\
    root_cmr HS (shrink ar' q) = root_cmr HS p.
Proof.
  intros root W Ne Ht Hw Ha R q.
  assert (Hr : root < length p) by (destruct p; [congruence|cbn; lia]).
  assert (Wq : rwf q = true) by (apply prune_rounds_rwf; exact W).
  assert (Eq : length q = length p) by (apply prune_rounds_length).
  assert (Lq : root < length q) by lia.
  assert (Tq : typed_from jty q ar root) by (apply prune_rounds_typed; exact Ht).
  assert (Hwq : words_small q root) by (apply prune_rounds_words_small; exact Hw).
  destruct (retype_le jt q ar root true Wq Lq Tq Hwq (fun _ => Ha)) as (ar' & I & T' & Le & R1 & _).
  exists ar'. split; [exact I|]. split; [exact Le|]. split; [exact T'|]. split; [exact (R1 eq_refl)|].
  assert (Rq : run HS jet_sem hash_val q = Ok (o, E)) by (apply prune_rounds_eval; assumption).
  split.
  - apply (retype_run_prog HS jet_sem hash_val jty jet_typed hash_typed q ar ar' o E); rewrite ?Eq; auto.
  - unfold root_cmr. rewrite cmrs_shrink, shrink_length, Eq.
    unfold q. rewrite prune_rounds_cmrs by exact W. reflexivity.
Qed.

(* For a program it makes no difference whether the root constraint is imposed during inference or
   not: both inferences return the same arrows on every retained node. *)
Theorem infer_root_irrelevant q ar root :
  rwf q = true -> root < length q ->
  typed_from jty q ar root -> words_small q root -> ar root = Some (One, One) ->
  exists a0 a1, infer_arrows jt false q root = Some a0 /\ infer_arrows jt true q root = Some a1 /\
    forall i, reach q root i -> a0 i = a1 i.
Proof.
  intros W Hr Ht Hw Ha.
  destruct (retype_le jt q ar root false W Hr Ht Hw ltac:(discriminate)) as (a0 & I0 & T0 & L0 & _ & M0).
  destruct (retype_le jt q ar root true W Hr Ht Hw (fun _ => Ha)) as (a1 & I1 & T1 & L1 & R1 & M1).
  exists a0, a1. split; [exact I0|]. split; [exact I1|].
  (* both are typings of the structure *)
  assert (S0 : struct_typed jty q a0 root).
  { intros i n R En. pose proof (typed_struct _ _ _ _ T0 i (shrink_node a0 i n) (reach_shrink _ _ _ _ R)) as X.
    rewrite shrink_nth, En in X. specialize (X eq_refl). destruct n; try exact X.
    unfold struct_okb in X |- *. cbn [shrink_node] in X. destruct (a0 i) as [[s t]|]; [reflexivity|exact X]. }
  assert (S1 : struct_typed jty q a1 root).
  { intros i n R En. pose proof (typed_struct _ _ _ _ T1 i (shrink_node a1 i n) (reach_shrink _ _ _ _ R)) as X.
    rewrite shrink_nth, En in X. specialize (X eq_refl). destruct n; try exact X.
    unfold struct_okb in X |- *. cbn [shrink_node] in X. destruct (a1 i) as [[s t]|]; [reflexivity|exact X]. }
  pose proof (M0 a1 S1 ltac:(discriminate)) as Le01.
  (* the unconstrained result has root 1 -> 1 *)
  assert (R0 : a0 root = Some (One, One)).
  { destruct (nth_error q root) as [nr|] eqn:En; [|apply nth_error_None in En; lia].
    pose proof (S0 _ _ (reach_refl _ _) En) as X.
    assert (exists s t, a0 root = Some (s, t)) as (s & t & E0).
    { destruct nr; cbn [struct_okb] in X; unfold node_okb in X; destruct (a0 root) as [[s t]|]; try discriminate; eauto. }
    destruct (L0 root One One s t (reach_refl _ _) Ha E0) as [A B].
    apply ty_le_one in A. apply ty_le_one in B. subst. exact E0. }
  pose proof (M1 a0 S0 (fun _ => R0)) as Le10.
  intros i R.
  destruct (nth_error q i) as [n|] eqn:En.
  2:{ apply nth_error_None in En. pose proof (reach_lt q root W Hr i R). lia. }
  assert (exists s t, a0 i = Some (s, t)) as (s0 & t0 & E0).
  { pose proof (S0 _ _ R En) as X. destruct n; cbn [struct_okb] in X; unfold node_okb in X;
      destruct (a0 i) as [[s t]|]; try discriminate; eauto. }
  assert (exists s t, a1 i = Some (s, t)) as (s1 & t1 & E1).
  { pose proof (S1 _ _ R En) as X. destruct n; cbn [struct_okb] in X; unfold node_okb in X;
      destruct (a1 i) as [[s t]|]; try discriminate; eauto. }
  destruct (Le01 i s1 t1 s0 t0 R E1 E0) as [A B]. destruct (Le10 i s0 t0 s1 t1 R E0 E1) as [A' B'].
  rewrite E0, E1. f_equal. f_equal; apply ty_le_antisym; assumption.
Qed.

End End.

(* ------------------------------------------------------------------ the statement of Retype.v *)

(* Retype.retype_le_statement, as it was left, quantifies over an ARBITRARY function [infer]: in that form it
   is false (an inference that returns no arrows refutes it).  It holds for the reference inference, for
   programs (root 1 -> 1) whose words have at most 2^31 bits: retype_le_reference. *)
Definition ref_infer (jt : jet_table) (q : rprog) : arrows :=
  match infer_arrows jt true q (length q - 1) with Some a => a | None => fun _ => None end.

Theorem retype_le_reference jt q ar : let root := length q - 1 in
  rwf q = true -> q <> []%list -> words_small q root -> ar root = Some (One, One) ->
  typed_from (jet_ty_of jt) q ar root ->
  typed_from (jet_ty_of jt) (shrink (ref_infer jt q) q) (ref_infer jt q) root /\
  arrows_le q root (ref_infer jt q) ar.
Proof.
  intros root W Ne Hw Ha Ht.
  assert (Hr : root < length q) by (destruct q; [congruence|cbn; lia]).
  destruct (retype_le jt q ar root true W Hr Ht Hw (fun _ => Ha)) as (ar' & I & T' & Le & _ & _).
  unfold ref_infer. fold root. rewrite I. split; assumption.
Qed.

Theorem retype_le_statement_too_strong : ~ retype_le_statement.
Proof.
  intros H.
  specialize (H (fun _ _ => None) (fun _ _ => None) [RUnit] (fun _ => Some (One, One))). cbn zeta in H.
  assert (T : typed_from (fun _ _ => None) [RUnit] (fun _ => Some (One, One)) (length [RUnit] - 1)).
  { intros i n _ En. destruct i as [|[|i]]; cbn in En; try discriminate. injection En as <-. reflexivity. }
  destruct (H T) as [T' _]. specialize (T' 0 RUnit (reach_refl _ _) eq_refl). discriminate.
Qed.

(* ------------------------------------------------------------------ the premises are satisfiable *)

(* generic versions of the checkers of RetypeEx.v *)
Definition typed_onb (jet_ty : N -> N -> option arrow) (p : rprog) (ar : arrows) (idx : list nat) : bool :=
  forallb (fun i => match nth_error p i with Some n => node_okb jet_ty ar i n | None => false end) idx.

Lemma typed_onb_from jet_ty p ar root idx : typed_onb jet_ty p ar idx = true ->
  mem_nat root idx = true -> closed_idx p idx = true -> typed_from jet_ty p ar root.
Proof.
  intros Ht Hr Hc i n Hreach Hn. pose proof (reach_in_idx _ _ _ Hr Hc _ Hreach) as Hi.
  unfold mem_nat in Hi. apply existsb_exists in Hi. destruct Hi as (i' & Hi' & E). apply Nat.eqb_eq in E. subst i'.
  unfold typed_onb in Ht. rewrite forallb_forall in Ht. specialize (Ht _ Hi'). rewrite Hn in Ht. exact Ht.
Qed.

Definition words_smallb (q : rprog) : bool :=
  forallb (fun n => match n with RWord k _ => Nat.leb k 31 | _ => true end) q.

Lemma words_smallb_ok q root : words_smallb q = true -> words_small q root.
Proof.
  intros H i n bits _ E. unfold words_smallb in H. rewrite forallb_forall in H.
  specialize (H _ (nth_error_In _ _ E)). apply Nat.leb_le. exact H.
Qed.

(* the jet of RetypeEx.v (is_zero_8, family 1 index 4) as a jet table of Infer *)
Definition ex_jt : jet_table := [(1%N, 4%N, GWord 3, GSum GOne GOne)].

Example ex_jt_typed : forall f j s t v o, jet_ty_of ex_jt f j = Some (s, t) ->
  has_ty v s = true -> ex_jet_sem f j v = Some o -> has_ty o t = true.
Proof.
  unfold jet_ty_of, ex_jt, ex_jet_sem. cbn [jet_lookup]. intros f j s t v o H _ Ho.
  destruct (N.eqb 1 f && N.eqb 4 j)%bool eqn:E; [|discriminate].
  apply andb_true_iff in E. destruct E as [_ E]. apply N.eqb_eq in E. subst j.
  injection H as <- <-. cbn in Ho. injection Ho as <-. destruct (forallb negb (compact_enc v)); reflexivity.
Qed.

(* The program of finding F-C08 (RetypeEx.shared_prog): node 3 (iden) is shared between the kept left
   branch and the dropped right branch, where a jet forces it to 2^8 -> 2^8.  All premises of
   prune_retype_run hold; the arrows that reference inference computes for the pruned table are the
   ones listed in RetypeEx.shared_arrows_new (node 3 : 1 -> 1, witness 1 shrunk from 8 bits to none);
   the re-typed program runs to the same trace. *)
Example shared_prog_inferred :
  let run_ex := run sym_hashes ex_jet_sem ex_hash_val in
  let root := 13 in
  rwf shared_prog = true /\ shared_prog <> []%list /\
  typed_from (jet_ty_of ex_jt) shared_prog shared_arrows_old root /\
  words_small shared_prog root /\ shared_arrows_old root = Some (One, One) /\
  exists o E, run_ex shared_prog = Ok (o, E) /\
    let q := prune_rounds sym_hashes [fun i => i; fun i => i] shared_prog E in
    nth_error q 12 = Some (RAssertL 10 []) /\
    exists ar', infer_arrows ex_jt true q root = Some ar' /\
      map ar' retained = map shared_arrows_new retained /\
      ar' 3 = Some (One, One) /\ shared_arrows_old 3 = Some (word_ty 3, word_ty 3) /\
      nth_error (shrink ar' q) 1 = Some (RWitness (CV One SU)) /\
      run_ex (shrink ar' q) = Ok (SU, E).
Proof.
  intros run_ex root.
  assert (W : rwf shared_prog = true) by (vm_compute; reflexivity).
  assert (T0 : typed_from (jet_ty_of ex_jt) shared_prog shared_arrows_old root)
    by (apply typed_onb_from with (idx := seq 0 14); vm_compute; reflexivity).
  assert (Hw : words_small shared_prog root) by (apply words_smallb_ok; vm_compute; reflexivity).
  split; [exact W|]. split; [discriminate|]. split; [exact T0|]. split; [exact Hw|]. split; [reflexivity|].
  destruct (run_ex shared_prog) as [[o E]| | |] eqn:R; try (vm_compute in R; discriminate).
  exists o, E. split; [reflexivity|]. intros q.
  destruct (prune_retype_run sym_hashes ex_jet_sem ex_hash_val ex_jt ex_jt_typed ex_hash_typed
              [fun i => i; fun i => i] shared_prog shared_arrows_old o E W ltac:(discriminate) T0 Hw eq_refl R)
    as (ar' & I & _ & _ & _ & Rn & _).
  fold q in I, Rn. change (length shared_prog - 1) with root in I.
  split; [subst q; vm_compute in R; injection R as <- <-; vm_compute; reflexivity|].
  exists ar'. split; [exact I|].
  assert (C : exists a, infer_arrows ex_jt true q root = Some a /\
            map a retained = map shared_arrows_new retained /\ a 3 = Some (One, One) /\
            nth_error (shrink a q) 1 = Some (RWitness (CV One SU))).
  { clear I Rn. subst q. vm_compute in R. injection R as <- <-.
    unfold infer_arrows.
    destruct (infer ex_jt (rootopt true root) (tr (prune_rounds sym_hashes [fun i => i; fun i => i] shared_prog _) root))
      as [tau| | |] eqn:Ei; try (vm_compute in Ei; discriminate).
    eexists. split; [reflexivity|]. vm_compute in Ei. injection Ei as <-. vm_compute. auto. }
  destruct C as (a & Ia & C1 & C2 & C3). rewrite I in Ia. injection Ia as <-.
  split; [exact C1|]. split; [exact C2|]. split; [reflexivity|]. split; [exact C3|exact Rn].
Qed.
