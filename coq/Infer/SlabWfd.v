(* C04, phase 4 - what a successful finalisation says about the state it started from, structurally (no models):
     wfd c r           the class of the representative r is well founded in c: Free, Complete, or a sum / product of
                       well-founded classes
     finalize_wfd      if Type::finalize succeeds on an element, at any point of a sequence of finalisations started in
                       c0 (FinInv: the partition is that of c0, bounds only changed to Complete, and only for
                       well-founded classes), then the class of that element is well founded in c0
     r_finish_wfd      hence if the harness finalises every arrow (any fmode), every arrow class is well founded in
                       the state after construction
     rwalk_fin         and the tree model rwalk of that state is a finite tree on every such class *)
From RS Require Import Lib.Tac Lib.Outcome Lib.Sweep Ty.Ty Core.Prog Infer.Constraints Infer.Unify Infer.Infer Infer.Gen Infer.Rational
  Infer.UnionFind Infer.Slab Infer.RunSlab Infer.SlabProofs Infer.SlabSim Infer.SlabSimInst Infer.SlabFin Infer.SlabRun Infer.SlabConstruct Infer.SlabCov.
Import ListNotations.
Local Open Scope outcome_scope.

Inductive wfd (c : ctx) : nat -> Prop :=
| wfd_free r : slab_get c (bref_of (c_uf c) r) = RFree -> wfd c r
| wfd_complete r t : slab_get c (bref_of (c_uf c) r) = RComplete t -> wfd c r
| wfd_sum r x y : slab_get c (bref_of (c_uf c) r) = RSum x y -> wfd c (rep (c_uf c) x) -> wfd c (rep (c_uf c) y) -> wfd c r
| wfd_prod r x y : slab_get c (bref_of (c_uf c) r) = RProd x y -> wfd c (rep (c_uf c) x) -> wfd c (rep (c_uf c) y) -> wfd c r.

Lemma rwalk_rep c e : cwf c -> (e < length (c_uf c))%nat -> teq (rwalk c e) (rwalk c (rep (c_uf c) e)).
Proof. intros (W & _) He p. rewrite (rwalk_unfold c e), (rwalk_unfold c (rep (c_uf c) e)), rep_idem by assumption. reflexivity. Qed.

Theorem rwalk_fin c r : cwf c -> wfd c r -> is_uroot (c_uf c) r -> tfin (rwalk c r).
Proof.
  intros CW H. pose proof CW as (W & Ch & _). induction H as [r E|r t E|r x y E Hx IHx Hy IHy|r x y E Hx IHx Hy IHy]; intros Rr.
  - apply (tfin_teq tone); [|apply tfin_one]. intros p. rewrite rwalk_unfold, (rep_of_root _ r Rr), E. reflexivity.
  - apply (tfin_teq (tof t)); [|apply tfin_tof]. intros p. rewrite rwalk_unfold, (rep_of_root _ r Rr), E. reflexivity.
  - destruct (Ch _ x y (or_introl E)) as [Lx Ly].
    apply (tfin_teq (tsum (rwalk c x) (rwalk c y))); [intros p; rewrite (rwalk_unfold c r), (rep_of_root _ r Rr), E; reflexivity|].
    apply tfin_sum.
    + apply (tfin_teq _ _ (teq_sym _ _ (rwalk_rep c x CW Lx))). apply IHx. apply rep_root; assumption.
    + apply (tfin_teq _ _ (teq_sym _ _ (rwalk_rep c y CW Ly))). apply IHy. apply rep_root; assumption.
  - destruct (Ch _ x y (or_intror E)) as [Lx Ly].
    apply (tfin_teq (tprod (rwalk c x) (rwalk c y))); [intros p; rewrite (rwalk_unfold c r), (rep_of_root _ r Rr), E; reflexivity|].
    apply tfin_prod.
    + apply (tfin_teq _ _ (teq_sym _ _ (rwalk_rep c x CW Lx))). apply IHx. apply rep_root; assumption.
    + apply (tfin_teq _ _ (teq_sym _ _ (rwalk_rep c y CW Ly))). apply IHy. apply rep_root; assumption.
Qed.

Lemma cwf_lset_complete c b t : cwf c -> cwf (mk_ctx (lset (c_slab c) b (RComplete t)) (c_uf c)).
Proof.
  intros (W & Ch & Un & Br). unfold cwf. cbn [c_uf c_slab]. split; [exact W|]. split; [|split; [exact Un|]].
  - intros b' x y H. destruct (Nat.eq_dec b b') as [<-|N].
    + destruct (Nat.lt_ge_cases b (length (c_slab c))) as [L|G].
      * rewrite slab_get_lset_eq in H by exact L. destruct H; discriminate.
      * unfold slab_get in H. cbn [c_slab] in H. rewrite nth_overflow in H by (rewrite lset_length; exact G). destruct H; discriminate.
    + rewrite slab_get_lset_neq in H by exact N. apply (Ch b' x y H).
  - intros e He Hr. rewrite lset_length. apply Br; assumption.
Qed.

(* a state reached from c0 by finalisations *)
Definition FinInv (c0 c : ctx) : Prop :=
  cwf c0 /\ cwf c /\ keeps_part c0 c /\
  forall b, slab_get c b = slab_get c0 b \/
            ((exists t, slab_get c b = RComplete t) /\ forall r, holds_ref c0 r b -> wfd c0 r).

Lemma FinInv_refl c0 : cwf c0 -> FinInv c0 c0.
Proof. intros CW. split; [exact CW|]. split; [exact CW|]. split; [apply same_part_refl; apply CW|]. intros b. left. reflexivity. Qed.

Lemma FinInv_same_part c0 c u' : FinInv c0 c -> same_part (c_uf c) u' -> FinInv c0 (put_uf c u').
Proof.
  intros (CW0 & CW & K & Sl) P. split; [exact CW0|]. split; [apply cwf_same_part; assumption|].
  split; [unfold keeps_part in *; cbn [put_uf c_uf]; eapply same_part_trans; eassumption|exact Sl].
Qed.

Lemma FinInv_same_slab c0 c c' : FinInv c0 c -> keeps_part c c' -> c_slab c' = c_slab c -> FinInv c0 c'.
Proof.
  intros I0 K Es. pose proof (FinInv_same_part c0 c (c_uf c') I0 K) as I1.
  destruct c' as [s' u']. cbn [c_slab c_uf] in *. subst s'. exact I1.
Qed.

Lemma holds_ref_back c0 c r b : keeps_part c0 c -> holds_ref c r b -> holds_ref c0 r b.
Proof.
  intros P (L & R & B). pose proof P as (_ & Le & _ & _ & I). pose proof (I r R) as R0.
  split; [lia|]. split; [exact R0|]. rewrite <- (same_part_bref _ _ r P R0). exact B.
Qed.

Lemma FinInv_complete c0 c r b t : FinInv c0 c -> holds_ref c r b -> wfd c0 r ->
  FinInv c0 (mk_ctx (lset (c_slab c) b (RComplete t)) (c_uf c)).
Proof.
  intros (CW0 & CW & K & Sl) HR Wr. pose proof CW as (W & Ch & Un & Br). pose proof HR as (Le & Re & Be).
  assert (Lb : (b < length (c_slab c))%nat) by (rewrite <- Be; apply Br; assumption).
  split; [exact CW0|]. split; [apply cwf_lset_complete; exact CW|]. split; [exact K|].
  intros b'. destruct (Nat.eq_dec b b') as [<-|N].
  - right. split; [exists t; apply slab_get_lset_eq; exact Lb|].
    intros r' (L1 & R1 & B1). destruct (holds_ref_back c0 c r b K HR) as (L0 & R0 & B0).
    assert (r' = r) by (destruct CW0 as (_ & _ & Un0 & _); apply Un0; auto; congruence). subst r'. exact Wr.
  - rewrite slab_get_lset_neq by exact N. apply Sl.
Qed.

(* the bound of a class in c0, seen from a later state *)
Lemma FinInv_bound c0 c r b : FinInv c0 c -> holds_ref c r b ->
  slab_get c b = slab_get c0 (bref_of (c_uf c0) r) \/ wfd c0 r.
Proof.
  intros (CW0 & CW & K & Sl) HR. pose proof (holds_ref_back c0 c r b K HR) as HR0. pose proof HR0 as (_ & _ & B0).
  destruct (Sl b) as [E|[_ Hw]]; [left; rewrite B0; exact E|right; apply Hw; exact HR0].
Qed.

Lemma rep_keeps c0 c x : keeps_part c0 c -> (x < length (c_uf c0))%nat -> rep (c_uf c) x = rep (c_uf c0) x.
Proof. intros (_ & _ & R & _) Hx. apply R. exact Hx. Qed.

Theorem fin_bound_wfd c0 : forall fuel c b r, FinInv c0 c -> holds_ref c r b ->
  match fin_bound fuel c b with
  | Ok (c', t) => FinInv c0 c' /\ keeps_part c c' /\ wfd c0 r
  | _ => True
  end.
Proof.
  induction fuel as [|f IH]; intros c b r I0 HR; [exact I|].
  pose proof I0 as (CW0 & CW & K & Sl). pose proof CW as (W & Ch & Un & Br). pose proof HR as (Le & Re & Be).
  pose proof (holds_ref_back c0 c r b K HR) as HR0. pose proof HR0 as (L0 & R0 & B0).
  pose proof (FinInv_bound c0 c r b I0 HR) as FB.
  cbn [fin_bound].
  destruct (slab_get c b) as [|t|x1 x2|x1 x2] eqn:Eb.
  - unfold reassign_non_complete. rewrite Eb. cbn [obind].
    assert (Wr : wfd c0 r) by (destruct FB as [E|Hw]; [apply wfd_free; symmetry; exact E|exact Hw]).
    split; [apply (FinInv_complete c0 c r b One I0 HR Wr)|]. split; [apply same_part_refl; exact W|exact Wr].
  - assert (Wr : wfd c0 r) by (destruct FB as [E|Hw]; [apply (wfd_complete c0 r t); symmetry; exact E|exact Hw]).
    split; [exact I0|]. split; [apply same_part_refl; exact W|exact Wr].
  - destruct (Ch b x1 x2 (or_introl Eb)) as [L1 L2].
    destruct (kids_pair c b true x1 x2 CW Eb L1 L2) as (u' & Ek & P). rewrite Ek. cbn [obind].
    set (r1 := rep (c_uf c) x1) in *. set (r2 := rep (c_uf c) x2) in *.
    destruct (rep_root _ x1 W L1) as [Rr1 Lr1]. destruct (rep_root _ x2 W L2) as [Rr2 Lr2]. fold r1 in Rr1, Lr1. fold r2 in Rr2, Lr2.
    pose proof (FinInv_same_part c0 c u' I0 P) as I1.
    assert (HR1 : holds_ref (put_uf c u') r1 (bref_of (c_uf c) r1)) by (apply holds_ref_same_part; [exact P|repeat split; auto]).
    assert (HR2 : holds_ref (put_uf c u') r2 (bref_of (c_uf c) r2)) by (apply holds_ref_same_part; [exact P|repeat split; auto]).
    pose proof (IH (put_uf c u') _ r1 I1 HR1) as F1.
    destruct (fin_bound f (put_uf c u') (bref_of (c_uf c) r1)) as [[c2 ta]| | |]; cbn [obind]; try exact I.
    destruct F1 as (I2 & K2 & W1).
    pose proof (IH c2 _ r2 I2 (holds_ref_keeps _ _ _ _ K2 HR2)) as F2.
    destruct (fin_bound f c2 (bref_of (c_uf c) r2)) as [[c3 tb]| | |]; cbn [obind]; try exact I.
    destruct F2 as (I3 & K3 & W2).
    assert (K03 : keeps_part c c3).
    { unfold keeps_part in *. eapply same_part_trans; [exact P|]. eapply same_part_trans; [exact K2|exact K3]. }
    assert (HR3 : holds_ref c3 r b) by (apply (holds_ref_keeps c); assumption).
    assert (Wr : wfd c0 r).
    { destruct FB as [E|Hw]; [|exact Hw]. apply (wfd_sum c0 r x1 x2); [symmetry; exact E| |].
      - rewrite <- (rep_keeps c0 c x1 K) by (destruct K as (_ & Lk & _); lia). exact W1.
      - rewrite <- (rep_keeps c0 c x2 K) by (destruct K as (_ & Lk & _); lia). exact W2. }
    destruct (slab_get c3 b) as [|t3|y1 y2|y1 y2] eqn:Eb3; unfold reassign_non_complete; rewrite ?Eb3; cbn [obind];
      try (split; [apply (FinInv_complete c0 c3 r b _ I3 HR3 Wr)|split; [exact K03|exact Wr]]).
    split; [exact I3|]. split; [exact K03|exact Wr].
  - destruct (Ch b x1 x2 (or_intror Eb)) as [L1 L2].
    destruct (kids_pair c b false x1 x2 CW Eb L1 L2) as (u' & Ek & P). rewrite Ek. cbn [obind].
    set (r1 := rep (c_uf c) x1) in *. set (r2 := rep (c_uf c) x2) in *.
    destruct (rep_root _ x1 W L1) as [Rr1 Lr1]. destruct (rep_root _ x2 W L2) as [Rr2 Lr2]. fold r1 in Rr1, Lr1. fold r2 in Rr2, Lr2.
    pose proof (FinInv_same_part c0 c u' I0 P) as I1.
    assert (HR1 : holds_ref (put_uf c u') r1 (bref_of (c_uf c) r1)) by (apply holds_ref_same_part; [exact P|repeat split; auto]).
    assert (HR2 : holds_ref (put_uf c u') r2 (bref_of (c_uf c) r2)) by (apply holds_ref_same_part; [exact P|repeat split; auto]).
    pose proof (IH (put_uf c u') _ r1 I1 HR1) as F1.
    destruct (fin_bound f (put_uf c u') (bref_of (c_uf c) r1)) as [[c2 ta]| | |]; cbn [obind]; try exact I.
    destruct F1 as (I2 & K2 & W1).
    pose proof (IH c2 _ r2 I2 (holds_ref_keeps _ _ _ _ K2 HR2)) as F2.
    destruct (fin_bound f c2 (bref_of (c_uf c) r2)) as [[c3 tb]| | |]; cbn [obind]; try exact I.
    destruct F2 as (I3 & K3 & W2).
    assert (K03 : keeps_part c c3).
    { unfold keeps_part in *. eapply same_part_trans; [exact P|]. eapply same_part_trans; [exact K2|exact K3]. }
    assert (HR3 : holds_ref c3 r b) by (apply (holds_ref_keeps c); assumption).
    assert (Wr : wfd c0 r).
    { destruct FB as [E|Hw]; [|exact Hw]. apply (wfd_prod c0 r x1 x2); [symmetry; exact E| |].
      - rewrite <- (rep_keeps c0 c x1 K) by (destruct K as (_ & Lk & _); lia). exact W1.
      - rewrite <- (rep_keeps c0 c x2 K) by (destruct K as (_ & Lk & _); lia). exact W2. }
    destruct (slab_get c3 b) as [|t3|y1 y2|y1 y2] eqn:Eb3; unfold reassign_non_complete; rewrite ?Eb3; cbn [obind];
      try (split; [apply (FinInv_complete c0 c3 r b _ I3 HR3 Wr)|split; [exact K03|exact Wr]]).
    split; [exact I3|]. split; [exact K03|exact Wr].
Qed.

(* ---- the occurs check only performs path halving *)
Lemma kids_part c b : cwf c ->
  match kids c b with
  | Ok (c', _) => keeps_part c c' /\ c_slab c' = c_slab c
  | _ => True
  end.
Proof.
  intros CW. pose proof CW as (W & Ch & _).
  destruct (slab_get c b) as [|t|x1 x2|x1 x2] eqn:Eb.
  - unfold kids. rewrite Eb. split; [apply same_part_refl; exact W|reflexivity].
  - unfold kids. rewrite Eb. split; [apply same_part_refl; exact W|reflexivity].
  - destruct (Ch b x1 x2 (or_introl Eb)) as [L1 L2]. destruct (kids_pair c b true x1 x2 CW Eb L1 L2) as (u' & Ek & P).
    rewrite Ek. split; [exact P|reflexivity].
  - destruct (Ch b x1 x2 (or_intror Eb)) as [L1 L2]. destruct (kids_pair c b false x1 x2 CW Eb L1 L2) as (u' & Ek & P).
    rewrite Ek. split; [exact P|reflexivity].
Qed.

Lemma cwf_keeps c c' : cwf c -> keeps_part c c' -> c_slab c' = c_slab c -> cwf c'.
Proof.
  intros CW K Es. pose proof (cwf_same_part c (c_uf c') CW K) as C1. destruct c' as [s' u']. cbn [c_slab c_uf] in *. subst s'. exact C1.
Qed.

Lemma occurs_loop_part : forall fuel c st ip comp, cwf c ->
  match occurs_loop fuel c st ip comp with
  | Ok (c', _) => keeps_part c c' /\ c_slab c' = c_slab c
  | _ => True
  end.
Proof.
  induction fuel as [|f IH]; intros c st ip comp CW; [exact I|]. pose proof CW as (W & _).
  cbn [occurs_loop]. destruct st as [|[b|id] rest].
  - split; [apply same_part_refl; exact W|reflexivity].
  - destruct (mem b comp); [apply IH; exact CW|]. destruct (mem b ip); [split; [apply same_part_refl; exact W|reflexivity]|].
    pose proof (kids_part c b CW) as Kp. destruct (kids c b) as [[c1 k]| | |]; cbn [obind]; try exact I.
    destruct Kp as [K1 E1]. pose proof (cwf_keeps c c1 CW K1 E1) as CW1.
    destruct k as [[l r]|].
    + pose proof (IH c1 (OIter l :: OIter r :: ODone b :: rest) (b :: ip) comp CW1) as R.
      destruct (occurs_loop f c1 _ _ _) as [[c' cyc]| | |]; try exact I. destruct R as [K2 E2].
      split; [unfold keeps_part in *; eapply same_part_trans; eassumption|congruence].
    + pose proof (IH c1 (ODone b :: rest) (b :: ip) comp CW1) as R.
      destruct (occurs_loop f c1 _ _ _) as [[c' cyc]| | |]; try exact I. destruct R as [K2 E2].
      split; [unfold keeps_part in *; eapply same_part_trans; eassumption|congruence].
  - apply IH. exact CW.
Qed.

(* ---- Type::finalize *)
Theorem finalize_wfd c0 c e : FinInv c0 c -> (e < length (c_uf c))%nat ->
  match finalize c e with
  | Ok (c', Some t) => FinInv c0 c' /\ length (c_uf c') = length (c_uf c) /\ wfd c0 (rep (c_uf c0) e)
  | _ => True
  end.
Proof.
  intros I0 He. pose proof I0 as (CW0 & CW & K & Sl). pose proof CW as (W & _).
  unfold finalize. destruct (c_root_spec c e CW He) as (ua & Ea & Pa). rewrite Ea. cbn [obind].
  pose proof (FinInv_same_part c0 c ua I0 Pa) as Ia.
  set (r := rep (c_uf c) e) in *. destruct (rep_root _ e W He) as [Rr Lr]. fold r in Rr, Lr.
  assert (Er : rep (c_uf c0) e = r) by (symmetry; apply (rep_keeps c0 c e K); destruct K as (_ & Lk & _); lia).
  rewrite Er.
  assert (HR : holds_ref (put_uf c ua) r (bref_of (c_uf c) r)) by (apply holds_ref_same_part; [exact Pa|repeat split; auto]).
  assert (La : length (c_uf (put_uf c ua)) = length (c_uf c)) by (cbn [put_uf c_uf]; apply Pa).
  change (slab_get (put_uf c ua) (bref_of (c_uf c) r)) with (slab_get c (bref_of (c_uf c) r)).
  assert (Go : match ('(c2, cyc) <- occurs_check (put_uf c ua) (bref_of (c_uf c) r) ;;
                      if cyc then Ok (c2, None) else
                      '(c3, t) <- fin_bound (S (length (c_slab c2))) c2 (bref_of (c_uf c) r) ;; Ok (c3, Some t)) with
               | Ok (c', Some t) => FinInv c0 c' /\ length (c_uf c') = length (c_uf c) /\ wfd c0 r
               | _ => True
               end).
  { pose proof (occurs_loop_part (occurs_fuel (put_uf c ua)) (put_uf c ua) [OIter (bref_of (c_uf c) r)] [] [] (cwf_same_part c ua CW Pa)) as O.
    unfold occurs_check. destruct (occurs_loop _ _ _ _ _) as [[c2 cyc]| | |]; cbn [obind]; try exact I.
    destruct O as (K2 & Es2). destruct cyc; [exact I|].
    pose proof (FinInv_same_slab c0 _ c2 Ia K2 Es2) as I2.
    pose proof (fin_bound_wfd c0 (S (length (c_slab c2))) c2 _ r I2 (holds_ref_keeps _ _ _ _ K2 HR)) as F.
    destruct (fin_bound _ c2 _) as [[c3 t]| | |]; cbn [obind]; try exact I.
    destruct F as (I3 & K3 & Wr). split; [exact I3|]. split; [|exact Wr].
    destruct K3 as (_ & L3 & _). destruct K2 as (_ & L2 & _). lia. }
  destruct (slab_get c (bref_of (c_uf c) r)) as [|t|x1 x2|x1 x2] eqn:Eb; try exact Go.
  split; [exact Ia|]. split; [exact La|].
  destruct (FinInv_bound c0 c r _ I0 ltac:(repeat split; auto)) as [E|Hw]; [|exact Hw].
  rewrite Eb in E. apply (wfd_complete c0 r t). symmetry. exact E.
Qed.

(* ---- the finalisation orders of the harness *)
Lemma fin_ty_wfd c0 c e : FinInv c0 c -> (e < length (c_uf c))%nat ->
  match fin_ty c e with
  | Ok (c', t) => FinInv c0 c' /\ length (c_uf c') = length (c_uf c) /\ wfd c0 (rep (c_uf c0) e)
  | _ => True
  end.
Proof.
  intros I0 He. pose proof (finalize_wfd c0 c e I0 He) as F. unfold fin_ty.
  destruct (finalize c e) as [[c1 [t|]]|er| |]; cbn [lift_fin obind]; try exact I. exact F.
Qed.

Lemma fin_arrow_wfd c0 sf c a : FinInv c0 c ->
  (forall x y, a = Some (x, y) -> (x < length (c_uf c))%nat /\ (y < length (c_uf c))%nat) ->
  match fin_arrow sf c a with
  | Ok c' => FinInv c0 c' /\ length (c_uf c') = length (c_uf c)
  | _ => True
  end.
Proof.
  intros I0 Ha. unfold fin_arrow. destruct a as [[s t]|]; [|split; [exact I0|reflexivity]].
  destruct (Ha s t eq_refl) as [Ls Lt].
  assert (G : forall u v, (u < length (c_uf c))%nat -> (v < length (c_uf c))%nat ->
            match ('(c1, _) <- fin_ty c u ;; '(c2, _) <- fin_ty c1 v ;; Ok c2) with
            | Ok c' => FinInv c0 c' /\ length (c_uf c') = length (c_uf c) | _ => True end).
  { intros u v Lu Lv. pose proof (fin_ty_wfd c0 c u I0 Lu) as F1.
    destruct (fin_ty c u) as [[c1 t1]|e1| |]; cbn [obind]; try exact I.
    destruct F1 as (I1 & L1 & _). pose proof (fin_ty_wfd c0 c1 v I1 ltac:(lia)) as F2.
    destruct (fin_ty c1 v) as [[c2 t2]|e2| |]; cbn [obind]; try exact I.
    destruct F2 as (I2 & L2 & _). split; [exact I2|lia]. }
  destruct sf; [apply (G s t Ls Lt)|apply (G t s Lt Ls)].
Qed.

Lemma fin_list_wfd c0 sf ar : forall l c, FinInv c0 c -> arr_in (length (c_uf c)) ar ->
  match fin_list sf c ar l with
  | Ok c' => FinInv c0 c' /\ length (c_uf c') = length (c_uf c)
  | _ => True
  end.
Proof.
  induction l as [|i rest IH]; intros c I0 Ai; cbn [fin_list]; [split; [exact I0|reflexivity]|].
  pose proof (fin_arrow_wfd c0 sf c (nth i ar None) I0) as F.
  specialize (F ltac:(intros x y E; apply (Ai i); rewrite arr_of_nth; exact E)).
  destruct (fin_arrow sf c (nth i ar None)) as [c1|e1| |]; cbn [obind]; try exact I.
  destruct F as (I1 & L1). pose proof (IH c1 I1 ltac:(rewrite L1; exact Ai)) as R.
  destruct (fin_list sf c1 ar rest) as [c2|e2| |]; try exact I.
  destruct R as (I2 & L2). split; [exact I2|lia].
Qed.

Lemma read_arrows_wfd c0 ar : forall l c, FinInv c0 c -> arr_in (length (c_uf c)) ar ->
  match read_arrows c ar l with
  | Ok _ => forall i x y, In i l -> nth i ar None = Some (x, y) -> wfd c0 (rep (c_uf c0) x) /\ wfd c0 (rep (c_uf c0) y)
  | _ => True
  end.
Proof.
  induction l as [|i rest IH]; intros c I0 Ai; cbn [read_arrows]; [intros i x y []|].
  destruct (nth i ar None) as [[s t]|] eqn:En.
  - destruct (Ai i s t ltac:(rewrite arr_of_nth; exact En)) as [Ls Lt].
    pose proof (fin_ty_wfd c0 c s I0 Ls) as F1.
    destruct (fin_ty c s) as [[c1 t1]|e1| |]; cbn [obind]; try exact I.
    destruct F1 as (I1 & L1 & W1). pose proof (fin_ty_wfd c0 c1 t I1 ltac:(lia)) as F2.
    destruct (fin_ty c1 t) as [[c2 t2]|e2| |]; cbn [obind]; try exact I.
    destruct F2 as (I2 & L2 & W2). pose proof (IH c2 I2 ltac:(rewrite L2, L1; exact Ai)) as R.
    destruct (read_arrows c2 ar rest) as [r|e3| |]; cbn [obind]; try exact I.
    intros j x y [<-|Hin] E; [rewrite En in E; injection E as <- <-; split; assumption|apply (R j x y Hin E)].
  - pose proof (IH c I0 Ai) as R.
    destruct (read_arrows c ar rest) as [r|e3| |]; cbn [obind]; try exact I.
    intros j x y [<-|Hin] E; [rewrite En in E; discriminate|apply (R j x y Hin E)].
Qed.

Theorem r_finish_wfd fmode p canon root c ar : cwf c -> arr_in (length (c_uf c)) ar ->
  match r_finish fmode p canon root c ar with
  | Ok _ => forall i x y, In i canon -> nth i ar None = Some (x, y) -> wfd c (rep (c_uf c) x) /\ wfd c (rep (c_uf c) y)
  | _ => True
  end.
Proof.
  intros CW Ai. unfold r_finish.
  assert (G : forall X : rres ctx,
            match X with Ok c' => FinInv c c' /\ length (c_uf c') = length (c_uf c) | _ => True end ->
            match (c1 <- X ;; read_arrows c1 ar canon) with
            | Ok _ => forall i x y, In i canon -> nth i ar None = Some (x, y) -> wfd c (rep (c_uf c) x) /\ wfd c (rep (c_uf c) y)
            | _ => True end).
  { intros X HX. destruct X as [c1|e1| |]; cbn [obind]; try exact I.
    destruct HX as (I1 & L1). apply (read_arrows_wfd c ar canon c1 I1). rewrite L1. exact Ai. }
  apply G. pose proof (FinInv_refl c CW) as I0.
  destruct fmode as [|[|[|k]]]; try (apply fin_list_wfd; assumption).
  destruct (nth root ar None); [apply fin_list_wfd; assumption|split; [exact I0|reflexivity]].
Qed.
