(* C03 - Validity, Merkle roots and cost agree with libsimplicity.       (claimed level: other)

   No theorem can mention the C code (no verified-C front end is installed) and none does.
   What is proved here concerns only the executable reference of the static cost bound,
   Cdiff/CostRef.v + Cdiff/CostRustC.v: three hand-written models (ideal arithmetic, the formulas of
   eval.c analyseBounds, the formulas of analysis.rs NodeBounds).  The property itself - same
   accept/reject verdict, identical CMR / AMR / IHR / cost - is checked differentially,
   Rust vs C vs this reference, by tools/props/c03.py.
   Only `Theorem .. exact lemma` and `Print Assumptions` below. *)
From RS Require Import Lib.Tac Lib.Outcome Ty.Ty Core.Prog Cdiff.CostRef Cdiff.CostRustC Cdiff.VerdictRef.
Import ListNotations.
Local Open Scope N_scope.

(* 1. the cost is a function of the typed structure only: two typed programs that differ only in
      their witness values have the same annotated table, hence the same cost in all three models *)
Theorem C03_cost_witness_independent : forall jc tp1 tp2,
  erase_wit tp1 = erase_wit tp2 -> annotate jc tp1 = annotate jc tp2.
Proof. exact cost_witness_independent. Qed.
Print Assumptions C03_cost_witness_independent.

(* 2. monotone in sub-costs, jet costs and type widths (cle: same shape, numbers pointwise <=) *)
Theorem C03_cost_monotone_ideal : forall ns1 ns2, Forall2 cle ns1 ns2 -> ideal_cost ns1 <= ideal_cost ns2.
Proof. exact ideal_cost_monotone. Qed.
Print Assumptions C03_cost_monotone_ideal.

Theorem C03_cost_monotone_c : forall ns1 ns2, Forall2 cle ns1 ns2 -> c_cost ns1 <= c_cost ns2.
Proof. exact c_cost_monotone. Qed.
Print Assumptions C03_cost_monotone_c.

Theorem C03_cost_ge_children : forall tbl n c, In c (cchildren n) -> nth_cost tbl c <= ideal_node tbl n.
Proof. exact ideal_node_ge_child. Qed.
Print Assumptions C03_cost_ge_children.

(* 3. saturation: the C formulas compute the ideal cost clipped at 2^32-1, entry by entry; the bound
      is clipped exactly when the ideal value reaches 2^32-1 and exact below *)
Theorem C03_c_table_saturates : forall ns, c_table ns = map sat32 (ideal_table ns).
Proof. exact c_table_saturates. Qed.
Print Assumptions C03_c_table_saturates.

Theorem C03_c_cost_saturates : forall ns, c_cost ns = N.min (ideal_cost ns) u32_max.
Proof. exact c_cost_saturates. Qed.
Print Assumptions C03_c_cost_saturates.

Theorem C03_c_cost_clipped_iff : forall ns, c_cost ns = u32_max <-> u32_max <= ideal_cost ns.
Proof. exact c_cost_clipped_iff. Qed.
Print Assumptions C03_c_cost_clipped_iff.

(* 4. the Rust formulas equal the C formulas whenever every type width they mention is below 2^32
      (and disconnect's B width is the difference the Rust code computes) ... *)
Theorem C03_rust_cost_eq_c : forall ns, Forall small ns -> rust_cost ns = Ok (c_cost ns).
Proof. exact rust_cost_eq_c. Qed.
Print Assumptions C03_rust_cost_eq_c.

(* ... and differ beyond: `Cost::of_type` is a truncating cast.  Such programs need more than
   CELLS_MAX cells, i.e. they are outside libsimplicity's limits, where C03 does not compare. *)
Theorem C03_rust_c_differ_wide :
  width (word_ty 32) = two32 /\
  rust_cost [CIden two32] = Ok 100 /\ c_cost [CIden two32] = u32_max.
Proof. exact rust_c_differ_wide. Qed.
Print Assumptions C03_rust_c_differ_wide.

(* 5. verdict classes: exactly one libsimplicity code is "accepted", exactly one is "fail node" *)
Theorem C03_class_ok : forall e, c_decode_class e = 0 <-> e = 0%Z.
Proof. exact c_decode_class_ok. Qed.
Print Assumptions C03_class_ok.

Theorem C03_class_fail : forall e, c_decode_class e = 5 <-> e = (-6)%Z.
Proof. exact c_decode_class_fail. Qed.
Print Assumptions C03_class_fail.

(* non-vacuity *)
Theorem C03_cost_example :
  let ns := [CUnit; CWitness 32; CComp 0 1 0; CJet 150; CPair 2 3; CHidden; CCase 4 5] in
  Forall small ns /\ ideal_cost ns = 782 /\ c_cost ns = 782 /\ rust_cost ns = Ok 782.
Proof. exact cost_example. Qed.
Print Assumptions C03_cost_example.
