//! C03 / C06: differential comparison of the Rust library with the vendored libsimplicity.
//!
//! Commands (first token after the case id is the kind):
//!   c03 bytes <prog hex|-> <wit hex|->
//!   c03 pdl <prune 0|1> <pdl>                (prune = RedeemNode::prune with the dummy environment)
//!   c06 run <env desc> <pdl>
//!   c06 rp_budget <budget>                   (run_program(unit, Everything, Some(budget), None))
//!   c06 info <pdl>                           (final arrows of every node with the root 1 -> 1, CMRs of the right
//!                                             children of disconnect nodes: the data Core/Run.v run_eval wants)
//!   c06 classes <n>                          (classification tables for codes 0..-(n-1))
//!   c03 jetcodes                             (bit codes of all Elements jets)
//!   c03 nodecmrs <prog hex|-> <wit hex|->    (CMR of every node of the decoded program, post order)
//!
//! Result layout of `c03` (all numbers):
//!   pdl only:  0 <plen> <prog bytes> <wlen> <wit bytes>   |  1 <build error code>
//!   then       77 <RUST section> 78 <C section> 79 <run_program section> 80 <node table section>
//!   RUST:  <class> <detail>           class 0 = accepted, then cmr(32) amr(32) ihr(32) cost n_fail
//!   C   :  <class> <raw err> <stage>  class 0 = accepted, then cmr(32) amr(32) ihr(32) cost cells
//!          when stage > 1 the cmr (32 bytes) is printed after the three numbers also for rejections
//!   run_program: <0 ok | 1 err | 9 panic> <raw err> [cmr amr ihr cost]
//!   node table (only when Rust accepted): see `dump_table`.
//!
//! Shared verdict classes (the mapping is printed in the evidence by tools/props/cdiff_common.py):
//!   0 ok, 1 program bitstream eof, 2 program trailing bytes / padding, 3 value out of range
//!   (natural too large, bad index, unknown jet, word too long), 4 not in canonical order,
//!   5 fail node (C only), 6 reserved code / one-child disconnect, 7 hidden node misplaced,
//!   8 type error (unification, occurs check, not 1 -> 1), 9 witness stream (eof, trailing, padding),
//!   10 sharing not maximal, 11 libsimplicity resource limit (witness wider than CELLS_MAX, malloc),
//!   12 other.
#![allow(clippy::missing_safety_doc)]
use crate::cdiff_env as env;
use crate::prog;
use crate::util::*;
use simplicity::dag::{DagLike, InternalSharing};
use simplicity::ffi::tests::ffi as cffi;
use simplicity::ffi::tests::{run_program, TestUpTo};
use simplicity::jet::{Elements, Jet};
use simplicity::node::Inner;
use simplicity::types::Final;
use simplicity::{BitIter, BitMachine, CommitNode, RedeemNode};
use std::sync::Arc;

pub const CELLS_MAX: u32 = 0x500000;
pub const BUDGET_MAX: u32 = 4_000_050;
pub const DAG_LEN_MAX: u32 = 8_000_000;

// ------------------------------------------------------------------ C pipeline (port of tests::run_program
// in the order of elements/exec.c, keeping partial results)

#[derive(Default, Debug, Clone)]
pub struct COut {
    /// 0 = all stages passed; otherwise the 1-based stage that failed:
    /// 1 decode, 2 close program stream, 3 type inference, 4 not 1->1, 5 fill witness,
    /// 6 close witness stream, 7 identity hashes unique, 8 analyseBounds
    pub stage: u32,
    pub err: i32,
    pub len: usize,
    pub cmr: Option<[u8; 32]>,
    pub amr: Option<[u8; 32]>,
    pub ihr: Option<[u8; 32]>,
    pub cost: Option<u32>,
    pub cells: Option<u32>,
    /// result of evalTCOExpression when requested
    pub eval: Option<i32>,
}

struct FreeOnDrop(*mut u8);
impl Drop for FreeOnDrop {
    fn drop(&mut self) {
        extern "C" {
            #[link_name = "rust_0_7_free"]
            fn c_free(p: *mut u8);
        }
        unsafe { c_free(self.0) }
    }
}

fn mid_bytes(m: &simplicity::ffi::ffi::sha256::CSha256Midstate) -> [u8; 32] {
    let mut a = [0u8; 32];
    for i in 0..8 {
        a[4 * i..4 * i + 4].copy_from_slice(&m.s[i].to_be_bytes());
    }
    a
}

/// flags: None = do not evaluate; Some(f) = evalTCOExpression with anti-DoS flags f, budget BUDGET_MAX
pub fn c_pipeline(program: &[u8], witness: &[u8], eval: Option<(u8, &simplicity::ffi::CElementsTxEnv)>) -> COut {
    use cffi::bitstream::{simplicity_closeBitstream, CBitstream};
    use cffi::dag::{
        simplicity_computeAnnotatedMerkleRoot, simplicity_fillWitnessData,
        simplicity_verifyNoDuplicateIdentityHashes, CAnalyses, CCombinatorCounters,
    };
    use cffi::deserialize::simplicity_decodeMallocDag;
    use cffi::elements::{simplicity_elements_decodeJet, simplicity_elements_mallocBoundVars};
    use cffi::eval::{simplicity_analyseBounds, simplicity_evalTCOExpression};
    use cffi::type_inference::simplicity_mallocTypeInference;
    let mut out = COut::default();
    let mut prog_stream = CBitstream::from(program);
    let mut wit_stream = CBitstream::from(witness);
    let mut census = CCombinatorCounters::default();
    unsafe {
        let mut dag = std::ptr::null_mut();
        let n = simplicity_decodeMallocDag(&mut dag, simplicity_elements_decodeJet, &mut census, &mut prog_stream);
        if n <= 0 {
            out.stage = 1;
            out.err = n;
            return out;
        }
        let len = n as usize;
        out.len = len;
        let _d1 = FreeOnDrop(dag as *mut u8);
        out.cmr = Some(mid_bytes(&(*dag.add(len - 1)).cmr));
        let e = simplicity_closeBitstream(&mut prog_stream);
        if e != 0 {
            out.stage = 2;
            out.err = e;
            return out;
        }
        let mut type_dag = std::ptr::null_mut();
        let e = simplicity_mallocTypeInference(&mut type_dag, simplicity_elements_mallocBoundVars, dag, len, &census);
        if e as i32 != 0 {
            out.stage = 3;
            out.err = e as i32;
            return out;
        }
        let _d2 = FreeOnDrop(type_dag as *mut u8);
        let root = &*dag.add(len - 1);
        if root.aux_types.types[0] != 0 || root.aux_types.types[1] != 0 {
            out.stage = 4;
            out.err = cffi::SimplicityErr::TypeInferenceNotProgram as i32;
            return out;
        }
        let e = simplicity_fillWitnessData(dag, type_dag, len, &mut wit_stream);
        if e as i32 != 0 {
            out.stage = 5;
            out.err = e as i32;
            return out;
        }
        let e = simplicity_closeBitstream(&mut wit_stream);
        if e != 0 {
            out.stage = 6;
            // as elements/exec.c: BITSTREAM_TRAILING_BYTES -> WITNESS_TRAILING_BYTES, ILLEGAL_PADDING likewise
            out.err = match e {
                -14 => -26,
                -16 => -28,
                x => x,
            };
            return out;
        }
        let mut ihr = Default::default();
        let e = simplicity_verifyNoDuplicateIdentityHashes(&mut ihr, dag, type_dag, len);
        out.ihr = Some(mid_bytes(&ihr));
        if e as i32 != 0 {
            out.stage = 7;
            out.err = e as i32;
            return out;
        }
        let mut analyses = vec![CAnalyses::default(); len];
        simplicity_computeAnnotatedMerkleRoot(analyses.as_mut_ptr(), dag, type_dag, len);
        out.amr = Some(mid_bytes(&analyses[len - 1].annotated_merkle_root));
        let (mut cells, mut words, mut frames, mut cost) = (0u32, 0u32, 0u32, 0u32);
        let e = simplicity_analyseBounds(
            &mut cells, &mut words, &mut frames, &mut cost, u32::MAX, 0, u32::MAX, dag, type_dag, len,
        );
        out.cost = Some(cost);
        out.cells = Some(cells);
        if e as i32 != 0 {
            out.stage = 8;
            out.err = e as i32;
            return out;
        }
        if let Some((flags, env)) = eval {
            let budget: u32 = BUDGET_MAX;
            let r = simplicity_evalTCOExpression(
                flags,
                std::ptr::null_mut(),
                std::ptr::null(),
                dag,
                type_dag,
                len,
                0,
                &budget,
                env,
            );
            out.eval = Some(r as i32);
        }
    }
    out
}

/// shared class of a libsimplicity error code
pub fn c_class(err: i32) -> u128 {
    match err {
        0 => 0,
        -12 => 1,       // BITSTREAM_EOF
        -14 | -16 => 2, // BITSTREAM_TRAILING_BYTES / ILLEGAL_PADDING
        -2 => 3,        // DATA_OUT_OF_RANGE
        -4 => 4,        // DATA_OUT_OF_ORDER
        -6 => 5,        // FAIL_CODE
        -8 => 6,        // RESERVED_CODE
        -10 | -44 => 7, // HIDDEN / HIDDEN_ROOT
        -18 | -20 | -22 => 8,
        -24 | -26 | -28 => 9,
        -30 => 10, // UNSHARED_SUBEXPRESSION
        -36 | -1 => 11,
        _ => 12,
    }
}

// ------------------------------------------------------------------ Rust side

fn type_err_detail(e: &simplicity::types::Error) -> u128 {
    match prog::err_class(e).as_str() {
        "Bind" => 1,
        "CompleteTypeMismatch" => 2,
        "OccursCheck" => 3,
        _ => 9,
    }
}

/// (class, detail) of a Rust decode::Error; `witness_phase` = the program alone decoded fine
fn decode_err_class(e: &simplicity::decode::Error, witness_phase: bool) -> (u128, u128) {
    use simplicity::decode::Error as E;
    match e {
        E::BitIter(_) => (if witness_phase { 9 } else { 2 }, 1),
        E::BothChildrenHidden => (7, 2),
        E::EndOfStream => (if witness_phase { 9 } else { 1 }, 0),
        E::HiddenNode => (7, 1),
        E::InvalidJet => (3, 3),
        E::Natural(n) => {
            let d = format!("{:?}", n);
            if d.starts_with("EndOfStream") {
                (1, 1)
            } else {
                (3, if d.starts_with("Overflow") { 1 } else { 2 })
            }
        }
        E::NotInCanonicalOrder => (4, 0),
        E::SharingNotMaximal => (10, 0),
        E::Type(t) => (8, type_err_detail(t)),
        #[allow(unreachable_patterns)]
        _ => (12, 0),
    }
}

fn cost_of(n: &RedeemNode) -> u128 {
    n.bounds().cost.to_string().parse().unwrap()
}

pub enum RustOut {
    Ok(Arc<RedeemNode>),
    Err(u128, u128),
}

pub fn rust_decode(program: &[u8], witness: &[u8]) -> RustOut {
    match RedeemNode::decode::<_, _, Elements>(BitIter::from(program), BitIter::from(witness)) {
        Ok(p) => RustOut::Ok(p),
        Err(e) => {
            // does the program alone decode (with 1 -> 1 typing)?  Then the failure is about the witness
            let prog_ok = || CommitNode::decode::<_, Elements>(BitIter::from(program)).is_ok();
            match &e {
                simplicity::DecodeError::Decode(d) => {
                    let wp = matches!(
                        d,
                        simplicity::decode::Error::EndOfStream | simplicity::decode::Error::BitIter(_)
                    ) && prog_ok();
                    let (c, dt) = decode_err_class(d, wp);
                    RustOut::Err(c, dt)
                }
                simplicity::DecodeError::DisconnectRedeemTime => RustOut::Err(6, 0),
                simplicity::DecodeError::Type(t) => RustOut::Err(8, type_err_detail(t)),
                #[allow(unreachable_patterns)]
                _ => RustOut::Err(12, 0),
            }
        }
    }
}

// ------------------------------------------------------------------ typed node table of a RedeemNode

const TY_CAP: usize = 3000;

/// numeric prefix encoding of a type, at most TY_CAP numbers; false when the cap was hit
fn ty_nums_capped(t: &Final, out: &mut Vec<u128>) -> bool {
    let start = out.len();
    let mut stack: Vec<&Final> = vec![t];
    while let Some(t) = stack.pop() {
        if out.len() - start > TY_CAP {
            return false;
        }
        if let Some(n) = t.as_word() {
            if n >= 1 {
                out.push(3);
                out.push(n as u128);
                continue;
            }
        }
        if t.is_unit() {
            out.push(0);
        } else if let Some((a, b)) = t.as_sum() {
            out.push(1);
            stack.push(b);
            stack.push(a);
        } else if let Some((a, b)) = t.as_product() {
            out.push(2);
            stack.push(b);
            stack.push(a);
        }
    }
    true
}

/// Node table in post order (children before parents, root last), hidden children of assertions
/// materialised as their own entries:
///   <n entries> then per entry  <code> <a> <b> <extra> , then 4 <src> <tgt> (or 5 for hidden entries)
///   codes: 0 iden 1 unit 2 injl 3 injr 4 take 5 drop 6 comp 7 case 8 pair 9 disconnect 10 hidden
///          11 fail 12 jet (a = index in Elements::ALL, extra = cost in milli weight) 13 word (a = n)
///          14 witness (extra = number of compact bits)
/// A leading 1 instead of 0 means a type was too large to print; the table is then omitted.
pub fn dump_table(p: &RedeemNode) -> Vec<u128> {
    let mut rows: Vec<Vec<u128>> = vec![];
    let mut pos: Vec<usize> = vec![];
    for data in p.post_order_iter::<InternalSharing>() {
        let n = data.node;
        let l = data.left_index.map(|i| pos[i]);
        let r = data.right_index.map(|i| pos[i]);
        let hidden = |rows: &mut Vec<Vec<u128>>| -> usize {
            rows.push(vec![10, 0, 0, 0, 5]);
            rows.len() - 1
        };
        let (code, a, b, extra): (u128, usize, usize, u128) = match n.inner() {
            Inner::Iden => (0, 0, 0, 0),
            Inner::Unit => (1, 0, 0, 0),
            Inner::InjL(_) => (2, l.unwrap(), 0, 0),
            Inner::InjR(_) => (3, l.unwrap(), 0, 0),
            Inner::Take(_) => (4, l.unwrap(), 0, 0),
            Inner::Drop(_) => (5, l.unwrap(), 0, 0),
            Inner::Comp(..) => (6, l.unwrap(), r.unwrap(), 0),
            Inner::Case(..) => (7, l.unwrap(), r.unwrap(), 0),
            Inner::AssertL(..) => {
                let h = hidden(&mut rows);
                (7, l.unwrap(), h, 0)
            }
            Inner::AssertR(..) => {
                let h = hidden(&mut rows);
                (7, h, l.unwrap(), 0)
            }
            Inner::Pair(..) => (8, l.unwrap(), r.unwrap(), 0),
            Inner::Disconnect(..) => (9, l.unwrap(), r.unwrap(), 0),
            Inner::Witness(v) => (14, 0, 0, v.compact_len() as u128),
            Inner::Fail(_) => (11, 0, 0, 0),
            Inner::Jet(j) => {
                let je = j.as_ref().as_any().downcast_ref::<Elements>().expect("elements jet");
                let idx = Elements::ALL.iter().position(|x| x == je).unwrap();
                (12, idx, 0, je.cost().to_string().parse().unwrap())
            }
            Inner::Word(w) => (13, w.n() as usize, 0, 0),
        };
        let mut row = vec![code, a as u128, b as u128, extra, 4];
        let ok = ty_nums_capped(&n.arrow().source, &mut row) && ty_nums_capped(&n.arrow().target, &mut row);
        if !ok {
            return vec![1];
        }
        rows.push(row);
        pos.push(rows.len() - 1);
    }
    let mut out = vec![0, rows.len() as u128];
    for r in rows {
        out.extend(r);
    }
    out
}

fn count_fail(p: &RedeemNode) -> u128 {
    p.post_order_iter::<InternalSharing>().filter(|d| matches!(d.node.inner(), Inner::Fail(_))).count() as u128
}

// ------------------------------------------------------------------ c03

fn push_bytes(out: &mut Vec<u128>, b: &[u8]) {
    out.extend(b.iter().map(|x| *x as u128));
}

pub fn compare(program: &[u8], witness: &[u8], out: &mut Vec<u128>) {
    // Rust
    out.push(77);
    let rust = guarded(|| rust_decode(program, witness));
    let mut table = vec![];
    match &rust {
        None => out.extend([13, 0]),
        Some(RustOut::Err(c, d)) => out.extend([*c, *d]),
        Some(RustOut::Ok(p)) => {
            out.extend([0, 0]);
            push_bytes(out, p.cmr().as_ref());
            push_bytes(out, p.amr().as_ref());
            push_bytes(out, p.ihr().as_ref());
            out.push(cost_of(p));
            out.push(count_fail(p));
            table = guarded(|| dump_table(p)).unwrap_or(vec![2]);
        }
    }
    // C, staged
    out.push(78);
    let c = c_pipeline(program, witness, None);
    if c.stage == 0 {
        out.extend([0, 0, 0]);
        push_bytes(out, &c.cmr.unwrap());
        push_bytes(out, &c.amr.unwrap());
        push_bytes(out, &c.ihr.unwrap());
        out.push(c.cost.unwrap() as u128);
        out.push(c.cells.unwrap() as u128);
    } else {
        out.extend([c_class(c.err), (-(c.err as i64)) as u128, c.stage as u128]);
        if c.stage > 1 {
            push_bytes(out, &c.cmr.unwrap());
        }
    }
    // C through the library's own test entry point
    out.push(79);
    let rp = guarded(|| run_program(program, witness, TestUpTo::CheckOneOne, None, None));
    match rp {
        None => out.extend([9, 0]),
        Some(Err(e)) => out.extend([1, (-(e as i32 as i64)) as u128]),
        Some(Ok(o)) => {
            out.extend([0, 0]);
            push_bytes(out, &mid_bytes(&o.cmr));
            push_bytes(out, &mid_bytes(&o.amr));
            push_bytes(out, &mid_bytes(&o.ihr));
            out.push(o.cost_bound as u128);
        }
    }
    out.push(80);
    out.extend(table);
}

pub fn run_c03(t: &[&str]) -> String {
    match guarded(|| run_c03_inner(t)) {
        Some(v) => join(&v),
        None => "9".to_string(),
    }
}

fn build_program(pdl: &str, prune: bool) -> Result<Arc<RedeemNode>, u128> {
    let specs = prog::parse_prog(pdl);
    let p = prog::redeem(&specs, true).map_err(|e| prog::err_code(&e))?;
    if prune {
        let e = env::dummy(p.cmr());
        p.prune(&e).map_err(|e| 50 + exec_class(&e))
    } else {
        Ok(p)
    }
}

fn run_c03_inner(t: &[&str]) -> Vec<u128> {
    match t[0] {
        "bytes" => {
            let p = unhex(t[1]);
            let w = unhex(t[2]);
            let mut out = vec![];
            compare(&p, &w, &mut out);
            out
        }
        // bit codes of all Elements jets (after the `11` node prefix): 7 <index> <n bits> <bits...>
        "jetcodes" => {
            let mut out = vec![];
            for (i, j) in Elements::ALL.iter().enumerate() {
                let mut bytes = Vec::new();
                let n = {
                    let mut w = simplicity::BitWriter::new(&mut bytes as &mut dyn std::io::Write);
                    let n = j.encode(&mut w).unwrap();
                    w.flush_all().unwrap();
                    n
                };
                out.push(7);
                out.push(i as u128);
                out.push(n as u128);
                for k in 0..n {
                    out.push(((bytes[k / 8] >> (7 - k % 8)) & 1u8) as u128);
                }
            }
            out
        }
        // 0 <n> <n x 32 bytes>: CMRs of the nodes of the decoded program in post order (InternalSharing: the
        // order of the encoding with hidden entries skipped)  |  1 when Rust does not decode the pair
        "nodecmrs" => {
            let p = unhex(t[1]);
            let w = unhex(t[2]);
            match rust_decode(&p, &w) {
                RustOut::Ok(prog) => {
                    let mut out = vec![0, 0];
                    let mut n = 0u128;
                    for d in prog.as_ref().post_order_iter::<InternalSharing>() {
                        push_bytes(&mut out, d.node.cmr().as_ref());
                        n += 1;
                    }
                    out[1] = n;
                    out
                }
                RustOut::Err(..) => vec![1],
            }
        }
        "pdl" => {
            let prune = t[1] == "1";
            match build_program(t[2], prune) {
                Err(c) => vec![1, c],
                Ok(p) => {
                    let (pb, wb) = p.to_vec_with_witness();
                    let mut out = vec![0, pb.len() as u128];
                    push_bytes(&mut out, &pb);
                    out.push(wb.len() as u128);
                    push_bytes(&mut out, &wb);
                    // the program as built (before the round trip through the encoding)
                    out.push(76);
                    push_bytes(&mut out, p.cmr().as_ref());
                    push_bytes(&mut out, p.amr().as_ref());
                    push_bytes(&mut out, p.ihr().as_ref());
                    out.push(cost_of(&p));
                    compare(&pb, &wb, &mut out);
                    out
                }
            }
        }
        _ => panic!("kind"),
    }
}

// ------------------------------------------------------------------ c06

/// kinds of execution outcome shared by both evaluators:
/// 0 success, 1 assertion (pruned branch reached), 2 jet failed, 3 fail node reached,
/// 4 resource limit, 5 input type, 6 jet family mismatch, 7 anti-DoS, 12 other
pub fn exec_class(e: &simplicity::bit_machine::ExecutionError) -> u128 {
    use simplicity::bit_machine::ExecutionError as E;
    match e {
        E::ReachedPrunedBranch(_) => 1,
        E::JetFailed(_) => 2,
        E::ReachedFailNode(_) => 3,
        E::LimitExceeded(_) => 4,
        E::InputWrongType(_) => 5,
        E::JetTypeMismatch => 6,
    }
}

pub fn c_exec_class(err: i32) -> u128 {
    match err {
        0 => 0,
        -40 => 1,             // EXEC_ASSERT
        -38 => 2,             // EXEC_JET
        -34 | -36 | -1 => 4,  // EXEC_BUDGET / EXEC_MEMORY / MALLOC
        -42 => 7,             // ANTIDOS
        _ => 12,
    }
}

pub fn run_c06(t: &[&str]) -> String {
    match guarded(|| run_c06_inner(t)) {
        Some(v) => join(&v),
        None => "9".to_string(),
    }
}

/// c06 run <env> <pdl>:
///   1 <build error>                                              program could not be built
///   0 <rust kind> <c stage> <c kind> <c raw err> <antidos kind> <cost> <cells> <n nodes> <n jets> <n fail>
///     88 <env summary> 89 <cmr>
fn run_c06_inner(t: &[&str]) -> Vec<u128> {
    match t[0] {
        "run" => {
            let p = match build_program(t[2], false) {
                Err(c) => return vec![1, c],
                Ok(p) => p,
            };
            let e = env::build(t[1], p.cmr());
            // Rust
            let mut pruned: Option<Vec<u8>> = None;
            let rk = match guarded(|| match BitMachine::for_program(&p) {
                Err(_) => (4u128, None),
                Ok(mut mac) => match mac.exec(&p, &e) {
                    Ok(_) => (0, None),
                    Err(x) => {
                        let c = match &x {
                            simplicity::bit_machine::ExecutionError::ReachedPrunedBranch(c) => Some(c.as_ref().to_vec()),
                            _ => None,
                        };
                        (exec_class(&x), c)
                    }
                },
            }) {
                Some((k, c)) => {
                    pruned = c;
                    k
                }
                None => 9,
            };
            // C on the same marshalled environment, no anti-DoS checks
            let (pb, wb) = p.to_vec_with_witness();
            let c = c_pipeline(&pb, &wb, Some((cffi::eval::CHECK_NONE, e.c_tx_env())));
            let (ck, craw) = match c.eval {
                Some(r) => (c_exec_class(r), (-(r as i64)) as u128),
                None => (100 + c_class(c.err), (-(c.err as i64)) as u128),
            };
            // informative: the consensus run (all anti-DoS checks on)
            let c2 = c_pipeline(&pb, &wb, Some((cffi::eval::CHECK_ALL, e.c_tx_env())));
            let ak = match c2.eval {
                Some(r) => c_exec_class(r),
                None => 100,
            };
            let mut n_nodes = 0u128;
            let mut n_jets = 0u128;
            for d in p.as_ref().post_order_iter::<InternalSharing>() {
                n_nodes += 1;
                if matches!(d.node.inner(), Inner::Jet(_)) {
                    n_jets += 1;
                }
            }
            let mut out = vec![
                0,
                rk,
                c.stage as u128,
                ck,
                craw,
                ak,
                c.cost.unwrap_or(0) as u128,
                c.cells.unwrap_or(0) as u128,
                n_nodes,
                n_jets,
                count_fail(&p),
                88,
            ];
            out.extend(env::summary(&e));
            out.push(89);
            push_bytes(&mut out, p.cmr().as_ref());
            // the CMR carried by Rust's ReachedPrunedBranch (which assertion failed)
            if let Some(c) = pruned {
                out.push(90);
                push_bytes(&mut out, &c);
            }
            out
        }
        // 0 then per node `4 <src> <tgt>` (types as numbers) or `5` (hidden), then `8 <index> <32 bytes>` for the
        // right child of every disconnect node  |  1 <error code>
        "info" => {
            let specs = prog::parse_prog(t[1]);
            let arr = match prog::arrows(&specs, true) {
                Ok(a) => a,
                Err(e) => return vec![1, prog::err_code(&e)],
            };
            let mut out = vec![0];
            for x in arr {
                match x {
                    None => out.push(5),
                    Some((s, tg)) => {
                        out.push(4);
                        prog::ty_nums(&s, &mut out);
                        prog::ty_nums(&tg, &mut out);
                    }
                }
            }
            let cm: Vec<(usize, Vec<u8>)> = simplicity::types::Context::with_context(|ctx| {
                let nodes = match prog::build(&ctx, &specs, &|_| None) {
                    Ok(n) => n,
                    Err(_) => return vec![],
                };
                let mut v = vec![];
                for s in specs.iter() {
                    if let prog::NodeSpec::Disconnect(_, Some(r)) = s {
                        if let Some(n) = &nodes[*r] {
                            v.push((*r, n.cmr().as_ref().to_vec()));
                        }
                    }
                }
                v
            });
            for (i, c) in cm {
                out.push(8);
                out.push(i as u128);
                out.extend(c.iter().map(|b| *b as u128));
            }
            out
        }
        // regression for the fixed finding F-C03 (corpus/C06/run_program_budget.case): run_program with a budget
        // through the library's own test entry point (it used to pass the budget VALUE as a pointer)
        "rp_budget" => {
            let b: u32 = t[1].parse().unwrap();
            let r = run_program(&[0x24], &[], TestUpTo::Everything, Some(b), None);
            match r {
                Ok(o) => vec![0, (-(o.eval_result as i32 as i64)) as u128],
                Err(e) => vec![1, (-(e as i32 as i64)) as u128],
            }
        }
        // classification tables, compared with coq/Cdiff/VerdictRef.v (Run.run_classes)
        "classes" => {
            let n: i32 = t[1].parse().unwrap();
            let mut out: Vec<u128> = (0..n).map(|k| c_exec_class(-k)).collect();
            out.push(77);
            out.extend((0..n).map(|k| c_class(-k)));
            out.push(78);
            use simplicity::bit_machine::{ExecutionError as E, LimitError};
            let errs = vec![
                E::InputWrongType(Final::unit()),
                E::ReachedFailNode(simplicity::FailEntropy::from_byte_array([0; 64])),
                E::ReachedPrunedBranch(simplicity::Cmr::from_byte_array([0; 32])),
                E::LimitExceeded(LimitError::MaxCellsExceeded { got: 1, max: 0, bound: "x" }),
                E::JetFailed(simplicity::jet::JetFailed),
                E::JetTypeMismatch,
            ];
            out.push(0);
            out.extend(errs.iter().map(exec_class));
            out
        }
        _ => panic!("kind"),
    }
}
