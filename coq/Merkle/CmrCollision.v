(* C09, injectivity without idealising premises: if two committed structures have the same
   root, then they are equal up to hiding OR an explicit collision of the compression
   function can be exhibited (two different (state, block) inputs with the same output).

   Unlike CmrInjective.cmr_injective this statement has no premise that is false of a real
   hash function: it needs decidable equality on H and three facts that hold of the SHA-256
   instance by computation (every IV is compress iv0 (tag block); iv0 is none of the IVs; the
   IVs are pairwise different).  "An IV has no preimage under another IV" is not assumed:
   such a preimage is itself a collision, since the IV is also the image of iv0. *)
From RS Require Import Lib.Tac Lib.Outcome Ty.Ty Core.Prog Merkle.Tagged Merkle.Cmr Merkle.CmrStructure.
Import ListNotations.
Local Open Scope N_scope.

Section Hash.
  Variable H : Type.
  Variable compress : H -> H * H -> H.
  Variable iv : tag -> H.
  Variable zero : H.
  Variable of_weight : N -> H.
  Variable jet_cmr : N -> N -> H.
  Variable iv0 : H.
  Variable tag_block : tag -> H * H.

  Local Notation cstruct := (cstruct H).
  Local Notation cmr_spec := (cmr_spec H compress iv zero of_weight jet_cmr).
  Local Notation scribe_root := (scribe_root H compress iv zero).
  Local Notation heq := (heq H compress iv zero of_weight jet_cmr).
  Local Notation cwf := (cwf H).

  Hypothesis H_eq_dec : forall a b : H, {a = b} + {a <> b}.
  Hypothesis iv_unfold : forall t, iv t = compress iv0 (tag_block t).
  Hypothesis iv0_fresh : forall t, In t cmr_tags -> iv0 <> iv t.
  Hypothesis iv_inj : forall a b, In a cmr_tags -> In b cmr_tags -> iv a = iv b -> a = b.

  (* two different inputs of the compression function with the same output *)
  Definition collision : Prop :=
    exists s b s' b', compress s b = compress s' b' /\ (s <> s' \/ b <> b').

  Lemma inj_or_collision s b s' b' :
    compress s b = compress s' b' -> (s = s' /\ b = b') \/ collision.
  Proof.
    intros E. destruct b as [l r], b' as [l' r'].
    destruct (H_eq_dec s s') as [Es|Ns]; [|right; exists s, (l, r), s', (l', r'); auto].
    destruct (H_eq_dec l l') as [El|Nl];
      [|right; exists s, (l, r), s', (l', r'); split; [exact E|right; congruence]].
    destruct (H_eq_dec r r') as [Er|Nr];
      [|right; exists s, (l, r), s', (l', r'); split; [exact E|right; congruence]].
    left. subst. auto.
  Qed.

  Local Ltac tag_in := cbn; repeat (first [left; reflexivity | right]).

  Local Ltac unfold_cmr :=
    unfold cmr_iden, cmr_unit, cmr_injl, cmr_injr, cmr_take, cmr_drop, cmr_comp, cmr_case, cmr_pair,
      cmr_disconnect, cmr_witness, cmr_fail, word_root, update_0_then_32, update_weight_then_32,
      update_2x32, update_64 in *.

  (* an equation between roots of different shape: contradiction or collision *)
  Lemma leaf_node a b x : In a cmr_tags -> In b cmr_tags -> iv a = compress (iv b) x -> collision.
  Proof.
    intros Ha Hb E. rewrite (iv_unfold a) in E.
    destruct (inj_or_collision _ _ _ _ E) as [[E1 _]|C]; [|exact C].
    exfalso. exact (iv0_fresh b Hb E1).
  Qed.

  Local Ltac kill E :=
    match type of E with
    | iv ?a = iv ?b =>
        apply iv_inj in E; [discriminate E | tag_in | tag_in]
    | iv ?a = compress (iv ?b) _ =>
        right; apply (leaf_node a b _ ltac:(tag_in) ltac:(tag_in) E)
    | compress (iv ?b) _ = iv ?a =>
        right; apply (leaf_node a b _ ltac:(tag_in) ltac:(tag_in) (eq_sym E))
    | compress (iv ?a) _ = compress (iv ?b) _ =>
        let E1 := fresh "E1" in let C := fresh "C" in
        destruct (inj_or_collision _ _ _ _ E) as [[E1 _]|C]; [|right; exact C];
        apply iv_inj in E1; [discriminate E1 | tag_in | tag_in]
    end.

  Lemma scribe_root_inj_c n : forall n' bits bits',
    length bits = (2 ^ n)%nat -> length bits' = (2 ^ n')%nat ->
    scribe_root n bits = scribe_root n' bits' -> (n = n' /\ bits = bits') \/ collision.
  Proof.
    induction n as [|n IH]; intros [|n'] bits bits' L L' E.
    - destruct bits as [|b [|? ?]]; cbn in L; try discriminate.
      destruct bits' as [|b' [|? ?]]; cbn in L'; try discriminate.
      cbn in E. unfold Cmr.cmr_bit in E. destruct b, b'; try (left; split; reflexivity); unfold_cmr; kill E.
    - cbn in E. unfold Cmr.cmr_bit in E. destruct (hd false bits); unfold_cmr; kill E.
    - cbn in E. unfold Cmr.cmr_bit in E. destruct (hd false bits'); unfold_cmr; kill E.
    - cbn [Cmr.scribe_root] in E. unfold_cmr.
      destruct (inj_or_collision _ _ _ _ E) as [[_ E']|C]; [|right; exact C]. injection E' as E1 E2.
      assert (P : (2 ^ S n = 2 ^ n + 2 ^ n)%nat) by (cbn; lia).
      assert (P' : (2 ^ S n' = 2 ^ n' + 2 ^ n')%nat) by (cbn; lia).
      apply IH in E1; [|rewrite firstn_length; lia|rewrite firstn_length; lia].
      destruct E1 as [[<- F1]|C]; [|right; exact C].
      apply IH in E2; [|rewrite skipn_length; lia|rewrite skipn_length; lia].
      destruct E2 as [[_ F2]|C]; [|right; exact C]. left. split; [reflexivity|].
      rewrite <- (firstn_skipn (2 ^ n) bits), <- (firstn_skipn (2 ^ n) bits'), F1, F2. reflexivity.
  Qed.

  Lemma word_inj_c n n' bits bits' :
    length bits = (2 ^ n)%nat -> length bits' = (2 ^ n')%nat ->
    cmr_spec (CWord n bits) = cmr_spec (CWord n' bits') -> (n = n' /\ bits = bits') \/ collision.
  Proof.
    intros L L' E. cbn in E. unfold_cmr.
    destruct (inj_or_collision _ _ _ _ E) as [[_ E1]|C]; [|right; exact C]. injection E1 as _ E1.
    destruct (inj_or_collision _ _ _ _ E1) as [[E2 _]|C]; [|right; exact C].
    destruct (inj_or_collision _ _ _ _ E2) as [[_ E3]|C]; [|right; exact C]. injection E3 as E3.
    eapply scribe_root_inj_c; eauto.
  Qed.

  (* cmr_collision *)
  Theorem cmr_collision : forall s1 s2, cwf s1 -> cwf s2 -> cmr_spec s1 = cmr_spec s2 ->
    heq s1 s2 \/ collision.
  Proof.
    induction s1; intros s2 W1 W2 E; destruct s2;
      try (left; apply heq_opaque_l; [reflexivity|exact E]);
      try (left; apply heq_opaque_r; [reflexivity|exact E]);
      cbn [Cmr.cmr_spec] in E; unfold_cmr; try (kill E; fail);
      try (left; first [apply heq_iden | apply heq_unit | apply heq_witness]).
    - destruct (inj_or_collision _ _ _ _ E) as [[_ E']|C]; [|right; exact C]. injection E' as E'.
      destruct (IHs1 s2 W1 W2 E') as [R|C]; [left; apply heq_injl, R|right; exact C].
    - destruct (inj_or_collision _ _ _ _ E) as [[_ E']|C]; [|right; exact C]. injection E' as E'.
      destruct (IHs1 s2 W1 W2 E') as [R|C]; [left; apply heq_injr, R|right; exact C].
    - destruct (inj_or_collision _ _ _ _ E) as [[_ E']|C]; [|right; exact C]. injection E' as E'.
      destruct (IHs1 s2 W1 W2 E') as [R|C]; [left; apply heq_take, R|right; exact C].
    - destruct (inj_or_collision _ _ _ _ E) as [[_ E']|C]; [|right; exact C]. injection E' as E'.
      destruct (IHs1 s2 W1 W2 E') as [R|C]; [left; apply heq_drop, R|right; exact C].
    - destruct (inj_or_collision _ _ _ _ E) as [[_ E']|C]; [|right; exact C]. injection E' as E1 E2.
      cbn in W1, W2. destruct W1 as [W1a W1b], W2 as [W2a W2b].
      destruct (IHs1_1 s2_1 W1a W2a E1) as [R1|C]; [|right; exact C].
      destruct (IHs1_2 s2_2 W1b W2b E2) as [R2|C]; [|right; exact C]. left. apply heq_comp; assumption.
    - destruct (inj_or_collision _ _ _ _ E) as [[_ E']|C]; [|right; exact C]. injection E' as E1 E2.
      cbn in W1, W2. destruct W1 as [W1a W1b], W2 as [W2a W2b].
      destruct (IHs1_1 s2_1 W1a W2a E1) as [R1|C]; [|right; exact C].
      destruct (IHs1_2 s2_2 W1b W2b E2) as [R2|C]; [|right; exact C]. left. apply heq_case; assumption.
    - destruct (inj_or_collision _ _ _ _ E) as [[_ E']|C]; [|right; exact C]. injection E' as E1 E2.
      cbn in W1, W2. destruct W1 as [W1a W1b], W2 as [W2a W2b].
      destruct (IHs1_1 s2_1 W1a W2a E1) as [R1|C]; [|right; exact C].
      destruct (IHs1_2 s2_2 W1b W2b E2) as [R2|C]; [|right; exact C]. left. apply heq_pair; assumption.
    - destruct (inj_or_collision _ _ _ _ E) as [[_ E']|C]; [|right; exact C]. injection E' as E'.
      destruct (IHs1 s2 W1 W2 E') as [R|C]; [left; apply heq_disconnect, R|right; exact C].
    - destruct (inj_or_collision _ _ _ _ E) as [[_ E']|C]; [|right; exact C]. subst. left. apply heq_fail.
    - assert (R : (n = n0 /\ bits = bits0) \/ collision).
      { apply word_inj_c; [exact W1|exact W2|]. cbn [Cmr.cmr_spec]. unfold_cmr. exact E. }
      destruct R as [[-> ->]|C]; [left; apply heq_word|right; exact C].
  Qed.

End Hash.
