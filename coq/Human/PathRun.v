(* C17 - executable entry points for the path-count check and for `from_program` (correspondence kinds
   `paths` and `fromok` of harness/src/human.rs), and the overflow witness. *)
From RS Require Import Lib.Tac Lib.Outcome Lib.Sweep Core.Prog Human.Namer Human.Render Human.RenderProofs Human.Resolve
  Human.RoundTrip Human.Run Human.PathCount Human.PathSat Human.FromProgram.
Import ListNotations.
Local Open Scope N_scope.

(* `77 <name> <count>` per reported pair, in the order of the model (the driver sorts the groups) *)
Definition wd_nums (l : list (name * N)) : list N :=
  flat_map (fun nk => 77 :: name_nums (fst nk) ++ [snd nk]) l.

(* the named DAGs of the roots that `parse_inner` inserted into `roots` *)
Definition inserted_roots (ls : list line) : list ndag :=
  let '(um, _) := step1 ls in
  let fuel := (2 * total_size um + 2)%nat in
  flat_map (fun n => match snd (fst (resolve_root no_cmr um fuel n)) with Some d => [d] | None => [] end)
           (root_names um).

Definition is_panic {E A} (o : outcome E A) : bool := match o with Panic _ => true | _ => false end.

(* kind paths: Forest::parse, the error list with names and counts (the saturating count of commit c273481)
     `9`                                      panic (never: C17_wd_check_sat_ok)
     `0 <nroots>`                             parsed
     `1 <k> <codes>*k (77 <name> <count>)*`   error list; code 18 comes with its pairs *)
Definition run_paths (ls : list line) : list N :=
  let checks := map wd_check_sat (inserted_roots ls) in
  if existsb is_panic checks then [9]
  else
    let wds := flat_map (fun c => match c with Ok l => l | _ => [] end) checks in
    match resolve no_cmr ls with
    | Ok f => [0; N.of_nat (length f)]
    | Err es => (match show_errs es with _ :: r => 1 :: r | [] => [1] end) ++ wd_nums wds
    | Panic _ => [9]
    | OutOfFuel => [98]
    end.

Fixpoint nodup_names (l : list name) : bool :=
  match l with
  | [] => true
  | x :: r => negb (mem_name x r) && nodup_names r
  end.

(* kind fromok: the hypotheses and the conclusions of from_program_ok, evaluated
     `0 <ihr closed> <nodes> <names distinct> <paths ok>` *)
Definition run_fromok (p : prog) (ihr cmr : list N) : list N :=
  let d := name_program p (parse_keys ihr) cmr in
  [0; b2N (from_ok p (parse_keys ihr)); N.of_nat (length (post_order d));
   b2N (wf_ndag d && nodup_names (map (nname d) (post_order d)));
   b2N (match path_errs d with [] => true | _ => false end)].

(* ------------------------------------------------------------------ the overflow witness *)
(* w := witness   x0 := comp w unit   x_{k+1} := comp (pair x_k x_k) unit   (root: x_k)
   positions: 0 witness, 1 unit, 2 x0, then per level: pair, unit, comp *)
Fixpoint ovf_levels (k : nat) (top : nat) (next : N) : ndag :=
  match k with
  | O => []
  | S k' =>
      let a := (top + 1)%nat in   (* pair *)
      let u := (top + 2)%nat in   (* unit *)
      let x := (top + 3)%nat in   (* comp *)
      [ mk_nn KPair [] (Some top) (Some top) (NUser next) None;
        mk_nn KUnit [] None None (NUser (next + 1)) None;
        mk_nn KComp [] (Some a) (Some u) (NUser (next + 2)) None ] ++ ovf_levels k' x (next + 3)
  end.

Definition ovf_dag (k : nat) : ndag :=
  [ mk_nn KWitness [] None None (NUser 0) None;
    mk_nn KUnit [] None None (NUser 1) None;
    mk_nn KComp [] (Some 0%nat) (Some 1%nat) (NUser 2) None ] ++ ovf_levels k 2 3.

(* the code BEFORE commit c273481 (plain `+=`): 2^63 paths: reported; 2^64 paths: the addition 2^63 + 2^63 leaves
   usize - panic with overflow checks, and without them the count wraps to 0 and nothing is reported (F-C17m) *)
Lemma ovf_63 : wf_ndag (ovf_dag 63) = true /\ wd_check_old (ovf_dag 63) = Ok [(NUser 0, 2 ^ 63)].
Proof. split; vm_compute; reflexivity. Qed.

Definition wrap (m : counts) : counts := map (fun nk => (fst nk, snd nk mod 2 ^ 64)) m.

Lemma ovf_64 : wf_ndag (ovf_dag 64) = true /\ wd_check_old (ovf_dag 64) = Panic 1 /\
  wd_errors (ovf_dag 64) = [(NUser 0, 2 ^ 64)] /\
  wd_of (wrap (last (pc_all (ovf_dag 64)) [])) = [].
Proof. repeat split; vm_compute; reflexivity. Qed.

(* the code as it is (saturating): 2^64 and 2^65 paths are reported with the count usize::MAX *)
Lemma ovf_sat : wd_check_sat (ovf_dag 63) = Ok [(NUser 0, 2 ^ 63)] /\
  wd_check_sat (ovf_dag 64) = Ok [(NUser 0, 2 ^ 64 - 1)] /\
  wd_check_sat (ovf_dag 65) = Ok [(NUser 0, 2 ^ 64 - 1)].
Proof. repeat split; vm_compute; reflexivity. Qed.

(* smoke tests *)
Definition ex_w2 : list line :=
  [ mk_line (NUser 1) (Some (ENode KWitness [] None None));
    mk_line NMain (Some (ENode KComp [] (Some (ENode KPair [] (Some (ERef (NUser 1))) (Some (ERef (NUser 1)))))
                                        (Some (ENode KUnit [] None None)))) ].
Example run_paths_w2 : run_paths ex_w2 = [1; 1; 18; 77; 3; 1; 2].
Proof. vm_compute. reflexivity. Qed.
