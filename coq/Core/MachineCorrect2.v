(* C05/C07 main lemma, continued: disconnect, and the induction over the typing derivation. *)
From RS Require Import Lib.Tac Lib.Outcome Lib.Bits Ty.Ty Core.Prog Core.Term Core.Typing Core.Sem
  Core.Bounds Core.Limits Core.Machine Core.MachineLemmas Core.MachineCorrect.
Import ListNotations.
Local Open Scope N_scope.

Lemma width_W256 : width W256 = 256.
Proof. reflexivity. Qed.

Lemma bits_of_bytes_length (l : list N) : length (bits_of_bytes l) = (8 * length l)%nat.
Proof.
  unfold bits_of_bytes. rewrite flat_map_concat_map.
  induction l as [|x l IH]; [reflexivity|]. cbn [map concat]. rewrite app_length, IH.
  unfold bits_of_byte. rewrite bits_be_length. cbn [length]. lia.
Qed.

Section Correct2.
  Variable prof : profile.
  Variable cap : N.
  Variable jet_sem : N -> sval -> option sval.

  Notation step := (step prof cap jet_sem).
  Notation action := (action prof cap jet_sem).
  Notation mstar := (mstar prof cap jet_sem).
  Notation mfail := (mfail prof cap jet_sem).
  Notation eval := (eval jet_sem).
  Notation correct := (correct prof cap jet_sem).
  Notation pre := (pre cap).

  Lemma correct_disconnect A B C D s t c :
    width (Prod W256 A) <= usize_max -> width (Prod B C) <= usize_max ->
    arrow_of s = (Prod W256 A, Prod B C) -> arrow_of t = (C, D) -> length c = 32%nat ->
    correct s (Prod W256 A) (Prod B C) -> correct t C D ->
    correct (Disconnect (A, Prod B D) s t c) A (Prod B D).
  Proof.
    intros Hs1 Hs2 Hars Hart Hc IHs IHt a st k [Prd Pwr Pd Pc Pf] Ha. cbn [eval].
    cbn [cells frames] in Pc, Pf. unfold src, tgt in Pc. rewrite Hars in Pc. cbn [fst snd width] in Pc.
    cbn [width] in Hs1, Hs2, Pwr. rewrite width_W256 in Hs1, Pc.
    remember (256 + width A) as w1 eqn:Hw1 in *. remember (width B + width C) as w2 eqn:Hw2 in *.
    assert (Hbits : length (bits_of_bytes c) = 256%nat) by (rewrite bits_of_bytes_length, Hc; reflexivity).
    (* the five operations of the node itself *)
    destruct (nwf_ok prof cap st w1 ltac:(lia) ltac:(lia)) as (st1 & E1 & Hm1 & Hn1 & Hr1 & Hwr1 & Hc1 & Hf1).
    assert (Pw1 : top_ok (wr st1) (N.of_nat (length (bits_of_bytes c))) (nfs st1)).
    { rewrite Hwr1, Hn1, Hbits. cbn [top_ok fcur fstart flen]. lia. }
    destruct (write_bits_tops st1 (bits_of_bytes c) (nfs st1) Pw1 ltac:(rewrite Hn1, Hm1; lia))
      as (st2 & E2 & Hn2 & Hr2 & Hwr2 & Hc2 & Hf2 & Hl2 & Hsl2 & Ho2).
    rewrite Hbits in Hwr2, Ho2. change (N.of_nat 256) with 256 in Hwr2, Ho2.
    assert (Ewc1 : wcur st1 = nfs st) by (unfold wcur; rewrite Hwr1; reflexivity).
    rewrite Ewc1 in *. rewrite Hwr1 in Hwr2. cbn [adv_top] in Hwr2.
    assert (Hms2 : msize (mem st2) = msize (mem st)) by (unfold msize; rewrite Hl2, Hm1; reflexivity).
    destruct (copy_tops st2 (width A) (nfs st2)) as (st3 & E3 & Hn3 & Hr3 & Hwr3 & Hc3 & Hf3 & Hl3 & Hcp3 & Ho3).
    { rewrite Hr2, Hr1, Hn2, Hn1. eapply top_ok_weaken; [exact Prd|lia|lia]. }
    { rewrite Hwr2, Hn2, Hn1. cbn [top_ok fadv fcur fstart flen]. lia. }
    { rewrite Hr2, Hr1, Hwr2. destruct (rd st) as [|rf rs]; cbn [tops_disj top_ok fadv fstart flen] in *; [exact I|lia]. }
    { rewrite Hn2, Hn1, Hms2. lia. }
    assert (Ewc2 : wcur st2 = nfs st + 256) by (unfold wcur; rewrite Hwr2; reflexivity).
    assert (Erc2 : rcur st2 = rcur st) by (apply rcur_eq; congruence).
    rewrite Ewc2, Erc2 in *. rewrite Hwr2 in Hwr3. cbn [adv_top] in Hwr3. rewrite fadv_fadv in Hwr3.
    destruct (move_ok st3 _ _ Hwr3) as (st4 & E4 & Hm4 & Hn4 & Hr4 & Hwr4 & Hc4 & Hf4).
    cbn [fadv fstart flen] in Hr4.
    assert (Hms4 : msize (mem st4) = msize (mem st)) by (unfold msize in *; rewrite Hm4, Hl3; exact Hms2).
    assert (Hd4 : depth st4 = depth st + 1).
    { unfold depth. rewrite Hr4, Hwr4, Hr3, Hr2, Hr1. cbn [length]. lia. }
    destruct (nwf_ok prof cap st4 w2) as (st5 & E5 & Hm5 & Hn5 & Hr5 & Hwr5 & Hc5 & Hf5).
    { rewrite Hn4, Hn3, Hn2, Hn1, Hms4. lia. }
    { rewrite Hd4. lia. }
    rewrite Hn4, Hn3, Hn2, Hn1 in Hn5, Hwr5, Hc5. rewrite Hwr4 in Hwr5. rewrite Hr4, Hr3, Hr2, Hr1 in Hr5.
    set (K1 := CMove :: CCopyFwd (width B) :: CGoto t :: CDropRead :: CDropRead :: k).
    assert (Hstep : step st (CGoto (Disconnect (A, Prod B D) s t c) :: k) = Ok (st5, CGoto s :: K1)).
    { change (CGoto s :: K1)
        with ([CGoto s; CMove; CCopyFwd (width B); CGoto t; CDropRead; CDropRead] ++ k).
      eapply step_goto.
      - cbn [Machine.action]. unfold src, tgt. rewrite Hars, Hart. cbn [fst snd].
        rewrite !bw_eq by (cbn [width]; rewrite ?width_W256; lia).
        cbn [width]. rewrite width_W256, <- Hw1, <- Hw2.
        rewrite (usub_ok prof) by lia. cbn [obind]. rewrite (usub_ok prof) by lia. cbn [obind].
        rewrite E1. cbn [obind]. rewrite E2. cbn [obind].
        replace (w1 - 256) with (width A) by lia. rewrite E3. cbn [obind]. rewrite E4. cbn [obind].
        rewrite E5. cbn [obind]. replace (w2 - width C) with (width B) by lia. reflexivity.
      - eapply wc_ok; [exact Prd|]. rewrite Hm5, Hms4. lia.
      - discriminate.
      - discriminate. }
    assert (Hd5 : depth st5 = depth st + 2).
    { unfold depth. rewrite Hr5, Hwr5. cbn [length]. lia. }
    assert (Hms5 : msize (mem st5) = msize (mem st)) by (rewrite Hm5; exact Hms4).
    assert (P5 : pre st5 (Prod W256 A) (Prod B C) s).
    { constructor.
      - rewrite Hr5, Hn5. cbn [width]. rewrite width_W256, <- Hw1. cbn [top_ok fcur fstart flen]. lia.
      - rewrite Hwr5, Hn5. cbn [width]. rewrite <- Hw2. cbn [top_ok fcur fstart flen]. lia.
      - rewrite Hr5, Hwr5. cbn [tops_disj fstart flen]. lia.
      - rewrite Hn5, Hms5. lia.
      - rewrite Hd5. lia. }
    assert (Ha5 : enc_at (mem st5) (rcur st5) (Prod W256 A) (SP (cmr_value c) a)).
    { unfold rcur. rewrite Hr5, Hm5, Hm4. cbn [fcur enc_at]. split.
      - eapply padded_of_enc_at.
        + apply of_padded_total. rewrite Hbits, width_W256. reflexivity.
        + rewrite <- Hsl2 at 2. apply mslice_ext. intros j Hj. apply Ho3. rewrite Hbits in Hj. lia.
      - rewrite width_W256. eapply enc_at_move; [|exact Ha]. intros j Hj. rewrite Hcp3 by exact Hj.
        rewrite Ho2, Hm1; [reflexivity|].
        pose proof (rcur_below _ _ _ Prd (rcur st + j)). lia. }
    specialize (IHs _ st5 K1 P5 Ha5). destruct (eval s (SP (cmr_value c) a)) as [bc|e|]; cbn [rbind].
    2: { destruct IHs as (st6 & n1 & Hle1 & Hfail1 & Qh).
         exists st6, (S n1). split; [cbn [steps]; lia|]. split; [eapply mfail_step; eassumption|].
         unfold hw_ok in *. cbn [cells frames]. unfold src, tgt. rewrite Hars. cbn [fst snd width]. rewrite width_W256, <- Hw1, <- Hw2.
         rewrite Hc5, Hc4, Hc3, Hc2, Hc1, Hf5, Hf4, Hf3, Hf2, Hf1, Hn5, Hd5, Hd4 in Qh.
         destruct Qh as (Qa & Qb & Qc & Qd).
         split; [clear - Qa; lia|]. split; [clear - Qb; lia|]. split; [clear - Qc; lia|clear - Qd; lia]. }
    2: exact IHs.
    destruct IHs as (st6 & n1 & Hle1 & Hstar1 & Q1). destruct Q1 as [Ql6 Qn6 Qr6 Qw6 Qe6 Qs6 Qh6].
    assert (Ewc5 : wcur st5 = nfs st + w1) by (unfold wcur; rewrite Hwr5; reflexivity).
    rewrite Ewc5, Hn5 in *. cbn [width] in Qs6. rewrite Hwr5 in Qw6. cbn [adv_top] in Qw6. rewrite Hr5 in Qr6.
    destruct bc as [| | |b x]; cbn [enc_at] in Qe6; try contradiction. destruct Qe6 as [Qb6 Qx6].
    assert (Hms6 : msize (mem st6) = msize (mem st)) by (unfold msize in *; rewrite Ql6; exact Hms5).
    (* MoveWriteFrameToRead *)
    destruct (move_ok st6 _ _ Qw6) as (st7 & E7 & Hm7 & Hn7 & Hr7 & Hwr7 & Hc7 & Hf7).
    cbn [fadv fstart flen] in Hr7. rewrite Qr6 in Hr7. rewrite Qn6 in Hn7.
    (* CopyFwd (width B) *)
    destruct (copy_tops st7 (width B) (nfs st7)) as (st8 & E8 & Hn8 & Hr8 & Hwr8 & Hc8 & Hf8 & Hl8 & Hcp8 & Ho8).
    { rewrite Hr7, Hn7. cbn [top_ok fcur fstart flen]. lia. }
    { rewrite Hwr7, Hn7. eapply top_ok_weaken; [exact Pwr|lia|lia]. }
    { rewrite Hr7, Hwr7. destruct (wr st) as [|wf ws]; cbn [tops_disj top_ok fstart flen] in *; [exact I|lia]. }
    { rewrite Hn7, Hm7, Hms6. lia. }
    assert (Ewc7 : wcur st7 = wcur st) by (apply wcur_eq; exact Hwr7).
    assert (Erc7 : rcur st7 = nfs st + w1) by (unfold rcur; rewrite Hr7; reflexivity).
    rewrite Ewc7, Erc7, Hwr7 in *. rewrite Hr7 in Hr8. rewrite Hn7 in Hn8.
    destruct (fwd_tops st8 (width B) w2 (nfs st8)) as (st9 & E9 & Hm9 & Hn9 & Hwr9 & Hr9 & Hc9 & Hf9).
    { rewrite Hr8, Hn8. cbn [top_ok fcur fstart flen]. lia. }
    { lia. }
    rewrite Hr8 in Hr9. cbn [adv_top] in Hr9. unfold fadv in Hr9. cbn [fcur fstart flen] in Hr9. rewrite Hwr8 in Hwr9. rewrite Hn8 in Hn9.
    assert (Hstep7 : step st6 K1 = Ok (st7, CCopyFwd (width B) :: CGoto t :: CDropRead :: CDropRead :: k))
      by (unfold K1; cbn [Machine.step]; rewrite E7; reflexivity).
    assert (Hstep8 : step st7 (CCopyFwd (width B) :: CGoto t :: CDropRead :: CDropRead :: k)
                     = Ok (st9, CGoto t :: CDropRead :: CDropRead :: k))
      by (cbn [Machine.step]; rewrite E8; cbn [obind]; rewrite E9; reflexivity).
    assert (Hms9 : msize (mem st9) = msize (mem st)).
    { unfold msize in *. rewrite Hm9, Hl8, Hm7. exact Hms6. }
    assert (Hd9 : depth st9 = depth st + 2).
    { unfold depth. rewrite Hr9, Hwr9, adv_top_length. cbn [length]. lia. }
    assert (P9 : pre st9 C D t).
    { constructor.
      - rewrite Hr9, Hn9. cbn [top_ok fcur fstart flen]. lia.
      - rewrite Hwr9, Hn9. apply top_ok_adv. eapply top_ok_weaken; [exact Pwr|lia|lia].
      - rewrite Hr9, Hwr9. destruct (wr st) as [|wf ws]; cbn [tops_disj top_ok adv_top fadv fstart flen] in *; [exact I|lia].
      - rewrite Hn9, Hms9. lia.
      - rewrite Hd9. lia. }
    assert (Ha9 : enc_at (mem st9) (rcur st9) C x).
    { unfold rcur. rewrite Hr9, Hm9. cbn [fcur]. eapply enc_at_ext; [|exact Qx6].
      intros j Hj. rewrite Ho8, Hm7; [reflexivity|].
      pose proof (wcur_below _ _ _ Pwr j). lia. }
    specialize (IHt x st9 (CDropRead :: CDropRead :: k) P9 Ha9). destruct (eval t x) as [d|e|]; cbn [rbind].
    2: { destruct IHt as (st10 & n2 & Hle2 & Hfail2 & Qh).
         exists st10, (S (n1 + (1 + (1 + n2)))). split; [cbn [steps]; lia|]. split.
         - eapply mfail_step; [exact Hstep|]. eapply mstar_mfail; [exact Hstar1|].
           eapply mfail_step; [exact Hstep7|]. eapply mfail_step; [exact Hstep8|]. exact Hfail2.
         - unfold hw_ok in *. cbn [cells frames]. unfold src, tgt. rewrite Hars. cbn [fst snd width]. rewrite width_W256, <- Hw1, <- Hw2.
           rewrite Hc9, Hc8, Hc7, Hf9, Hf8, Hf7, Hn9, Hd9 in Qh.
           rewrite Hc5, Hc4, Hc3, Hc2, Hc1, Hf5, Hf4, Hf3, Hf2, Hf1, Hn5, Hd5, Hd4 in Qh6.
           destruct Qh as (Qa & Qb & Qc & Qd). destruct Qh6 as (Ra & Rb & Rc & Rd).
           split; [clear - Qa Ra; lia|]. split; [clear - Qb Rb; lia|].
           split; [clear - Qc Rc; lia|clear - Qd Rd; lia]. }
    2: exact IHt.
    destruct IHt as (st10 & n2 & Hle2 & Hstar2 & Q2). destruct Q2 as [Ql10 Qn10 Qr10 Qw10 Qe10 Qs10 Qh10].
    assert (Ewc9 : wcur st9 = wcur st + width B) by (eapply wcur_adv; [exact Hwr9|exact Pwr|lia]).
    rewrite Ewc9, Hn9 in *. rewrite Hr9 in Qr10. rewrite Hwr9, adv_top_add in Qw10.
    (* the two DropReadFrame *)
    destruct (drop_ok prof st10 _ _ Qr10) as (st11 & E11 & Hm11 & Hn11 & Hr11 & Hwr11 & Hc11 & Hf11).
    { cbn [flen]. rewrite Qn10. lia. }
    { cbn [flen fstart]. rewrite Qn10. lia. }
    cbn [fstart] in Hn11.
    destruct (drop_ok prof st11 _ _ Hr11) as (st12 & E12 & Hm12 & Hn12 & Hr12 & Hwr12 & Hc12 & Hf12).
    { cbn [flen]. rewrite Hn11. lia. }
    { cbn [flen fstart]. rewrite Hn11. lia. }
    cbn [fstart] in Hn12.
    exists st12, (S (n1 + (1 + (1 + (n2 + (1 + 1)))))). split; [cbn [steps]; lia|]. split.
    - econstructor; [exact Hstep|]. eapply mstar_trans; [exact Hstar1|].
      econstructor; [exact Hstep7|]. econstructor; [exact Hstep8|]. eapply mstar_trans; [exact Hstar2|].
      econstructor; [cbn [Machine.step]; rewrite E11; reflexivity|].
      apply mstar_one. cbn [Machine.step]. rewrite E12. reflexivity.
    - constructor.
      + rewrite Hm12, Hm11, Ql10, Hm9, Hl8, Hm7, Ql6, Hm5, Hm4, Hl3, Hl2, Hm1. reflexivity.
      + exact Hn12.
      + exact Hr12.
      + rewrite Hwr12, Hwr11, Qw10. reflexivity.
      + rewrite Hm12, Hm11. cbn [enc_at]. split.
        * eapply enc_at_move; [|exact Qb6]. intros j Hj.
          pose proof (wcur_below _ _ _ Pwr (wcur st + j)) as Hb.
          rewrite Qs10 by lia. rewrite Hm9, Hcp8 by exact Hj. rewrite Hm7. reflexivity.
        * exact Qe10.
      + intros j H1 H2. cbn [width cells] in H1, H2. unfold src, tgt in H2. rewrite Hars in H2. cbn [fst snd] in H2.
        cbn [width] in H2. rewrite width_W256, <- Hw1, <- Hw2 in H2.
        rewrite Hm12, Hm11, Qs10, Hm9, Ho8, Hm7, Qs6, Hm5, Hm4, Ho3, Ho2, Hm1; [reflexivity| | | | | | |]; lia.
      + unfold hw_ok in *. cbn [cells frames]. unfold src, tgt. rewrite Hars. cbn [fst snd width]. rewrite width_W256, <- Hw1, <- Hw2.
        rewrite Hc12, Hc11, Hf12, Hf11.
        rewrite Hc9, Hc8, Hc7, Hf9, Hf8, Hf7, Hn9, Hd9 in Qh10.
        rewrite Hc5, Hc4, Hc3, Hc2, Hc1, Hf5, Hf4, Hf3, Hf2, Hf1, Hn5, Hd5, Hd4 in Qh6.
        destruct Qh10 as (Qa & Qb & Qc & Qd). destruct Qh6 as (Ra & Rb & Rc & Rd).
        split; [clear - Qa Ra; lia|]. split; [clear - Qb Rb; lia|].
        split; [clear - Qc Rc; lia|clear - Qd Rd; lia].
  Qed.
  (* ---------------------------------------------------------------- the induction *)
  Theorem machine_correct (jet_ty : N -> option arrow) t A B :
    jets_typed jet_ty jet_sem -> typed jet_ty t A B -> small t -> correct t A B.
  Proof.
    intros Hjets Ht. induction Ht; intros Hsm; cbn [small] in Hsm; unfold src, tgt in Hsm;
      cbn [arrow_of fst snd] in Hsm.
    - apply correct_iden. tauto.
    - apply correct_unit.
    - apply correct_injl; [tauto|]. apply IHHt. tauto.
    - apply correct_injr; [tauto|]. apply IHHt. tauto.
    - apply correct_take. apply IHHt. tauto.
    - apply correct_drop; [tauto|]. apply IHHt. tauto.
    - destruct Hsm as (H1 & H2 & S1 & S2).
      pose proof (typed_arrow _ _ _ _ Ht1) as Ea. pose proof (small_arrow _ S1) as [_ Hb].
      unfold tgt in Hb. rewrite Ea in Hb. cbn [snd] in Hb.
      eapply correct_comp; [exact Hb|exact Ea|apply IHHt1; exact S1|apply IHHt2; exact S2].
    - destruct Hsm as (H1 & H2 & S1 & S2). apply correct_case; [exact H1|apply IHHt1; exact S1|apply IHHt2; exact S2].
    - destruct Hsm as (H1 & H2 & S1). apply correct_assertl; [exact H1|apply IHHt; exact S1].
    - destruct Hsm as (H1 & H2 & S1). apply correct_assertr; [exact H1|apply IHHt; exact S1].
    - destruct Hsm as (H1 & H2 & S1 & S2). apply correct_pair; [apply IHHt1; exact S1|apply IHHt2; exact S2].
    - destruct Hsm as (H1 & H2 & S1 & S2).
      pose proof (typed_arrow _ _ _ _ Ht1) as Ea. pose proof (typed_arrow _ _ _ _ Ht2) as Eb.
      pose proof (small_arrow _ S1) as [Hb1 Hb2]. unfold src, tgt in Hb1, Hb2. rewrite Ea in Hb1, Hb2.
      cbn [fst snd] in Hb1, Hb2.
      eapply correct_disconnect; try eassumption; [apply IHHt1; exact S1|apply IHHt2; exact S2].
    - apply correct_witness. assumption.
    - apply correct_fail.
    - eapply correct_jet; try eassumption; tauto.
    - apply correct_word. assumption.
  Qed.
End Correct2.
