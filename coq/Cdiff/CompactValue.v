(* C03 - the hash of a witness value that enters its identity and annotated roots
   (src/merkle/mod.rs compact_value, modelled as Merkle.Real.r_compact_value) is SHA-256 of the
   compact bit string with the FIPS 180-4 padding:

     cv_message_length     for EVERY bit string the padded message is the least multiple of 512
                           bits that holds the bits, the delimiter bit and the 64-bit length
                           (this is where the test `bytes.len() % 64 > 56` matters: with `>= 56`
                           a whole extra block is hashed for lengths 440..447 mod 512,
                           cv_threshold_exact)
     compact_value_sha256  for byte-aligned strings it is the SHA-256 midstate of the bytes
                           (Merkle.Sha256.sha256, checked against the FIPS vectors in C09)

   About the model only; the Rust function is tied to it by the comparison of AMR / IHR on
   witnesses of every width class (tools/props/c03.py, width family). *)
From Coq Require Import Uint63.
From RS Require Import Lib.Tac Lib.Outcome Lib.Bits Merkle.Sha256 Merkle.Real.
Import ListNotations.
Local Open Scope N_scope.

(* ------------------------------------------------------------------ chunks8 *)
Lemma byte_of_bits_acc l : forall acc,
  fold_left (fun a (b : bool) => 2 * a + (if b then 1 else 0)) l acc = val_be_acc acc l.
Proof. induction l as [|b l IH]; intros acc; cbn [fold_left val_be_acc]; [reflexivity|]. rewrite IH. destruct b; reflexivity. Qed.

Lemma byte_of_bits_val l : byte_of_bits l = val_be l.
Proof. apply byte_of_bits_acc. Qed.

Lemma chunks8_fuel : forall f1 l f2, (length l <= 8 * f1)%nat -> (length l <= 8 * f2)%nat -> chunks8 f1 l = chunks8 f2 l.
Proof.
  induction f1 as [|f1 IH]; intros l f2 H1 H2.
  - destruct l; [|cbn in H1; lia]. destruct f2; reflexivity.
  - destruct l as [|b l]; [destruct f2; reflexivity|].
    destruct f2 as [|f2]; [cbn in H2; lia|].
    cbn [chunks8]. f_equal. apply IH; rewrite skipn_length; cbn [length] in *; lia.
Qed.

Lemma chunks8_length : forall f l, (length l <= f)%nat ->
  N.of_nat (length (chunks8 f l)) = (N.of_nat (length l) + 7) / 8.
Proof.
  induction f as [|f IH]; intros l H.
  - destruct l; [reflexivity|cbn in H; lia].
  - destruct l as [|b l]; [reflexivity|].
    cbn [chunks8]. cbn [length]. rewrite Nat2N.inj_succ, IH by (rewrite skipn_length; cbn [length] in *; lia).
    rewrite skipn_length.
    remember (length (b :: l)) as n eqn:En. cbn [length] in En.
    destruct (Nat.le_gt_cases n 8) as [Hle|Hgt].
    + replace (n - 8)%nat with 0%nat by lia. cbn [N.of_nat].
      assert (1 <= N.of_nat n <= 8) by lia. lia.
    + rewrite Nat2N.inj_sub. change (N.of_nat 8) with 8. lia.
Qed.

Lemma chunks8_byte b rest f : b < 256 ->
  map byte_of_bits (chunks8 (S f) (bits_of_byte b ++ rest)) = b :: map byte_of_bits (chunks8 f rest).
Proof.
  intros Hb. unfold bits_of_byte. cbn [bits_be app chunks8 firstn skipn map].
  f_equal. rewrite byte_of_bits_val.
  change [N.testbit b (N.of_nat 7); N.testbit b (N.of_nat 6); N.testbit b (N.of_nat 5); N.testbit b (N.of_nat 4);
          N.testbit b (N.of_nat 3); N.testbit b (N.of_nat 2); N.testbit b (N.of_nat 1); N.testbit b (N.of_nat 0)]
    with (bits_be 8 b).
  rewrite val_be_bits_be. apply N.mod_small. exact Hb.
Qed.

Lemma chunks8_bytes bs : forall f tail, Forall (fun b => b < 256) bs ->
  map byte_of_bits (chunks8 (length bs + f) (bits_of_bytes bs ++ tail)) = bs ++ map byte_of_bits (chunks8 f tail).
Proof.
  induction bs as [|b bs IH]; intros f tail Hb; [reflexivity|].
  inversion Hb as [|? ? Hb1 Hb2]; subst.
  cbn [bits_of_bytes flat_map length Nat.add]. fold (bits_of_bytes bs). rewrite <- app_assoc.
  rewrite chunks8_byte by exact Hb1. cbn [app]. f_equal. apply IH. exact Hb2.
Qed.

Lemma bits_of_bytes_length bs : length (bits_of_bytes bs) = (8 * length bs)%nat.
Proof.
  induction bs as [|b bs IH]; [reflexivity|].
  cbn [bits_of_bytes flat_map]. fold (bits_of_bytes bs). rewrite app_length, IH.
  unfold bits_of_byte. rewrite bits_be_length. cbn [length]. lia.
Qed.

(* ------------------------------------------------------------------ the hashed message *)
Definition cv_bytes (bits : list bool) : list N :=
  let l1 := bits ++ [true] in map byte_of_bits (chunks8 (S (length l1)) l1).

Definition cv_zeros (threshold_strict : bool) (len : N) : N :=
  let r := len mod 64 in
  if (if threshold_strict then 56 <? r else 56 <=? r) then 56 + (64 - r) else 56 - r.

Definition cv_message (bits : list bool) : list N :=
  let bytes := cv_bytes bits in
  bytes ++ repeat 0 (N.to_nat (cv_zeros true (N.of_nat (length bytes)))) ++ be64 (N.of_nat (length bits)).

Lemma compact_value_message bits : r_compact_value bits = sha_absorb sha_iv0 (cv_message bits).
Proof. reflexivity. Qed.

Lemma cv_bytes_length bits : N.of_nat (length (cv_bytes bits)) = N.of_nat (length bits) / 8 + 1.
Proof.
  unfold cv_bytes. rewrite map_length, chunks8_length by lia.
  rewrite app_length. cbn [length]. rewrite Nat2N.inj_add. change (N.of_nat 1) with 1. lia.
Qed.

Lemma be64_length n : length (be64 n) = 8%nat.
Proof. reflexivity. Qed.

(* FIPS 180-4 5.1.1: the padded message is the smallest multiple of 512 bits (64 bytes) that
   holds the message, the 1 bit and the 64-bit length: for every bit string *)
Theorem cv_message_length bits :
  N.of_nat (length (cv_message bits)) = 64 * ((N.of_nat (length bits) + 65 + 511) / 512).
Proof.
  unfold cv_message. rewrite !app_length, repeat_length, be64_length.
  rewrite !Nat2N.inj_add, N2Nat.id, cv_bytes_length.
  change (N.of_nat 8) with 8. unfold cv_zeros.
  set (n := N.of_nat (length bits)).
  destruct (N.ltb_spec 56 ((n / 8 + 1) mod 64)); lia.
Qed.

(* the first bytes are the bits followed by the delimiter bit, zero filled to a byte *)
Theorem cv_message_prefix bits :
  firstn (length (cv_bytes bits)) (cv_message bits) =
  map byte_of_bits (chunks8 (S (length (bits ++ [true]))) (bits ++ [true])).
Proof. unfold cv_message. rewrite firstn_app, Nat.sub_diag, firstn_all. cbn [firstn]. apply app_nil_r. Qed.

(* the threshold is exact: with `>= 56` instead of `> 56` (the variant `bytes.len() % 64 >= 56`) the message of a
   440-bit value gets a second block; for all other residues the two tests agree *)
Theorem cv_threshold_exact :
  (forall len, len mod 64 <> 56 -> cv_zeros true len = cv_zeros false len) /\
  (forall len, len mod 64 = 56 -> cv_zeros true len = 0 /\ cv_zeros false len = 64) /\
  (forall n, 440 <= n mod 512 <= 447 <-> (n / 8 + 1) mod 64 = 56).
Proof.
  split; [|split].
  - intros len H. unfold cv_zeros.
    destruct (N.ltb_spec 56 (len mod 64)), (N.leb_spec 56 (len mod 64)); try reflexivity; lia.
  - intros len H. unfold cv_zeros. rewrite H. split; reflexivity.
  - intros n. lia.
Qed.

(* ------------------------------------------------------------------ byte-aligned values *)
Lemma cv_bytes_aligned bs : Forall (fun b => b < 256) bs -> cv_bytes (bits_of_bytes bs) = bs ++ [128].
Proof.
  intros Hb. unfold cv_bytes.
  rewrite (chunks8_fuel _ _ (length bs + 1)) by (rewrite app_length, bits_of_bytes_length; cbn [length]; lia).
  rewrite chunks8_bytes by exact Hb. reflexivity.
Qed.

Theorem compact_value_sha256 bs : Forall (fun b => b < 256) bs ->
  r_compact_value (bits_of_bytes bs) = sha_absorb sha_iv0 (sha_pad bs).
Proof.
  intros Hb. rewrite compact_value_message. f_equal. unfold cv_message, sha_pad.
  rewrite cv_bytes_aligned by exact Hb. rewrite <- app_assoc. f_equal. f_equal.
  rewrite app_length, bits_of_bytes_length. cbn [length].
  replace (N.of_nat (length bs + 1)) with (N.of_nat (length bs) + 1) by lia.
  replace (N.of_nat (8 * length bs)) with (8 * N.of_nat (length bs)) by lia.
  f_equal. f_equal. f_equal. unfold cv_zeros.
  set (r := (N.of_nat (length bs) + 1) mod 64).
  assert (r < 64) by (subst r; apply N.mod_lt; lia).
  destruct (N.ltb_spec 56 r), (N.leb_spec r 56); lia.
Qed.

Corollary compact_value_is_sha256 bs : Forall (fun b => b < 256) bs ->
  bytes_of_state (r_compact_value (bits_of_bytes bs)) = sha256 bs.
Proof. intros Hb. unfold sha256. rewrite compact_value_sha256 by exact Hb. reflexivity. Qed.
