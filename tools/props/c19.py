"""C19 - Budget padding is sufficient and minimal."""
import vplib
from vplib import Case

PROP = "C19"
LEVEL = "proof"
IMPORTS = ["Budget.Run"]
CONSENSUS_MAX = 4_000_050_000


def cs(n):
    return 1 if n <= 252 else 3 if n <= 0xFFFF else 5 if n <= 0xFFFFFFFF else 9


def ser_len(rle):
    cnt = sum(k for k, _ in rle)
    return cs(cnt) + sum(k * (cs(l) + l) for k, l in rle)


def gen_cases(rng, tier):
    cases = []
    n = [0]

    def add(c, rle):
        n[0] += 1
        line = "%d %s" % (c, " ".join("%dx%d" % kl for kl in rle))
        expr = "run_budget %d [%s]" % (c, "; ".join("(%d, %d)" % kl for kl in rle))
        cases.append(Case("b%d" % n[0], "budget", line.strip(), expr, {"c": c, "rle": rle}))

    stacks = [[], [(1, 0)], [(1, 10)], [(1, 252)], [(1, 253)], [(2, 100)], [(1, 65535)], [(1, 65536)],
              [(251, 0)], [(252, 0)], [(253, 0)], [(250, 1), (1, 300)], [(3, 33), (1, 497)]]
    if tier != "quick":
        stacks += [[(65534, 0)], [(65535, 0)], [(65536, 0)], [(1, 70000), (2, 252)], [(254, 0)]]
    else:
        stacks += [[(65535, 0)]]
    # deficits: exhaustive near every boundary of the match, sparse elsewhere
    ds = set(range(0, 300 if tier == "quick" else 2000))
    for b in (253, 254, 255, 256, 65538, 65539, 65540, 65541, 65535, 65536):
        for d in range(-4, 5):
            ds.add(b + d)
    ds |= {1000, 7424, 100000, 3999999, 3999949, 4000000}
    for _ in range(40 if tier == "quick" else 2000):
        ds.add(rng.range(0, 4000049))
    ds = sorted(d for d in ds if d >= 0)
    for st in stacks:
        budget = ser_len(st) + 50
        sel = ds if len(st) <= 1 or tier != "quick" else [d for i, d in enumerate(ds) if i % 5 == 0 or 250 <= d <= 260 or 65530 <= d <= 65545]
        for d in sel:
            # costs whose weight is budget + d: milliweight (budget+d-1)*1000+1 .. (budget+d)*1000
            w = budget + d
            for c in {(w - 1) * 1000 + 1, w * 1000} if d % 7 == 0 or d < 10 else {w * 1000 - rng.below(1000)}:
                if 0 <= c <= CONSENSUS_MAX:
                    add(c, st)
    for c in (0, 1, 999, 1000, 1001, 50999, 51000, 51001, CONSENSUS_MAX, CONSENSUS_MAX - 1):
        add(c, [])
    # a few costs above the consensus maximum (outside the claim, still compared with the model)
    for c in (CONSENSUS_MAX + 1, 2**32 - 1, 2**32 - 1000, 2**32 - 999):
        add(c, [])
    for _ in range(100 if tier == "quick" else 3000):
        st = []
        for _i in range(rng.below(4)):
            st.append((rng.range(1, 3), rng.choice([0, 1, 32, 64, 252, 253, 254, 1000, rng.below(5000)])))
        add(rng.range(0, CONSENSUS_MAX), st)
    # budgets straddling u32::MAX / 1000 = 4_294_967 weight units, where the budget scaled to milliweight saturates:
    # a cost within the consensus maximum is then always within budget (stacks of ~4.29 MB: one item, or two halves)
    for b in range(4294963, 4294973):
        for st in ([(1, b - 56)], [(2, (b - 61) // 2)] if b % 2 else [(1, 7), (1, b - 62)]):
            for c in (0, 1, 1000, CONSENSUS_MAX, CONSENSUS_MAX - 999, rng.range(0, CONSENSUS_MAX), 2**32 - 1):
                add(c, st)
    # weight -> cost conversion for arbitrary 64-bit weights (saturation, monotonicity)
    ws = set([0, 1, 2, 999, 4000049, 4000050, 4000051, 4294966, 4294967, 4294968, 4294969, 5000000,
              2**32 - 1, 2**32, 2**32 + 1, 2**40, 2**63, 2**64 - 1])
    for _ in range(60 if tier == "quick" else 2000):
        ws.add(rng.range(0, 2**rng.range(1, 64)))
        ws.add(rng.range(4290000, 4300000))
    for w in sorted(ws):
        n[0] += 1
        cases.append(Case("b%d" % n[0], "conv", "%d" % w, "run_conv %d" % w, {"w": w}))
    return cases


def prop_check(c, r):
    if c.kind == "conv":
        w = c.meta["w"]
        if not isinstance(r, list) or len(r) != 2:
            return ("panic", "weight conversion panicked on %d" % w)
        exp = min(w * 1000, 2**32 - 1)
        if r[0] != exp:
            return ("cost_of_weight", "Cost::from(Weight %d) = %d, expected saturating %d (monotone in the weight)" % (w, r[0], exp))
        if r[1] != min((exp + 999), 2**32 - 1) // 1000:
            return ("weight", "Weight::from(Cost %d) = %d" % (exp, r[1]))
        return None
    cost, rle = c.meta["c"], c.meta["rle"]
    if not isinstance(r, list) or r == [9] or len(r) != 6:
        return ("panic", "budget functions panicked on cost %d stack %s" % (cost, rle))
    if cost > CONSENSUS_MAX:
        return None
    valid, pad, v_after, v_short, w, cback = r
    wexp = (cost + 999) // 1000
    s = ser_len(rle)
    cnt = sum(k for k, _ in rle)
    if w != wexp:
        return ("weight", "weight of cost %d reported %d, rounds up to %d" % (cost, w, wexp))
    if cback != min(w * 1000, 2**32 - 1):
        return ("cost_of_weight", "cost of weight %d is %d" % (w, cback))
    if valid != (1 if wexp <= s + 50 else 0):
        return ("valid", "cost %d stack %s: is_budget_valid=%d but weight %d vs size+50=%d" % (cost, rle, valid, wexp, s + 50))
    if valid and pad != 0:
        return ("padding-when-valid", "padding returned although within budget")
    if not valid:
        if pad == 0:
            return ("no-padding", "over budget but no padding returned")
        a = pad - 1
        if v_after != 1:
            return ("insufficient", "cost %d stack %s: annex of %d bytes does not bring the cost within budget" % (cost, rle, a))
        if cs(cnt + 1) == cs(cnt) and a > 1 and v_short != 0:
            return ("not-minimal", "cost %d stack %s: annex of %d bytes returned but %d suffice" % (cost, rle, a, a - 1))
    return None


def nontrivial(c, r):
    if c.kind == "conv":
        return ("conv", c.meta["w"]) if c.meta["w"] > 4000050 else None
    cost, rle = c.meta["c"], c.meta["rle"]
    w = (cost + 999) // 1000
    d = w - (ser_len(rle) + 50)
    return (d, tuple(rle)) if d > 0 else None


def run(rep, tier, rng):
    vplib.proof_stage(rep, "Props/C19.v", extra_targets=["Budget/Run.vo"])
    rep.coverage["trusted_base"] = vplib.GENERIC_TRUSTED + [
        "translator tools/xlate_consts.py (regex over analysis.rs: constants, comparison operators, the five match arms)",
        "compact-size widths of the `elements` crate (VarInt) are written by hand in Budget/Budget.v (cs) and compared by correspondence",
        "a witness stack is modelled by the list of its item lengths",
    ]
    binary, out = vplib.harness_build("debug")
    if binary is None:
        raise vplib.Infra("harness build failed:\n" + out[-3000:])
    cases = gen_cases(rng, tier)
    impl, model = vplib.eval_cases(rep, binary, "budget", cases, IMPORTS, tag="c19", batch=120)
    pfail, mism = vplib.decide(rep, cases, impl, model, prop_check, None, nontrivial,
                               what="correspondence Budget/Run.v vs analysis.rs")
    rep.coverage["rule"] = ("lattice of deficits (exhaustive near every arm boundary of get_padding) x stacks straddling the "
                            "compact-size boundaries of item count and item length, plus random; distinct = (deficit, stack); "
                            "non-trivial = over budget (deficit > 0)")
    rep.coverage["samples"] = [{"args": c.line, "impl": impl.get(c.cid)} for c in cases[::max(1, len(cases) // 5)][:6]]
    vplib.finish_proof_verdict(rep, pfail)


def replay(obj):
    import json
    print(json.dumps(obj, indent=1))
    c = obj.get("case")
    if not c:
        return 0
    binary, _ = vplib.harness_build("debug")
    case = Case(c["id"], c["kind"], c["harness_args"], c["model_expr"], c.get("meta"))
    rep = vplib.Report(PROP, "quick", 0)
    impl, model = vplib.eval_cases(rep, binary, "budget", [case], IMPORTS, tag="replay")
    print("implementation:", impl.get(case.cid))
    print("model         :", model.get(case.cid))
    print("property      :", prop_check(case, impl.get(case.cid)))
    return 0
