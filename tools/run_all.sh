#!/bin/bash
# run every registered quick check once, sequentially; print id, exit status, seconds
cd /verif
for id in $(python3 -c "import json;print(' '.join(c['property_id'] for c in json.load(open('MANIFEST.json'))['checks']))"); do
  s=$(date +%s)
  python3 tools/vp.py check $id --tier ${1:-quick} > work/run_all_$id.log 2>&1
  rc=$?
  echo "$id exit=$rc $(( $(date +%s) - s ))s $(grep -c '^VIOLATION' work/run_all_$id.log) violations, $(grep -c '^KNOWN-FINDING' work/run_all_$id.log) known"
done
