//! C19: budget / padding on the implementation.  Output mirrors coq/Budget/Run.v.
use crate::util::*;
use simplicity::bitcoin::Weight;
use simplicity::Cost;

fn show(b: bool) -> u128 {
    b as u128
}

pub fn run(t: &[&str]) -> String {
    match guarded(|| run_inner(t)) {
        Some(v) => join(&v),
        None => "9".to_string(),
    }
}

fn run_inner(t: &[&str]) -> Vec<u128> {
    if t[0] == "conv" {
        // conversions of an arbitrary weight: Cost::from(Weight), Weight::from(that cost)
        let w: u64 = t[1].parse().unwrap();
        let c = Cost::from(Weight::from_wu(w));
        let cv: u128 = c.to_string().parse().unwrap();
        return vec![cv, Weight::from(c).to_wu() as u128];
    }
    let t = &t[1..]; // t[0] is the case kind
    let c: u32 = t[0].parse().unwrap();
    let cost = Cost::from_milliweight(c);
    let mut stack: Vec<Vec<u8>> = vec![];
    for item in &t[1..] {
        let (k, l) = item.split_once('x').unwrap();
        let k: usize = k.parse().unwrap();
        let l: usize = l.parse().unwrap();
        for _ in 0..k {
            stack.push(vec![0u8; l]);
        }
    }
    let mut out = vec![show(cost.is_budget_valid(&stack))];
    match cost.get_padding(&stack) {
        None => out.extend([0, 2, 2]),
        Some(annex) => {
            // the annex is 0x50 followed by zeros
            assert!(annex[0] == 0x50 && annex[1..].iter().all(|b| *b == 0));
            let a = annex.len();
            out.push(1 + a as u128);
            stack.push(annex);
            out.push(show(cost.is_budget_valid(&stack)));
            stack.pop();
            if a <= 1 {
                out.push(2);
            } else {
                stack.push(vec![0u8; a - 1]);
                out.push(show(cost.is_budget_valid(&stack)));
                stack.pop();
            }
        }
    }
    let w = Weight::from(cost);
    out.push(w.to_wu() as u128);
    let back = Cost::from(w);
    out.push(back.to_string().parse().unwrap());
    out
}
